/-
  C04 (end offsets) — where the name decoder says a name ends: behind the zero octet if no pointer was followed, else
  behind the first pointer.  That offset is a function of the octets alone (`directEnd`), and for a name written by the
  packer it is the end of what the packer wrote.
-/
import DnsProofs.C04Transparent
namespace Dns.C04
open Dns Dns.C03

/-- the offset behind the part of a name that is stored at `off` itself: labels up to the zero octet or the first
    pointer -/
def directEnd (msg : Bytes) (off : Nat) : Nat :=
  if h : off < msg.length then
    let c := (msg[off]'h).toNat
    if c = 0 then off + 1
    else if c < 64 then directEnd msg (off + 1 + c)
    else off + 2
  else off
termination_by msg.length - off
decreasing_by omega

set_option tactic.hygienic false in
/-- the end offset the decoder reports: `off1` once a pointer has been followed, else `directEnd` -/
theorem unpackLoop_end (msg : Bytes) (off ptr budget off1 : Nat) (acc : Bytes) (s : Bytes) (o : Nat)
    (hok : unpackNameLoop msg off ptr budget off1 acc = .ok (s, o)) :
    o = if ptr = 0 then directEnd msg off else off1 := by
  fun_induction unpackNameLoop msg off ptr budget off1 acc
  all_goals try (simp at hok; done)
  case case1 =>
    simp at hok
    obtain ⟨_, rfl⟩ := hok
    simp only [off1']
    by_cases hp : ptr_1 = 0
    · simp only [hp, ↓reduceIte]
      rw [directEnd]
      have : (msg[off_1]'h).toNat = 0 := by assumption
      simp only [h, ↓reduceDIte, this, ↓reduceIte]
    · simp [hp]
  case case4 =>
    have := ih1 hok
    rw [this]
    by_cases hp : ptr_1 = 0
    · simp only [hp, ↓reduceIte]
      conv => rhs; rw [directEnd]
      have h0 : ¬ (msg[off_1]'h).toNat = 0 := by assumption
      have h64 : (msg[off_1]'h).toNat < 64 := by assumption
      simp only [h, ↓reduceDIte, h0, ↓reduceIte, h64]
      rfl
    · simp [hp]
  case case6 =>
    have := ih1 hok
    rw [this]
    have hne : ¬ ptr_1 + 1 = 0 := by omega
    simp only [hne, ↓reduceIte, off1']
    by_cases hp : ptr_1 = 0
    · simp only [hp, ↓reduceIte, ↓reduceDIte]
      rw [directEnd]
      have h64 : ¬ (msg[off_1]'h).toNat < 64 := by assumption
      have h0 : ¬ (msg[off_1]'h).toNat = 0 := by omega
      simp only [h, ↓reduceDIte, h0, ↓reduceIte, h64]
    · simp [hp]

theorem unpackName_end (msg : Bytes) (off : Nat) (s : Bytes) (o : Nat) (h : unpackName msg off = .ok (s, o)) :
    o = directEnd msg off := by
  have := unpackLoop_end msg off 0 _ 0 [] s o h
  simpa using this

theorem ptrBytes_length (p : Nat) : (ptrBytes p).length = 2 := rfl

/-- **where a packed name ends**: `directEnd` at the place where the packer wrote a name (whatever mix of labels and a
    final pointer) is the end of what it wrote -/
theorem directEnd_specTail (M : Bytes) (off0 : Nat) (m : CMap) (cp : Bool) (hm : ∀ k p, m.find k = some p → p < 16384)
    (ls : List Bytes) (n P : Nat) (hl : ∀ l ∈ ls, 1 ≤ l.length ∧ l.length ≤ 63)
    (hplace : (M.drop P).take (specTail off0 m cp ls n).1.length = (specTail off0 m cp ls n).1) :
    directEnd M P = P + (specTail off0 m cp ls n).1.length := by
  induction ls generalizing n P with
  | nil =>
    simp only [specTail, List.length_singleton] at hplace ⊢
    obtain ⟨hp, h0⟩ := head_of_take_drop M P 0 0 [] hplace
    rw [directEnd]
    simp [hp, h0]
  | cons l rest ih =>
    have hl0 := hl l (by simp)
    have labels : ∀ (w : Bytes), (M.drop P).take (wl l ++ w).length = wl l ++ w →
        (M.drop (P + 1 + l.length)).take w.length = w → (∀ Q, (M.drop Q).take w.length = w → directEnd M Q = Q + w.length) →
        directEnd M P = P + (wl l ++ w).length := by
      intro w h1 h2 hrec
      have hh : (M.drop P).take ((l ++ w).length + 1) = UInt8.ofNat l.length :: (l ++ w) := by
        simpa [wl, Nat.add_comm] using h1
      obtain ⟨hp, h0⟩ := head_of_take_drop M P _ _ _ hh
      rw [directEnd]
      have hc : (M[P]'hp).toNat = l.length := by rw [h0]; exact ofNat_len_toNat l hl0.2
      have hne : ¬ l.length = 0 := by omega
      have h64 : l.length < 64 := by omega
      simp only [hp, ↓reduceDIte, hc, hne, ↓reduceIte, h64]
      rw [hrec _ h2]
      simp [wl]; omega
    simp only [specTail] at hplace ⊢
    cases hf : m.find (presentLabels (l :: rest)) with
    | some p =>
      simp only [hf] at hplace ⊢
      cases cp with
      | true =>
        simp only [↓reduceIte] at hplace ⊢
        have hp16 := hm _ _ hf
        obtain ⟨c, c1, hb, hc, _⟩ := ptrBytes_decode p hp16
        rw [hb] at hplace
        obtain ⟨hp, h0⟩ := head_of_take_drop M P 1 c [c1] (by simpa using hplace)
        rw [directEnd]
        have h0' : ¬ (M[P]'hp).toNat = 0 := by rw [h0]; omega
        have h64 : ¬ (M[P]'hp).toNat < 64 := by rw [h0]; omega
        simp only [hp, ↓reduceDIte, h0', ↓reduceIte, h64, hb, List.length_cons, List.length_nil]
      | false =>
        simp only [Bool.false_eq_true, ↓reduceIte] at hplace ⊢
        obtain ⟨s1, s2⟩ := take_drop_split M P (wl l) _ hplace
        have : (wl l).length = 1 + l.length := by simp [wl]; omega
        rw [this, ← Nat.add_assoc] at s2
        exact labels _ hplace s2 (fun Q hQ => ih (n + 1 + l.length) Q (fun x hx => hl x (by simp [hx])) hQ)
    | none =>
      simp only [hf] at hplace ⊢
      obtain ⟨s1, s2⟩ := take_drop_split M P (wl l) _ hplace
      have : (wl l).length = 1 + l.length := by simp [wl]; omega
      rw [this, ← Nat.add_assoc] at s2
      exact labels _ hplace s2 (fun Q hQ => ih (n + 1 + l.length) Q (fun x hx => hl x (by simp [hx])) hQ)

theorem mapOK_lt (M : Bytes) (m : CMap) (hm : MapOK M m) : ∀ k p, m.find k = some p → p < 16384 := by
  intro k p h
  obtain ⟨sl, hh, _, _, _, h4, _, _⟩ := hm _ (find_spec m k p h)
  exact h4

/-- **name_transparent, with the end offset**: a valid name packed at the end of a message with a sound map is read
    back as itself and the decoder reports exactly the end of what the packer wrote, whatever follows -/
theorem name_transparent_end (msg : Bytes) (m : CMap) (cp : Bool) (ls : List Bytes) (hne : ls ≠ []) (hv : Valid ls)
    (hm : MapOK msg m) (tail : Bytes) :
    unpackName (msg ++ (specTail msg.length m cp ls 0).1 ++ tail) msg.length
      = .ok (presentLabels ls, msg.length + (specTail msg.length m cp ls 0).1.length) := by
  obtain ⟨o, ho⟩ := (name_transparent msg m cp ls hne hv hm).1 tail
  have he := unpackName_end _ _ _ _ ho
  have hplace : ((msg ++ (specTail msg.length m cp ls 0).1 ++ tail).drop msg.length).take
      (specTail msg.length m cp ls 0).1.length = (specTail msg.length m cp ls 0).1 := by
    rw [List.append_assoc, List.drop_left, List.take_left]
  rw [directEnd_specTail _ msg.length m cp (mapOK_lt msg m hm) ls 0 msg.length hv.1 hplace] at he
  rw [ho, he]

end Dns.C04
