package main

import (
	"crypto/hmac"
	"crypto/sha1"
	"crypto/sha256"
	"crypto/sha512"
	"encoding/base64"
	"encoding/hex"
	"fmt"
	"hash"
	"os"
	"strings"

	"github.com/miekg/dns"
)

func init() { props["C11"] = runC11 }

// recProvider records the exact digest input handed to the provider and computes a real HMAC.
type recProvider struct {
	secret []byte
	inputs [][]byte
	algs   []string
}

func hmacFor(alg string, key []byte) hash.Hash {
	switch dns.CanonicalName(alg) {
	case dns.HmacSHA1:
		return hmac.New(sha1.New, key)
	case dns.HmacSHA224:
		return hmac.New(sha256.New224, key)
	case dns.HmacSHA256:
		return hmac.New(sha256.New, key)
	case dns.HmacSHA384:
		return hmac.New(sha512.New384, key)
	case dns.HmacSHA512:
		return hmac.New(sha512.New, key)
	}
	return nil
}

func (p *recProvider) Generate(msg []byte, t *dns.TSIG) ([]byte, error) {
	p.inputs = append(p.inputs, append([]byte{}, msg...))
	p.algs = append(p.algs, t.Algorithm)
	h := hmacFor(t.Algorithm, p.secret)
	if h == nil {
		return nil, dns.ErrKeyAlg
	}
	h.Write(msg)
	return h.Sum(nil), nil
}
func (p *recProvider) Verify(msg []byte, t *dns.TSIG) error {
	b, err := p.Generate(msg, t)
	if err != nil {
		return err
	}
	mac, _ := hex.DecodeString(t.MAC)
	if !hmac.Equal(b, mac) {
		return dns.ErrSig
	}
	return nil
}

var tsigAlgs = []string{dns.HmacSHA1, dns.HmacSHA224, dns.HmacSHA256, dns.HmacSHA384, dns.HmacSHA512}

// indepStrip: independent location of the first TSIG record of a packed message.
// Returns the octets before it (with ARCOUNT decremented), and the decoded TSIG fields.
type tsigFields struct {
	keyName   [][]byte
	ttl       uint32
	class     uint16
	alg       [][]byte
	ts        uint64
	fudge     uint16
	mac       []byte
	origID    uint16
	errc      uint16
	other     []byte
	otherLen  uint16
	stripped  []byte
	wellEnded bool
}

// truncateMAC returns a copy of a signed message whose TSIG (the last record) carries only the first k octets of
// its MAC, with MAC size and RDLENGTH adjusted; nil when the message is not of that shape.
func truncateMAC(msg []byte, k int) []byte {
	w := walkMsg(msg)
	if w.Err != "" || len(w.RRStart) == 0 {
		return nil
	}
	last := len(w.RRStart) - 1
	var owner *walkedName
	for i := range w.Names {
		if w.Names[i].Off == w.RRStart[last] && !w.Names[i].InRdata {
			owner = &w.Names[i]
		}
	}
	if owner == nil || w.RREnd[last] != len(msg) {
		return nil
	}
	p := owner.End
	if be16(msg, p) != int(dns.TypeTSIG) {
		return nil
	}
	an, err := refName(msg, p+10)
	if err != nil {
		return nil
	}
	q := an.End + 8 // time signed (6), fudge (2)
	if q+2 > len(msg) {
		return nil
	}
	n := be16(msg, q)
	if q+2+n > len(msg) || k > n {
		return nil
	}
	out := append([]byte{}, msg[:q]...)
	out = append(out, byte(k>>8), byte(k))
	out = append(out, msg[q+2:q+2+k]...)
	out = append(out, msg[q+2+n:]...)
	rdlen := be16(msg, p+8) - (n - k)
	out[p+8], out[p+9] = byte(rdlen>>8), byte(rdlen)
	return out
}

func indepStrip(msg []byte) (*tsigFields, bool) {
	w := walkMsg(msg)
	if w.Err != "" {
		return nil, false
	}
	for k := range w.RRStart {
		// owner name is the first name at RRStart
		var owner *walkedName
		for i := range w.Names {
			if w.Names[i].Off == w.RRStart[k] && !w.Names[i].InRdata {
				owner = &w.Names[i]
			}
		}
		if owner == nil {
			return nil, false
		}
		p := owner.End
		if int(be16(msg, p)) != int(dns.TypeTSIG) {
			continue
		}
		// only records of the additional section count
		an, ns := be16(msg, 6), be16(msg, 8)
		if k < an+ns {
			continue
		}
		f := &tsigFields{keyName: owner.Labels, class: uint16(be16(msg, p+2)), ttl: uint32(be16(msg, p+4))<<16 | uint32(be16(msg, p+6))}
		rd := p + 10
		an2, err := refName(msg, rd)
		if err != nil {
			return nil, false
		}
		f.alg = an2.Labels
		q := an2.End
		end := w.RREnd[k]
		// the generated unpackers accept RDATA that stops at a field boundary (remaining fields stay zero)
		ol := 0
		func() {
			if q == end {
				return
			}
			if q+6 > end {
				q = -1
				return
			}
			f.ts = uint64(be16(msg, q))<<32 | uint64(be16(msg, q+2))<<16 | uint64(be16(msg, q+4))
			q += 6
			if q == end {
				return
			}
			if q+2 > end {
				q = -1
				return
			}
			f.fudge = uint16(be16(msg, q))
			q += 2
			if q == end {
				return
			}
			if q+2 > end {
				q = -1
				return
			}
			ml := be16(msg, q)
			q += 2
			if q+ml > end {
				q = -1
				return
			}
			f.mac = msg[q : q+ml]
			q += ml
			if q == end {
				return
			}
			if q+2 > end {
				q = -1
				return
			}
			f.origID = uint16(be16(msg, q))
			q += 2
			if q == end {
				return
			}
			if q+2 > end {
				q = -1
				return
			}
			f.errc = uint16(be16(msg, q))
			q += 2
			if q == end {
				return
			}
			if q+2 > end {
				q = -1
				return
			}
			ol = be16(msg, q)
			f.otherLen = uint16(ol)
			q += 2
			if q == end {
				return // RDATA ends after OtherLen: the generated unpacker stops here, OtherData stays empty
			}
			if q+ol > end {
				q = -1
				return
			}
			f.other = msg[q : q+ol]
		}()
		if q < 0 {
			return nil, false
		}
		f.wellEnded = q+ol == w.RREnd[k]
		st := append([]byte{}, msg[:w.RRStart[k]]...)
		ar := be16(st, 10) - 1
		st[10], st[11] = byte(ar>>8), byte(ar)
		f.stripped = st
		return f, true
	}
	return nil, false
}

func lowerLabels(ls [][]byte) [][]byte {
	out := make([][]byte, len(ls))
	for i, l := range ls {
		out[i] = []byte(asciiLower(string(l)))
	}
	return out
}

// specDigest: RFC 8945 4.3.3 / 5.3.1 digest input from independently parsed fields
func specDigest(f *tsigFields, reqMAC []byte, timers bool) []byte {
	var d []byte
	if len(reqMAC) > 0 {
		d = putUint(d, 2, uint64(len(reqMAC)))
		d = append(d, reqMAC...)
	}
	m := append([]byte{}, f.stripped...)
	m[0], m[1] = byte(f.origID>>8), byte(f.origID)
	d = append(d, m...)
	if timers {
		d = putUint(d, 6, f.ts)
		return putUint(d, 2, uint64(f.fudge))
	}
	d = append(d, wireOf(lowerLabels(f.keyName))...)
	d = putUint(d, 2, 255)
	d = putUint(d, 4, uint64(f.ttl))
	d = append(d, wireOf(lowerLabels(f.alg))...)
	d = putUint(d, 6, f.ts)
	d = putUint(d, 2, uint64(f.fudge))
	d = putUint(d, 2, uint64(f.errc))
	d = putUint(d, 2, uint64(f.otherLen))
	return append(d, f.other...)
}

func runC11(c *Ctx) {
	r := c.R
	c.Res.Rule = "messages x five HMAC algorithms x secrets x request-MAC / timers-only x signing times; every single-bit alteration of small signed messages; chains of envelopes with alteration/removal/reordering; non-trivial = always; distinct by content"
	now := uint64(1790000000)
	n := c.Scale(400, 10000)
	for i := 0; i < n; i++ {
		g := genMsg(r, msgOpts{mode: r.Intn(2), pool: r.Bool(), maxAn: 2, maxNs: 1, maxEx: 2, optPct: 30})
		m, err := unpackGen(g)
		if err != nil || m.IsTsig() != nil || hasType(m, dns.TypeTSIG) {
			continue // RFC 8945: at most one TSIG, and only as the last additional record
		}
		alg := tsigAlgs[r.Intn(len(tsigAlgs))]
		secret := r.Bytes(1 + r.Intn(64))
		secB64 := base64.StdEncoding.EncodeToString(secret)
		kl := genLabels(r, 0)
		for len(wireOf(kl)) > 200 {
			kl = kl[1:]
		}
		keyName := randCase(r, presentLabels(append(kl, []byte("key"))))
		fudge := uint16([]int{300, 1, 0, 65535, 10}[r.Intn(5)])
		ts := int64(now) + int64(r.Intn(7)) - 3
		m.SetTsig(keyName, randCase(r, alg), fudge, ts)
		tsr := m.Extra[len(m.Extra)-1].(*dns.TSIG)
		if r.Chance(25) {
			tsr.OrigId = []uint16{0, 0, 1, 0xFFFF, uint16(r.U64())}[r.Intn(5)]
		}
		if r.Chance(10) {
			tsr.Hdr.Ttl = uint32(r.Intn(5))
		}
		if r.Chance(10) {
			tsr.Error = dns.RcodeBadTime
			tsr.OtherData = "0000deadbeef"
			tsr.OtherLen = 6
		}
		reqMAC := ""
		if r.Bool() {
			reqMAC = hex.EncodeToString(r.Bytes([]int{20, 32, 64, 10}[r.Intn(4)]))
		}
		timers := r.Chance(30)
		effFudge := fudge
		if effFudge == 0 {
			effFudge = 300
		}
		// (a) the octets handed to the MAC function = the Lean digest
		rp := &recProvider{secret: secret}
		mc := m.Copy()
		out, mac, err := dns.TsigGenerateWithProvider(mc, rp, reqMAC, timers)
		in := fmt.Sprintf("alg=%s timers=%v reqmac=%s msg=%s", alg, timers, reqMAC, hx(out))
		if err != nil || len(rp.inputs) != 1 {
			c.Pred("generate", "generate-ok", in, false, fmt.Sprint(err), "nil", true)
			continue
		}
		// the message as packed without the TSIG
		plain := m.Copy()
		plain.Extra = plain.Extra[:len(plain.Extra)-1]
		pb, _ := plain.Pack()
		c.Op("digest", fmt.Sprintf("tsig.digest %s %d %s %d %s %d %d %d %s %s %s", hx(pb), tsr.OrigId, hxs(keyName), tsr.Hdr.Ttl, hxs(tsr.Algorithm),
			ts, effFudge, tsr.Error, strOrDash(tsr.OtherData), strOrDash(reqMAC), b01(timers)), hx(rp.inputs[0]), true)
		// (a2) the buffer TsigGenerate returns = the model's: ID replaced by OrigId, TSIG record appended, ARCOUNT + 1
		if len(out) > len(pb) {
			c.Op("generate-model", fmt.Sprintf("tsig.generate %s %d %s", hx(pb), tsr.OrigId, hx(out[len(pb):])), hx(out), true)
		}
		// (a3) tsigVerify as a whole on the model: strip, digest, algorithm, MAC, window — on the generated message, on the
		//      message without its TSIG record, on truncations and on damaged copies
		tsigModelOp(c, "verify-model", out, reqMAC, timers, uint64(ts))
		tsigModelOp(c, "verify-model", out, reqMAC, timers, uint64(ts)+uint64(effFudge)+1)
		tsigModelOp(c, "verify-model", pb, reqMAC, timers, uint64(ts))
		for k2 := 0; k2 < 3; k2++ {
			if hb := mutateBytes(r, out); len(hb) > 0 {
				tsigModelOp(c, "verify-model-hostile", hb, reqMAC, timers, uint64(ts))
			}
		}
		if len(out) < 300 && i%4 == 0 {
			for cutAt := 0; cutAt < len(out); cutAt++ {
				tsigModelOp(c, "verify-model-hostile", out[:cutAt], reqMAC, timers, uint64(ts))
			}
		}
		// (b) layout: packed message (ID = OrigId), then the TSIG as last additional, ARCOUNT + 1
		f, ok := indepStrip(out)
		lay := ok && f.wellEnded && len(out) > len(pb) && be16(out, 10) == be16(pb, 10)+1 && string(out[2:10]) == string(pb[2:10]) &&
			string(out[12:len(pb)]) == string(pb[12:]) && len(f.stripped) == len(pb) && hex.EncodeToString(f.mac) == mac
		c.Pred("generate", "generated-layout", in, lay, "", "message ++ TSIG as last additional, ARCOUNT+1", true)
		if !ok {
			continue
		}
		// (c) the MAC is the RFC 8945 HMAC over the specification digest of the parsed fields
		reqB, _ := hex.DecodeString(reqMAC)
		sd := specDigest(f, reqB, timers)
		h := hmacFor(alg, secret)
		h.Write(sd)
		c.Pred("generate", "mac-is-rfc-hmac", in, hmac.Equal(h.Sum(nil), f.mac), hx(f.mac), hx(h.Sum(nil)), true)
		// (d) built-in provider: generate then verify, at times around the fudge window
		out2, mac2, err := dns.TsigGenerate(m.Copy(), secB64, reqMAC, timers)
		if err != nil {
			c.Pred("verify", "generate-builtin", in, false, err.Error(), "nil", true)
			continue
		}
		c.Pred("verify", "builtin-mac-equals", in, mac2 == mac, mac2, mac, true)
		for _, d := range []int64{0, int64(effFudge), int64(effFudge) + 1, -int64(effFudge), -int64(effFudge) - 1, 65536, -65536, 65536 + int64(effFudge), 1 << 32, -(1 << 31)} {
			at := uint64(ts + d)
			err := dns.VerifTsigVerify(append([]byte{}, out2...), secB64, reqMAC, timers, at)
			c.Op("time-window", fmt.Sprintf("tsig.time %d %d %d", at, ts, effFudge), b01(err == nil), true)
			if err != nil && err != dns.ErrTime {
				c.Pred("verify", "verify-own-output", in, false, err.Error(), "nil or bad time", true)
			}
		}
		// wrong secret / wrong request MAC / other timers setting are rejected
		bad := base64.StdEncoding.EncodeToString(append([]byte{1}, secret...))
		c.Pred("verify", "wrong-secret-rejected", in, dns.VerifTsigVerify(append([]byte{}, out2...), bad, reqMAC, timers, uint64(ts)) != nil, "accepted", "error", true)
		other := "00" + reqMAC
		c.Pred("verify", "wrong-request-mac-rejected", in, dns.VerifTsigVerify(append([]byte{}, out2...), secB64, other, timers, uint64(ts)) != nil, "accepted", "error", true)
		// (d2) a MAC cut short (to nothing, one octet, below and above half its size) is not the RFC HMAC
		if cut := truncateMAC(out2, 0); cut != nil {
			full := len(f.mac)
			for _, k := range []int{0, 1, 9, 10, full/2 - 1, full / 2, full - 1} {
				if k < 0 || k >= full {
					continue
				}
				t2 := truncateMAC(out2, k)
				err := dns.VerifTsigVerify(t2, secB64, reqMAC, timers, uint64(ts))
				c.Pred("tamper", "truncated-mac-rejected", fmt.Sprintf("mac-octets=%d of %d %s", k, full, in), err != nil, "accepted", "rejected", true)
			}
		}
		// (d3) the fudge on the wire set to 0: the MAC was computed over the fudge that was signed, and 0 is no spelling of it
		if fp := len(out2) - (2 + len(f.mac) + 2 + 2 + 2 + len(f.other)) - 2; fp > 12 && f.fudge != 0 && be16(out2, fp) == int(f.fudge) {
			t2 := append([]byte{}, out2...)
			t2[fp], t2[fp+1] = 0, 0
			err := dns.VerifTsigVerify(t2, secB64, reqMAC, timers, uint64(ts))
			c.Pred("tamper", "wire-fudge-zero-rejected", fmt.Sprintf("fudge=%d %s", f.fudge, in), err != nil, "accepted", "rejected", true)
		}
		// (e) single-bit alterations (all bits of small messages, sampled for larger ones)
		if len(out2) < 200 || i%10 == 0 {
			step := 1
			if len(out2) >= 200 {
				step = 7
			}
			for bit := 0; bit < len(out2)*8; bit += step {
				t2 := append([]byte{}, out2...)
				t2[bit/8] ^= 1 << uint(bit%8)
				err := dns.VerifTsigVerify(append([]byte{}, t2...), secB64, reqMAC, timers, uint64(ts))
				if bit%3 == 0 {
					tsigModelOp(c, "verify-model-bits", t2, reqMAC, timers, uint64(ts))
				}
				f2, ok2 := indepStrip(t2)
				if err == nil {
					// verify_only_if: success implies the MAC is the RFC HMAC of what was parsed, within the window
					good := ok2
					if good {
						h := hmacFor(presentLabels(f2.alg), secret)
						if h == nil {
							good = false
						} else {
							h.Write(specDigest(f2, reqB, timers))
							good = hmac.Equal(h.Sum(nil), f2.mac)
						}
					}
					if !good && os.Getenv("C11DBG") != "" {
						fmt.Fprintf(os.Stderr, "DBG bit=%d secret=%s reqmac=%s timers=%v ts=%d ok2=%v out2=%s\n", bit, secB64, reqMAC, timers, ts, ok2, hx(out2))
					}
					c.Pred("tamper", "verify-only-if-rfc-mac", fmt.Sprintf("bit=%d %s", bit, in), good, "accepted", "rejected (MAC is not the RFC HMAC of the parsed message)", true)
					c.Hit("tamper:accepted-not-covered")
				} else {
					c.Hit("tamper:rejected")
					c.count("tamper "+fmt.Sprint(bit)+in, true)
				}
				// every alteration that changes the specification digest or the MAC must be rejected
				if ok2 && (string(specDigest(f2, reqB, timers)) != string(sd) || string(f2.mac) != string(f.mac)) {
					c.Pred("tamper", "covered-alteration-rejected", fmt.Sprintf("bit=%d %s", bit, in), err != nil, "accepted", "rejected", true)
				}
			}
		}
	}
	// (e2) the server side of the chain: on one stream connection a signed multi-envelope answer (timers-only MACs
	//      after the first) followed by ordinary signed queries; every reply must verify as a first message again
	for _, seq := range []string{"q", "qq", "xq", "xqq", "qxq", "xxq"} {
		for _, nrec := range []int{0, 2} {
			res := tsigServerSession(seq, nrec)
			c.Pred("server-session", "server-reply-verifies", fmt.Sprintf("sequence=%s records=%d", seq, nrec), sessionOK(res, len(seq)), sessionText(res), "every transaction ok", true)
		}
	}
	// (f) chains: each MAC covers the previous one; alteration, removal, reordering
	for i := 0; i < c.Scale(150, 4000); i++ {
		secret := base64.StdEncoding.EncodeToString(r.Bytes(16))
		alg := tsigAlgs[r.Intn(len(tsigAlgs))]
		ln := 1 + r.Intn(5)
		var outs [][]byte
		var macs []string
		prev := hex.EncodeToString(r.Bytes(20)) // MAC of the request
		req := prev
		for k := 0; k < ln; k++ {
			m := new(dns.Msg)
			m.SetQuestion("example.org.", dns.TypeAXFR)
			m.Response = true
			m.Id = 99
			m.Answer = []dns.RR{&dns.A{Hdr: dns.RR_Header{Name: fmt.Sprintf("h%d.example.org.", k), Rrtype: dns.TypeA, Class: 1, Ttl: 1}, A: []byte{10, 0, 0, byte(k)}}}
			m.SetTsig("chain.", alg, 300, int64(now))
			o, mac, err := dns.TsigGenerate(m, secret, prev, k > 0)
			if err != nil {
				break
			}
			outs = append(outs, o)
			macs = append(macs, mac)
			prev = mac
		}
		verifyChain := func(seq [][]byte) int { // number of envelopes verified before the first error
			p := req
			for k, o := range seq {
				if err := dns.VerifTsigVerify(append([]byte{}, o...), secret, p, k > 0, now); err != nil {
					return k
				}
				var mm dns.Msg
				mm.Unpack(o)
				p = mm.IsTsig().MAC
			}
			return len(seq)
		}
		in := fmt.Sprintf("alg=%s chain=%d", alg, len(outs))
		c.Pred("chain", "chain-verifies", in, verifyChain(outs) == len(outs), "error", "all verify", true)
		if len(outs) >= 2 {
			k := r.Intn(len(outs) - 1)
			// removal of envelope k: the next one must fail
			rem := append(append([][]byte{}, outs[:k]...), outs[k+1:]...)
			c.Pred("chain", "chain-removal-detected", in, verifyChain(rem) <= k, "accepted", "error at the gap", true)
			sw := append([][]byte{}, outs...)
			sw[k], sw[k+1] = sw[k+1], sw[k]
			c.Pred("chain", "chain-reorder-detected", in, verifyChain(sw) <= k, "accepted", "error", true)
			dup := append(append(append([][]byte{}, outs[:k+1]...), outs[k]), outs[k+1:]...)
			c.Pred("chain", "chain-duplicate-detected", in, verifyChain(dup) <= k+1, "accepted", "error", true)
		}
	}
	// (g) a message without TSIG is never reported as verified
	for i := 0; i < c.Scale(200, 4000); i++ {
		g := genMsg(r, msgOpts{mode: 0, maxAn: 2, maxNs: 1, maxEx: 2, optPct: 30})
		w := g.Wire
		if r.Bool() {
			w = mutateBytes(r, w)
		}
		out := guard(func() string {
			if err := dns.TsigVerify(append([]byte{}, w...), "c2VjcmV0", "", false); err != nil {
				return "err"
			}
			return "ok"
		})
		_, has := indepStrip(w)
		if !has {
			c.Pred("no-tsig", "no-tsig-never-verified", "msg="+hx(w), out == "err", out, "err", true)
		}
	}
	_ = strings.Join
	// signed requests against real servers (reply MACs chained onto the request MAC, BADTIME replies)
	c11Server(c, r)
}

func strOrDash(s string) string {
	if s == "" {
		return "-"
	}
	return s
}

func hasType(m *dns.Msg, t uint16) bool {
	for _, s := range [][]dns.RR{m.Answer, m.Ns, m.Extra} {
		for _, rr := range s {
			if rr.Header().Rrtype == t {
				return true
			}
		}
	}
	return false
}
