/-
  C01 (type bitmaps) — the NSEC / NSEC3 / CSYNC / NXT type bitmap: what `packDataNsec` writes for a strictly
  ascending list of type codes is read back by `unpackDataNsec` as the same list.
-/
import DnsModel.Nsec
import DnsProofs.Lemmas.Bytes
namespace Dns.C01
open Dns

/-! ### octets -/

theorem bits_zero : bitsOfByte 0 = [] := by decide

/-- setting a bit beyond all set bits appends its index to the enumeration -/
theorem bits_setBit : ∀ b : Byte, ∀ k : Fin 8, (bitsOfByte b).all (· < k.val) = true →
    bitsOfByte (setBit b k.val) = bitsOfByte b ++ [k.val] := by
  apply forall_byte
  decide +kernel

theorem bits_lt : ∀ b : Byte, (bitsOfByte b).all (· < 8) = true := by
  apply forall_byte
  decide +kernel

/-! ### one window block -/

theorem typesOfBlock_append (base j : Nat) (a b : Bytes) :
    typesOfBlock base j (a ++ b) = typesOfBlock base j a ++ typesOfBlock base (j + a.length) b := by
  induction a generalizing j with
  | nil => simp [typesOfBlock]
  | cons x a ih =>
    simp only [List.cons_append, typesOfBlock, ih (j + 1), List.append_assoc, List.length_cons]
    congr 3; omega

theorem typesOfBlock_zeros (base j n : Nat) : typesOfBlock base j (List.replicate n 0) = [] := by
  induction n generalizing j with
  | zero => rfl
  | succ n ih => simp [List.replicate_succ, typesOfBlock, bits_zero, ih]

theorem typesOfBlock_mem_lt (base j : Nat) (bs : Bytes) (t : Nat) (h : t ∈ typesOfBlock base j bs) :
    base + 8 * j ≤ t ∧ t < base + 8 * (j + bs.length) := by
  induction bs generalizing j with
  | nil => simp [typesOfBlock] at h
  | cons b bs ih =>
    simp only [typesOfBlock, List.mem_append, List.mem_map] at h
    rcases h with ⟨k, hk, rfl⟩ | h
    · have := bits_lt b
      rw [List.all_eq_true] at this
      have := this k hk
      simp only [decide_eq_true_eq] at this
      simp only [List.length_cons]; omega
    · have := ih (j + 1) h
      simp only [List.length_cons]; omega

/-- adding type `base + 8i + k` to a block of `i + 1` octets whose types are all smaller -/
theorem block_set_last (base : Nat) (pre : Bytes) (b : Byte) (k : Nat) (hk : k < 8)
    (hlt : ∀ t ∈ typesOfBlock base 0 (pre ++ [b]), t < base + 8 * pre.length + k) :
    typesOfBlock base 0 (pre ++ [setBit b k]) = typesOfBlock base 0 (pre ++ [b]) ++ [base + 8 * pre.length + k] := by
  rw [typesOfBlock_append, typesOfBlock_append]
  simp only [typesOfBlock, Nat.zero_add, List.append_nil, List.append_assoc]
  congr 1
  have hall : (bitsOfByte b).all (· < k) = true := by
    rw [List.all_eq_true]
    intro j hj
    have := hlt (base + 8 * pre.length + j) (by
      rw [typesOfBlock_append]
      simp only [typesOfBlock, Nat.zero_add, List.append_nil, List.mem_append, List.mem_map]
      exact Or.inr ⟨j, hj, rfl⟩)
    simp only [decide_eq_true_eq]; omega
  have := bits_setBit b ⟨k, hk⟩ hall
  simp only at this
  rw [this, List.map_append]
  rfl

/-! ### sequences of blocks and the unpacker -/

/-- `Blocks bs a c ts`: `bs` is a sequence of well-formed blocks with windows from `a` (exclusive lower bound + 1) up,
    ending with `c` = last window + 1, carrying the types `ts` -/
inductive Blocks : Bytes → Nat → Nat → List Nat → Prop
  | nil (a : Nat) : Blocks [] a a []
  | cons (w l : Nat) (data rest : Bytes) (a c : Nat) (ts : List Nat) (hw : a ≤ w) (hw2 : w < 256) (hl1 : 1 ≤ l)
      (hl2 : l ≤ 32) (hd : data.length = l) (hr : Blocks rest (w + 1) c ts) :
      Blocks ([UInt8.ofNat w, UInt8.ofNat l] ++ data ++ rest) a c (typesOfBlock (w * 256) 0 data ++ ts)

theorem Blocks.append {x y : Bytes} {a b c : Nat} {t1 t2 : List Nat} (h1 : Blocks x a b t1) (h2 : Blocks y b c t2) :
    Blocks (x ++ y) a c (t1 ++ t2) := by
  induction h1 with
  | nil a => simpa using h2
  | cons w l data rest a c' ts hw hw2 hl1 hl2 hd _ ih =>
    have := Blocks.cons w l data (rest ++ y) a c (ts ++ t2) hw hw2 hl1 hl2 hd (ih h2)
    simpa [List.append_assoc] using this

theorem ofNat_toNat (n : Nat) (h : n < 256) : (UInt8.ofNat n).toNat = n := by
  simp [UInt8.toNat_ofNat']; omega

/-- the unpacker reads a sequence of blocks and goes on with what follows -/
theorem Blocks.unpack {bs : Bytes} {a c : Nat} {ts : List Nat} (h : Blocks bs a c ts) (more : Bytes) (fuel : Nat)
    (hf : bs.length + more.length < fuel) :
    ∃ fuel', more.length < fuel' ∧
      unpackNsecLoop fuel (bs ++ more) a = (unpackNsecLoop fuel' more c).map (fun m => ts ++ m) := by
  induction h generalizing fuel with
  | nil a => exact ⟨fuel, by simpa using hf, by simp⟩
  | cons w l data rest a c ts hw hw2 hl1 hl2 hd _ ih =>
    cases fuel with
    | zero => omega
    | succ f =>
      obtain ⟨f', hf', hu⟩ := ih f (by simp [hd] at hf; omega)
      refine ⟨f', hf', ?_⟩
      simp only [List.cons_append, List.nil_append, List.append_assoc, unpackNsecLoop,
        ofNat_toNat w hw2, ofNat_toNat l (by omega : l < 256)]
      have c1 : ¬ w + 1 ≤ a := by omega
      have c2 : ¬ l = 0 := by omega
      have c3 : ¬ l > 32 := by omega
      have c4 : ¬ l > (data ++ (rest ++ more)).length := by simp [hd]
      simp only [c1, c2, c3, c4, ↓reduceIte]
      have e1 : (data ++ (rest ++ more)).take l = data := by rw [← hd, List.take_left']; rfl
      have e2 : (data ++ (rest ++ more)).drop l = rest ++ more := by rw [← hd, List.drop_left']; rfl
      rw [e1, e2, hu]
      simp [Option.map_map, Function.comp_def]

theorem Blocks.unpack_all {bs : Bytes} {c : Nat} {ts : List Nat} (h : Blocks bs 0 c ts) : unpackNsec bs = some ts := by
  obtain ⟨f', hf', hu⟩ := h.unpack [] (bs.length + 1) (by simp)
  unfold unpackNsec
  simp only [List.append_nil] at hu
  rw [hu]
  cases f' with
  | zero => simp at hf'
  | succ f => simp [unpackNsecLoop]

/-! ### the packer's loop -/

/-- what the packer's state stands for after the (non-empty, strictly ascending) types `seen` -/
structure PInv (st : NsecSt) (seen : List Nat) : Prop where
  ex : ∃ tsDone b, seen = tsDone ++ typesOfBlock (st.lw * 256) 0 st.data ∧ Blocks st.done 0 b tsDone ∧ b ≤ st.lw
  lw : st.lw < 256
  ll1 : 1 ≤ st.ll
  ll2 : st.ll ≤ 32
  len : st.data.length = st.ll
  last : ∃ tl, tl ∈ seen ∧ tl / 256 = st.lw ∧ tl % 256 / 8 + 1 = st.ll ∧ ∀ x ∈ seen, x ≤ tl

theorem set_last (pre : Bytes) (b x : Byte) : (pre ++ [b]).set pre.length x = pre ++ [x] := by
  induction pre with
  | nil => rfl
  | cons p pre ih => simp [List.set, ih]

theorem getD_last (pre : Bytes) (b : Byte) : (pre ++ [b]).getD pre.length 0 = b := by
  simp [List.getD]

theorem t_split (t : Nat) : t = t / 256 * 256 + 8 * (t % 256 / 8) + t % 8 := by omega

/-- the data octets of a block that holds one type: zeros, then the octet with the one bit -/
def freshData (len k : Nat) : Bytes := List.replicate (len - 1) 0 ++ [setBit 0 k]

theorem pad_set_fresh (len k : Nat) (hl : 1 ≤ len) :
    (([] : Bytes) ++ List.replicate (len - ([] : Bytes).length) 0).set (len - 1)
        (setBit ((([] : Bytes) ++ List.replicate (len - ([] : Bytes).length) 0).getD (len - 1) 0) k) = freshData len k := by
  simp only [List.nil_append, List.length_nil, Nat.sub_zero]
  obtain ⟨n, rfl⟩ : ∃ n, len = n + 1 := ⟨len - 1, by omega⟩
  have e : List.replicate (n + 1) (0 : Byte) = List.replicate n 0 ++ [0] := by rw [List.replicate_succ']
  simp only [Nat.add_sub_cancel, freshData]
  have hn : (List.replicate n (0 : Byte)).length = n := by simp
  rw [e]
  have h1 := getD_last (List.replicate n 0) 0
  have h2 := set_last (List.replicate n 0) 0 (setBit 0 k)
  rw [hn] at h1 h2
  rw [h1, h2]

theorem freshData_types (w len k : Nat) (hk : k < 8) (hl : 1 ≤ len) :
    typesOfBlock (w * 256) 0 (freshData len k) = [w * 256 + 8 * (len - 1) + k] ∧ (freshData len k).length = len := by
  unfold freshData
  refine ⟨?_, by simp; omega⟩
  have := block_set_last (w * 256) (List.replicate (len - 1) 0) 0 k hk (by
    intro t ht
    rw [typesOfBlock_append, typesOfBlock_zeros] at ht
    simp [typesOfBlock, bits_zero] at ht)
  rw [this, typesOfBlock_append, typesOfBlock_zeros]
  simp [typesOfBlock, bits_zero]

theorem step_first (t : Nat) (ht : t < 65536) :
    packNsecStep ⟨[], 0, 0, []⟩ t = some ⟨[], t / 256, t % 256 / 8 + 1, freshData (t % 256 / 8 + 1) (t % 8)⟩ ∧
    PInv ⟨[], t / 256, t % 256 / 8 + 1, freshData (t % 256 / 8 + 1) (t % 8)⟩ [t] := by
  have hk : t % 8 < 8 := by omega
  obtain ⟨h1, h2⟩ := freshData_types (t / 256) (t % 256 / 8 + 1) (t % 8) hk (by omega)
  refine ⟨?_, ?_⟩
  · have := pad_set_fresh (t % 256 / 8 + 1) (t % 8) (by omega)
    simp only [packNsecStep, Nat.not_lt_zero, decide_false, Bool.false_and, Bool.false_eq_true, ↓reduceIte,
      Bool.or_self, bne_self_eq_false, Bool.and_false]
    rw [this]
  · refine ⟨⟨[], 0, ?_, Blocks.nil 0, by omega⟩, by simp only; omega, by simp only; omega, by simp only; omega, h2, ?_⟩
    · simp only [List.nil_append]
      rw [h1]
      have := t_split t
      simp only [Nat.add_sub_cancel]; congr 1
    · exact ⟨t, by simp, rfl, rfl, by simp⟩

/-- a later type, larger than everything seen: same window (the block grows) or a new window (the block is closed) -/
theorem step_next (st : NsecSt) (seen : List Nat) (t : Nat) (hinv : PInv st seen) (ht : t < 65536)
    (hgt : ∀ x ∈ seen, x < t) :
    ∃ st', packNsecStep st t = some st' ∧ PInv st' (seen ++ [t]) := by
  obtain ⟨⟨tsDone, b, hseen, hblocks, hb⟩, hlw, hll1, hll2, hlen, ⟨tl, htl, htlw, htll, hmax⟩⟩ := hinv
  have hk : t % 8 < 8 := by omega
  have htlt := hgt tl htl
  have hwge : st.lw ≤ t / 256 := by rw [← htlw]; exact Nat.div_le_div_right (by omega)
  by_cases hnew : st.lw < t / 256
  · -- a new window: close the block
    have hcond : (decide (t / 256 > st.lw) && (st.ll != 0)) = true := by
      have : st.ll ≠ 0 := by omega
      simp [hnew, this]
    obtain ⟨h1, h2⟩ := freshData_types (t / 256) (t % 256 / 8 + 1) (t % 8) hk (by omega)
    refine ⟨⟨st.done ++ [UInt8.ofNat st.lw, UInt8.ofNat st.ll] ++ st.data, t / 256, t % 256 / 8 + 1,
      freshData (t % 256 / 8 + 1) (t % 8)⟩, ?_, ?_⟩
    · have hp := pad_set_fresh (t % 256 / 8 + 1) (t % 8) (by omega)
      simp only [packNsecStep, hcond, ↓reduceIte]
      have c1 : ¬ t / 256 < st.lw := by omega
      simp only [c1, decide_false, Nat.not_lt_zero, Bool.or_self, Bool.false_eq_true, ↓reduceIte]
      rw [hp]
    · refine ⟨⟨seen, st.lw + 1, ?_, ?_, by simp only; omega⟩, by simp only; omega, by simp only; omega,
        by simp only; omega, h2, ?_⟩
      · simp only
        rw [h1]
        have := t_split t
        simp only [Nat.add_sub_cancel]; congr 2
      · simp only
        rw [hseen]
        have blk := Blocks.cons st.lw st.ll st.data [] b (st.lw + 1) [] hb hlw hll1 hll2 hlen (Blocks.nil _)
        have := hblocks.append blk
        simpa [List.append_assoc] using this
      · refine ⟨t, by simp, rfl, rfl, ?_⟩
        intro x hx
        rcases List.mem_append.mp hx with h | h
        · exact Nat.le_of_lt (hgt x h)
        · simp at h; omega
  · -- the same window: the block grows
    have hw : t / 256 = st.lw := by omega
    have hcond : (decide (t / 256 > st.lw) && (st.ll != 0)) = false := by simp [hw]
    have hlenge : st.ll ≤ t % 256 / 8 + 1 := by
      rw [← htll]
      have : tl % 256 ≤ t % 256 := by omega
      have := Nat.div_le_div_right (c := 8) this
      omega
    -- the padded data as  pre ++ [b0]
    have hpadlen : (st.data ++ List.replicate (t % 256 / 8 + 1 - st.data.length) 0).length = t % 256 / 8 + 1 := by
      simp [hlen]; omega
    rcases List.eq_nil_or_concat (st.data ++ List.replicate (t % 256 / 8 + 1 - st.data.length) 0) with h0 | ⟨pre, b0, h0⟩
    · rw [h0] at hpadlen; simp at hpadlen
    rw [List.concat_eq_append] at h0
    have hprelen : pre.length = t % 256 / 8 := by
      have := congrArg List.length h0; rw [hpadlen] at this; simp at this; omega
    have htypes_pad : typesOfBlock (st.lw * 256) 0 (pre ++ [b0]) = typesOfBlock (st.lw * 256) 0 st.data := by
      rw [← h0, typesOfBlock_append, typesOfBlock_zeros, List.append_nil]
    have hset := block_set_last (st.lw * 256) pre b0 (t % 8) hk (by
      intro x hx
      rw [htypes_pad] at hx
      have hxs : x ∈ seen := by rw [hseen]; exact List.mem_append_right _ hx
      have := hgt x hxs
      have := t_split t
      rw [hprelen]; omega)
    refine ⟨⟨st.done, t / 256, t % 256 / 8 + 1, pre ++ [setBit b0 (t % 8)]⟩, ?_, ?_⟩
    · simp only [packNsecStep, hcond, Bool.false_eq_true, ↓reduceIte]
      have c1 : ¬ t / 256 < st.lw := by omega
      have c2 : ¬ t % 256 / 8 + 1 < st.ll := by omega
      simp only [c1, c2, decide_false, Bool.or_self, Bool.false_eq_true, ↓reduceIte, Nat.add_sub_cancel]
      rw [h0]
      have g := getD_last pre b0
      have sl := set_last pre b0 (setBit b0 (t % 8))
      rw [hprelen] at g sl
      rw [g, sl]
    · refine ⟨⟨tsDone, b, ?_, hblocks, by simp only; omega⟩, by simp only; omega, by simp only; omega,
        by simp only; omega, by simp [hprelen], ?_⟩
      · simp only
        rw [hw, hset, htypes_pad, hseen, List.append_assoc]
        congr 2
        have e := t_split t
        rw [hw] at e
        rw [hprelen, ← e]
      · refine ⟨t, by simp, rfl, rfl, ?_⟩
        intro x hx
        rcases List.mem_append.mp hx with h | h
        · exact Nat.le_of_lt (hgt x h)
        · simp at h; omega

/-- the whole loop on a strictly ascending continuation -/
theorem fold_inv (ts : List Nat) (st : NsecSt) (seen : List Nat) (hinv : PInv st seen)
    (hasc : (seen ++ ts).Pairwise (· < ·)) (hlt : ∀ t ∈ ts, t < 65536) :
    ∃ st', packNsecFold ts st = some st' ∧ PInv st' (seen ++ ts) := by
  induction ts generalizing st seen with
  | nil => exact ⟨st, rfl, by simpa using hinv⟩
  | cons t ts ih =>
    have hgt : ∀ x ∈ seen, x < t := by
      intro x hx
      have := List.pairwise_append.mp hasc
      exact this.2.2 x hx t (by simp)
    obtain ⟨st1, h1, hinv1⟩ := step_next st seen t hinv (hlt t (by simp)) hgt
    obtain ⟨st2, h2, hinv2⟩ := ih st1 (seen ++ [t]) hinv1 (by simpa [List.append_assoc] using hasc)
      (fun x hx => hlt x (by simp [hx]))
    exact ⟨st2, by simp [packNsecFold, h1, h2], by simpa [List.append_assoc] using hinv2⟩

/-- **type_bitmap_roundtrip**: for every strictly ascending list of type codes, `unpackDataNsec` reads back what
    `packDataNsec` wrote -/
theorem nsec_roundtrip (types : List Nat) (hasc : types.Pairwise (· < ·)) (hlt : ∀ t ∈ types, t < 65536) :
    ∃ w, packNsec types = some w ∧ unpackNsec w = some types := by
  cases types with
  | nil => exact ⟨[], rfl, by simp [unpackNsec, unpackNsecLoop]⟩
  | cons t ts =>
    obtain ⟨h1, hinv1⟩ := step_first t (hlt t (by simp))
    obtain ⟨st2, h2, hinv2⟩ := fold_inv ts _ [t] hinv1 (by simpa using hasc) (fun x hx => hlt x (by simp [hx]))
    refine ⟨st2.done ++ [UInt8.ofNat st2.lw, UInt8.ofNat st2.ll] ++ st2.data, ?_, ?_⟩
    · simp [packNsec, packNsecFold, h1, h2]
    · obtain ⟨⟨tsDone, b, hseen, hblocks, hb⟩, hlw, hll1, hll2, hlen, _⟩ := hinv2
      have blk := Blocks.cons st2.lw st2.ll st2.data [] b (st2.lw + 1) [] hb hlw hll1 hll2 hlen (Blocks.nil _)
      have := (hblocks.append blk).unpack_all
      simp only [List.append_nil, List.singleton_append, List.cons_append, List.nil_append] at this hseen
      rw [← hseen] at this
      simpa [List.append_assoc] using this

end Dns.C01
