// extract re-reads /repo's working tree with go/ast and regenerates the Lean fact files
// under /verif/lean/DnsModel/Generated. Stdlib only. Anything it cannot classify is an
// extraction failure (exit 3 with a message), which the check reports as an unchecked obligation.
package main

import (
	"encoding/json"
	"flag"
	"fmt"
	"go/ast"
	"go/parser"
	"go/token"
	"os"
	"path/filepath"
	"sort"
	"strconv"
	"strings"
)

type constDef struct {
	e    ast.Expr
	iota int
}

type pkgInfo struct {
	fset   *token.FileSet
	files  map[string]*ast.File
	consts map[string]constDef // package-level consts
	funcs  map[string]*ast.FuncDecl
}

var failures []string

func fail(format string, a ...any) {
	failures = append(failures, fmt.Sprintf(format, a...))
}

func load(dir string) *pkgInfo {
	p := &pkgInfo{fset: token.NewFileSet(), files: map[string]*ast.File{}, consts: map[string]constDef{}, funcs: map[string]*ast.FuncDecl{}}
	ents, err := os.ReadDir(dir)
	if err != nil {
		fmt.Fprintln(os.Stderr, err)
		os.Exit(3)
	}
	for _, e := range ents {
		n := e.Name()
		if !strings.HasSuffix(n, ".go") || strings.HasSuffix(n, "_test.go") || strings.HasSuffix(n, "_generate.go") || n == "verif_export.go" {
			continue
		}
		f, err := parser.ParseFile(p.fset, filepath.Join(dir, n), nil, parser.ParseComments)
		if err != nil {
			fmt.Fprintln(os.Stderr, "parse:", err)
			os.Exit(3)
		}
		if f.Name.Name != "dns" {
			continue
		}
		p.files[n] = f
		for _, d := range f.Decls {
			switch d := d.(type) {
			case *ast.GenDecl:
				if d.Tok == token.CONST {
					p.addConsts(d)
				}
			case *ast.FuncDecl:
				name := d.Name.Name
				if d.Recv != nil && len(d.Recv.List) == 1 {
					name = recvName(d.Recv.List[0].Type) + "." + name
				}
				p.funcs[name] = d
			}
		}
	}
	return p
}

func recvName(e ast.Expr) string {
	switch e := e.(type) {
	case *ast.StarExpr:
		return recvName(e.X)
	case *ast.Ident:
		return e.Name
	case *ast.IndexExpr:
		return recvName(e.X)
	}
	return "?"
}

func (p *pkgInfo) addConsts(d *ast.GenDecl) {
	var lastVals []ast.Expr
	for i, s := range d.Specs {
		vs := s.(*ast.ValueSpec)
		vals := vs.Values
		iotaV := i
		if len(vals) == 0 {
			vals = lastVals
		} else {
			lastVals = vals
		}
		for j, n := range vs.Names {
			if j < len(vals) {
				p.consts[n.Name] = constDef{vals[j], iotaV}
			}
		}
	}
}

// eval evaluates an integer constant expression.
func (p *pkgInfo) eval(e ast.Expr, local map[string]ast.Expr, iota int, depth int) (int64, bool) {
	if depth > 50 {
		return 0, false
	}
	switch e := e.(type) {
	case *ast.BasicLit:
		switch e.Kind {
		case token.INT:
			v, err := strconv.ParseInt(e.Value, 0, 64)
			return v, err == nil
		case token.CHAR:
			s, err := strconv.Unquote(e.Value)
			if err != nil || len(s) == 0 {
				return 0, false
			}
			r := []rune(s)
			return int64(r[0]), true
		}
	case *ast.Ident:
		if e.Name == "iota" {
			return int64(iota), true
		}
		if local != nil {
			if x, ok := local[e.Name]; ok {
				return p.eval(x, local, iota, depth+1)
			}
		}
		if x, ok := p.consts[e.Name]; ok {
			return p.eval(x.e, nil, x.iota, depth+1)
		}
	case *ast.ParenExpr:
		return p.eval(e.X, local, iota, depth+1)
	case *ast.CallExpr: // conversions like uint16(…)
		if len(e.Args) == 1 {
			return p.eval(e.Args[0], local, iota, depth+1)
		}
	case *ast.UnaryExpr:
		v, ok := p.eval(e.X, local, iota, depth+1)
		if ok && e.Op == token.SUB {
			return -v, true
		}
		if ok && e.Op == token.ADD {
			return v, true
		}
	case *ast.BinaryExpr:
		a, ok1 := p.eval(e.X, local, iota, depth+1)
		b, ok2 := p.eval(e.Y, local, iota, depth+1)
		if !ok1 || !ok2 {
			return 0, false
		}
		switch e.Op {
		case token.ADD:
			return a + b, true
		case token.SUB:
			return a - b, true
		case token.MUL:
			return a * b, true
		case token.QUO:
			if b == 0 {
				return 0, false
			}
			return a / b, true
		case token.REM:
			if b == 0 {
				return 0, false
			}
			return a % b, true
		case token.SHL:
			return a << uint(b), true
		case token.SHR:
			return a >> uint(b), true
		case token.OR:
			return a | b, true
		case token.AND:
			return a & b, true
		case token.XOR:
			return a ^ b, true
		}
	}
	return 0, false
}

func (p *pkgInfo) constVal(name string) int64 {
	e, ok := p.consts[name]
	if !ok {
		fail("constant %s not found", name)
		return 0
	}
	v, ok := p.eval(e.e, nil, e.iota, 0)
	if !ok {
		fail("constant %s not evaluable", name)
	}
	return v
}

// localConst finds `const name = expr` inside function fn.
func (p *pkgInfo) localConst(fn, name string) int64 {
	fd, ok := p.funcs[fn]
	if !ok || fd.Body == nil {
		fail("function %s not found", fn)
		return 0
	}
	var val int64
	found := false
	ast.Inspect(fd.Body, func(n ast.Node) bool {
		if gd, ok := n.(*ast.GenDecl); ok && gd.Tok == token.CONST {
			for _, s := range gd.Specs {
				vs := s.(*ast.ValueSpec)
				for j, nm := range vs.Names {
					if nm.Name == name && j < len(vs.Values) {
						v, ok := p.eval(vs.Values[j], nil, 0, 0)
						if ok {
							val, found = v, true
						}
					}
				}
			}
		}
		return true
	})
	if !found {
		fail("local constant %s in %s not found", name, fn)
	}
	return val
}

// switchCaseBytes: the byte constants of the first `switch` with `return true` in fn.
func (p *pkgInfo) switchCaseBytes(fn string) []int64 {
	fd, ok := p.funcs[fn]
	if !ok {
		fail("function %s not found", fn)
		return nil
	}
	var out []int64
	ast.Inspect(fd.Body, func(n ast.Node) bool {
		if cc, ok := n.(*ast.CaseClause); ok {
			for _, e := range cc.List {
				v, ok := p.eval(e, nil, 0, 0)
				if !ok {
					fail("case in %s not evaluable", fn)
				}
				out = append(out, v)
			}
		}
		return true
	})
	return out
}

// cmpConstIn finds, inside fn, a comparison `<ident> <op> <const-expr>` where the left side
// prints as lhs, and returns op and value.
func (p *pkgInfo) cmpConstIn(fn, lhs string) (string, int64) {
	fd, ok := p.funcs[fn]
	if !ok {
		fail("function %s not found", fn)
		return "", 0
	}
	var op string
	var val int64
	found := false
	ast.Inspect(fd.Body, func(n ast.Node) bool {
		if be, ok := n.(*ast.BinaryExpr); ok && !found {
			if id, ok := be.X.(*ast.Ident); ok && id.Name == lhs {
				if v, ok := p.eval(be.Y, nil, 0, 0); ok {
					op, val, found = be.Op.String(), v, true
				}
			}
		}
		return true
	})
	if !found {
		fail("comparison on %s in %s not found", lhs, fn)
	}
	return op, val
}

func leanList(xs []int64) string {
	ss := make([]string, len(xs))
	for i, x := range xs {
		ss[i] = strconv.FormatInt(x, 10)
	}
	return "[" + strings.Join(ss, ", ") + "]"
}

func writeIfChanged(path, content string) {
	old, err := os.ReadFile(path)
	if err == nil && string(old) == content {
		return
	}
	if err := os.WriteFile(path, []byte(content), 0o644); err != nil {
		fmt.Fprintln(os.Stderr, err)
		os.Exit(3)
	}
}

func lenSection(p *pkgInfo) string {
	lps := p.lenPlans()
	have := map[string]bool{}
	for _, l := range lps {
		have[l.Type] = true
	}
	return leanLenPlans(lps, p.lenAliases(have))
}

func main() {
	repo := flag.String("repo", "/repo", "repository")
	out := flag.String("out", "/verif/lean/DnsModel/Generated", "output directory")
	snapshot := flag.String("snapshot", "", "write specification snapshot (layouts.json, RfcLayouts.lean) into this directory")
	flag.Parse()
	p := load(*repo)
	os.MkdirAll(*out, 0o755)

	var b strings.Builder
	b.WriteString("-- GENERATED by /verif/harness/cmd/extract from /repo's working tree (do not edit)\nnamespace Dns.Gen\n")
	def := func(name string, v int64) { fmt.Fprintf(&b, "def %s : Nat := %d\n", name, v) }
	def("maxCompressionOffset", p.constVal("maxCompressionOffset"))
	def("maxDomainNameWireOctets", p.constVal("maxDomainNameWireOctets"))
	def("maxCompressionPointers", p.constVal("maxCompressionPointers"))
	def("maxIncludeDepth", p.constVal("maxIncludeDepth"))
	def("isDomainNameLenmsg", p.localConst("IsDomainName", "lenmsg"))
	// label limit: `labelLen >= 1<<6` in packDomainName and IsDomainName must agree
	op1, v1 := p.cmpConstIn("packDomainName", "labelLen")
	op2, v2 := p.cmpConstIn("IsDomainName", "labelLen")
	if op1 != ">=" || op2 != ">=" {
		// normalise `>` to `>=` of the successor so that the model sees what the code does
		if op1 == ">" {
			v1++
			op1 = ">="
		}
		if op2 == ">" {
			v2++
			op2 = ">="
		}
		if op1 != ">=" || op2 != ">=" {
			fail("label length comparison has operator %s / %s", op1, op2)
		}
	}
	def("labelLimit", v1)
	def("labelLimitIsDomainName", v2)
	sp := p.switchCaseBytes("isDomainNameLabelSpecial")
	fmt.Fprintf(&b, "def labelSpecial : List UInt8 := %s\n", leanList(sp))
	def("headerSize", p.constVal("headerSize"))
	def("minMsgSize", p.constVal("MinMsgSize"))
	def("maxMsgSize", p.constVal("MaxMsgSize"))
	b.WriteString("end Dns.Gen\n")
	if len(failures) > 0 {
		for _, f := range failures {
			fmt.Fprintln(os.Stderr, "extract:", f)
		}
		os.Exit(3)
	}
	writeIfChanged(filepath.Join(*out, "Consts.lean"), b.String())

	// pack / unpack plans and the type registry
	pk, up := p.plans()
	reg := p.typeRegistry()
	var lb strings.Builder
	lb.WriteString("-- GENERATED by /verif/harness/cmd/extract from /repo's zmsg.go and ztypes.go (do not edit)\nnamespace Dns.Gen\n")
	lb.WriteString(leanPlans("packPlans", pk))
	lb.WriteString(leanPlans("unpackPlans", up))
	var names []string
	for n := range reg {
		names = append(names, n)
	}
	sort.Strings(names)
	lb.WriteString("def typeRegistry : List (String × Nat) := [")
	for i, n := range names {
		if i > 0 {
			lb.WriteString(", ")
		}
		fmt.Fprintf(&lb, "(%s, %d)", leanStr(n), reg[n])
	}
	lb.WriteString("]\nend Dns.Gen\n")
	if len(failures) > 0 {
		for _, f := range failures {
			fmt.Fprintln(os.Stderr, "extract:", f)
		}
		os.Exit(3)
	}
	writeIfChanged(filepath.Join(*out, "Layouts.lean"), lb.String())
	var cb strings.Builder
	cb.WriteString("-- GENERATED by /verif/harness/cmd/extract from /repo's zmsg.go (do not edit): the per-type pack / unpack bodies\n-- translated into the codec algebra of DnsModel/Codec.lean\nimport DnsModel.CodecBase\nnamespace Dns.Gen\nopen Dns\n")
	cb.WriteString(leanCodecs("packCodecs", pk, false))
	cb.WriteString(leanCodecs("unpackCodecs", up, true))
	cb.WriteString("end Dns.Gen\n")
	writeIfChanged(filepath.Join(*out, "Codecs.lean"), cb.String())
	dp := p.dupPlans()
	if len(failures) > 0 {
		for _, f := range failures {
			fmt.Fprintln(os.Stderr, "extract:", f)
		}
		os.Exit(3)
	}
	writeIfChanged(filepath.Join(*out, "ServerFacts.lean"), "-- GENERATED by /verif/harness/cmd/extract from /repo's server.go (do not edit)\nnamespace Dns.Gen\n"+p.serverFacts()+"end Dns.Gen\n")
	tps := p.textPlans()
	writeIfChanged(filepath.Join(*out, "TextPlans.lean"), "-- GENERATED by /verif/harness/cmd/extract from /repo's scan_rr.go and types.go (do not edit): the RDATA parsers and printers\n-- that use only the idioms of the text algebra (DnsModel/TextCodec.lean), translated into its steps\nimport DnsModel.TextCodecBase\nnamespace Dns.Gen\nopen Dns\n"+leanTextPlans(tps)+"end Dns.Gen\n")
	writeIfChanged(filepath.Join(*out, "textplans.json"), jsonTextPlans(tps))
	writeIfChanged(filepath.Join(*out, "LenPlans.lean"), "-- GENERATED by /verif/harness/cmd/extract from /repo's len() methods (ztypes.go, types.go, edns.go) (do not edit): what Len adds\n-- for the RDATA of each type, translated into the steps of DnsModel/LenBase.lean\nimport DnsModel.LenBase\nnamespace Dns.Gen\nopen Dns\n"+lenSection(p)+"end Dns.Gen\n")
	writeIfChanged(filepath.Join(*out, "CanonPlans.lean"), "-- GENERATED by /verif/harness/cmd/extract from /repo's dnssec.go rawSignatureData (do not edit): the record fields put into\n-- lower case before signing / verifying (RFC 4034 6.2 (3))\nnamespace Dns.Gen\n"+leanCanonLower(p.canonLower())+"end Dns.Gen\n")
	lt := p.lexTables()
	if len(failures) > 0 {
		for _, f := range failures {
			fmt.Fprintln(os.Stderr, "extract:", f)
		}
		os.Exit(3)
	}
	writeIfChanged(filepath.Join(*out, "LexTables.lean"), "-- GENERATED by /verif/harness/cmd/extract from /repo's ztypes.go, msg.go, scan.go (do not edit): what the zone lexer looks tokens up in\nnamespace Dns.Gen\n"+lt+"end Dns.Gen\n")
	writeIfChanged(filepath.Join(*out, "CopyPlans.lean"), "-- GENERATED by /verif/harness/cmd/extract from /repo's copy() methods and struct definitions (do not edit)\nnamespace Dns.Gen\n"+leanCopyPlans(p.copyPlans())+"end Dns.Gen\n")
	writeIfChanged(filepath.Join(*out, "DupPlans.lean"), "-- GENERATED by /verif/harness/cmd/extract from /repo's zduplicate.go (do not edit)\nnamespace Dns.Gen\n"+leanDupPlans(dp)+"end Dns.Gen\n")
	if *snapshot != "" {
		// one-time snapshot of the specification tables (committed, reviewed against the RFCs)
		js, _ := json.MarshalIndent(map[string]any{"pack": pk, "unpack": up, "types": reg}, "", " ")
		os.WriteFile(filepath.Join(*snapshot, "layouts.json"), js, 0o644)
		spec := strings.ReplaceAll(lb.String(), "namespace Dns.Gen", "namespace Dns.Spec")
		spec = strings.ReplaceAll(spec, "end Dns.Gen", "end Dns.Spec")
		spec = strings.Replace(spec, "-- GENERATED by /verif/harness/cmd/extract from /repo's zmsg.go and ztypes.go (do not edit)", "-- Specification tables: per-type RDATA field sequences (RFC layouts), committed; see spec/README.md", 1)
		os.WriteFile(filepath.Join(*snapshot, "RfcLayouts.lean"), []byte(spec), 0o644)
	}
}
