/-
  C20 (wire) — for records of the generated types with fitting field values (what comes off the wire), the field-wise
  comparison of `isDuplicate` — names through the case-insensitive comparison, every other field by equality — holds
  exactly when the two RDATA are equal octet for octet once the letters of embedded names are lower-cased: the packer
  of the codec algebra is injective (C01: `pack_injective`), and lower-casing keeps values well-formed.
-/
import DnsProofs.C20
import DnsProofs.Instance.Codecs
namespace Dns.C20W
open Dns Dns.C01 Dns.C03 Dns.Instance

/-- lower-case the letters of embedded names -/
def lowerVal : Val → Val
  | .t text => .t (lowerAll text)
  | .ns texts => .ns (texts.map lowerAll)
  | v => v

/-- one field in the generated `isDuplicate`: `isDuplicateName` for names, `==` otherwise -/
def dupVal : Val → Val → Bool
  | .t a, .t b => equalFold a b
  | .ns a, .ns b => a.length == b.length && (a.zip b).all (fun p => equalFold p.1 p.2)
  | a, b => a == b

def dupVals : List Val → List Val → Bool
  | [], [] => true
  | a :: as, b :: bs => dupVal a b && dupVals as bs
  | _, _ => false

theorem equalFold_iff (a b : Bytes) : equalFold a b = true ↔ lowerAll a = lowerAll b := by
  unfold equalFold
  constructor
  · intro h; simp only [Bool.and_eq_true, beq_iff_eq] at h; exact h.2
  · intro h
    have : a.length = b.length := by
      have := congrArg List.length h
      simpa [lowerAll] using this
    simp [this, h]

theorem names_iff (a b : List Bytes) :
    (a.length == b.length && (a.zip b).all (fun p => equalFold p.1 p.2)) = true ↔ a.map lowerAll = b.map lowerAll := by
  induction a generalizing b with
  | nil => cases b <;> simp
  | cons x xs ih =>
    cases b with
    | nil => simp
    | cons y ys =>
      have := ih ys
      simp only [List.length_cons, List.zip_cons_cons, List.all_cons, List.map_cons, List.cons.injEq, Bool.and_eq_true,
        beq_iff_eq, Nat.add_right_cancel_iff] at this ⊢
      rw [← this, equalFold_iff]
      constructor
      · rintro ⟨h1, h2, h3⟩; exact ⟨h2, h1, h3⟩
      · rintro ⟨h1, h2, h3⟩; exact ⟨h2, h1, h3⟩

theorem dupVal_iff (a b : Val) : dupVal a b = true ↔ lowerVal a = lowerVal b := by
  cases a <;> cases b
  case ns.ns x y =>
    simp only [dupVal, lowerVal, Val.ns.injEq]
    exact names_iff x y
  all_goals simp [dupVal, lowerVal, equalFold_iff]

theorem dupVals_iff (v1 v2 : List Val) : dupVals v1 v2 = true ↔ v1.map lowerVal = v2.map lowerVal := by
  induction v1 generalizing v2 with
  | nil => cases v2 <;> simp [dupVals]
  | cons a as ih =>
    cases v2 with
    | nil => simp [dupVals]
    | cons b bs => simp [dupVals, dupVal_iff, ih]

/-! ### lower-casing keeps values well-formed -/

theorem lower_presentByte : ∀ b : Byte, lowerAll (presentByte b) = presentByte (lower b) := by
  apply forall_byte; decide +kernel

theorem lower_presentLabel (l : Bytes) : lowerAll (presentLabel l) = presentLabel (lowerAll l) := by
  induction l with
  | nil => rfl
  | cons b l ih =>
    have : presentLabel (b :: l) = presentByte b ++ presentLabel l := by simp [presentLabel]
    rw [this]
    have h2 : presentLabel (lowerAll (b :: l)) = presentByte (lower b) ++ presentLabel (lowerAll l) := by
      simp [presentLabel, lowerAll]
    rw [h2, ← ih, ← lower_presentByte]
    simp [lowerAll]

theorem lower_presentOf (ls : List Bytes) : lowerAll (presentOf ls) = presentOf (ls.map lowerAll) := by
  cases ls with
  | nil => decide
  | cons l rest =>
    simp only [presentOf, List.isEmpty_cons, Bool.false_eq_true, ↓reduceIte, List.map_cons]
    have : ∀ xs : List Bytes, lowerAll (xs.flatMap (fun l => presentLabel l ++ [46])) =
        (xs.map lowerAll).flatMap (fun l => presentLabel l ++ [46]) := by
      intro xs
      induction xs with
      | nil => rfl
      | cons x xs ih =>
        simp only [List.flatMap_cons, List.map_cons]
        rw [← ih, ← lower_presentLabel]
        simp [lowerAll]
        decide
    have h := this (l :: rest)
    simpa using h

theorem lower_wireNameOK (ls : List Bytes) (h : WireNameOK ls) : WireNameOK (ls.map lowerAll) := by
  obtain ⟨h1, h2⟩ := h
  refine ⟨?_, ?_⟩
  · intro l hl
    obtain ⟨l0, hl0, rfl⟩ := List.mem_map.mp hl
    simpa [lowerAll] using h1 l0 hl0
  · have : (wireOf (ls.map lowerAll)).length = (wireOf ls).length := by
      simp only [wireOf, List.length_append, List.length_singleton, Nat.add_right_cancel_iff]
      induction ls with
      | nil => rfl
      | cons x xs ih =>
        simp only [List.map_cons, List.flatMap_cons, List.length_append, List.length_cons]
        rw [ih (fun l hl => h1 l (by simp [hl])) (by
          simp only [wireOf, List.flatMap_cons, List.length_append, List.length_cons, List.length_singleton] at h2 ⊢
          omega)]
        simp [lowerAll]
    omega

theorem nameWF_lower (text : Bytes) (h : ∃ ls, WireNameOK ls ∧ text = presentOf ls) :
    ∃ ls, WireNameOK ls ∧ lowerAll text = presentOf ls := by
  obtain ⟨ls, hok, rfl⟩ := h
  exact ⟨ls.map lowerAll, lower_wireNameOK ls hok, lower_presentOf ls⟩

theorem getD_lower (acc : List Val) (i : Nat) : (acc.map lowerVal).getD i (.n 0) = lowerVal (acc.getD i (.n 0)) := by
  induction acc generalizing i with
  | nil => simp [lowerVal]
  | cons a as ih =>
    cases i with
    | zero => simp
    | succ i => simpa using ih i

theorem gatewayType_lower (acc : List Val) (i : Nat) (mk : Bool) : gatewayType (acc.map lowerVal) i mk = gatewayType acc i mk := by
  unfold gatewayType
  rw [getD_lower]
  cases acc.getD i (.n 0) <;> rfl

theorem wfStep_lower (acc : List Val) (s : CStep) (v : Val) (h : WFStep acc s v) : WFStep (acc.map lowerVal) s (lowerVal v) := by
  cases s
  case gateway i mk =>
    simp only [WFStep, gatewayType_lower] at h ⊢
    generalize gatewayType acc i mk = g at h ⊢
    match g, v, h with
    | 1, .b bs, h => exact h
    | 2, .b bs, h => exact h
    | 3, .t text, h => exact nameWF_lower text h
    | 0, .b [], _ => trivial
    | n + 4, .b [], _ => trivial
  case blobSized i =>
    cases v <;> simp only [WFStep, lowerVal] at h ⊢
    rw [getD_lower, h]; rfl
  case name =>
    cases v <;> simp only [WFStep, lowerVal] at h ⊢
    exact nameWF_lower _ h
  case names =>
    cases v <;> simp only [WFStep, lowerVal] at h ⊢
    intro t ht
    obtain ⟨t0, ht0, rfl⟩ := List.mem_map.mp ht
    exact nameWF_lower t0 (h t0 ht0)
  all_goals (cases v <;> simp only [WFStep, lowerVal] at h ⊢ <;> exact h)

theorem wfPlan_lower (acc : List Val) (U : List CStep) (vals : List Val) (h : WFPlan acc U vals) :
    WFPlan (acc.map lowerVal) U (vals.map lowerVal) := by
  induction U generalizing acc vals with
  | nil => cases vals <;> simp_all [WFPlan]
  | cons s U ih =>
    by_cases hse : s = .early
    · subst hse
      simp only [WFPlan] at h ⊢
      exact ih acc vals h
    · cases vals with
      | nil => exact (wf_cons_nil acc s U hse h).elim
      | cons v vals =>
        obtain ⟨h1, h2⟩ := wf_cons acc s U v vals hse h
        have := ih (acc ++ [v]) vals h2
        simp only [List.map_append, List.map_cons, List.map_nil] at this
        cases s <;> first
          | exact absurd rfl hse
          | (simp only [WFPlan, List.map_cons]; exact ⟨wfStep_lower acc _ v h1, this⟩)

/-- **duplicates are wire-equal records**: for two lists of fitting field values of a covered type, the field-wise
    comparison holds exactly when the RDATA packed from the values with lower-cased names are the same octets -/
theorem dup_iff_wire (U : List CStep) (v1 v2 : List Val) (hg : GoodPlan U = true) (h1 : WFPlan [] U v1) (h2 : WFPlan [] U v2) :
    dupVals v1 v2 = true ↔
      packPlan (stripPlan U) (v1.map lowerVal) = packPlan (stripPlan U) (v2.map lowerVal) := by
  rw [dupVals_iff]
  constructor
  · intro h; rw [h]
  · intro h
    exact pack_injective U _ _ hg (by simpa using wfPlan_lower [] U v1 h1) (by simpa using wfPlan_lower [] U v2 h2) h

/-- the comparison is an equivalence on field values -/
theorem dupVals_equiv (a b c : List Val) : dupVals a a = true ∧ (dupVals a b = true → dupVals b a = true) ∧
    (dupVals a b = true → dupVals b c = true → dupVals a c = true) := by
  simp only [dupVals_iff]
  exact ⟨trivial, fun h => h.symm, fun h1 h2 => h1.trans h2⟩

end Dns.C20W
