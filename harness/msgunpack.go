package main

import (
	"fmt"
	"strings"

	"github.com/miekg/dns"
)

// renderMsg describes what Msg.Unpack left in a fresh message, in the format of the Lean model's msg.unpack line:
// header fields, then per section the records as owner/type/class/ttl/rdlength/re-packed octets ("~": no RDATA,
// "E": the packer refuses the decoded record).
func renderMsg(m *dns.Msg, failed bool) string {
	b := func(x bool) string {
		if x {
			return "1"
		}
		return "0"
	}
	nm := func(s string) string {
		if s == "" {
			return "-"
		}
		return hxs(s)
	}
	st := "ok"
	if failed {
		st = "err"
	}
	flags := b(m.Response) + b(m.Authoritative) + b(m.Truncated) + b(m.RecursionDesired) + b(m.RecursionAvailable) +
		b(m.Zero) + b(m.AuthenticatedData) + b(m.CheckingDisabled)
	out := []string{st, fmt.Sprint(m.Id), fmt.Sprint(m.Opcode), fmt.Sprint(m.Rcode), flags, fmt.Sprintf("q:%d", len(m.Question))}
	for _, q := range m.Question {
		out = append(out, fmt.Sprintf("%s/%d/%d", nm(q.Name), q.Qtype, q.Qclass))
	}
	buf := make([]byte, 70000)
	sec := func(tag string, rrs []dns.RR) {
		out = append(out, fmt.Sprintf("%s:%d", tag, len(rrs)))
		for _, rr := range rrs {
			h := rr.Header()
			rdl := h.Rdlength // PackRR below updates the field (documented bookkeeping)
			body := "~"
			if rdl != 0 {
				body = guard(func() string {
					off, err := dns.PackRR(rr, buf, 0, nil, false)
					if err != nil {
						return "E"
					}
					return hx(buf[:off])
				})
			}
			out = append(out, fmt.Sprintf("%s/%d/%d/%d/%d/%s", nm(h.Name), h.Rrtype, h.Class, h.Ttl, rdl, body))
		}
	}
	sec("an", m.Answer)
	sec("ns", m.Ns)
	sec("ex", m.Extra)
	return strings.Join(out, " ")
}

// msgUnpackCorr: the whole-message decoder model (DnsModel/MsgUnpack.lean: header, counts, questions, record
// headers, generated bodies with the message as compression context) against Msg.Unpack on the same octets.
func msgUnpackCorr(c *Ctx, stream string, b []byte) {
	if len(b) > 4096 {
		return
	}
	got := guard(func() string {
		var m dns.Msg
		err := m.Unpack(b)
		if len(b) < 12 {
			if err != nil {
				return "hdr-err"
			}
			return "hdr-ok?"
		}
		return renderMsg(&m, err != nil)
	})
	arg := "-"
	if len(b) > 0 {
		arg = hx(b)
	}
	c.OpK(stream, "msg.unpack "+arg, got, len(b) > 12, "msg-unpack")
	// and back: what Pack (no compression) makes of the decoded message against the model's plain packer
	if len(b) >= 12 {
		re := guard(func() string {
			var m dns.Msg
			if err := m.Unpack(b); err != nil {
				return "err"
			}
			m.Compress = false
			w, err := m.Pack()
			if err != nil {
				return "E"
			}
			return hx(w)
		})
		c.OpK(stream, "msg.repack "+arg, re, len(b) > 12, "msg-repack")
		// and with compression: one map threaded through questions and sections (messageC_roundtrip)
		rc := guard(func() string {
			var m dns.Msg
			if err := m.Unpack(b); err != nil {
				return "err"
			}
			m.Compress = true
			w, err := m.Pack()
			if err != nil {
				return "E"
			}
			return hx(w)
		})
		c.OpK(stream, "msg.packc "+arg, rc, len(b) > 12, "msg-packc")
		// and what Len() predicts for the decoded message, without and with compression
		ln := guard(func() string {
			var m dns.Msg
			if err := m.Unpack(b); err != nil {
				return "err"
			}
			m.Compress = false
			l0 := m.Len()
			m.Compress = true
			return fmt.Sprintf("%d %d", l0, m.Len())
		})
		c.OpK(stream, "msg.len "+arg, ln, len(b) > 12, "msg-len")
	}
}
