/-
  Instance facts about the comparison plans regenerated from /repo's zduplicate.go.
-/
import DnsModel.Generated.Layouts
import DnsModel.Generated.DupPlans
namespace Dns.Instance
open Dns

def fieldsOf (steps : List (String × String × String × String)) : List String :=
  steps.flatMap fun s =>
    if s.1 == "packIPSECGateway" then ["GatewayAddr", "GatewayHost"] else [s.2.1]

def nameFieldsOf (steps : List (String × String × String × String)) : List String :=
  steps.flatMap fun s =>
    if s.1 == "packDomainName" || s.1 == "packDataDomainNames" then [s.2.1]
    else if s.1 == "packIPSECGateway" then ["GatewayHost"] else []

def dupOf (t : String) : Option (List String × List String) := Gen.dupPlans.lookup t

/-- **every field is compared**: for every record type with generated code, each field that is packed into
    the RDATA is read by `isDuplicate` (OPT and the types without RDATA have hand-written / empty plans) -/
theorem dup_plans_complete :
    (Gen.packPlans.all fun p =>
      p.1 == "OPT" || match dupOf p.1 with
        | some (cmp, _) => (fieldsOf p.2).all fun f => cmp.contains f
        | none => false) = true := by
  decide +kernel

/-- **names are compared case-insensitively**: every domain-name field goes through `isDuplicateName` -/
theorem dup_names_casefold :
    (Gen.packPlans.all fun p =>
      p.1 == "OPT" || match dupOf p.1 with
        | some (_, names) => (nameFieldsOf p.2).all fun f => names.contains f
        | none => false) = true := by
  decide +kernel

end Dns.Instance
