/-
  C06 — `$GENERATE`: "every $ and ${offset,width,base} replaced by the iterator value": the walk of the sub-reader over the
  right-hand side (`genLine`) is the rendering, for the iterator value, of a reading of the right-hand side that does not
  depend on that value — literal octets (escapes kept as the lexer wants them), `$` places, `${offset,width,base}` places —
  so every line of a `$GENERATE` has the same shape, and differs from the others only in the numbers written at those places.
-/
import DnsModel.Generate
namespace Dns.C06L
open Dns

/-- what stands at a place of the right-hand side -/
inductive GPiece where
  | lit (bs : Bytes)          -- octets copied as they are
  | cur                       -- `$`: the iterator value in decimal
  | fmt (g : GMod)            -- `${offset,width,base}`: the iterator value plus offset, in the given width and base
deriving Repr

/-- the reading of the right-hand side (`none`: a syntax error or a modifier outside the range the directive allows);
    `esc`: whether a backslash is pending, also at the end (it is carried into the next line) -/
def pieces (start stop : Int) : (fuel : Nat) → Bytes → (esc : Bool) → Option (List GPiece × Bool)
  | 0, _, _ => none
  | _ + 1, [], esc => some ([], esc)
  | f + 1, c :: rest, esc =>
    if c = 92 then
      if esc then (pieces start stop f rest false).map (fun r => (.lit [92] :: r.1, r.2))
      else pieces start stop f rest true
    else if c = 36 then
      if esc then (pieces start stop f rest false).map (fun r => (.lit [36] :: r.1, r.2))
      else match rest with
        | [] => some ([.cur], esc)
        | 36 :: rest' => (pieces start stop f rest' esc).map (fun r => (.lit [36] :: r.1, r.2))
        | 123 :: rest' =>
          match rest'.span (· != 125) with
          | (_, []) => none
          | (m, _ :: after) =>
            match modToPrintf m with
            | none => none
            | some g =>
              if wrap64 (start + g.offset) < 0 ∨ wrap64 (stop + g.offset) > 2147483647 then none
              else (pieces start stop f after esc).map (fun r => (.fmt g :: r.1, r.2))
        | _ => (pieces start stop f rest esc).map (fun r => (.cur :: r.1, r.2))
    else
      if esc then (pieces start stop f rest false).map (fun r => (.lit [92, c] :: r.1, r.2))
      else (pieces start stop f rest false).map (fun r => (.lit [c] :: r.1, r.2))

/-- a piece written for the iterator value `cur` -/
def renderPiece (cur : Int) : GPiece → Bytes
  | .lit bs => bs
  | .cur => fmtNum cur.toNat 0 10 false
  | .fmt g => fmtInt (wrap64 (cur + g.offset)) g.width g.base g.upper

def render (cur : Int) (ps : List GPiece) : Bytes := ps.flatMap (renderPiece cur)

/-- **genLine_render**: the line the sub-reader writes for the iterator value `cur` is the rendering of the pieces of the
    right-hand side for `cur`, followed by a line feed; errors and the pending-escape flag do not depend on `cur` -/
theorem genLine_render (start stop cur : Int) (fuel : Nat) (tmpl : Bytes) (esc : Bool) (out : Bytes) :
    genLine start stop cur fuel tmpl esc out =
      (pieces start stop fuel tmpl esc).map (fun r => (out ++ render cur r.1 ++ [10], r.2)) := by
  induction fuel generalizing tmpl esc out with
  | zero => simp [genLine, pieces]
  | succ f ih =>
    cases tmpl with
    | nil => simp [genLine, pieces, render]
    | cons c rest =>
      simp only [genLine, pieces]
      by_cases h92 : c = 92
      · simp only [h92, if_true]
        cases esc with
        | true =>
          simp only [if_true, ih]
          cases pieces start stop f rest false <;> simp [render, renderPiece, List.append_assoc]
        | false => simp only [Bool.false_eq_true, if_false, ih]
      · simp only [h92, if_false]
        by_cases h36 : c = 36
        · simp only [h36, if_true]
          cases esc with
          | true =>
            simp only [if_true, ih]
            cases pieces start stop f rest false <;> simp [render, renderPiece, List.append_assoc]
          | false =>
            simp only [Bool.false_eq_true, if_false]
            match rest with
            | [] => simp [render, renderPiece]
            | d :: rest' =>
              split
              · rename_i heq; cases heq
              · rename_i r heq
                simp only [List.cons.injEq] at heq
                obtain ⟨rfl, rfl⟩ := heq
                simp only [ih]
                cases pieces start stop f rest' false <;> simp [render, renderPiece, List.append_assoc]
              · rename_i r heq
                simp only [List.cons.injEq] at heq
                obtain ⟨rfl, rfl⟩ := heq
                simp only
                cases hsp : rest'.span (· != 125) with
                | mk m tl =>
                  cases tl with
                  | nil => simp
                  | cons _ after =>
                    simp only
                    cases hm : modToPrintf m with
                    | none => simp
                    | some g =>
                      simp only
                      split
                      · simp
                      · simp only [ih]
                        cases pieces start stop f after false <;> simp [render, renderPiece, List.append_assoc]
              · rename_i h1 h2 h3
                split
                · rename_i heq; cases heq
                · rename_i r heq; exact absurd heq (h2 r)
                · rename_i r heq; exact absurd heq (h3 r)
                · simp only [ih]
                  cases pieces start stop f (d :: rest') false <;> simp [render, renderPiece, List.append_assoc]
        · simp only [h36, if_false]
          cases esc with
          | true =>
            simp only [if_true, ih]
            cases pieces start stop f rest false <;> simp [render, renderPiece, List.append_assoc]
          | false =>
            simp only [Bool.false_eq_true, if_false, ih]
            cases pieces start stop f rest false <;> simp [render, renderPiece, List.append_assoc]

/-- the shape of a line does not depend on the iterator value: two values give lines that differ only in what is
    rendered at the `$` and `${…}` places -/
theorem lines_same_shape (start stop c1 c2 : Int) (fuel : Nat) (tmpl : Bytes) (esc : Bool) :
    (genLine start stop c1 fuel tmpl esc []).isSome = (genLine start stop c2 fuel tmpl esc []).isSome ∧
    ∀ ps e, pieces start stop fuel tmpl esc = some (ps, e) →
      genLine start stop c1 fuel tmpl esc [] = some (render c1 ps ++ [10], e) ∧
      genLine start stop c2 fuel tmpl esc [] = some (render c2 ps ++ [10], e) := by
  rw [genLine_render, genLine_render]
  refine ⟨by cases pieces start stop fuel tmpl esc <;> rfl, ?_⟩
  intro ps e h
  simp [h]

example : (pieces 1 3 10 [97, 36, 46, 36, 123, 49, 44, 51, 44, 120, 125] false).map (fun r => (r.1.length, r.2)) = some (4, false) := by
  decide

end Dns.C06L
