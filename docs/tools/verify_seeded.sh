#!/bin/bash
export GOFLAGS=-mod=mod GOPROXY=off
WT=${WTV:-/tmp/wtv9}
rm -rf $WT; git -C /repo worktree prune; git -C /repo worktree add --detach $WT HEAD >/dev/null 2>&1
for d in $(for x in "$@"; do echo ${SEEDDIR:-/tmp/seeded9}/$x; done); do
  id=$(basename $d)
  cd $WT && git checkout -q -- . && git clean -fdq
  if ! git apply --check $d/patch.diff 2>/dev/null; then echo "$id APPLY-FAIL"; continue; fi
  cp $d/demo_test.go $WT/zz_${id}_demo_test.go
  p1=$(go test -vet=off -count=1 -run 'Test' . 2>&1 | tail -1)
  git apply $d/patch.diff
  p2=$(go test -vet=off -count=1 . 2>&1 | tail -1 | cut -c1-60)
  rm -f $WT/zz_${id}_demo_test.go
  p3=$(go build ./... 2>&1 | tail -1; go test -vet=off -count=1 ./... 2>&1 | tr '\n' ' ' | cut -c1-150)
  echo "$id | pristine+demo: $p1 | patch+demo: $p2 | patch: $p3"
done
cd /; git -C /repo worktree remove --force $WT
echo DONE
