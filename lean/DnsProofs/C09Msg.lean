/-
  C09 (whole messages) — what `Truncate` keeps packs within its budget, on the whole-message models: the generic
  truncation machine (DnsModel/Truncate.lean) run with the model of `r.len(off, compression)` (DnsModel/MsgLen.lean:
  `lenItem`, the translated `len()` bodies with Len's simulated compression), the kept message packed by the model of
  `Msg.Pack()` with compression (DnsModel/MsgPackC.lean).  Composition of `kept_len_le` (C09) with
  `lenMsg_ge_packMsgC` (C08).
-/
import DnsProofs.C09
import DnsProofs.C08Plain
import DnsProofs.C08ExactMsg
namespace Dns.C09M
open Dns Dns.MU Dns.Len Dns.C08M Dns.C02M Dns.C09

/-- the questions and records of a message in the order `Len` walks them -/
def items (qs : List Qm) (an ns ex : List RRm) : List (Sum Qm RRm) :=
  qs.map Sum.inl ++ an.map Sum.inr ++ ns.map Sum.inr ++ ex.map Sum.inr

theorem lenFold_questions (qs : List Qm) (l : Nat) (c : Option (List Bytes)) :
    lenFold lenItem (qs.map Sum.inl) l c =
      qs.foldl (fun (a : Nat × Option (List Bytes)) q =>
        let r := domainNameLen q.name a.1 a.2 true; (a.1 + r.1 + 4, r.2)) (l, c) := by
  induction qs generalizing l c with
  | nil => rfl
  | cons q qs ih =>
    simp only [List.map_cons, lenFold, lenItem, List.foldl_cons]
    rw [ih]
    simp only [Nat.add_assoc]

theorem lenFold_section (rs : List RRm) (l : Nat) (c : Option (List Bytes)) (r : Nat × Option (List Bytes))
    (h : lenSection l c rs = some r) : lenFold lenItem (rs.map Sum.inr) l c = r := by
  induction rs generalizing l c with
  | nil => simp only [lenSection, Option.some.injEq] at h; subst h; rfl
  | cons x rs ih =>
    simp only [lenSection] at h
    cases hx : lenRRC l c x with
    | none => simp [hx] at h
    | some q =>
      simp only [hx, Option.bind_some] at h
      simp only [List.map_cons, lenFold, lenItem, hx, Option.getD_some]
      exact ih _ _ h

/-- `Msg.Len()` with `Compress` is the fold of `r.len` over questions and sections -/
theorem lenMsg_eq_fold (m : MsgM) (n : Nat) (h : lenMsg m true = some n)
    (hcomp : ¬ (m.question.length ≤ 1 ∧ m.answer.isEmpty ∧ m.ns.isEmpty ∧ m.extra.isEmpty)) :
    n = (lenFold lenItem (items m.question m.answer m.ns m.extra) 12 (some [])).1 := by
  have hc0 : (decide (m.question.length > 1) || !m.answer.isEmpty || !m.ns.isEmpty || !m.extra.isEmpty) = true := by
    by_cases h1 : m.question.length > 1
    · simp [h1]
    · have : m.question.length ≤ 1 := by omega
      cases ha : m.answer.isEmpty <;> cases hn : m.ns.isEmpty <;> cases he : m.extra.isEmpty <;> simp_all
  simp only [lenMsg, hc0, Bool.and_self, ↓reduceIte] at h
  simp only [items, lenFold_append, lenFold_questions]
  generalize m.question.foldl (fun (a : Nat × Option (List Bytes)) q =>
    let r := domainNameLen q.name a.1 a.2 true; (a.1 + r.1 + 4, r.2)) (12, some []) = q at h ⊢
  cases ha : lenSection q.1 q.2 m.answer with
  | none => simp [ha] at h
  | some a =>
    simp only [ha, Option.bind_some] at h
    rw [lenFold_section m.answer q.1 q.2 a ha]
    cases hn : lenSection a.1 a.2 m.ns with
    | none => simp [hn] at h
    | some b =>
      simp only [hn, Option.bind_some] at h
      rw [lenFold_section m.ns a.1 a.2 b hn]
      cases he : lenSection b.1 b.2 m.extra with
      | none => simp [he] at h
      | some e =>
        simp only [he, Option.map_some, Option.some.injEq] at h
        rw [lenFold_section m.extra b.1 b.2 e he]
        exact h.symm

/-- the message as the truncation machine sees it (the OPT record, if any, set aside by the caller) -/
def toT (m : MsgM) : TMsg (Sum Qm RRm) :=
  ⟨m.question.map Sum.inl, m.answer.map Sum.inr, m.ns.map Sum.inr, m.extra.map Sum.inr, none, m.hdr.truncated, false⟩

/-- **what Truncate keeps packs within the budget — whole messages**: for every decoded message with records of the
    covered types and every budget that leaves room for the questions, the message made of the questions and the
    prefixes of the three sections that the truncation machine keeps (run with the model of `r.len`), packed by the
    model of `Msg.Pack()` with compression, is no longer than the budget -/
theorem truncated_message_within_budget (m : MsgM) (size : Int) (hq : ∀ q ∈ m.question, NameOK q.name)
    (hcov : ∀ r ∈ m.answer ++ m.ns ++ m.extra, Covered r)
    (hfit : ((lenFold lenItem (m.question.map Sum.inl) 12 (some [])).1 : Int) ≤ size) :
    let c := truncCounts lenItem (some []) size (toT m)
    let kept : MsgM := { m with answer := m.answer.take c.a.2.1, ns := m.ns.take c.n.2.1, extra := m.extra.take c.e.2.1 }
    ¬ (kept.question.length ≤ 1 ∧ kept.answer.isEmpty ∧ kept.ns.isEmpty ∧ kept.extra.isEmpty) →
    ∀ (w : Bytes), packMsgCOf kept = some w → ∀ (n : Nat), lenMsg kept true = some n → (w.length : Int) ≤ size := by
  intro c kept hcomp w hp n hl
  have hcov' : ∀ r ∈ kept.answer ++ kept.ns ++ kept.extra, Covered r := by
    intro r hr
    simp only [kept, List.mem_append] at hr
    apply hcov r
    simp only [List.mem_append]
    rcases hr with (h | h) | h
    · exact Or.inl (Or.inl (List.mem_of_mem_take h))
    · exact Or.inl (Or.inr (List.mem_of_mem_take h))
    · exact Or.inr (List.mem_of_mem_take h)
  have h1 := lenMsg_ge_packMsgC kept hq hcov' hcomp w hp n hl
  have h2 := lenMsg_eq_fold kept n hl hcomp
  have h3 := kept_len_le lenItem (some []) size (toT m) hfit
  simp only [toT] at h3
  have h4 : items kept.question kept.answer kept.ns kept.extra =
      m.question.map Sum.inl ++ (m.answer.map Sum.inr).take c.a.2.1 ++ (m.ns.map Sum.inr).take c.n.2.1 ++
        (m.extra.map Sum.inr).take c.e.2.1 := by
    simp only [items, kept, List.map_take]
  rw [h4] at h2
  have : (n : Int) ≤ size := by rw [h2]; exact h3
  omega

end Dns.C09M

namespace Dns.C09M
open Dns Dns.MU Dns.Len Dns.C08M Dns.C02M Dns.C09

/-- the OPT record (owner: the root) measures the same wherever it stands and whatever has been seen before:
    `Len(edns0)`, which `Truncate` takes off its budget, is what `Msg.Len()` adds for it at the end -/
theorem lenRRC_opt_indep (opt : RRm) (hname : opt.name = [46]) (hkind : opt.kind = "OPT") (off : Nat)
    (c : Option (List Bytes)) : lenRRC off c opt = (lenRRC 0 none opt).map (fun q => (q.1, c)) := by
  unfold lenRRC
  have hd : ∀ o (c' : Option (List Bytes)), domainNameLen opt.name o c' true = (1, c') := by
    intro o c'; rw [hname]; simp [domainNameLen]
  simp only [hd, hkind, ↓reduceIte]
  cases fieldsOfRR opt with
  | none => rfl
  | some fs => simp [planLenC, stepLenC]

/-- the fold over a list with one more record at the end -/
theorem lenFold_snoc (xs : List (Sum Qm RRm)) (r : RRm) (l : Nat) (c : Option (List Bytes)) :
    lenFold lenItem (xs ++ [Sum.inr r]) l c =
      ((lenFold lenItem xs l c).1 + (lenItem (lenFold lenItem xs l c).2 (lenFold lenItem xs l c).1 (Sum.inr r)).1,
       (lenItem (lenFold lenItem xs l c).2 (lenFold lenItem xs l c).1 (Sum.inr r)).2) := by
  rw [lenFold_append]
  simp [lenFold]

theorem lenSection_snoc (rs : List RRm) (o : RRm) (l : Nat) (c : Option (List Bytes)) (r : Nat × Option (List Bytes))
    (h : lenSection l c (rs ++ [o]) = some r) :
    ∃ q k, lenSection l c rs = some q ∧ lenRRC q.1 q.2 o = some k := by
  induction rs generalizing l c with
  | nil =>
    simp only [List.nil_append, lenSection] at h
    cases hk : lenRRC l c o with
    | none => simp [hk] at h
    | some k => exact ⟨(l, c), k, rfl, hk⟩
  | cons x rs ih =>
    simp only [List.cons_append, lenSection] at h
    cases hx : lenRRC l c x with
    | none => simp [hx] at h
    | some q0 =>
      simp only [hx, Option.bind_some] at h
      obtain ⟨q, k, h1, h2⟩ := ih _ _ h
      exact ⟨q, k, by simp [lenSection, hx, h1], h2⟩

/-- **Truncate with an OPT record, whole messages**: the machine is run on the message without its OPT record and with
    the budget `size − Len(opt)`; the kept message with the OPT record appended again packs into at most `size` -/
theorem truncated_with_opt_within_size (m : MsgM) (opt : RRm) (hname : opt.name = [46]) (hkind : opt.kind = "OPT")
    (hoptcov : Covered opt) (size : Int) (optLen : Nat) (hol : lenRRC 0 none opt = some (optLen, none))
    (hq : ∀ q ∈ m.question, NameOK q.name) (hcov : ∀ r ∈ m.answer ++ m.ns ++ m.extra, Covered r)
    (hfit : ((lenFold lenItem (m.question.map Sum.inl) 12 (some [])).1 : Int) ≤ size - optLen) :
    let c := truncCounts lenItem (some []) (size - optLen) (toT m)
    let kept : MsgM := { m with answer := m.answer.take c.a.2.1, ns := m.ns.take c.n.2.1,
                                 extra := m.extra.take c.e.2.1 ++ [opt] }
    ∀ (w : Bytes), packMsgCOf kept = some w → ∀ (n : Nat), lenMsg kept true = some n → (w.length : Int) ≤ size := by
  intro c kept w hp n hl
  have hcomp : ¬ (kept.question.length ≤ 1 ∧ kept.answer.isEmpty ∧ kept.ns.isEmpty ∧ kept.extra.isEmpty) := by
    intro h; simp [kept] at h
  have hcov' : ∀ r ∈ kept.answer ++ kept.ns ++ kept.extra, Covered r := by
    intro r hr
    simp only [kept, List.mem_append, List.mem_singleton] at hr
    rcases hr with (h | h) | (h | h)
    · exact hcov r (by simp [List.mem_of_mem_take h])
    · exact hcov r (by simp [List.mem_of_mem_take h])
    · exact hcov r (by simp [List.mem_of_mem_take h])
    · rw [h]; exact hoptcov
  have h1 := lenMsg_ge_packMsgC kept hq hcov' hcomp w hp n hl
  have h2 := lenMsg_eq_fold kept n hl hcomp
  have h3 := kept_len_le lenItem (some []) (size - optLen) (toT m) hfit
  simp only [toT] at h3
  have h4 : items kept.question kept.answer kept.ns kept.extra =
      (m.question.map Sum.inl ++ (m.answer.map Sum.inr).take c.a.2.1 ++ (m.ns.map Sum.inr).take c.n.2.1 ++
        (m.extra.map Sum.inr).take c.e.2.1) ++ [Sum.inr opt] := by
    simp only [items, kept, List.map_take, List.map_append, List.map_cons, List.map_nil, List.append_assoc]
  rw [h4, lenFold_snoc] at h2
  simp only [lenItem] at h2
  rw [lenRRC_opt_indep opt hname hkind, hol] at h2
  simp only [Option.map_some, Option.getD_some] at h2
  generalize hF : (lenFold lenItem (m.question.map Sum.inl ++ (m.answer.map Sum.inr).take c.a.2.1 ++
    (m.ns.map Sum.inr).take c.n.2.1 ++ (m.extra.map Sum.inr).take c.e.2.1) 12 (some [])).1 = F at h2
  have h5 : (F : Int) ≤ size - optLen := by rw [← hF]; exact h3
  subst h2
  push_cast
  omega

end Dns.C09M

namespace Dns.C09M
open Dns Dns.MU Dns.Len Dns.C08M Dns.C02M Dns.C09

/-- **a reply that fits is left alone, and then it does fit**: when the uncompressed `Len()` is within the (effective)
    size, `Truncate` only clears `Compress` (`truncate_fits`), and the plain packing is within that size -/
theorem fits_packs_within (m : MsgM) (size : Int) (hq : ∀ q ∈ m.question, NameOK q.name)
    (hcov : ∀ r ∈ m.answer ++ m.ns ++ m.extra, Covered r) (ulen : Nat) (hl : lenMsg m false = some ulen)
    (hfit : (ulen : Int) ≤ effSize size) (w : Bytes) (hp : packMsgPlain m = some w) :
    (w.length : Int) ≤ effSize size := by
  have := lenMsg_ge_packMsgPlain m false hq hcov (Or.inl rfl) w hp ulen hl
  omega

end Dns.C09M

namespace Dns.C09M
open Dns Dns.MU Dns.Len Dns.C08M Dns.C02M Dns.C09 Dns.C08X

/-! ### the first dropped record would not have fitted (escape-free messages of the exact types) -/

/-- one guarded section loop: if it dropped a record, the kept prefix fills the budget exactly or the first dropped
    record takes the running length over it -/
theorem guard_first_dropped {R σ : Type} (lenf : σ → Nat → R → Nat × σ) (size : Int) (rs : List R) (l : Nat) (st : σ)
    (hl : (l : Int) ≤ size)
    (h : (if (l : Int) < size then truncateLoop lenf size rs l st 0 else ((l : Int), 0, st)).2.1 < rs.length) :
    let k := (if (l : Int) < size then truncateLoop lenf size rs l st 0 else ((l : Int), 0, st)).2.1
    ∃ r, rs[k]? = some r ∧ (((lenFold lenf (rs.take k) l st).1 : Int) = size ∨
      (((lenFold lenf (rs.take k) l st).1 + (lenf (lenFold lenf (rs.take k) l st).2 (lenFold lenf (rs.take k) l st).1 r).1 : Nat) : Int) > size) := by
  by_cases hg : (l : Int) < size
  · simp only [hg, ↓reduceIte] at h ⊢
    have := loop_first_dropped lenf size rs l st 0 (by simpa using h)
    simpa using this
  · simp only [hg, ↓reduceIte] at h ⊢
    cases rs with
    | nil => simp at h
    | cons r rs => exact ⟨r, rfl, Or.inl (by simp [lenFold]; omega)⟩

/-- the messages `lenMsg_eq_packMsgC` speaks about -/
def ExactMsg (m : MsgM) : Prop :=
  (∀ q ∈ m.question, PlainName q.name) ∧ ∀ r ∈ m.answer ++ m.ns ++ m.extra, ExactRR r

theorem exact_len_defined_fold (m : MsgM) (hx : ExactMsg m)
    (hcomp : ¬ (m.question.length ≤ 1 ∧ m.answer.isEmpty ∧ m.ns.isEmpty ∧ m.extra.isEmpty))
    (w : Bytes) (hp : packMsgCOf m = some w) (n : Nat) (hl : lenMsg m true = some n) :
    w.length = (lenFold lenItem (items m.question m.answer m.ns m.extra) 12 (some [])).1 := by
  rw [lenMsg_eq_packMsgC m hx.1 hx.2 hcomp w hp n hl]
  exact lenMsg_eq_fold m n hl hcomp

/-- **the first dropped answer record would not have fitted**: when the machine cuts the answer section of an
    escape-free message of the exact types, either what it kept fills the budget to the octet, or the message of the
    questions, the kept answers and the first dropped one packs to more than the budget -/
theorem first_dropped_answer_does_not_fit (m : MsgM) (hx : ExactMsg m) (size : Int)
    (hfit : ((lenFold lenItem (m.question.map Sum.inl) 12 (some [])).1 : Int) ≤ size) :
    let c := truncCounts lenItem (some []) size (toT m)
    c.a.2.1 < m.answer.length →
    let more : MsgM := { m with answer := m.answer.take (c.a.2.1 + 1), ns := [], extra := [] }
    ((lenFold lenItem (items m.question (m.answer.take c.a.2.1) [] []) 12 (some [])).1 : Int) = size ∨
    ∀ (w : Bytes), packMsgCOf more = some w → ∀ (n : Nat), lenMsg more true = some n → size < (w.length : Int) := by
  intro c hcut more
  have hcut' : c.a.2.1 < (m.answer.map Sum.inr : List (Sum Qm RRm)).length := by simpa using hcut
  obtain ⟨r, hr0, hcase0⟩ := guard_first_dropped lenItem size (m.answer.map Sum.inr)
    (lenFold lenItem (m.question.map Sum.inl) 12 (some [])).1 (lenFold lenItem (m.question.map Sum.inl) 12 (some [])).2
    hfit hcut'
  have hr : (m.answer.map Sum.inr : List (Sum Qm RRm))[c.a.2.1]? = some r := hr0
  have hcase : ((lenFold lenItem ((m.answer.map Sum.inr).take c.a.2.1)
        (lenFold lenItem (m.question.map Sum.inl) 12 (some [])).1 (lenFold lenItem (m.question.map Sum.inl) 12 (some [])).2).1 : Int) = size ∨
      (((lenFold lenItem ((m.answer.map Sum.inr).take c.a.2.1)
        (lenFold lenItem (m.question.map Sum.inl) 12 (some [])).1 (lenFold lenItem (m.question.map Sum.inl) 12 (some [])).2).1 +
        (lenItem (lenFold lenItem ((m.answer.map Sum.inr).take c.a.2.1)
          (lenFold lenItem (m.question.map Sum.inl) 12 (some [])).1 (lenFold lenItem (m.question.map Sum.inl) 12 (some [])).2).2
          (lenFold lenItem ((m.answer.map Sum.inr).take c.a.2.1)
          (lenFold lenItem (m.question.map Sum.inl) 12 (some [])).1 (lenFold lenItem (m.question.map Sum.inl) 12 (some [])).2).1 r).1 : Nat) : Int) > size := hcase0
  clear hr0 hcase0
  have hfoldk : lenFold lenItem (items m.question (m.answer.take c.a.2.1) [] []) 12 (some []) =
      lenFold lenItem ((m.answer.map Sum.inr).take c.a.2.1) (lenFold lenItem (m.question.map Sum.inl) 12 (some [])).1
        (lenFold lenItem (m.question.map Sum.inl) 12 (some [])).2 := by
    simp only [items, List.map_nil, List.append_nil, lenFold_append, List.map_take]
  rcases hcase with h | h
  · left; rw [hfoldk]; exact h
  · right
    intro w hp n hl
    have hne : ¬ (more.question.length ≤ 1 ∧ more.answer.isEmpty ∧ more.ns.isEmpty ∧ more.extra.isEmpty) := by
      intro hh
      have : (m.answer.take (c.a.2.1 + 1)).isEmpty = true := hh.2.1
      have hlen : (m.answer.take (c.a.2.1 + 1)).length = c.a.2.1 + 1 := by
        rw [List.length_take]; omega
      cases hm : m.answer.take (c.a.2.1 + 1) with
      | nil => rw [hm] at hlen; simp at hlen
      | cons _ _ => rw [hm] at this; simp at this
    have hxm : ExactMsg more := by
      refine ⟨hx.1, ?_⟩
      intro r' hr'
      simp only [more, List.append_nil, List.mem_append] at hr'
      exact hx.2 r' (by simp [List.mem_of_mem_take hr'])
    have hw := exact_len_defined_fold more hxm hne w hp n hl
    -- the fold over questions, kept answers and the first dropped one
    obtain ⟨r0, hr0a, hr0b⟩ : ∃ r0, m.answer[c.a.2.1]? = some r0 ∧ r = Sum.inr r0 := by
      rw [List.getElem?_map] at hr
      cases ha : m.answer[c.a.2.1]? with
      | none => rw [ha] at hr; simp at hr
      | some r0 => rw [ha] at hr; simp only [Option.map_some, Option.some.injEq] at hr; exact ⟨r0, rfl, hr.symm⟩
    have htake : m.answer.take (c.a.2.1 + 1) = m.answer.take c.a.2.1 ++ [r0] := by
      rw [List.take_succ, hr0a]; rfl
    have hitems : items more.question more.answer more.ns more.extra =
        (m.question.map Sum.inl ++ (m.answer.map Sum.inr).take c.a.2.1) ++ [Sum.inr r0] := by
      simp only [items, more, htake, List.map_append, List.map_cons, List.map_nil, List.append_nil, List.map_take,
        List.append_assoc]
    rw [hitems, lenFold_snoc, lenFold_append] at hw
    subst hr0b
    simp only at hw h
    rw [hw]
    exact_mod_cast h

/-- a guarded section loop that kept everything ends in the state of Len's fold over the section -/
theorem guard_all_kept {R σ : Type} (lenf : σ → Nat → R → Nat × σ) (size : Int) (rs : List R) (l : Nat) (st : σ)
    (h : (if (l : Int) < size then truncateLoop lenf size rs l st 0 else ((l : Int), 0, st)).2.1 = rs.length) :
    (if (l : Int) < size then truncateLoop lenf size rs l st 0 else ((l : Int), 0, st)).1 = ((lenFold lenf rs l st).1 : Int) ∧
    (if (l : Int) < size then truncateLoop lenf size rs l st 0 else ((l : Int), 0, st)).2.2 = (lenFold lenf rs l st).2 := by
  by_cases hg : (l : Int) < size
  · simp only [hg, ↓reduceIte] at h ⊢
    exact loop_all_kept lenf size rs l st 0 (by simpa using h)
  · simp only [hg, ↓reduceIte] at h ⊢
    have : rs = [] := List.eq_nil_of_length_eq_zero h.symm
    subst this
    simp [lenFold]

/-- the packing side of "would not have fitted": a message whose items are a kept part and one more record -/
theorem does_not_fit_core (more : MsgM) (hxm : ExactMsg more)
    (hne : ¬ (more.question.length ≤ 1 ∧ more.answer.isEmpty ∧ more.ns.isEmpty ∧ more.extra.isEmpty))
    (kept : List (Sum Qm RRm)) (r0 : RRm)
    (hitems : items more.question more.answer more.ns more.extra = kept ++ [Sum.inr r0]) (size : Int)
    (h : (((lenFold lenItem kept 12 (some [])).1 +
      (lenItem (lenFold lenItem kept 12 (some [])).2 (lenFold lenItem kept 12 (some [])).1 (Sum.inr r0)).1 : Nat) : Int) > size) :
    ∀ (w : Bytes), packMsgCOf more = some w → ∀ (n : Nat), lenMsg more true = some n → size < (w.length : Int) := by
  intro w hp n hl
  have hw := exact_len_defined_fold more hxm hne w hp n hl
  rw [hitems, lenFold_snoc] at hw
  simp only at hw
  rw [hw]
  exact_mod_cast h

theorem take_succ_snoc {α : Type} (xs : List α) (k : Nat) (x : α) (h : xs[k]? = some x) :
    xs.take (k + 1) = xs.take k ++ [x] := by
  rw [List.take_succ, h]; rfl

theorem nonempty_not_trivial (q : List Qm) (a n e : List RRm) (h : a ≠ [] ∨ n ≠ [] ∨ e ≠ []) :
    ¬ (q.length ≤ 1 ∧ a.isEmpty ∧ n.isEmpty ∧ e.isEmpty) := by
  intro hh
  simp only [List.isEmpty_iff] at hh
  rcases h with h | h | h
  · exact h hh.2.1
  · exact h hh.2.2.1
  · exact h hh.2.2.2

/-- **the first dropped authority record would not have fitted** (all answers kept) -/
theorem first_dropped_ns_does_not_fit (m : MsgM) (hx : ExactMsg m) (size : Int)
    (hfit : ((lenFold lenItem (m.question.map Sum.inl) 12 (some [])).1 : Int) ≤ size) :
    let c := truncCounts lenItem (some []) size (toT m)
    c.a.2.1 = m.answer.length → c.a.1 ≤ size → c.n.2.1 < m.ns.length →
    let more : MsgM := { m with ns := m.ns.take (c.n.2.1 + 1), extra := [] }
    ((lenFold lenItem (items m.question m.answer (m.ns.take c.n.2.1) []) 12 (some [])).1 : Int) = size ∨
    ∀ (w : Bytes), packMsgCOf more = some w → ∀ (n : Nat), lenMsg more true = some n → size < (w.length : Int) := by
  intro c hall hale hcut more
  -- the answer loop ended in Len's state over questions and answers
  have ha := guard_all_kept lenItem size (m.answer.map Sum.inr)
    (lenFold lenItem (m.question.map Sum.inl) 12 (some [])).1 (lenFold lenItem (m.question.map Sum.inl) 12 (some [])).2
    (by rw [List.length_map]; exact hall)
  have ha1 : c.a.1 = ((lenFold lenItem (m.answer.map Sum.inr) (lenFold lenItem (m.question.map Sum.inl) 12 (some [])).1
      (lenFold lenItem (m.question.map Sum.inl) 12 (some [])).2).1 : Int) := ha.1
  have ha2 : c.a.2.2 = (lenFold lenItem (m.answer.map Sum.inr) (lenFold lenItem (m.question.map Sum.inl) 12 (some [])).1
      (lenFold lenItem (m.question.map Sum.inl) 12 (some [])).2).2 := ha.2
  generalize hQA : lenFold lenItem (m.answer.map Sum.inr) (lenFold lenItem (m.question.map Sum.inl) 12 (some [])).1
      (lenFold lenItem (m.question.map Sum.inl) 12 (some [])).2 = qa at ha1 ha2
  have hn : c.n = (if (qa.1 : Int) < size then truncateLoop lenItem size (m.ns.map Sum.inr) qa.1 qa.2 0
      else ((qa.1 : Int), 0, qa.2)) := by
    show (if c.a.1 < size then truncateLoop lenItem size (m.ns.map Sum.inr) c.a.1.toNat c.a.2.2 0 else (c.a.1, 0, c.a.2.2)) = _
    rw [ha1, ha2]; simp
  have hcut' : (if (qa.1 : Int) < size then truncateLoop lenItem size (m.ns.map Sum.inr) qa.1 qa.2 0
      else ((qa.1 : Int), 0, qa.2)).2.1 < (m.ns.map Sum.inr : List (Sum Qm RRm)).length := by
    rw [← hn]; simpa using hcut
  obtain ⟨r, hr0, hcase0⟩ := guard_first_dropped lenItem size (m.ns.map Sum.inr) qa.1 qa.2 (by rw [← ha1]; exact hale) hcut'
  rw [← hn] at hr0 hcase0
  have hpre : lenFold lenItem (m.question.map Sum.inl ++ m.answer.map Sum.inr) 12 (some []) = qa := by
    rw [lenFold_append, hQA]
  have hfoldk : lenFold lenItem (items m.question m.answer (m.ns.take c.n.2.1) []) 12 (some []) =
      lenFold lenItem ((m.ns.map Sum.inr).take c.n.2.1) qa.1 qa.2 := by
    simp only [items, List.map_nil, List.append_nil, List.map_take]
    rw [lenFold_append, hpre]
  rcases hcase0 with h | h
  · left; rw [hfoldk]; exact h
  · right
    obtain ⟨r0, hr0a, hr0b⟩ : ∃ r0, m.ns[c.n.2.1]? = some r0 ∧ r = Sum.inr r0 := by
      rw [List.getElem?_map] at hr0
      cases ha : m.ns[c.n.2.1]? with
      | none => rw [ha] at hr0; simp at hr0
      | some r0 => rw [ha] at hr0; simp only [Option.map_some, Option.some.injEq] at hr0; exact ⟨r0, rfl, hr0.symm⟩
    subst hr0b
    have htake := take_succ_snoc m.ns c.n.2.1 r0 hr0a
    have hxm : ExactMsg more := by
      refine ⟨hx.1, ?_⟩
      intro r' hr'
      simp only [more, List.append_nil, List.mem_append] at hr'
      rcases hr' with h' | h'
      · exact hx.2 r' (by simp [h'])
      · exact hx.2 r' (by simp [List.mem_of_mem_take h'])
    refine does_not_fit_core more hxm (nonempty_not_trivial _ _ _ _ (Or.inr (Or.inl (by show m.ns.take (c.n.2.1 + 1) ≠ []; rw [htake]; simp))))
      (m.question.map Sum.inl ++ m.answer.map Sum.inr ++ (m.ns.map Sum.inr).take c.n.2.1) r0 ?_ size ?_
    · simp only [items, more, htake, List.map_append, List.map_cons, List.map_nil, List.append_nil, List.map_take,
        List.append_assoc]
    · rw [lenFold_append, hpre]; exact h

/-- **the first dropped additional record would not have fitted** (all answers and authority records kept) -/
theorem first_dropped_extra_does_not_fit (m : MsgM) (hx : ExactMsg m) (size : Int)
    (hfit : ((lenFold lenItem (m.question.map Sum.inl) 12 (some [])).1 : Int) ≤ size) :
    let c := truncCounts lenItem (some []) size (toT m)
    c.a.2.1 = m.answer.length → c.n.2.1 = m.ns.length → c.n.1 ≤ size → c.e.2.1 < m.extra.length →
    let more : MsgM := { m with extra := m.extra.take (c.e.2.1 + 1) }
    ((lenFold lenItem (items m.question m.answer m.ns (m.extra.take c.e.2.1)) 12 (some [])).1 : Int) = size ∨
    ∀ (w : Bytes), packMsgCOf more = some w → ∀ (n : Nat), lenMsg more true = some n → size < (w.length : Int) := by
  intro c hall hnall hnle hcut more
  have ha := guard_all_kept lenItem size (m.answer.map Sum.inr)
    (lenFold lenItem (m.question.map Sum.inl) 12 (some [])).1 (lenFold lenItem (m.question.map Sum.inl) 12 (some [])).2
    (by rw [List.length_map]; exact hall)
  have ha1 : c.a.1 = ((lenFold lenItem (m.answer.map Sum.inr) (lenFold lenItem (m.question.map Sum.inl) 12 (some [])).1
      (lenFold lenItem (m.question.map Sum.inl) 12 (some [])).2).1 : Int) := ha.1
  have ha2 : c.a.2.2 = (lenFold lenItem (m.answer.map Sum.inr) (lenFold lenItem (m.question.map Sum.inl) 12 (some [])).1
      (lenFold lenItem (m.question.map Sum.inl) 12 (some [])).2).2 := ha.2
  generalize hQA : lenFold lenItem (m.answer.map Sum.inr) (lenFold lenItem (m.question.map Sum.inl) 12 (some [])).1
      (lenFold lenItem (m.question.map Sum.inl) 12 (some [])).2 = qa at ha1 ha2
  have hn : c.n = (if (qa.1 : Int) < size then truncateLoop lenItem size (m.ns.map Sum.inr) qa.1 qa.2 0
      else ((qa.1 : Int), 0, qa.2)) := by
    show (if c.a.1 < size then truncateLoop lenItem size (m.ns.map Sum.inr) c.a.1.toNat c.a.2.2 0 else (c.a.1, 0, c.a.2.2)) = _
    rw [ha1, ha2]; simp
  have hnk := guard_all_kept lenItem size (m.ns.map Sum.inr) qa.1 qa.2 (by rw [← hn]; simpa using hnall)
  rw [← hn] at hnk
  generalize hQAN : lenFold lenItem (m.ns.map Sum.inr) qa.1 qa.2 = qan at hnk
  have he : c.e = (if (qan.1 : Int) < size then truncateLoop lenItem size (m.extra.map Sum.inr) qan.1 qan.2 0
      else ((qan.1 : Int), 0, qan.2)) := by
    show (if c.n.1 < size then truncateLoop lenItem size (m.extra.map Sum.inr) c.n.1.toNat c.n.2.2 0 else (c.n.1, 0, c.n.2.2)) = _
    rw [hnk.1, hnk.2]; simp
  have hcut' : (if (qan.1 : Int) < size then truncateLoop lenItem size (m.extra.map Sum.inr) qan.1 qan.2 0
      else ((qan.1 : Int), 0, qan.2)).2.1 < (m.extra.map Sum.inr : List (Sum Qm RRm)).length := by
    rw [← he]; simpa using hcut
  obtain ⟨r, hr0, hcase0⟩ := guard_first_dropped lenItem size (m.extra.map Sum.inr) qan.1 qan.2 (by rw [← hnk.1]; exact hnle) hcut'
  rw [← he] at hr0 hcase0
  have hpre : lenFold lenItem (m.question.map Sum.inl ++ m.answer.map Sum.inr ++ m.ns.map Sum.inr) 12 (some []) = qan := by
    rw [lenFold_append, lenFold_append, hQA, hQAN]
  have hfoldk : lenFold lenItem (items m.question m.answer m.ns (m.extra.take c.e.2.1)) 12 (some []) =
      lenFold lenItem ((m.extra.map Sum.inr).take c.e.2.1) qan.1 qan.2 := by
    simp only [items, List.map_take]
    rw [lenFold_append, hpre]
  rcases hcase0 with h | h
  · left; rw [hfoldk]; exact h
  · right
    obtain ⟨r0, hr0a, hr0b⟩ : ∃ r0, m.extra[c.e.2.1]? = some r0 ∧ r = Sum.inr r0 := by
      rw [List.getElem?_map] at hr0
      cases ha : m.extra[c.e.2.1]? with
      | none => rw [ha] at hr0; simp at hr0
      | some r0 => rw [ha] at hr0; simp only [Option.map_some, Option.some.injEq] at hr0; exact ⟨r0, rfl, hr0.symm⟩
    subst hr0b
    have htake := take_succ_snoc m.extra c.e.2.1 r0 hr0a
    have hxm : ExactMsg more := by
      refine ⟨hx.1, ?_⟩
      intro r' hr'
      simp only [more, List.mem_append] at hr'
      rcases hr' with (h' | h') | h'
      · exact hx.2 r' (by simp [h'])
      · exact hx.2 r' (by simp [h'])
      · exact hx.2 r' (by simp [List.mem_of_mem_take h'])
    refine does_not_fit_core more hxm (nonempty_not_trivial _ _ _ _ (Or.inr (Or.inr (by show m.extra.take (c.e.2.1 + 1) ≠ []; rw [htake]; simp))))
      (m.question.map Sum.inl ++ m.answer.map Sum.inr ++ m.ns.map Sum.inr ++ (m.extra.map Sum.inr).take c.e.2.1) r0 ?_ size ?_
    · simp only [items, more, htake, List.map_append, List.map_cons, List.map_nil, List.map_take, List.append_assoc]
    · rw [lenFold_append, hpre]; exact h

end Dns.C09M
