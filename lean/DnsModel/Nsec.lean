/-
  DnsModel.Nsec — the NSEC / NSEC3 / CSYNC / NXT type bitmap (msg_helpers.go packDataNsec / unpackDataNsec),
  the packer as the incremental algorithm it is.
-/
import DnsModel.Basic
namespace Dns

/-- bit `k` (0 = most significant) of an octet -/
def bitSet (b : Byte) (k : Nat) : Bool := (b >>> (UInt8.ofNat (7 - k))) &&& 1 == 1

/-- the indices of the set bits of an octet, most significant first — the order `unpackDataNsec` tests them in -/
def bitsOfByte (b : Byte) : List Nat := (List.range 8).filter (bitSet b)

/-- types of one window block: `base = window*256`, octet `j` carries types `base + 8j + k` -/
def typesOfBlock (base : Nat) : Nat → Bytes → List Nat
  | _, [] => []
  | j, b :: bs => (bitsOfByte b).map (fun k => base + 8 * j + k) ++ typesOfBlock base (j + 1) bs

/-- `unpackDataNsec` on the remaining RDATA; `lastw1` = last window + 1 (0 = none yet) -/
def unpackNsecLoop : (fuel : Nat) → Bytes → (lastw1 : Nat) → Option (List Nat)
  | 0, _, _ => none
  | _ + 1, [], _ => some []
  | _ + 1, [_], _ => none
  | f + 1, w :: l :: rest, lastw1 =>
    if w.toNat + 1 ≤ lastw1 then none           -- out of order
    else if l.toNat = 0 then none              -- empty block
    else if l.toNat > 32 then none
    else if l.toNat > rest.length then none
    else (unpackNsecLoop f (rest.drop l.toNat) (w.toNat + 1)).map
      (fun more => typesOfBlock (w.toNat * 256) 0 (rest.take l.toNat) ++ more)

def unpackNsec (rd : Bytes) : Option (List Nat) := unpackNsecLoop (rd.length + 1) rd 0

/-- state of the packer: finished blocks, last window, length and data octets of the block being written -/
structure NsecSt where
  done : Bytes
  lw : Nat
  ll : Nat
  data : Bytes
deriving Repr

def setBit (b : Byte) (k : Nat) : Byte := b ||| (1 <<< UInt8.ofNat (7 - k))

/-- one iteration of the `for _, t := range bitmap` loop -/
def packNsecStep (st : NsecSt) (t : Nat) : Option NsecSt :=
  let window := t / 256
  let length := (t % 256) / 8 + 1
  let st1 : NsecSt := if window > st.lw && st.ll != 0
    then ⟨st.done ++ [UInt8.ofNat st.lw, UInt8.ofNat st.ll] ++ st.data, st.lw, 0, []⟩ else st
  if window < st1.lw || length < st1.ll then none
  else
    let padded := st1.data ++ List.replicate (length - st1.data.length) 0
    some ⟨st1.done, window, length, padded.set (length - 1) (setBit (padded.getD (length - 1) 0) (t % 8))⟩

def packNsecFold : List Nat → NsecSt → Option NsecSt
  | [], st => some st
  | t :: ts, st => match packNsecStep st t with | some st' => packNsecFold ts st' | none => none

/-- `packDataNsec` into a zeroed, large enough buffer -/
def packNsec (types : List Nat) : Option Bytes :=
  if types.isEmpty then some []
  else (packNsecFold types ⟨[], 0, 0, []⟩).map
    (fun st => st.done ++ [UInt8.ofNat st.lw, UInt8.ofNat st.ll] ++ st.data)

end Dns
