package main

// Common machinery of the correspondence harness: PRNG, op recording, the Lean driver,
// predicate checks, result file.

import (
	"bufio"
	"bytes"
	"crypto/sha256"
	"encoding/base64"
	"encoding/hex"
	"encoding/json"
	"fmt"
	mrand "math/rand"
	"os"
	"os/exec"
	"sort"
	"strings"
	"time"
)

// ---------------------------------------------------------------- PRNG (splitmix64)

type Rng struct{ s uint64 }

func NewRng(seed uint64) *Rng { return &Rng{s: seed*0x9E3779B97F4A7C15 + 0x1234567} }
func (r *Rng) U64() uint64 {
	r.s += 0x9E3779B97F4A7C15
	z := r.s
	z = (z ^ (z >> 30)) * 0xBF58476D1CE4E5B9
	z = (z ^ (z >> 27)) * 0x94D049BB133111EB
	return z ^ (z >> 31)
}
func (r *Rng) Intn(n int) int {
	if n <= 0 {
		return 0
	}
	return int(r.U64() % uint64(n))
}
func (r *Rng) Bool() bool        { return r.U64()&1 == 1 }
func (r *Rng) Chance(p int) bool { return r.Intn(100) < p } // p percent
func (r *Rng) Byte() byte        { return byte(r.U64()) }
func (r *Rng) Bytes(n int) []byte {
	b := make([]byte, n)
	for i := range b {
		b[i] = r.Byte()
	}
	return b
}
func (r *Rng) Pick(xs []int) int { return xs[r.Intn(len(xs))] }

// ---------------------------------------------------------------- result

type Violation struct {
	Key    string `json:"key"`    // stable classification used by KNOWN_FINDINGS matchers
	Kind   string `json:"kind"`   // "predicate" (impl falsifies the spec) | "correspondence" (impl != model)
	Stream string `json:"stream"` // which generator
	Op     string `json:"op"`     // the operation line / input
	Impl   string `json:"impl"`
	Model  string `json:"model"`
	Note   string `json:"note,omitempty"`
}

type Result struct {
	Property    string         `json:"property"`
	Tier        string         `json:"tier"`
	Seed        uint64         `json:"seed"`
	Evaluations int            `json:"evaluations"`
	Distinct    int            `json:"distinct_nontrivial"`
	Rule        string         `json:"rule"`
	Samples     []string       `json:"samples"`
	Dist        map[string]int `json:"distribution"`
	ModelOps    int            `json:"model_ops"`
	Violations  []Violation    `json:"violations"`
	NViolations int            `json:"n_violations"`
	Notes       []string       `json:"notes,omitempty"`
	WallS       float64        `json:"wall_s"`
}

type pending struct {
	stream string
	op     string
	impl   string
	key    string
}

type Ctx struct {
	R        *Rng
	Tier     string
	Seed     uint64
	Res      Result
	seen     map[[8]byte]struct{}
	pend     []pending
	start    time.Time
	maxViol  int
	violKeys map[string]int
}

func NewCtx(prop, tier string, seed uint64) *Ctx {
	return &Ctx{R: NewRng(seed), Tier: tier, Seed: seed,
		Res:      Result{Property: prop, Tier: tier, Seed: seed, Dist: map[string]int{}, Violations: []Violation{}, Samples: []string{}},
		seen:     map[[8]byte]struct{}{},
		start:    time.Now(),
		maxViol:  400,
		violKeys: map[string]int{},
	}
}

// Scale returns quick or thorough sizes.
func (c *Ctx) Scale(quick, thorough int) int {
	if c.Tier == "thorough" {
		return thorough
	}
	return quick
}

func (c *Ctx) count(line string, nontrivial bool) {
	c.Res.Evaluations++
	if nontrivial {
		h := sha256.Sum256([]byte(line))
		var k [8]byte
		copy(k[:], h[:8])
		if _, ok := c.seen[k]; !ok {
			c.seen[k] = struct{}{}
			c.Res.Distinct++
			if len(c.Res.Samples) < 12 && (c.Res.Distinct%97 == 1) {
				c.Res.Samples = append(c.Res.Samples, line)
			}
		}
	}
}

func (c *Ctx) Hit(k string) { c.Res.Dist[k]++ }

// Op records one model operation together with the implementation's canonical output;
// the lines are compared with the Lean driver's output at Flush.
func (c *Ctx) Op(stream, op, impl string, nontrivial bool) {
	c.OpK(stream, op, impl, nontrivial, "")
}
func (c *Ctx) OpK(stream, op, impl string, nontrivial bool, key string) {
	c.count(op+" => "+impl, nontrivial)
	c.pend = append(c.pend, pending{stream, op, impl, key})
	if len(c.pend) >= 200000 {
		c.Flush()
	}
}

// Pred records the evaluation of a specification predicate on the implementation's output.
func (c *Ctx) Pred(stream, key, input string, ok bool, impl, want string, nontrivial bool) {
	c.count(stream+" "+input, nontrivial)
	if !ok {
		c.addViol(Violation{Key: key, Kind: "predicate", Stream: stream, Op: input, Impl: impl, Model: want})
	}
}

func (c *Ctx) addViol(v Violation) {
	c.Res.NViolations++
	c.violKeys[v.Key]++
	if c.violKeys[v.Key] <= 3 && len(c.Res.Violations) < c.maxViol {
		c.Res.Violations = append(c.Res.Violations, v)
	}
}

func driverPath() string {
	if p := os.Getenv("DNSDRIVER"); p != "" {
		return p
	}
	return verifDir() + "/lean/.lake/build/bin/dnsdriver"
}

// verifDir: the directory of the check that runs this harness (VERIF_DIR, set by ./check), so that a copy of /verif
// elsewhere reads its own generated files
func verifDir() string {
	if p := os.Getenv("VERIF_DIR"); p != "" {
		return p
	}
	return "/verif"
}

// RunDriver pipes op lines through the compiled Lean model and returns its output lines.
func RunDriver(ops []string) ([]string, error) {
	cmd := exec.Command(driverPath())
	var in bytes.Buffer
	for _, o := range ops {
		in.WriteString(o)
		in.WriteByte('\n')
	}
	cmd.Stdin = &in
	var out bytes.Buffer
	cmd.Stdout = &out
	cmd.Stderr = os.Stderr
	if err := cmd.Run(); err != nil {
		return nil, fmt.Errorf("lean driver: %v", err)
	}
	var lines []string
	sc := bufio.NewScanner(&out)
	sc.Buffer(make([]byte, 1<<20), 1<<28)
	for sc.Scan() {
		lines = append(lines, sc.Text())
	}
	if len(lines) != len(ops) {
		return lines, fmt.Errorf("lean driver returned %d lines for %d ops", len(lines), len(ops))
	}
	return lines, nil
}

func (c *Ctx) Flush() {
	if len(c.pend) == 0 {
		return
	}
	ops := make([]string, len(c.pend))
	for i, p := range c.pend {
		ops[i] = p.op
	}
	out, err := RunDriver(ops)
	if err != nil {
		c.addViol(Violation{Key: "driver-failure", Kind: "correspondence", Note: err.Error()})
		c.pend = c.pend[:0]
		return
	}
	c.Res.ModelOps += len(ops)
	for i, p := range c.pend {
		if out[i] != p.impl {
			key := p.key
			if key == "" {
				key = "corr:" + p.stream
			}
			kind := "correspondence"
			if strings.HasPrefix(p.op, "spec.") || p.key != "" {
				kind = "predicate"
			}
			c.addViol(Violation{Key: key, Kind: kind, Stream: p.stream, Op: p.op, Impl: p.impl, Model: out[i]})
		}
	}
	c.pend = c.pend[:0]
}

func (c *Ctx) Finish(outPath string) {
	c.Flush()
	c.Res.WallS = time.Since(c.start).Seconds()
	sort.Strings(c.Res.Samples)
	b, _ := json.MarshalIndent(&c.Res, "", " ")
	if outPath == "" || outPath == "-" {
		os.Stdout.Write(b)
		os.Stdout.WriteString("\n")
	} else {
		if err := os.WriteFile(outPath, b, 0o644); err != nil {
			fmt.Fprintln(os.Stderr, "write result:", err)
			os.Exit(2)
		}
	}
}

// ---------------------------------------------------------------- helpers

func hx(b []byte) string {
	if len(b) == 0 {
		return "-"
	}
	return hex.EncodeToString(b)
}
func hxs(s string) string { return hx([]byte(s)) }
func unhx(s string) []byte {
	if s == "-" {
		return nil
	}
	b, _ := hex.DecodeString(s)
	return b
}
func b01(b bool) string {
	if b {
		return "1"
	}
	return "0"
}
func ints(xs []int) string {
	if len(xs) == 0 {
		return "-"
	}
	ss := make([]string, len(xs))
	for i, x := range xs {
		ss[i] = fmt.Sprint(x)
	}
	return strings.Join(ss, ",")
}

// guard runs f and reports a Go panic as the string "panic".
func guard(f func() string) (out string) {
	defer func() {
		if r := recover(); r != nil {
			out = "panic"
		}
	}()
	return f()
}

// detRand adapts the deterministic PRNG to io.Reader (key generation from VERIF_SEED).
type detRand struct{ r *Rng }

func (d detRand) Read(p []byte) (int, error) {
	for i := range p {
		p[i] = d.r.Byte()
	}
	return len(p), nil
}

func toB64(b []byte) string { return base64.StdEncoding.EncodeToString(b) }

// randSrc adapts the PRNG to math/rand's Source-less big.Int.Rand (needs *rand.Rand).
func randSrc(r *Rng) *mrand.Rand { return mrand.New(rngSource{r}) }

type rngSource struct{ r *Rng }

func (s rngSource) Int63() int64 { return int64(s.r.U64() >> 1) }
func (s rngSource) Seed(int64)   {}

func fromB64(s string) []byte {
	b, _ := base64.StdEncoding.DecodeString(s)
	return b
}
