/-
  C06 / C07 — `$GENERATE`: "expands to one record per step of its range": the loop of the sub-reader (generate.go
  `generateReader.ReadByte`, DnsModel/Generate.lean `genAll`) writes, for a range the directive accepts, exactly one line
  for each of start, start + step, start + 2·step, … ≤ stop, in this order — (stop − start) / step + 1 lines, at most 65536 —
  each line being the right-hand side expanded for that value; the fuel of the model never cuts the loop short.
-/
import DnsModel.Generate
import DnsProofs.C07
namespace Dns.C06G
open Dns

/-- the lines for `m` consecutive values from `cur` on -/
def linesFrom (line : Int → Bytes) (cur step : Int) : Nat → Bytes
  | 0 => []
  | m + 1 => line cur ++ linesFrom line (cur + step) step m

theorem ediv_step (a step : Int) (h0 : 0 < step) (h1 : step ≤ a) : (a - step) / step = a / step - 1 := by
  have := Int.add_mul_ediv_right a (-1) (Int.ne_of_gt h0)
  have e : a + -1 * step = a - step := by omega
  rw [e] at this
  omega

/-- the loop from `cur` on, when `m` lines remain -/
theorem genAll_run (start stop step : Int) (tmpl : Bytes) (line : Int → Bytes) (h0 : 0 < step)
    (hmax : stop ≤ 9223372036854775807) (hstep : step ≤ 9223372036854775807)
    (hl : ∀ cur, start ≤ cur → cur ≤ stop →
      genLine start stop cur (tmpl.length + 2) tmpl false [] = some (line cur, false))
    (m : Nat) : ∀ (f : Nat) (cur : Int) (out : Bytes), m + 1 ≤ f → start ≤ cur → cur ≤ stop → 0 ≤ cur →
      (stop - cur) / step = (m : Int) →
      genAll start stop step tmpl f cur false out = some (out ++ linesFrom line cur step (m + 1)) := by
  induction m with
  | zero =>
    intro f cur out hf h1 h2 hc hq
    cases f with
    | zero => omega
    | succ f =>
      simp only [genAll, hl cur h1 h2]
      have hlt : ¬ step ≤ stop - cur := by
        intro hle
        have := (Int.le_ediv_iff_mul_le (a := 1) (b := stop - cur) h0).mpr (by omega)
        simp at hq
        omega
      have : (if cur + step > 9223372036854775807 then cur + step - 18446744073709551616 else cur + step) > stop ∨
          (if cur + step > 9223372036854775807 then cur + step - 18446744073709551616 else cur + step) < 0 := by
        split
        · right; omega
        · left; omega
      simp only [this, if_true, linesFrom, List.append_nil]
  | succ m ih =>
    intro f cur out hf h1 h2 hc hq
    cases f with
    | zero => omega
    | succ f =>
      simp only [genAll, hl cur h1 h2]
      have hle : step ≤ stop - cur := by
        have : (1 : Int) ≤ (stop - cur) / step := by rw [hq]; push_cast; omega
        have := (Int.le_ediv_iff_mul_le (a := 1) (b := stop - cur) h0).mp this
        omega
      have hno : ¬ cur + step > 9223372036854775807 := by omega
      simp only [hno, if_false]
      have hcont : ¬ (cur + step > stop ∨ cur + step < 0) := by omega
      simp only [hcont, if_false]
      have hq' : (stop - (cur + step)) / step = (m : Int) := by
        have e : stop - (cur + step) = (stop - cur) - step := by omega
        rw [e, ediv_step _ _ h0 hle, hq]; push_cast; omega
      rw [ih f (cur + step) (out ++ line cur) (by omega) (by omega) (by omega) (by omega) hq']
      simp [linesFrom, List.append_assoc]

/-- **generate_lines**: for a range `$GENERATE` accepts and a right-hand side that expands for every value of the range,
    the stream is the lines for start, start + step, … in order — one per step of the range, (stop − start) / step + 1 of
    them, at most 65536 -/
theorem generate_lines (start stop step : Int) (tmpl : Bytes) (line : Int → Bytes)
    (h : rangeOk start stop step = true) (hmax : stop ≤ 9223372036854775807) (hstep : step ≤ 9223372036854775807)
    (hl : ∀ cur, start ≤ cur → cur ≤ stop →
      genLine start stop cur (tmpl.length + 2) tmpl false [] = some (line cur, false)) :
    generateStream start stop step tmpl = some (linesFrom line start step (((stop - start) / step).toNat + 1)) ∧
      ((stop - start) / step).toNat + 1 ≤ 65536 := by
  obtain ⟨b1, b2, b3, b4⟩ := C07.generate_bounded start stop step h
  have hq0 : 0 ≤ (stop - start) / step := Int.ediv_nonneg (by omega) (by omega)
  have hcount : ((stop - start) / step).toNat + 1 ≤ 65536 := by omega
  refine ⟨?_, hcount⟩
  unfold generateStream
  have := genAll_run start stop step tmpl line b3 hmax hstep hl ((stop - start) / step).toNat 65537 start [] (by omega)
    (Int.le_refl _) b2 b1 (by rw [Int.toNat_of_nonneg hq0])
  simpa using this

/-- the values are what the property says: the k-th line is the line for start + k·step -/
theorem linesFrom_nth (line : Int → Bytes) (cur step : Int) (m : Nat) :
    linesFrom line cur step m = (List.range m).flatMap (fun (k : Nat) => line (cur + (k : Int) * step)) := by
  induction m generalizing cur with
  | zero => rfl
  | succ m ih =>
    rw [linesFrom, ih, List.range_succ_eq_map, List.flatMap_cons, List.flatMap_map]
    simp only [Int.natCast_zero, Int.zero_mul, Int.add_zero]
    congr 1
    have : (fun (k : Nat) => line (cur + step + (k : Int) * step)) = (fun (k : Nat) => line (cur + ((k + 1 : Nat) : Int) * step)) := by
      funext k
      congr 1
      push_cast
      rw [Int.add_mul]
      omega
    rw [this]

example : generateStream 1 3 1 [97, 36] = some [97, 49, 10, 97, 50, 10, 97, 51, 10] := by decide

end Dns.C06G
