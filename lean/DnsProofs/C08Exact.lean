/-
  C08 (exactness) — when no octet of any name needs an escape, Len's simulated compression and the packer agree
  exactly: same length for every sequence of fields, same set of remembered suffixes.
-/
import DnsProofs.C08Sim
namespace Dns.C08
open Dns Dns.C03 Dns.C04

/-- no octet of the label needs an escape -/
def Plain (l : Bytes) : Prop := ∀ b ∈ l, presentByte b = [b]

theorem presentLabel_plain (l : Bytes) (h : Plain l) : presentLabel l = l := by
  induction l with
  | nil => rfl
  | cons b l ih =>
    have e : presentLabel (b :: l) = presentByte b ++ presentLabel l := by simp [presentLabel]
    rw [e, h b (by simp), ih (fun x hx => h x (by simp [hx]))]; rfl

theorem specTail_no_insert (off0 : Nat) (m : CMap) (cp : Bool) (rest : List Bytes) (n : Nat)
    (h : Gen.maxCompressionOffset ≤ off0 + n) : (specTail off0 m cp rest n).2 = [] := by
  induction rest generalizing n with
  | nil => rfl
  | cons l more ih =>
    have := ih (n + 1 + l.length) (by omega)
    simp only [specTail]
    split
    · split
      · rfl
      · exact this
    · have hn : ¬ off0 + n < Gen.maxCompressionOffset := by omega
      simp [hn, this]

/-- once Len has stopped at a hit (uncompressed field), whatever the packer still does adds no entry -/
theorem specTail_after_stop (off0 : Nat) (m : CMap) (hI1 : ∀ e ∈ m, e.2 < off0) (hcl : Closed m) (cp : Bool)
    (rest : List Bytes) (hv : Valid rest) (n : Nat)
    (hk : rest ≠ [] → HasKey m (presentLabels rest) ∨ Gen.maxCompressionOffset ≤ off0 + n) :
    (specTail off0 m cp rest n).2 = [] := by
  induction rest generalizing n with
  | nil => rfl
  | cons l more ih =>
    rcases hk (by simp) with hkey | hlim
    · obtain ⟨p, hp⟩ := find_of_hasKey m _ hkey
      simp only [specTail, hp]
      cases cp with
      | true => rfl
      | false =>
        simp only [Bool.false_eq_true, ↓reduceIte]
        apply ih (valid_tail l more hv)
        intro hne
        rcases hcl l more p hne hv hp with h | h
        · exact Or.inl h
        · have := hI1 _ (find_spec m _ p hp)
          simp only at this
          exact Or.inr (by omega)
    · exact specTail_no_insert off0 m cp (l :: more) n hlim

theorem specTail_false_length (off0 : Nat) (m : CMap) (rest : List Bytes) (n : Nat) :
    (specTail off0 m false rest n).1.length = (wireLabels rest).length + 1 := by
  induction rest generalizing n with
  | nil => simp [specTail, wireLabels]
  | cons l more ih =>
    have hw := wireLabels_length_cons l more
    have := ih (n + 1 + l.length)
    simp only [specTail]
    split <;> simp [wl] <;> omega

theorem find_none_of_not_hasKey (m : CMap) (k : Bytes) (h : ¬ HasKey m k) : CMap.find m k = none := by
  cases hf : CMap.find m k with
  | none => rfl
  | some p => exact absurd ⟨p, find_spec m k p hf⟩ h

/-- **one name, exactly**: escape-free labels, equal positions, equal key sets -/
theorem lenTail_eq (off0 : Nat) (m : CMap) (hI1 : ∀ e ∈ m, e.2 < off0) (hcl : Closed m) (msgOff : Nat) (cp : Bool)
    (rest : List Bytes) (hv : Valid rest) (hpl : ∀ l ∈ rest, Plain l) (n toff : Nat) (c : List Bytes)
    (hpos : off0 + n = msgOff + toff)
    (hsub : ∀ k ∈ c, HasKey m k ∨ (presentLabels rest).length < k.length)
    (hsup : ∀ k, HasKey m k → k ∈ c) :
    (specTail off0 m cp rest n).1.length = (lenTail msgOff cp rest c toff).1 ∧
    (∀ k ∈ (lenTail msgOff cp rest c toff).2, k ∈ c ∨ HasKey (specTail off0 m cp rest n).2 k) ∧
    (∀ k, HasKey (specTail off0 m cp rest n).2 k → k ∈ (lenTail msgOff cp rest c toff).2) ∧
    (∀ k ∈ c, k ∈ (lenTail msgOff cp rest c toff).2) := by
  induction rest generalizing n toff c with
  | nil =>
    refine ⟨by simp [specTail, lenTail], fun k hk => Or.inl (by simpa [lenTail] using hk), ?_, ?_⟩
    · intro k hk; obtain ⟨p, hp⟩ := hk; simp [specTail] at hp
    · intro k hk; simpa [lenTail] using hk
  | cons l more ih =>
    have hvm := valid_tail l more hv
    have hw := wireLabels_length_cons l more
    have hplain : (presentLabel l).length = l.length := by rw [presentLabel_plain l (hpl l (by simp))]
    have hplm : ∀ x ∈ more, Plain x := fun x hx => hpl x (by simp [hx])
    by_cases hc : c.contains (presentLabels (l :: more)) = true
    · -- both hit
      have hmem : presentLabels (l :: more) ∈ c := by simpa using hc
      have hkey : HasKey m (presentLabels (l :: more)) := by
        rcases hsub _ hmem with h | h
        · exact h
        · omega
      obtain ⟨p, hp⟩ := find_of_hasKey m _ hkey
      simp only [lenTail, hc, ↓reduceIte, specTail, hp]
      cases cp with
      | true =>
        refine ⟨by simp [ptrBytes], fun k hk => Or.inl hk, ?_, fun k hk => hk⟩
        intro k hk; obtain ⟨q, hq⟩ := hk; simp at hq
      | false =>
        simp only [Bool.false_eq_true, ↓reduceIte]
        -- Len stops here with the full length; the packer writes the rest inline and adds nothing
        have hnone : (specTail off0 m false more (n + 1 + l.length)).2 = [] := by
          apply specTail_after_stop off0 m hI1 hcl false more hvm
          intro hne
          rcases hcl l more p hne hv hp with h | h
          · exact Or.inl h
          · have := hI1 _ (find_spec m _ p hp); simp only at this; exact Or.inr (by omega)
        have hlen := specTail_false_length off0 m more (n + 1 + l.length)
        refine ⟨by simp [wl, hlen]; omega, fun k hk => Or.inl hk, ?_, fun k hk => hk⟩
        intro k hk; rw [hnone] at hk; obtain ⟨q, hq⟩ := hk; simp at hq
    · -- both miss
      have hnk : ¬ HasKey m (presentLabels (l :: more)) := by
        intro hk; exact hc (by simpa using hsup _ hk)
      have hf := find_none_of_not_hasKey m _ hnk
      simp only [lenTail, hc, Bool.false_eq_true, ↓reduceIte, specTail, hf]
      have hcond : (msgOff + toff < Gen.maxCompressionOffset) ↔ (off0 + n < Gen.maxCompressionOffset) := by
        rw [hpos]
      have hsub1 : ∀ k ∈ (if msgOff + toff < Gen.maxCompressionOffset then c ++ [presentLabels (l :: more)] else c),
          HasKey m k ∨ (presentLabels more).length < k.length := by
        intro k hk
        have hlt := presentLabels_length_lt_cons l more
        split at hk
        · rcases List.mem_append.mp hk with h | h
          · rcases hsub k h with h' | h'
            · exact Or.inl h'
            · exact Or.inr (by omega)
          · simp at h; subst h; exact Or.inr hlt
        · rcases hsub k hk with h' | h'
          · exact Or.inl h'
          · exact Or.inr (by omega)
      have hsup1 : ∀ k, HasKey m k →
          k ∈ (if msgOff + toff < Gen.maxCompressionOffset then c ++ [presentLabels (l :: more)] else c) := by
        intro k hk
        split
        · exact List.mem_append_left _ (hsup k hk)
        · exact hsup k hk
      obtain ⟨i1, i2, i3, i4⟩ := ih hvm hplm (n + 1 + l.length) (toff + (presentLabel l).length + 1) _
        (by rw [hplain]; omega) hsub1 hsup1
      refine ⟨by simp [wl, i1]; omega, ?_, ?_, ?_⟩
      · intro k hk
        rcases i2 k hk with h | h
        · split at h
          · rename_i hlt
            rcases List.mem_append.mp h with h' | h'
            · exact Or.inl h'
            · simp at h'; subst h'
              refine Or.inr ⟨off0 + n, ?_⟩
              simp [hcond.mp hlt]
          · exact Or.inl h
        · obtain ⟨q, hq⟩ := h
          exact Or.inr ⟨q, List.mem_append_right _ hq⟩
      · intro k hk
        obtain ⟨q, hq⟩ := hk
        rcases List.mem_append.mp hq with h | h
        · split at h
          · rename_i hlt
            simp at h
            obtain ⟨rfl, _⟩ := h
            apply i4
            simp [hcond.mpr hlt]
          · simp at h
        · exact i3 k ⟨q, h⟩
      · intro k hk
        apply i4
        split
        · exact List.mem_append_left _ hk
        · exact hk

/-- the two-sided invariant between two fields -/
structure InvEq (msgLen off : Nat) (m : CMap) (c : List Bytes) : Prop where
  pos : msgLen = off
  keys : ∀ k ∈ c, HasKey m k
  keys' : ∀ k, HasKey m k → k ∈ c
  back : ∀ e ∈ m, e.2 < msgLen
  closed : Closed m

theorem inveq_name (msg : Bytes) (off : Nat) (m : CMap) (c : List Bytes) (cp : Bool) (ls : List Bytes)
    (hne : ls ≠ []) (hv : Valid ls) (hpl : ∀ l ∈ ls, Plain l) (hinv : InvEq msg.length off m c) :
    InvEq (msg ++ (specTail msg.length m cp ls 0).1).length
      (off + (domainNameLen (presentLabels ls) off (some c) cp).1)
      (m ++ (specTail msg.length m cp ls 0).2)
      ((domainNameLen (presentLabels ls) off (some c) cp).2.getD c) := by
  have hback : ∀ e ∈ m ++ (specTail msg.length m cp ls 0).2,
      e.2 < (msg ++ (specTail msg.length m cp ls 0).1).length := by
    intro e he
    rw [List.length_append]
    rcases List.mem_append.mp he with h | h
    · have := hinv.back e h; omega
    · have := specTail_entries_lt msg.length m cp ls 0 e h; omega
  have hclosed := closed_step msg.length m cp ls hv hinv.closed
  rw [domainNameLen_labels ls hne hv off c cp]
  by_cases hs : (cp || decide (off < Gen.maxCompressionOffset)) = true
  · simp only [hs, ↓reduceIte, Option.getD_some]
    obtain ⟨i1, i2, i3, i4⟩ := lenTail_eq msg.length m hinv.back hinv.closed off cp ls hv hpl 0 0 c
      (by have := hinv.pos; omega) (fun k hk => Or.inl (hinv.keys k hk)) hinv.keys'
    refine ⟨by rw [List.length_append, i1]; have := hinv.pos; omega, ?_, ?_, hback, hclosed⟩
    · intro k hk
      rcases i2 k hk with h | h
      · exact (hasKey_append _ _ _).mpr (Or.inl (hinv.keys k h))
      · exact (hasKey_append _ _ _).mpr (Or.inr h)
    · intro k hk
      rcases (hasKey_append _ _ _).mp hk with h | h
      · exact i4 k (hinv.keys' k h)
      · exact i3 k h
  · simp only [hs, Bool.false_eq_true, ↓reduceIte, Option.getD_some]
    have hcp : cp = false := by cases cp <;> simp_all
    have hoff : Gen.maxCompressionOffset ≤ msg.length + 0 := by
      have := hinv.pos
      simp only [Bool.or_eq_true, decide_eq_true_eq, not_or] at hs
      omega
    subst hcp
    have hl := specTail_false_length msg.length m ls 0
    have hn := specTail_no_insert msg.length m false ls 0 hoff
    refine ⟨by rw [List.length_append, hl]; have := hinv.pos; omega, ?_, ?_, hback, hclosed⟩
    · intro k hk; exact (hasKey_append _ _ _).mpr (Or.inl (hinv.keys k hk))
    · intro k hk
      rw [hn] at hk
      rcases (hasKey_append _ _ _).mp hk with h | ⟨q, hq⟩
      · exact hinv.keys' k h
      · simp at hq

/-- **len_eq_pack**: for every sequence of fields whose names need no escape, Len predicts exactly the length of
    the packed message -/
theorem len_eq_pack (fs : List Field) (msg : Bytes) (off : Nat) (m : CMap) (c : List Bytes)
    (hinv : InvEq msg.length off m c)
    (hv : ∀ f ∈ fs, f.name ≠ [] ∧ Valid f.name ∧ ∀ l ∈ f.name, Plain l) :
    (packFields fs msg m).1.length = lenFields fs off c := by
  induction fs generalizing msg off m c with
  | nil => simpa [packFields, lenFields] using hinv.pos
  | cons f fs ih =>
    obtain ⟨hne, hval, hpl⟩ := hv f (List.mem_cons_self ..)
    have h1 : InvEq (msg ++ f.gap).length (off + f.gap.length) m c :=
      ⟨by rw [List.length_append]; have := hinv.pos; omega, hinv.keys, hinv.keys',
       fun e he => by rw [List.length_append]; have := hinv.back e he; omega, hinv.closed⟩
    have h2 := inveq_name (msg ++ f.gap) (off + f.gap.length) m c f.cp f.name hne hval hpl h1
    simp only [packFields, lenFields]
    exact ih _ _ _ _ h2 (fun g hg => hv g (List.mem_cons_of_mem _ hg))

/-- a whole message packed from scratch -/
theorem len_eq_pack_message (fs : List Field)
    (hv : ∀ f ∈ fs, f.name ≠ [] ∧ Valid f.name ∧ ∀ l ∈ f.name, Plain l) :
    (packFields fs [] []).1.length = lenFields fs 0 [] :=
  len_eq_pack fs [] 0 [] [] ⟨rfl, by simp, by intro k ⟨p, hp⟩; simp at hp, by simp,
    by intro l more p _ _ h; simp [CMap.find] at h⟩ hv

end Dns.C08
