package main

import (
	"fmt"
	"strings"

	"github.com/miekg/dns"
)

func init() { props["C03"] = runC03 }

func implUnpackName(msg []byte, off int) string {
	return guard(func() string {
		s, o, err := dns.UnpackDomainName(msg, off)
		if err != nil {
			return "err"
		}
		return fmt.Sprintf("ok %s %d", hxs(s), o)
	})
}

func implPackName(s string) string {
	return guard(func() string {
		buf := make([]byte, len(s)+300)
		o, err := dns.PackDomainName(s, buf, 0, nil, false)
		if err != nil {
			return "err"
		}
		return "ok " + hx(buf[:o])
	})
}

func implIsDomain(s string) string {
	return guard(func() string {
		n, ok := dns.IsDomainName(s)
		if !ok {
			return "0"
		}
		return fmt.Sprintf("1 %d", n)
	})
}

// c03Text runs every text-level comparison on one presentation string.
func c03Text(c *Ctx, stream, s string) {
	nt := nontrivialName(s)
	h := hxs(s)
	pk := implPackName(s)
	c.Op(stream, "name.pack "+h, pk, nt)
	c.Op(stream, "name.isdomain "+h, implIsDomain(s), nt)
	c.Op(stream, "name.isfqdn "+h, guard(func() string { return b01(dns.IsFqdn(s)) }), nt)
	if s == "" {
		return
	}
	if specIsFqdn(s) {
		// property: IsDomainName(s) <=> PackDomainName accepts s <=> spec validity; wire = RFC form
		c.OpK(stream, "spec.pack "+h, pk, nt, "pack-vs-rfc")
		_, ok := dns.IsDomainName(s)
		c.OpK(stream, "spec.valid "+h, b01(ok), nt, "isdomain-vs-rfc")
		if strings.HasPrefix(pk, "ok") {
			c.Hit("text:valid")
			// the printed form of a name denotes the same octets as the text it was printed from
			pr := guard(func() string { return implPackName(dns.Name(s).String()) })
			c.Pred(stream, "printed-name-denotes-same", h, pr == pk, pr, pk, nt)
		} else {
			c.Hit("text:invalid")
		}
	} else {
		c.Hit("text:notfqdn")
		// names that are not fully qualified are refused by the packer
		c.Pred(stream, "nonfqdn-refused", h, pk == "err", pk, "err", nt)
	}
}

// c03Wire: a wire name -> unpack -> pack again, compare with model and spec.
func c03Wire(c *Ctx, stream string, w []byte, rest []byte) {
	msg := append(append([]byte{}, w...), rest...)
	out := implUnpackName(msg, 0)
	nt := len(w) > 3
	c.Op(stream, fmt.Sprintf("name.unpack %s 0", hx(msg)), out, nt)
	if strings.HasPrefix(out, "ok ") {
		c.Hit("wire:accepted")
		var nameHex string
		var off int
		fmt.Sscanf(out, "ok %s %d", &nameHex, &off)
		name := string(unhx(nameHex))
		// never emits a name it would itself reject: re-pack gives the identical octets
		re := implPackName(name)
		c.Pred(stream, "unpack-repack", hx(w), off <= len(msg) && re == "ok "+hx(msg[:off]), re, "ok "+hx(msg[:off]), nt)
		_, ok := dns.IsDomainName(name)
		c.Pred(stream, "unpacked-isdomain", hx(w), ok, "false", "true", nt)
		c.OpK(stream, "name.labels "+nameHex, "ok "+labelsHex(msg[:off]), nt, "present-denotes-labels")
	} else {
		c.Hit("wire:rejected")
	}
}

// labelsHex parses an uncompressed wire name into the comma-separated hex label list.
func labelsHex(w []byte) string {
	var ls []string
	i := 0
	for i < len(w) && w[i] != 0 {
		n := int(w[i])
		if i+1+n > len(w) {
			break
		}
		ls = append(ls, hx(w[i+1:i+1+n]))
		i += 1 + n
	}
	if len(ls) == 0 {
		return "-"
	}
	return strings.Join(ls, ",")
}

func runC03(c *Ctx) {
	defer c03DDDOverflow(c, c.R)
	r := c.R
	c.Res.Rule = "names from label lists (boundary-biased lengths, all octet classes), random spellings and mutated texts, bounded-exhaustive small-alphabet texts; non-trivial = at least two labels or an escape / wire longer than 3 octets; distinct by op line"
	// 1. all 256 octets x first / middle / last position (exhaustive)
	for b := 0; b < 256; b++ {
		for pos := 0; pos < 3; pos++ {
			l := []byte("xyz")
			l[pos] = byte(b)
			ls := [][]byte{[]byte("a"), l, []byte("nl")}
			c03Wire(c, "octets", wireOf(ls), nil)
			c03Text(c, "octets", spell(ls, r, 0))
			c03Text(c, "octets", spell(ls, r, 1))
			c03Wire(c, "octets", wireOf([][]byte{{byte(b)}}), []byte{1, 2})
		}
	}
	// 2. lengths around the limits
	n := c.Scale(3000, 60000)
	for i := 0; i < n; i++ {
		ls := genLabelsNear(r, r.Intn(3))
		c03Wire(c, "limits", wireOf(ls), r.Bytes(r.Intn(3)))
		c03Text(c, "limits", spell(ls, r, r.Intn(2)))
	}
	// 2b. the longest presentation forms: names at and around 255 wire octets with every octet written as \DDD (four
	//     characters each: 1004 characters for 63.63.63.61), every octet but one, and with a fifth label
	for _, last := range []int{58, 59, 60, 61, 62, 63} {
		for _, shape := range [][]int{{63, 63, 63, last}, {63, 63, 62, last, 1}, {1, 63, 63, 63, last - 2}} {
			for _, fill := range []byte{'a', '7', 0, 200, '.'} {
				var ls [][]byte
				okShape := true
				for _, n := range shape {
					if n < 1 {
						okShape = false
						break
					}
					ls = append(ls, bytesOf(fill, n))
				}
				if !okShape {
					continue
				}
				for _, plainAt := range []int{-1, 0, 100} {
					var sb strings.Builder
					k := 0
					for _, l := range ls {
						for _, b := range l {
							if k == plainAt && b == 'a' {
								sb.WriteByte(b)
							} else {
								fmt.Fprintf(&sb, "\\%03d", b)
							}
							k++
						}
						sb.WriteByte('.')
					}
					c03Text(c, "longest-text", sb.String())
				}
				c03Wire(c, "longest-text", wireOf(ls), nil)
			}
		}
	}
	// 3. random names, random spellings, mutations
	n = c.Scale(20000, 400000)
	for i := 0; i < n; i++ {
		ls := genLabels(r, r.Intn(3))
		if r.Chance(30) {
			c03Wire(c, "random", wireOf(ls), r.Bytes(r.Intn(4)))
		}
		s := spell(ls, r, r.Intn(2))
		if r.Chance(50) {
			s = mutateText(s, r)
		}
		c03Text(c, "random", s)
	}
	// 3b. raw UTF-8 text (what users type) next to backslash runs and the final dot: the escape parity must be
	//     counted in octets, not runes
	for _, pre := range []string{"", "a.", "x\\.y.", "\xc3\xa9."} {
		for _, u := range []string{"\xc3\xa9", "\xe2\x82\xac", "\xf0\x9f\x98\x80", "a\xc3\xa9", "\xc3", "\xa9", "\xff", "e"} {
			for k := 0; k <= 5; k++ {
				for _, end := range []string{".", "", ".."} {
					c03Text(c, "utf8", pre+u+strings.Repeat("\\", k)+end)
				}
			}
		}
	}
	// 3c. the limits with a compression map: a name whose suffix is already in the message is written as labels
	//     plus a pointer; the packer must take the same decision as without compression and the unpacker must
	//     read back what was written
	for i := 0; i < c.Scale(400, 8000); i++ {
		suffix := genLabelsNear(r, r.Intn(3)) // also labels whose spelling needs escapes: the limit counts octets, not characters
		for len(wireOf(suffix)) > 200 {
			suffix = suffix[1:]
		}
		if len(suffix) == 0 {
			continue
		}
		sl := len(wireOf(suffix))
		for _, total := range []int{253, 254, 255, 256, 257} {
			need := total - sl // octets of the prefix labels (length octets included)
			if need < 2 {
				continue
			}
			var pre [][]byte
			for need > 0 {
				n := 63
				if need-1 < n {
					n = need - 1
				}
				if need-1-n == 1 {
					n--
				}
				l := make([]byte, n)
				for j := range l {
					l[j] = byte('a' + r.Intn(26))
				}
				pre = append(pre, l)
				need -= 1 + n
			}
			full := append(append([][]byte{}, pre...), suffix...)
			if len(wireOf(full)) != total {
				continue
			}
			name := spell(full, r, 0)
			buf := make([]byte, 1024)
			comp := map[string]int{}
			o1, e1 := dns.PackDomainName(spell(suffix, r, 0), buf, 12, comp, true)
			if e1 != nil {
				continue
			}
			o2, e2 := dns.PackDomainName(name, buf, o1, comp, true)
			in := fmt.Sprintf("total=%d suffix=%d name=%s", total, sl, hxs(name))
			c.Pred("limits-compressed", "compressed-same-limit", in, (e2 == nil) == (total <= 255), fmt.Sprint(e2), fmt.Sprint("accepted iff total <= 255: ", total), true)
			if e2 == nil {
				back, _, e3 := dns.UnpackDomainName(buf[:o2], o1)
				c.Pred("limits-compressed", "compressed-reads-back", in, e3 == nil && back == name, fmt.Sprint(back, e3), name, true)
			}
		}
	}
	// 4. hostile wire (pointers, reserved bits) -> correspondence of the decoder
	n = c.Scale(20000, 300000)
	for i := 0; i < n; i++ {
		msg := genHostileNameMsg(r)
		off := r.Intn(len(msg) + 1)
		c.Op("hostile", fmt.Sprintf("name.unpack %s %d", hx(msg), off), implUnpackName(msg, off), len(msg) > 2)
	}
	// 5. bounded-exhaustive texts over a small alphabet
	alpha := []string{"a", "A", "0", ".", "\\", "\\.", "\\046", "\\000"}
	maxLen := c.Scale(5, 7)
	var rec func(prefix string, depth int)
	rec = func(prefix string, depth int) {
		c03Text(c, "exhaustive", prefix)
		if depth == maxLen {
			return
		}
		for _, a := range alpha {
			rec(prefix+a, depth+1)
		}
	}
	rec("", 0)
	c.Res.Notes = append(c.Res.Notes, fmt.Sprintf("exhaustive texts over %d-token alphabet up to %d tokens", len(alpha), maxLen))
}

// genHostileNameMsg: short messages full of label lengths, pointers and reserved-bit octets
func genHostileNameMsg(r *Rng) []byte {
	n := 1 + r.Intn(40)
	msg := make([]byte, 0, n)
	for len(msg) < n {
		switch r.Intn(6) {
		case 0:
			msg = append(msg, 0xC0|byte(r.Intn(2)), byte(r.Intn(n+2)))
		case 1:
			msg = append(msg, byte(r.Intn(5)))
		case 2:
			msg = append(msg, 0)
		case 3:
			msg = append(msg, []byte{0x40, 0x80, 63, 64, 0xFF}[r.Intn(5)])
		default:
			msg = append(msg, labelByte(r, 1))
		}
	}
	return msg
}


// c03DDDOverflow: \DDD spellings above 255 (the packer reads them as one octet, wrapped) next to octets that the printer
// has to escape again
func c03DDDOverflow(c *Ctx, r *Rng) {
	n := c.Scale(600, 12000)
	for i := 0; i < n; i++ {
		var sb strings.Builder
		for l, nl := 0, 1+r.Intn(3); l < nl; l++ {
			for k, nk := 0, 1+r.Intn(5); k < nk; k++ {
				switch r.Intn(6) {
				case 0:
					fmt.Fprintf(&sb, "\\%03d", 256+r.Intn(744))
				case 1:
					fmt.Fprintf(&sb, "\\%03d", r.Intn(256))
				case 2:
					sb.WriteByte('\\')
					sb.WriteByte(";.\\ \"()@$"[r.Intn(9)])
				case 3:
					sb.WriteByte(byte(0x80 + r.Intn(128)))
				default:
					sb.WriteByte(byte('a' + r.Intn(26)))
				}
			}
			sb.WriteByte('.')
		}
		c03Text(c, "ddd-overflow", sb.String())
	}
}


func bytesOf(b byte, n int) []byte {
	out := make([]byte, n)
	for i := range out {
		out[i] = b
	}
	return out
}
