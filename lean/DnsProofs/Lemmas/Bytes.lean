import DnsModel.Basic
import DnsModel.Name
namespace Dns

/-- lift a decidable statement over `Fin 256` to all octets (closed by `decide +kernel`) -/
theorem forall_byte {p : UInt8 → Prop} (h : ∀ n : Fin 256, p (UInt8.ofNat n.val)) : ∀ b : UInt8, p b := by
  intro b
  have := h ⟨b.toNat, b.toNat_lt⟩
  simpa using this

theorem isDigit_of_special : ∀ b : Byte, isSpecial b = true → isDigit b = false := by
  apply forall_byte; decide +kernel

theorem special_ne_digit (b : Byte) (h : isSpecial b = true) : isDigit b = false := isDigit_of_special b h

/-- the `\DDD` spelling decodes to the octet it spells -/
theorem ddd_escape : ∀ b : Byte, ∀ rest : Bytes,
    isDDD ((escapeByte b).tail ++ rest) = true ∧ dddToByte ((escapeByte b).tail ++ rest) = b := by
  intro b rest
  revert b
  have : ∀ b : Byte, (isDigit (digitByte (b.toNat / 100)) && isDigit (digitByte (b.toNat / 10 % 10)) && isDigit (digitByte (b.toNat % 10))) = true
      ∧ (digitByte (b.toNat / 100) - 48) * 100 + (digitByte (b.toNat / 10 % 10) - 48) * 10 + (digitByte (b.toNat % 10) - 48) = b := by
    apply forall_byte; decide +kernel
  intro b
  simp [escapeByte, isDDD, dddToByte, this b]

theorem plain_not_special : ∀ b : Byte, isSpecial b = false → b ≠ 92 ∧ b ≠ 46 := by
  apply forall_byte; decide +kernel

end Dns
