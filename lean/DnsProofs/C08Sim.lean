/-
  C08 (simulation) — Len's simulated compression never under-estimates what the packer writes:
  for every sequence of name fields (compressed or not, any octets between them), the length predicted with
  `domainNameLen` is at least the length of the packed message.  Names in the library's spelling, valid.
-/
import DnsModel.Compress
import DnsProofs.C04Transparent
import DnsProofs.C08
import DnsProofs.C19
namespace Dns.C08
open Dns Dns.C03 Dns.C04

/-- what Len counts for a name from the current label on, and the key set afterwards -/
def lenTail (msgOff : Nat) (cp : Bool) : List Bytes → List Bytes → Nat → Nat × List Bytes
  | [], c, _ => (1, c)
  | l :: more, c, toff =>
    if c.contains (presentLabels (l :: more)) then
      ((if cp then 2 else (wireLabels (l :: more)).length + 1), c)
    else
      let c' := if msgOff + toff < Gen.maxCompressionOffset then c ++ [presentLabels (l :: more)] else c
      let r := lenTail msgOff cp more c' (toff + (presentLabel l).length + 1)
      (1 + l.length + r.1, r.2)

theorem drop_done (done rest : List Bytes) :
    (presentLabels (done ++ rest)).drop (presentLabels done).length = presentLabels rest := by
  rw [presentLabels_append, List.drop_left]

theorem wireLabels_append (a b : List Bytes) : wireLabels (a ++ b) = wireLabels a ++ wireLabels b := by
  simp [wireLabels]

/-- the search loop of `compressionLenSearch` on a canonical spelling, from a label start -/
theorem lenSearch_labels (msgOff : Nat) (cp : Bool) (done rest : List Bytes) (hr : rest ≠ []) (c : List Bytes)
    (fuel : Nat) (hf : rest.length ≤ fuel) :
    ∃ i, i ≤ rest.length ∧
      ((lenSearchLoop c (presentLabels (done ++ rest)) msgOff fuel (presentLabels done).length).2.2 = true →
        i < rest.length ∧
        (lenSearchLoop c (presentLabels (done ++ rest)) msgOff fuel (presentLabels done).length).2.1
          = (presentLabels (done ++ rest.take i)).length) ∧
      ((lenSearchLoop c (presentLabels (done ++ rest)) msgOff fuel (presentLabels done).length).2.2 = false →
        i = rest.length) ∧
      lenTail msgOff cp rest c (presentLabels done).length =
        ((wireLabels (rest.take i)).length +
          (if (lenSearchLoop c (presentLabels (done ++ rest)) msgOff fuel (presentLabels done).length).2.2
           then (if cp then 2 else (wireLabels (rest.drop i)).length + 1) else 1),
         (lenSearchLoop c (presentLabels (done ++ rest)) msgOff fuel (presentLabels done).length).1) := by
  induction rest generalizing done c fuel with
  | nil => exact absurd rfl hr
  | cons l more ih =>
    cases fuel with
    | zero => simp at hf
    | succ f =>
      simp only [lenSearchLoop, drop_done, lenTail]
      by_cases hc : c.contains (presentLabels (l :: more)) = true
      · simp only [hc, ↓reduceIte]
        exact ⟨0, by simp, by simp, by simp, by simp [wireLabels]⟩
      · simp only [hc, Bool.false_eq_true, ↓reduceIte]
        cases more with
        | nil =>
          rw [C19.nextLabel_last]
          simp only [↓reduceIte]
          refine ⟨1, by simp, by simp, by simp, ?_⟩
          simp [lenTail, wireLabels]; omega
        | cons m2 ms =>
          rw [C19.nextLabel_step done l (m2 :: ms) (by simp)]
          simp only [Bool.false_eq_true, ↓reduceIte, C19.presentLabels_snoc_length]
          obtain ⟨i, hi, h1, h2, h3⟩ := ih (done ++ [l]) (by simp)
            (if msgOff + (presentLabels done).length < Gen.maxCompressionOffset
              then c ++ [presentLabels (l :: m2 :: ms)] else c) f (by simpa using hf)
          simp only [List.append_assoc, List.singleton_append, C19.presentLabels_snoc_length] at h1 h2 h3
          refine ⟨i + 1, by simp; omega, ?_, ?_, ?_⟩
          · intro hok
            obtain ⟨a, b⟩ := h1 hok
            exact ⟨by simp; omega, by simpa using b⟩
          · intro hok
            have := h2 hok
            simp; omega
          · rw [h3]
            simp only [List.take_succ_cons, List.drop_succ_cons, wireLabels_length_cons]
            refine Prod.ext ?_ rfl
            simp only; omega

theorem contains_prefix_false (a b : Bytes) (h : (a ++ b).contains 92 = false) : a.contains 92 = false := by
  simp only [List.contains_eq_mem, List.mem_append, decide_eq_false_iff_not, not_or] at h ⊢
  exact h.1

/-- decoded size of any spelled prefix, whether or not the name contains an escape -/
theorem sized_prefix (a b : List Bytes) :
    (if (presentLabels (a ++ b)).contains 92 then escapedNameLen (presentLabels a) else (presentLabels a).length)
      = (wireLabels a).length := by
  split
  · exact escapedNameLen_presentLabels a
  · rename_i h
    have h' : (presentLabels (a ++ b)).contains 92 = false := by simpa using h
    rw [presentLabels_append] at h'
    rw [← escapedNameLen_plain _ (contains_prefix_false _ _ h'), escapedNameLen_presentLabels]

/-- **domainNameLen is lenTail** on canonical spellings of valid names -/
theorem domainNameLen_labels (ls : List Bytes) (hne : ls ≠ []) (hv : Valid ls) (off : Nat) (c : List Bytes)
    (cp : Bool) :
    domainNameLen (presentLabels ls) off (some c) cp =
      if cp || decide (off < Gen.maxCompressionOffset) then
        ((lenTail off cp ls c 0).1, some (lenTail off cp ls c 0).2)
      else ((wireLabels ls).length + 1, some c) := by
  have hnn := presentLabels_ne_nil ls hne
  have hroot := C19.presentLabels_ne_root ls (valid_nonempty_labels ls hv)
  have hemp : (presentLabels ls).isEmpty = false := by
    cases hpl : presentLabels ls with
    | nil => exact absurd hpl hnn
    | cons _ _ => rfl
  have hfull : (if (presentLabels ls).contains 92 then escapedNameLen (presentLabels ls) + 1
      else (presentLabels ls).length + 1) = (wireLabels ls).length + 1 := by
    have := sized_prefix ls []
    simp only [List.append_nil] at this
    split
    · rename_i h; simp only [h, ↓reduceIte] at this; omega
    · rename_i h; simp only [h, Bool.false_eq_true, ↓reduceIte] at this; omega
  unfold domainNameLen
  simp only [hemp, hroot, decide_false, Bool.or_self, Bool.false_eq_true, ↓reduceIte]
  by_cases hsearch : (cp || decide (off < Gen.maxCompressionOffset)) = true
  · simp only [hsearch, ↓reduceIte]
    obtain ⟨i, hi, h1, h2, h3⟩ := lenSearch_labels off cp [] ls hne c ((presentLabels ls).length + 1)
      (by have := C19.presentLabels_length_ge ls; omega)
    simp only [List.nil_append] at h1 h2 h3
    have e0 : (presentLabels ([] : List Bytes)).length = 0 := rfl
    rw [e0] at h1 h2 h3
    rcases hres : lenSearchLoop c (presentLabels ls) off ((presentLabels ls).length + 1) 0 with ⟨c', o, ok⟩
    simp only [hres] at h1 h2 h3 ⊢
    rw [h3]
    cases ok with
    | true =>
      obtain ⟨hlt, ho⟩ := h1 rfl
      cases cp with
      | true =>
        simp only [Bool.and_self, ↓reduceIte]
        have hsplit : presentLabels ls = presentLabels (ls.take i) ++ presentLabels (ls.drop i) := by
          rw [← presentLabels_append, List.take_append_drop]
        have htake : (presentLabels ls).take o = presentLabels (ls.take i) := by
          rw [ho, hsplit, List.take_left]
        have hsz := sized_prefix (ls.take i) (ls.drop i)
        rw [List.take_append_drop] at hsz
        rw [htake]
        refine Prod.ext ?_ rfl
        simp only
        split
        · rename_i h; simp only [h, ↓reduceIte] at hsz; omega
        · rename_i h; simp only [h, Bool.false_eq_true, ↓reduceIte] at hsz; rw [ho]; omega
      | false =>
        simp only [Bool.and_false, Bool.false_eq_true, ↓reduceIte]
        refine Prod.ext ?_ rfl
        simp only
        rw [hfull]
        have := wireLabels_append (ls.take i) (ls.drop i)
        rw [List.take_append_drop] at this
        rw [this, List.length_append]; omega
    | false =>
      have hi' := h2 rfl
      simp only [Bool.false_and, Bool.false_eq_true, ↓reduceIte]
      refine Prod.ext ?_ rfl
      simp only
      rw [hfull, hi', List.take_length]
  · simp only [hsearch, Bool.false_eq_true, ↓reduceIte]
    rw [hfull]

/-! ### simulation of one name -/

def HasKey (m : CMap) (k : Bytes) : Prop := ∃ p, (k, p) ∈ m

theorem hasKey_append (m x : CMap) (k : Bytes) : HasKey (m ++ x) k ↔ HasKey m k ∨ HasKey x k := by
  unfold HasKey
  constructor
  · rintro ⟨p, hp⟩
    rcases List.mem_append.mp hp with h | h
    · exact Or.inl ⟨p, h⟩
    · exact Or.inr ⟨p, h⟩
  · rintro (⟨p, h⟩ | ⟨p, h⟩)
    · exact ⟨p, List.mem_append_left _ h⟩
    · exact ⟨p, List.mem_append_right _ h⟩

theorem find_of_hasKey (m : CMap) (k : Bytes) (h : HasKey m k) : ∃ p, CMap.find m k = some p := by
  obtain ⟨p, hp⟩ := h
  unfold CMap.find
  cases hf : m.find? (·.1 == k) with
  | some e => exact ⟨e.2, rfl⟩
  | none =>
    rw [List.find?_eq_none] at hf
    have := hf (k, p) hp
    simp at this

/-- entries are suffix-closed up to the 16384 limit: the next suffix of a key is a key too unless its position
    was beyond the limit -/
def Closed (m : CMap) : Prop :=
  ∀ (l : Bytes) (more : List Bytes) (p : Nat), more ≠ [] → Valid (l :: more) →
    CMap.find m (presentLabels (l :: more)) = some p →
    HasKey m (presentLabels more) ∨ Gen.maxCompressionOffset ≤ p + 1 + l.length

theorem lenTail_pos (msgOff : Nat) (cp : Bool) (rest c : List Bytes) (toff : Nat) :
    1 ≤ (lenTail msgOff cp rest c toff).1 := by
  cases rest with
  | nil => simp [lenTail]
  | cons l more =>
    simp only [lenTail]
    split
    · split <;> simp
    · simp only; omega

theorem lenTail_no_insert (msgOff : Nat) (cp : Bool) (rest c : List Bytes) (toff : Nat)
    (h : Gen.maxCompressionOffset ≤ msgOff + toff) :
    ∀ k ∈ (lenTail msgOff cp rest c toff).2, k ∈ c := by
  induction rest generalizing c toff with
  | nil => simp [lenTail]
  | cons l more ih =>
    simp only [lenTail]
    split
    · simp
    · have hn : ¬ msgOff + toff < Gen.maxCompressionOffset := by omega
      simp only [hn, ↓reduceIte]
      exact ih c _ (by omega)

theorem presentLabel_length_ge (l : Bytes) : l.length ≤ (presentLabel l).length := by
  induction l with
  | nil => simp [presentLabel]
  | cons b l ih =>
    have : presentLabel (b :: l) = presentByte b ++ presentLabel l := by simp [presentLabel]
    rw [this, List.length_append, List.length_cons]
    have := presentByte_ne_nil b
    omega

theorem specTail_length_le (off0 : Nat) (m : CMap) (cp : Bool) (rest : List Bytes) (n : Nat) :
    (specTail off0 m cp rest n).1.length ≤ (wireLabels rest).length + 1 := by
  induction rest generalizing n with
  | nil => simp [specTail]
  | cons l more ih =>
    have hw := wireLabels_length_cons l more
    have := ih (n + 1 + l.length)
    simp only [specTail]
    split
    · split
      · simp [ptrBytes]; omega
      · simp [wl]; omega
    · simp [wl]; omega

/-- once the packer has stopped at a pointer, whatever Len still inserts for the shorter suffixes is already a
    key of the packer's map -/
theorem lenTail_after_stop (m : CMap) (posP : Nat) (hI1 : ∀ e ∈ m, e.2 < posP) (hcl : Closed m)
    (msgOff : Nat) (cp : Bool) (rest : List Bytes) (hv : Valid rest) (c : List Bytes) (toff : Nat)
    (hpos : posP ≤ msgOff + toff)
    (hk : rest ≠ [] → HasKey m (presentLabels rest) ∨ Gen.maxCompressionOffset ≤ msgOff + toff) :
    ∀ k ∈ (lenTail msgOff cp rest c toff).2, k ∈ c ∨ HasKey m k := by
  induction rest generalizing c toff with
  | nil => intro k hk'; simp [lenTail] at hk'; exact Or.inl hk'
  | cons l more ih =>
    rcases hk (by simp) with hkey | hlim
    · simp only [lenTail]
      split
      · intro k hk'; exact Or.inl hk'
      · simp only
        have hc1 : ∀ k ∈ (if msgOff + toff < Gen.maxCompressionOffset then c ++ [presentLabels (l :: more)] else c),
            k ∈ c ∨ HasKey m k := by
          intro k hk'
          split at hk'
          · rcases List.mem_append.mp hk' with h | h
            · exact Or.inl h
            · simp at h; subst h; exact Or.inr hkey
          · exact Or.inl hk'
        have hvm := valid_tail l more hv
        have hk2 : more ≠ [] → HasKey m (presentLabels more) ∨
            Gen.maxCompressionOffset ≤ msgOff + (toff + (presentLabel l).length + 1) := by
          intro hne
          obtain ⟨p, hp⟩ := find_of_hasKey m _ hkey
          rcases hcl l more p hne hv hp with h | h
          · exact Or.inl h
          · have := hI1 _ (find_spec m _ p hp)
            simp only at this
            have := presentLabel_length_ge l
            exact Or.inr (by omega)
        intro k hk'
        rcases ih hvm _ _ (by omega) hk2 k hk' with h | h
        · exact hc1 k h
        · exact Or.inr h
    · intro k hk'
      exact Or.inl (lenTail_no_insert msgOff cp (l :: more) c toff hlim k hk')

theorem presentLabels_length_lt_cons (l : Bytes) (more : List Bytes) :
    (presentLabels more).length < (presentLabels (l :: more)).length := presentLabels_length_cons_gt l more

/-- **one name**: what the packer writes from a label start is at most what Len counts from there, and every key
    Len ends up with was already there, is a key of the packer's map, or is added by the packer now -/
theorem lenTail_ge (off0 : Nat) (m : CMap) (hI1 : ∀ e ∈ m, e.2 < off0) (hcl : Closed m) (msgOff : Nat) (cp : Bool)
    (rest : List Bytes) (hv : Valid rest) (n toff : Nat) (c : List Bytes)
    (hpos : off0 + n ≤ msgOff + toff)
    (hsub : ∀ k ∈ c, HasKey m k ∨ (presentLabels rest).length < k.length) :
    (specTail off0 m cp rest n).1.length ≤ (lenTail msgOff cp rest c toff).1 ∧
    ∀ k ∈ (lenTail msgOff cp rest c toff).2, k ∈ c ∨ HasKey m k ∨ HasKey (specTail off0 m cp rest n).2 k := by
  induction rest generalizing n toff c with
  | nil => exact ⟨by simp [specTail, lenTail], fun k hk => Or.inl (by simpa [lenTail] using hk)⟩
  | cons l more ih =>
    have hvm := valid_tail l more hv
    have hw := wireLabels_length_cons l more
    have hpl := presentLabel_length_ge l
    by_cases hc : c.contains (presentLabels (l :: more)) = true
    · -- Len hits: the packer's map has the key too
      have hmem : presentLabels (l :: more) ∈ c := by simpa using hc
      have hkey : HasKey m (presentLabels (l :: more)) := by
        rcases hsub _ hmem with h | h
        · exact h
        · omega
      obtain ⟨p, hp⟩ := find_of_hasKey m _ hkey
      simp only [lenTail, hc, ↓reduceIte, specTail, hp]
      refine ⟨?_, fun k hk => Or.inl hk⟩
      cases cp with
      | true => simp [ptrBytes]
      | false =>
        have := specTail_length_le off0 m false more (n + 1 + l.length)
        simp [wl]; omega
    · -- Len misses and goes on with the next label
      simp only [lenTail, hc, Bool.false_eq_true, ↓reduceIte]
      have hsub1 : ∀ k ∈ (if msgOff + toff < Gen.maxCompressionOffset then c ++ [presentLabels (l :: more)] else c),
          HasKey m k ∨ (presentLabels more).length < k.length := by
        intro k hk
        have hlt := presentLabels_length_lt_cons l more
        split at hk
        · rcases List.mem_append.mp hk with h | h
          · rcases hsub k h with h' | h'
            · exact Or.inl h'
            · exact Or.inr (by omega)
          · simp at h; subst h; exact Or.inr hlt
        · rcases hsub k hk with h' | h'
          · exact Or.inl h'
          · exact Or.inr (by omega)
      obtain ⟨ihlen, ihkeys⟩ := ih hvm (n + 1 + l.length) (toff + (presentLabel l).length + 1) _ (by omega) hsub1
      have hc1 : ∀ k ∈ (if msgOff + toff < Gen.maxCompressionOffset then c ++ [presentLabels (l :: more)] else c),
          k ∈ c ∨ (k = presentLabels (l :: more) ∧ msgOff + toff < Gen.maxCompressionOffset) := by
        intro k hk
        split at hk
        · rename_i hlt
          rcases List.mem_append.mp hk with h | h
          · exact Or.inl h
          · simp at h; exact Or.inr ⟨h, hlt⟩
        · exact Or.inl hk
      simp only [specTail]
      cases hf : CMap.find m (presentLabels (l :: more)) with
      | some p =>
        have hkey : HasKey m (presentLabels (l :: more)) := ⟨p, find_spec m _ p hf⟩
        cases cp with
        | true =>
          simp only [↓reduceIte]
          refine ⟨?_, ?_⟩
          · have := lenTail_pos msgOff true more
              (if msgOff + toff < Gen.maxCompressionOffset then c ++ [presentLabels (l :: more)] else c)
              (toff + (presentLabel l).length + 1)
            simp [ptrBytes]; omega
          · -- the packer stopped here; Len goes on
            have hk2 : more ≠ [] → HasKey m (presentLabels more) ∨
                Gen.maxCompressionOffset ≤ msgOff + (toff + (presentLabel l).length + 1) := by
              intro hne
              rcases hcl l more p hne hv hf with h | h
              · exact Or.inl h
              · have := hI1 _ (find_spec m _ p hf)
                simp only at this
                exact Or.inr (by omega)
            intro k hk
            rcases lenTail_after_stop m off0 hI1 hcl msgOff true more hvm _ _ (by omega) hk2 k hk with h | h
            · rcases hc1 k h with h' | ⟨h', _⟩
              · exact Or.inl h'
              · rw [h']; exact Or.inr (Or.inl hkey)
            · exact Or.inr (Or.inl h)
        | false =>
          simp only [Bool.false_eq_true, ↓reduceIte]
          refine ⟨by simp [wl]; omega, ?_⟩
          intro k hk
          rcases ihkeys k hk with h | h | h
          · rcases hc1 k h with h' | ⟨h', _⟩
            · exact Or.inl h'
            · rw [h']; exact Or.inr (Or.inl hkey)
          · exact Or.inr (Or.inl h)
          · exact Or.inr (Or.inr h)
      | none =>
        simp only
        refine ⟨by simp [wl]; omega, ?_⟩
        intro k hk
        rcases ihkeys k hk with h | h | h
        · rcases hc1 k h with h' | ⟨h', hlt⟩
          · exact Or.inl h'
          · have hlim : off0 + n < Gen.maxCompressionOffset := by omega
            rw [h']
            refine Or.inr (Or.inr ⟨off0 + n, ?_⟩)
            simp [hlim]
        · exact Or.inr (Or.inl h)
        · refine Or.inr (Or.inr ?_)
          obtain ⟨q, hq⟩ := h
          exact ⟨q, List.mem_append_right _ hq⟩

/-! ### the invariants across names -/

theorem presentLabels_of_map (ls : List Bytes) :
    presentLabels ls = (ls.map presentLabel).flatMap (fun t => t ++ [46]) := by
  induction ls with
  | nil => rfl
  | cons l ls ih => rw [C19.presentLabels_cons, ih]; simp

/-- the spelling determines the first label's size and the spelling of the rest -/
theorem spelling_cons_inj (l l' : Bytes) (more more' : List Bytes) (hv : Valid (l :: more)) (hv' : Valid (l' :: more'))
    (h : presentLabels (l :: more) = presentLabels (l' :: more')) :
    presentLabels more = presentLabels more' ∧ l.length = l'.length := by
  have h1 := C19.splitDomainName_labels (l :: more) (by simp) (valid_nonempty_labels _ hv)
  have h2 := C19.splitDomainName_labels (l' :: more') (by simp) (valid_nonempty_labels _ hv')
  rw [h, h2] at h1
  simp only [List.map_cons, List.cons.injEq] at h1
  obtain ⟨ha, hb⟩ := h1
  refine ⟨?_, ?_⟩
  · rw [presentLabels_of_map, presentLabels_of_map, hb]
  · have e1 := escapedNameLen_presentLabel l []
    have e2 := escapedNameLen_presentLabel l' []
    simp only [List.append_nil] at e1 e2
    rw [← ha] at e1
    have : escapedNameLen ([] : Bytes) = 0 := by simp [escapedNameLen]
    omega

theorem specTail_entries_lt (off0 : Nat) (m : CMap) (cp : Bool) (rest : List Bytes) (n : Nat) :
    ∀ e ∈ (specTail off0 m cp rest n).2, e.2 < off0 + n + (specTail off0 m cp rest n).1.length := by
  induction rest generalizing n with
  | nil => simp [specTail]
  | cons l more ih =>
    have := ih (n + 1 + l.length)
    simp only [specTail]
    split
    · split
      · simp
      · intro e he
        have := this e he
        simp [wl]; omega
    · intro e he
      rcases List.mem_append.mp he with h | h
      · split at h
        · simp at h; subst h; simp [wl]
        · simp at h
      · have := this e h
        simp [wl]; omega

/-- every entry the packer adds has its next suffix in the old map, among the new entries, or beyond the limit -/
theorem specTail_closed (off0 : Nat) (m : CMap) (cp : Bool) (rest : List Bytes) (hv : Valid rest) (n : Nat) :
    ∀ e ∈ (specTail off0 m cp rest n).2, ∃ l' more', e.1 = presentLabels (l' :: more') ∧ Valid (l' :: more') ∧
      (more' ≠ [] → HasKey m (presentLabels more') ∨ HasKey (specTail off0 m cp rest n).2 (presentLabels more') ∨
        Gen.maxCompressionOffset ≤ e.2 + 1 + l'.length) := by
  induction rest generalizing n with
  | nil => simp [specTail]
  | cons l more ih =>
    have hvm := valid_tail l more hv
    have ihm := ih hvm (n + 1 + l.length)
    simp only [specTail]
    cases hf : CMap.find m (presentLabels (l :: more)) with
    | some p =>
      cases cp with
      | true => simp
      | false => simpa using ihm
    | none =>
      simp only
      intro e he
      rcases List.mem_append.mp he with h | h
      · split at h
        · simp at h; subst h
          refine ⟨l, more, rfl, hv, ?_⟩
          intro hne
          cases more with
          | nil => exact absurd rfl hne
          | cons l2 more2 =>
            simp only [specTail]
            cases hf2 : CMap.find m (presentLabels (l2 :: more2)) with
            | some q => exact Or.inl ⟨q, find_spec m _ q hf2⟩
            | none =>
              simp only
              by_cases hlim : off0 + (n + 1 + l.length) < Gen.maxCompressionOffset
              · refine Or.inr (Or.inl ⟨off0 + (n + 1 + l.length), ?_⟩)
                simp [hlim]
              · exact Or.inr (Or.inr (by omega))
        · simp at h
      · obtain ⟨l', more', h1, h2, h3⟩ := ihm e h
        refine ⟨l', more', h1, h2, ?_⟩
        intro hne
        rcases h3 hne with a | ⟨q, hq⟩ | a
        · exact Or.inl a
        · exact Or.inr (Or.inl ⟨q, List.mem_append_right _ hq⟩)
        · exact Or.inr (Or.inr a)

theorem find_append_cases (m x : CMap) (k : Bytes) (p : Nat) (h : CMap.find (m ++ x) k = some p) :
    CMap.find m k = some p ∨ (CMap.find m k = none ∧ CMap.find x k = some p) := by
  unfold CMap.find at *
  rw [List.find?_append] at h
  cases hm : m.find? (·.1 == k) with
  | some e => left; simpa [hm] using h
  | none => right; exact ⟨rfl, by simpa [hm] using h⟩

theorem closed_step (off0 : Nat) (m : CMap) (cp : Bool) (ls : List Bytes) (hv : Valid ls) (hcl : Closed m) :
    Closed (m ++ (specTail off0 m cp ls 0).2) := by
  intro l more p hne hvl hfind
  rcases find_append_cases _ _ _ _ hfind with h | ⟨_, h⟩
  · rcases hcl l more p hne hvl h with a | a
    · exact Or.inl ((hasKey_append _ _ _).mpr (Or.inl a))
    · exact Or.inr a
  · have hmem := find_spec _ _ p h
    obtain ⟨l', more', h1, h2, h3⟩ := specTail_closed off0 m cp ls hv 0 _ hmem
    simp only at h1 h3
    obtain ⟨hsame, hlen⟩ := spelling_cons_inj l l' more more' hvl h2 h1
    have hne' : more' ≠ [] := by
      intro e0
      rw [e0] at hsame
      exact presentLabels_ne_nil more hne (by simpa [presentLabels] using hsame)
    rw [hsame, hlen]
    rcases h3 hne' with a | a | a
    · exact Or.inl ((hasKey_append _ _ _).mpr (Or.inl a))
    · exact Or.inl ((hasKey_append _ _ _).mpr (Or.inr a))
    · exact Or.inr a

/-- the invariant relating the packer's state and Len's state between two fields -/
structure Inv (msgLen off : Nat) (m : CMap) (c : List Bytes) : Prop where
  pos : msgLen ≤ off
  keys : ∀ k ∈ c, HasKey m k
  back : ∀ e ∈ m, e.2 < msgLen
  closed : Closed m

/-- Len's walk over the same fields -/
def lenFields : List Field → Nat → List Bytes → Nat
  | [], off, _ => off
  | f :: fs, off, c =>
    let r := domainNameLen (presentLabels f.name) (off + f.gap.length) (some c) f.cp
    lenFields fs (off + f.gap.length + r.1) (r.2.getD c)

theorem inv_name (msg : Bytes) (off : Nat) (m : CMap) (c : List Bytes) (cp : Bool) (ls : List Bytes)
    (hne : ls ≠ []) (hv : Valid ls) (hinv : Inv msg.length off m c) :
    Inv (msg ++ (specTail msg.length m cp ls 0).1).length
      (off + (domainNameLen (presentLabels ls) off (some c) cp).1)
      (m ++ (specTail msg.length m cp ls 0).2)
      ((domainNameLen (presentLabels ls) off (some c) cp).2.getD c) := by
  have hback : ∀ e ∈ m ++ (specTail msg.length m cp ls 0).2,
      e.2 < (msg ++ (specTail msg.length m cp ls 0).1).length := by
    intro e he
    rw [List.length_append]
    rcases List.mem_append.mp he with h | h
    · have := hinv.back e h; omega
    · have := specTail_entries_lt msg.length m cp ls 0 e h; omega
  have hclosed := closed_step msg.length m cp ls hv hinv.closed
  rw [domainNameLen_labels ls hne hv off c cp]
  by_cases hs : (cp || decide (off < Gen.maxCompressionOffset)) = true
  · simp only [hs, ↓reduceIte, Option.getD_some]
    obtain ⟨hlen, hkeys⟩ := lenTail_ge msg.length m hinv.back hinv.closed off cp ls hv 0 0 c
      (by have := hinv.pos; omega) (fun k hk => Or.inl (hinv.keys k hk))
    refine ⟨by rw [List.length_append]; have := hinv.pos; omega, ?_, hback, hclosed⟩
    intro k hk
    rcases hkeys k hk with h | h | h
    · exact (hasKey_append _ _ _).mpr (Or.inl (hinv.keys k h))
    · exact (hasKey_append _ _ _).mpr (Or.inl h)
    · exact (hasKey_append _ _ _).mpr (Or.inr h)
  · simp only [hs, Bool.false_eq_true, ↓reduceIte, Option.getD_some]
    have := specTail_length_le msg.length m cp ls 0
    refine ⟨by rw [List.length_append]; have := hinv.pos; omega, ?_, hback, hclosed⟩
    intro k hk
    exact (hasKey_append _ _ _).mpr (Or.inl (hinv.keys k hk))

theorem inv_gap (msgLen off : Nat) (m : CMap) (c : List Bytes) (g : Nat) (h : Inv msgLen off m c) :
    Inv (msgLen + g) (off + g) m c :=
  ⟨by have := h.pos; omega, h.keys, fun e he => by have := h.back e he; omega, h.closed⟩

/-- **len_ge_pack**: for every sequence of fields (any octets, then a valid name, compressed or not), starting from
    related states, the length Len predicts is at least the length of the message the packer produces -/
theorem len_ge_pack (fs : List Field) (msg : Bytes) (off : Nat) (m : CMap) (c : List Bytes)
    (hinv : Inv msg.length off m c) (hv : ∀ f ∈ fs, f.name ≠ [] ∧ Valid f.name) :
    (packFields fs msg m).1.length ≤ lenFields fs off c := by
  induction fs generalizing msg off m c with
  | nil => simpa [packFields, lenFields] using hinv.pos
  | cons f fs ih =>
    obtain ⟨hne, hval⟩ := hv f (List.mem_cons_self ..)
    have h1 : Inv (msg ++ f.gap).length (off + f.gap.length) m c := by
      rw [List.length_append]; exact inv_gap _ _ _ _ _ hinv
    have h2 := inv_name (msg ++ f.gap) (off + f.gap.length) m c f.cp f.name hne hval h1
    simp only [packFields, lenFields]
    exact ih _ _ _ _ h2 (fun g hg => hv g (List.mem_cons_of_mem _ hg))

/-- from the empty message both sides start related -/
theorem inv_init : Inv ([] : Bytes).length 0 [] [] :=
  ⟨by simp, by simp, by simp, by intro l more p _ _ h; simp [CMap.find] at h⟩

/-- **Len never under-estimates**: a whole message packed from scratch -/
theorem len_ge_pack_message (fs : List Field) (hv : ∀ f ∈ fs, f.name ≠ [] ∧ Valid f.name) :
    (packFields fs [] []).1.length ≤ lenFields fs 0 [] :=
  len_ge_pack fs [] 0 [] [] inv_init hv

/-- non-vacuity: `example.org.` then `www.example.org.` (compressed): both sides give 12 + 13 + 4 + 6 = 35 -/
example :
    let org : List Bytes := [[101,120,97,109,112,108,101],[111,114,103]]
    let www : List Bytes := [119,119,119] :: org
    let fs : List Field := [⟨[0,0,0,0,0,0,0,0,0,0,0,0], org, true⟩, ⟨[0,1,0,1], www, true⟩]
    (packFields fs [] []).1.length = 35 ∧ lenFields fs 0 [] = 35 := by decide

end Dns.C08
