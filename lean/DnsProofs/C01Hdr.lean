/-
  C01 (header word) — the flag word of the message header: unpacking it into the fields of `Msg` (setHdr) and packing
  those fields again (packBufferWithCompressionMap) gives back every one of the 2^16 words; proved bit by bit.
-/
import DnsModel.Msg
namespace Dns.C01H
open Dns

theorem bit_mask (w : BitVec 16) (k : Nat) (hk : k < 16) :
    bit (w &&& BitVec.twoPow 16 k != 0) (BitVec.twoPow 16 k) = w &&& BitVec.twoPow 16 k := by
  unfold bit
  by_cases hz : w &&& BitVec.twoPow 16 k = 0
  · simp [hz]
  · have hne : (w &&& BitVec.twoPow 16 k != 0) = true := by simpa using hz
    rw [hne]
    simp only [↓reduceIte]
    apply BitVec.eq_of_getLsbD_eq
    intro i hi
    simp only [BitVec.getLsbD_and, BitVec.getLsbD_twoPow]
    by_cases hik : k = i
    · subst hik
      -- bit k of w is set, else the conjunction would be zero
      have : w.getLsbD k = true := by
        cases hh : w.getLsbD k with
        | true => rfl
        | false =>
          exfalso; apply hz
          apply BitVec.eq_of_getLsbD_eq
          intro j hj
          simp only [BitVec.getLsbD_and, BitVec.getLsbD_twoPow]
          by_cases hjk : k = j
          · subst hjk; simp [hh]
          · simp [hjk]
      simp [this, hk]
    · simp [hik]

/-- **header word**: every 16-bit flag word survives `setHdr` followed by the packing of the header fields -/
theorem packBits_unpackBits (w : BitVec 16) : packBits (unpackBits w) = w := by
  unfold packBits unpackBits
  simp only
  have e15 : (0x8000 : BitVec 16) = BitVec.twoPow 16 15 := by decide
  have e10 : (0x0400 : BitVec 16) = BitVec.twoPow 16 10 := by decide
  have e9 : (0x0200 : BitVec 16) = BitVec.twoPow 16 9 := by decide
  have e8 : (0x0100 : BitVec 16) = BitVec.twoPow 16 8 := by decide
  have e7 : (0x0080 : BitVec 16) = BitVec.twoPow 16 7 := by decide
  have e6 : (0x0040 : BitVec 16) = BitVec.twoPow 16 6 := by decide
  have e5 : (0x0020 : BitVec 16) = BitVec.twoPow 16 5 := by decide
  have e4 : (0x0010 : BitVec 16) = BitVec.twoPow 16 4 := by decide
  rw [e15, e10, e9, e8, e7, e6, e5, e4]
  rw [bit_mask w 15 (by omega), bit_mask w 10 (by omega), bit_mask w 9 (by omega), bit_mask w 8 (by omega),
    bit_mask w 7 (by omega), bit_mask w 6 (by omega), bit_mask w 5 (by omega), bit_mask w 4 (by omega)]
  have hr : (w &&& 0xF).toNat % 16 = (w &&& 0xF).toNat := by
    apply Nat.mod_eq_of_lt
    have := BitVec.toNat_and w 0xF
    rw [this]
    exact Nat.lt_of_le_of_lt Nat.and_le_right (by decide)
  rw [hr, BitVec.ofNat_toNat, BitVec.ofNat_toNat]
  apply BitVec.eq_of_getLsbD_eq
  intro i hi
  have : i = 0 ∨ i = 1 ∨ i = 2 ∨ i = 3 ∨ i = 4 ∨ i = 5 ∨ i = 6 ∨ i = 7 ∨ i = 8 ∨ i = 9 ∨ i = 10 ∨ i = 11 ∨ i = 12 ∨
      i = 13 ∨ i = 14 ∨ i = 15 := by omega
  rcases this with rfl | rfl | rfl | rfl | rfl | rfl | rfl | rfl | rfl | rfl | rfl | rfl | rfl | rfl | rfl | rfl <;> simp

/-- the low RCODE nibble is all the header carries of the RCODE: the upper bits merged in from an OPT record do not
    reach the flag word -/
theorem packBits_rcode_mod (h : MsgHdr) (r : Nat) : packBits { h with rcode := r } = packBits { h with rcode := r % 16 } := by
  unfold packBits
  simp

/-! ### the other direction -/

theorem testBit_mask (X : BitVec 16) (k : Nat) (hk : k < 16) :
    (X &&& BitVec.twoPow 16 k != 0) = X.getLsbD k := by
  cases hb : X.getLsbD k with
  | true =>
    have : X &&& BitVec.twoPow 16 k ≠ 0 := by
      intro h
      have h2 := congrArg (fun v => v.getLsbD k) h
      simp only [BitVec.getLsbD_and, BitVec.getLsbD_twoPow, BitVec.getLsbD_zero, hb] at h2
      simp [hk] at h2
    simpa using this
  | false =>
    have : X &&& BitVec.twoPow 16 k = 0 := by
      apply BitVec.eq_of_getLsbD_eq
      intro i hi
      simp only [BitVec.getLsbD_and, BitVec.getLsbD_twoPow, BitVec.getLsbD_zero]
      by_cases hik : k = i
      · subst hik; simp [hb]
      · simp [hik]
    simp [this]

theorem bit_getLsbD (a : Bool) (m : BitVec 16) (i : Nat) : (bit a m).getLsbD i = (a && m.getLsbD i) := by
  cases a <;> simp [bit]

theorem small_testBit (x i : Nat) (hx : x < 16) (hi : 4 ≤ i) : x.testBit i = false :=
  Nat.testBit_lt_two_pow (Nat.lt_of_lt_of_le hx (by
    have : (2 : Nat) ^ 4 ≤ 2 ^ i := Nat.pow_le_pow_right (by decide) hi
    simpa using this))

/-- bit `i` of the packed word -/
theorem packBits_bit (h : MsgHdr) (i : Nat) :
    (packBits h).getLsbD i =
      ((decide (11 ≤ i) && decide (i < 16) && h.opcode.testBit (i - 11)) || (decide (i < 16) && (h.rcode % 16).testBit i) ||
        (h.response && decide (15 = i)) || (h.authoritative && decide (10 = i)) || (h.truncated && decide (9 = i)) ||
        (h.recursionDesired && decide (8 = i)) || (h.recursionAvailable && decide (7 = i)) || (h.zero && decide (6 = i)) ||
        (h.authenticatedData && decide (5 = i)) || (h.checkingDisabled && decide (4 = i))) := by
  have e15 : (0x8000 : BitVec 16) = BitVec.twoPow 16 15 := by decide
  have e10 : (0x0400 : BitVec 16) = BitVec.twoPow 16 10 := by decide
  have e9 : (0x0200 : BitVec 16) = BitVec.twoPow 16 9 := by decide
  have e8 : (0x0100 : BitVec 16) = BitVec.twoPow 16 8 := by decide
  have e7 : (0x0080 : BitVec 16) = BitVec.twoPow 16 7 := by decide
  have e6 : (0x0040 : BitVec 16) = BitVec.twoPow 16 6 := by decide
  have e5 : (0x0020 : BitVec 16) = BitVec.twoPow 16 5 := by decide
  have e4 : (0x0010 : BitVec 16) = BitVec.twoPow 16 4 := by decide
  unfold packBits
  rw [e15, e10, e9, e8, e7, e6, e5, e4]
  simp only [BitVec.getLsbD_or, bit_getLsbD, BitVec.getLsbD_twoPow, BitVec.getLsbD_shiftLeft, BitVec.getLsbD_ofNat]
  by_cases h16 : i < 16
  · by_cases h11 : 11 ≤ i
    · have h1 : ¬ i < 11 := by omega
      have h2 : i - 11 < 16 := by omega
      simp [h16, h11, h1, h2]
    · have : i < 11 := by omega
      simp [h16, h11, this]
  · simp [h16]

/-- **the other direction**: header fields within their ranges survive packing and `setHdr` -/
theorem unpackBits_packBits (h : MsgHdr) (ho : h.opcode < 16) (hr : h.rcode < 16) : unpackBits (packBits h) = h := by
  have e15 : (0x8000 : BitVec 16) = BitVec.twoPow 16 15 := by decide
  have e10 : (0x0400 : BitVec 16) = BitVec.twoPow 16 10 := by decide
  have e9 : (0x0200 : BitVec 16) = BitVec.twoPow 16 9 := by decide
  have e8 : (0x0100 : BitVec 16) = BitVec.twoPow 16 8 := by decide
  have e7 : (0x0080 : BitVec 16) = BitVec.twoPow 16 7 := by decide
  have e6 : (0x0040 : BitVec 16) = BitVec.twoPow 16 6 := by decide
  have e5 : (0x0020 : BitVec 16) = BitVec.twoPow 16 5 := by decide
  have e4 : (0x0010 : BitVec 16) = BitVec.twoPow 16 4 := by decide
  have hrm : h.rcode % 16 = h.rcode := Nat.mod_eq_of_lt hr
  have flag : ∀ k, 4 ≤ k → k < 16 → k ≠ 11 → k ≠ 12 → k ≠ 13 → k ≠ 14 →
      (decide (11 ≤ k) && decide (k < 16) && h.opcode.testBit (k - 11)) = false ∧
      (decide (k < 16) && (h.rcode % 16).testBit k) = false := by
    intro k h4 h16 n11 n12 n13 n14
    constructor
    · by_cases h11 : 11 ≤ k
      · have : k = 15 := by omega
        subst this
        simp [small_testBit h.opcode 4 ho (by omega)]
      · simp [h11]
    · rw [hrm, small_testBit h.rcode k hr h4]; simp
  have opc : ((packBits h >>> 11) &&& 0xF).toNat = h.opcode := by
    have : (packBits h >>> 11) &&& 0xF = BitVec.ofNat 16 h.opcode := by
      apply BitVec.eq_of_getLsbD_eq
      intro i hi
      have e : (0xF : BitVec 16).getLsbD i = decide (i < 4) := by
        have : i = 0 ∨ i = 1 ∨ i = 2 ∨ i = 3 ∨ 4 ≤ i := by omega
        rcases this with rfl | rfl | rfl | rfl | h4
        · decide
        · decide
        · decide
        · decide
        · have : (0xF : BitVec 16) = BitVec.ofNat 16 15 := rfl
          rw [this, BitVec.getLsbD_ofNat, small_testBit 15 i (by decide) h4]; simp; omega
      simp only [BitVec.getLsbD_and, BitVec.getLsbD_ushiftRight, packBits_bit, e, BitVec.getLsbD_ofNat]
      by_cases h4 : i < 4
      · have a1 : 11 ≤ 11 + i := by omega
        have a2 : 11 + i < 16 := by omega
        have a3 : 11 + i - 11 = i := by omega
        have a4 : (h.rcode % 16).testBit (11 + i) = false := by rw [hrm]; exact small_testBit _ _ hr (by omega)
        have n15 : ¬ 15 = 11 + i := by omega
        have n10 : ¬ 10 = 11 + i := by omega
        have n9 : ¬ 9 = 11 + i := by omega
        have n8 : ¬ 8 = 11 + i := by omega
        have n7 : ¬ 7 = 11 + i := by omega
        have n6 : ¬ 6 = 11 + i := by omega
        have n5 : ¬ 5 = 11 + i := by omega
        have n4 : ¬ 4 = 11 + i := by omega
        simp [a1, a2, a3, a4, n15, n10, n9, n8, n7, n6, n5, n4, h4, hi]
      · have : h.opcode.testBit i = false := small_testBit _ _ ho (by omega)
        simp [h4, this]
    rw [this]
    simp [BitVec.toNat_ofNat]; omega
  have rcd : (packBits h &&& 0xF).toNat = h.rcode := by
    have : packBits h &&& 0xF = BitVec.ofNat 16 h.rcode := by
      apply BitVec.eq_of_getLsbD_eq
      intro i hi
      have e : (0xF : BitVec 16).getLsbD i = decide (i < 4) := by
        have : i = 0 ∨ i = 1 ∨ i = 2 ∨ i = 3 ∨ 4 ≤ i := by omega
        rcases this with rfl | rfl | rfl | rfl | h4
        · decide
        · decide
        · decide
        · decide
        · have : (0xF : BitVec 16) = BitVec.ofNat 16 15 := rfl
          rw [this, BitVec.getLsbD_ofNat, small_testBit 15 i (by decide) h4]; simp; omega
      simp only [BitVec.getLsbD_and, packBits_bit, e, BitVec.getLsbD_ofNat]
      by_cases h4 : i < 4
      · have a1 : ¬ 11 ≤ i := by omega
        have n15 : ¬ 15 = i := by omega
        have n10 : ¬ 10 = i := by omega
        have n9 : ¬ 9 = i := by omega
        have n8 : ¬ 8 = i := by omega
        have n7 : ¬ 7 = i := by omega
        have n6 : ¬ 6 = i := by omega
        have n5 : ¬ 5 = i := by omega
        have n4 : ¬ 4 = i := by omega
        simp [a1, hrm, n15, n10, n9, n8, n7, n6, n5, n4, h4, hi]
      · have : h.rcode.testBit i = false := small_testBit _ _ hr (by omega)
        simp [h4, this]
    rw [this]
    simp [BitVec.toNat_ofNat]; omega
  unfold unpackBits
  rw [e15, e10, e9, e8, e7, e6, e5, e4]
  simp only [testBit_mask _ 15 (by omega), testBit_mask _ 10 (by omega), testBit_mask _ 9 (by omega), testBit_mask _ 8 (by omega),
    testBit_mask _ 7 (by omega), testBit_mask _ 6 (by omega), testBit_mask _ 5 (by omega), testBit_mask _ 4 (by omega), opc, rcd,
    packBits_bit]
  obtain ⟨f15a, f15b⟩ := flag 15 (by omega) (by omega) (by omega) (by omega) (by omega) (by omega)
  obtain ⟨f10a, f10b⟩ := flag 10 (by omega) (by omega) (by omega) (by omega) (by omega) (by omega)
  obtain ⟨f9a, f9b⟩ := flag 9 (by omega) (by omega) (by omega) (by omega) (by omega) (by omega)
  obtain ⟨f8a, f8b⟩ := flag 8 (by omega) (by omega) (by omega) (by omega) (by omega) (by omega)
  obtain ⟨f7a, f7b⟩ := flag 7 (by omega) (by omega) (by omega) (by omega) (by omega) (by omega)
  obtain ⟨f6a, f6b⟩ := flag 6 (by omega) (by omega) (by omega) (by omega) (by omega) (by omega)
  obtain ⟨f5a, f5b⟩ := flag 5 (by omega) (by omega) (by omega) (by omega) (by omega) (by omega)
  obtain ⟨f4a, f4b⟩ := flag 4 (by omega) (by omega) (by omega) (by omega) (by omega) (by omega)
  rw [f15a, f15b, f10a, f10b, f9a, f9b, f8a, f8b, f7a, f7b, f6a, f6b, f5a, f5b, f4a, f4b]
  cases h
  simp

end Dns.C01H
