package main

// Translation of the per-type len() methods (ztypes.go, and the hand-written ones of types.go / edns.go) into steps
// of the length algebra of DnsModel/LenBase.lean.  Statements outside the recognised idioms become `.other src`.

import (
	"fmt"
	"go/ast"
	"regexp"
	"sort"
	"strconv"
	"strings"
)

type lenPlan struct {
	Type  string
	Steps []string
}

var (
	reConst  = regexp.MustCompile(`^l\+=(\d+)$`)
	reName   = regexp.MustCompile(`^l\+=domainNameLen\(rr\.(\w+),off\+l,compression,(true|false)\)$`)
	reStr1   = regexp.MustCompile(`^l\+=len\(rr\.(\w+)\)\+1$`)
	reStrLen = regexp.MustCompile(`^l\+=len\(rr\.(\w+)\)$`)
	reHex    = regexp.MustCompile(`^l\+=len\(rr\.(\w+)\)/2$`)
	reB64    = regexp.MustCompile(`^l\+=base64\.StdEncoding\.DecodedLen\(len\(rr\.(\w+)\)\)$`)
	reB32    = regexp.MustCompile(`^l\+=base32HexNoPadEncoding\.DecodedLen\(len\(rr\.(\w+)\)\)$`)
	reIPIf   = regexp.MustCompile(`^iflen\(rr\.(\w+)\)!=0\{l\+=net\.IPv(4|6)len\}$`)
	reTxt    = regexp.MustCompile(`^for_,x:=rangerr\.(\w+)\{l\+=len\(x\)\+1\}$`)
	reNames  = regexp.MustCompile(`^for_,x:=rangerr\.(\w+)\{l\+=domainNameLen\(x,off\+l,compression,(true|false)\)\}$`)
	reApl    = regexp.MustCompile(`^for_,x:=rangerr\.(\w+)\{l\+=x\.len\(\)\}$`)
	reSvcb   = regexp.MustCompile(`^for_,x:=rangerr\.(\w+)\{l\+=4\+int\(x\.len\(\)\)\}$`)
	reGw     = regexp.MustCompile(`^switchrr\.(\w+)(&0x7f)?\{case\w+IPv4:l\+=net\.IPv4lencase\w+IPv6:l\+=net\.IPv6lencase\w+Host:l\+=len\(rr\.(\w+)\)\+1\}$`)
	reBitmap = regexp.MustCompile(`^l\+=typeBitMapLen\(rr\.(\w+)\)$`)
)

func (p *pkgInfo) lenStep(st ast.Stmt) string {
	s := p.src(st)
	if s == "l++" {
		return ".const 1"
	}
	if m := reConst.FindStringSubmatch(s); m != nil {
		return ".const " + m[1]
	}
	if m := reName.FindStringSubmatch(s); m != nil {
		return fmt.Sprintf(".name %s %s", leanStr(m[1]), m[2])
	}
	if m := reStr1.FindStringSubmatch(s); m != nil {
		return ".str1 " + leanStr(m[1])
	}
	if m := reStrLen.FindStringSubmatch(s); m != nil {
		return ".strLen " + leanStr(m[1])
	}
	if m := reHex.FindStringSubmatch(s); m != nil {
		return ".hexHalf " + leanStr(m[1])
	}
	if m := reB64.FindStringSubmatch(s); m != nil {
		return ".b64 " + leanStr(m[1])
	}
	if m := reB32.FindStringSubmatch(s); m != nil {
		return ".b32 " + leanStr(m[1])
	}
	if m := reIPIf.FindStringSubmatch(s); m != nil {
		n := 4
		if m[2] == "6" {
			n = 16
		}
		return fmt.Sprintf(".ipIf %s %d", leanStr(m[1]), n)
	}
	if m := reTxt.FindStringSubmatch(s); m != nil {
		return ".txt " + leanStr(m[1])
	}
	if m := reNames.FindStringSubmatch(s); m != nil {
		return fmt.Sprintf(".names %s %s", leanStr(m[1]), m[2])
	}
	if m := reApl.FindStringSubmatch(s); m != nil {
		return ".apl " + leanStr(m[1])
	}
	if m := reSvcb.FindStringSubmatch(s); m != nil {
		return ".svcb " + leanStr(m[1])
	}
	if m := reGw.FindStringSubmatch(s); m != nil {
		return fmt.Sprintf(".gateway %s %s %s", leanStr(m[1]), strconv.FormatBool(m[2] != ""), leanStr(m[3]))
	}
	if m := reBitmap.FindStringSubmatch(s); m != nil {
		return ".bitmap " + leanStr(m[1])
	}
	return ".other " + leanStr(s)
}

// lenSteps: one statement; `l += a + b + …` is split into its terms
func (p *pkgInfo) lenSteps(st ast.Stmt) []string {
	one := p.lenStep(st)
	if !strings.HasPrefix(one, ".other") {
		return []string{one}
	}
	s := p.src(st)
	if !strings.HasPrefix(s, "l+=") || strings.ContainsAny(s, "{}") {
		return []string{one}
	}
	var out []string
	depth, start := 0, 3
	var terms []string
	for i := 3; i < len(s); i++ {
		switch s[i] {
		case '(':
			depth++
		case ')':
			depth--
		case '+':
			if depth == 0 {
				terms = append(terms, s[start:i])
				start = i + 1
			}
		}
	}
	terms = append(terms, s[start:])
	for _, t := range terms {
		var step string
		if _, err := strconv.Atoi(t); err == nil {
			step = ".const " + t
		} else if m := regexp.MustCompile(`^len\(rr\.(\w+)\)/2$`).FindStringSubmatch(t); m != nil {
			step = ".hexHalf " + leanStr(m[1])
		} else if m := regexp.MustCompile(`^len\(rr\.(\w+)\)$`).FindStringSubmatch(t); m != nil {
			step = ".strLen " + leanStr(m[1])
		} else {
			return []string{one}
		}
		out = append(out, step)
	}
	return out
}

// lenAliases: record types that have no len() of their own because they embed another record type (CDS{DS}, …)
func (p *pkgInfo) lenAliases(have map[string]bool) [][2]string {
	var out [][2]string
	for _, f := range p.files {
		for _, d := range f.Decls {
			gd, ok := d.(*ast.GenDecl)
			if !ok {
				continue
			}
			for _, sp := range gd.Specs {
				ts, ok := sp.(*ast.TypeSpec)
				if !ok {
					continue
				}
				stt, ok := ts.Type.(*ast.StructType)
				if !ok || stt.Fields == nil || len(stt.Fields.List) != 1 || len(stt.Fields.List[0].Names) != 0 {
					continue
				}
				if id, ok := stt.Fields.List[0].Type.(*ast.Ident); ok && have[id.Name] && !have[ts.Name.Name] {
					out = append(out, [2]string{ts.Name.Name, id.Name})
				}
			}
		}
	}
	sort.Slice(out, func(i, j int) bool { return out[i][0] < out[j][0] })
	return out
}

// lenPlans: every `func (rr *T) len(off int, compression map[string]struct{}) int` of the package whose body starts
// with `l := rr.Hdr.len(off, compression)` and ends with `return l`
func (p *pkgInfo) lenPlans() []lenPlan {
	var out []lenPlan
	var names []string
	for n := range p.funcs {
		if strings.HasSuffix(n, ".len") {
			names = append(names, n)
		}
	}
	sort.Strings(names)
	for _, n := range names {
		fd := p.funcs[n]
		if fd.Type.Params == nil || len(fd.Type.Params.List) != 2 || fd.Body == nil {
			continue // x.len() of APLPrefix, SVCB values: not a record
		}
		t := strings.TrimSuffix(n, ".len")
		if t == "RR_Header" {
			continue
		}
		body := fd.Body.List
		pl := lenPlan{Type: t}
		if len(body) < 2 || p.src(body[0]) != "l:=rr.Hdr.len(off,compression)" || p.src(body[len(body)-1]) != "returnl" {
			var all []string
			for _, st := range body {
				all = append(all, p.src(st))
			}
			pl.Steps = []string{".other " + leanStr(strings.Join(all, ";"))}
			out = append(out, pl)
			continue
		}
		for _, st := range body[1 : len(body)-1] {
			pl.Steps = append(pl.Steps, p.lenSteps(st)...)
		}
		out = append(out, pl)
	}
	if len(out) < 60 {
		fail("only %d len() methods found", len(out))
	}
	return out
}

func leanLenPlans(ps []lenPlan, aliases [][2]string) string {
	var b strings.Builder
	b.WriteString("def lenAlias : List (String × String) := [")
	for i, a := range aliases {
		if i > 0 {
			b.WriteString(", ")
		}
		fmt.Fprintf(&b, "(%s, %s)", leanStr(a[0]), leanStr(a[1]))
	}
	b.WriteString("]\n")
	b.WriteString("def lenPlans : List (String × List LStep) := [\n")
	for i, pl := range ps {
		fmt.Fprintf(&b, "  (%s, [%s])", leanStr(pl.Type), strings.Join(pl.Steps, ", "))
		if i < len(ps)-1 {
			b.WriteString(",")
		}
		b.WriteString("\n")
	}
	b.WriteString("]\n")
	return b.String()
}
