/-
  C17 — "… for every key, digest type, owner name, salt and iteration count, independent of the letter case of the
  name": what `ToDS` and `HashName` hand to the hash function is the RFC canonical wire form of the name — lower-case
  labels, uncompressed — followed by the DNSKEY RDATA resp. the salt, for every name within the limits in the library's
  spelling; hence two spellings that differ in ASCII letter case only give the same digest and the same NSEC3 hash.
-/
import DnsModel.Dnssec
import DnsProofs.C20Wire
import DnsProofs.C01Opt
import DnsProofs.C17
namespace Dns.C17
open Dns Dns.C03 Dns.C20W Dns.C01 Dns.C01O

theorem canonical_presentOf (ls : List Bytes) : canonicalName (presentOf ls) = presentOf (ls.map lowerAll) := by
  unfold canonicalName fqdn
  rw [isFqdn_presentOf, if_pos rfl, lower_presentOf]

/-- **ds_input_canonical**: the DS digest is taken over the canonical owner name and the DNSKEY RDATA -/
theorem ds_input_canonical (ls : List Bytes) (h : WireNameOK ls) (rdata : Bytes) :
    dsInput (presentOf ls) rdata = some (wireOf (ls.map lowerAll) ++ rdata) := by
  unfold dsInput
  rw [canonical_presentOf, pack_present _ (lower_wireNameOK ls h)]

/-- **nsec3_input_canonical**: the first NSEC3 hash is taken over the canonical name and the salt -/
theorem nsec3_input_canonical (ls : List Bytes) (h : WireNameOK ls) (salt : Bytes) :
    nsec3Input (presentOf ls) salt = some (wireOf (ls.map lowerAll) ++ salt) := by
  unfold nsec3Input
  rw [lower_presentOf, pack_present _ (lower_wireNameOK ls h)]

/-- **ds_case_invariant** -/
theorem ds_case_invariant (ls ls' : List Bytes) (h : WireNameOK ls) (h' : WireNameOK ls') (rdata : Bytes)
    (hc : ls.map lowerAll = ls'.map lowerAll) : dsInput (presentOf ls) rdata = dsInput (presentOf ls') rdata := by
  rw [ds_input_canonical ls h, ds_input_canonical ls' h', hc]

/-- **hashName_rfc**: `HashName` of a name within the limits is the iterated hash of RFC 5155 §5 over the canonical wire
    form, for every hash function, salt and iteration count -/
theorem hashName_rfc (H : Bytes → Bytes) (ls : List Bytes) (h : WireNameOK ls) (salt : Bytes) (k : Nat) :
    hashName H (presentOf ls) salt k = some (rfcIH H salt (wireOf (ls.map lowerAll)) k) := by
  unfold hashName
  rw [lower_presentOf, pack_present _ (lower_wireNameOK ls h)]
  simp only
  rw [hashName_eq_rfc]

/-- **hashName_case_invariant** -/
theorem hashName_case_invariant (H : Bytes → Bytes) (ls ls' : List Bytes) (h : WireNameOK ls) (h' : WireNameOK ls')
    (salt : Bytes) (k : Nat) (hc : ls.map lowerAll = ls'.map lowerAll) :
    hashName H (presentOf ls) salt k = hashName H (presentOf ls') salt k := by
  rw [hashName_rfc H ls h, hashName_rfc H ls' h', hc]

example : dsInput (presentOf [[69, 120]]) [1, 1, 3, 15] = some ([2, 101, 120, 0, 1, 1, 3, 15]) := by
  rw [ds_input_canonical _ (by decide)]; decide

end Dns.C17
