/-
  C05 (text algebra) — numbers printed in groups of hex digits (EUI48, EUI64: pairs with dashes; NID, L64: fours with
  colons) are read back by their parsers as the same numbers, for every value of the field.
-/
import DnsModel.TextCodec
import DnsProofs.C06Text
namespace Dns.C05H
open Dns Dns.TextCodec Dns.C06T

theorem hexChar_lower : ∀ d : Fin 16, hexDigitVal (hexChar false d.val) = some d.val ∧ plain (hexChar false d.val) = true := by decide
theorem hexChar_upper : ∀ d : Fin 16, hexDigitVal (hexChar true d.val) = some d.val ∧ plain (hexChar true d.val) = true := by decide

theorem hv (up : Bool) (d : Nat) (h : d < 16) : hexDigitVal (hexChar up d) = some d := by
  cases up
  · exact (hexChar_lower ⟨d, h⟩).1
  · exact (hexChar_upper ⟨d, h⟩).1

theorem hp (up : Bool) (d : Nat) (h : d < 16) : plain (hexChar up d) = true := by
  cases up
  · exact (hexChar_lower ⟨d, h⟩).2
  · exact (hexChar_upper ⟨d, h⟩).2

/-- the digits of `hexFixed`, read as a hexadecimal number behind an accumulator -/
theorem foldl_hexFixed (up : Bool) (n v a : Nat) :
    (hexFixed up n v).foldl hexStep (some a) = some (a * 16 ^ n + v % 16 ^ n) := by
  induction n generalizing a with
  | zero => simp [hexFixed, Nat.mod_one]
  | succ n ih =>
    simp only [hexFixed, List.foldl_cons, hexStep, hv up _ (Nat.mod_lt _ (by decide : 16 > 0))]
    rw [ih]
    congr 1
    have h1 : v % 16 ^ (n + 1) = (v / 16 ^ n % 16) * 16 ^ n + v % 16 ^ n := by
      rw [Nat.pow_succ, Nat.mod_mul, Nat.mul_comm]
      omega
    rw [h1, Nat.pow_succ]
    rw [Nat.add_mul, Nat.mul_assoc, Nat.mul_comm 16 (16 ^ n)]
    omega

theorem parseHexN_hexFixed (up : Bool) (bits n v : Nat) (hn : 0 < n) (hv' : v < 16 ^ n) (hb : 16 ^ n ≤ 2 ^ bits) :
    parseHexN bits (hexFixed up n v) = some v := by
  unfold parseHexN
  have hne : (hexFixed up n v).isEmpty = false := by
    cases n with
    | zero => omega
    | succ n => simp [hexFixed]
  rw [hne]
  simp only [Bool.false_eq_true, if_false]
  rw [foldl_hexFixed up n v 0]
  simp only [Nat.zero_mul, Nat.zero_add, Nat.mod_eq_of_lt hv']
  rw [if_pos (by omega)]

theorem hexFixed_plain (up : Bool) (n v : Nat) : (hexFixed up n v).all plain = true := by
  induction n with
  | zero => rfl
  | succ n ih => simp only [hexFixed, List.all_cons, hp up _ (Nat.mod_lt _ (by decide : 16 > 0)), ih, Bool.and_self]


/-! ### the three shapes: what the parser takes from the printed token is the run of digits -/

theorem eui48_digits (v : Nat) : euiParse 6 (printHexGroups 12 2 45 false v) = parseHexN 48 (hexFixed false 12 v) := by
  simp only [printHexGroups, hexFixed]
  generalize hexChar false (v / 16 ^ 11 % 16) = c11
  generalize hexChar false (v / 16 ^ 10 % 16) = c10
  generalize hexChar false (v / 16 ^ 9 % 16) = c9
  generalize hexChar false (v / 16 ^ 8 % 16) = c8
  generalize hexChar false (v / 16 ^ 7 % 16) = c7
  generalize hexChar false (v / 16 ^ 6 % 16) = c6
  generalize hexChar false (v / 16 ^ 5 % 16) = c5
  generalize hexChar false (v / 16 ^ 4 % 16) = c4
  generalize hexChar false (v / 16 ^ 3 % 16) = c3
  generalize hexChar false (v / 16 ^ 2 % 16) = c2
  generalize hexChar false (v / 16 ^ 1 % 16) = c1
  generalize hexChar false (v / 16 ^ 0 % 16) = c0
  simp [groupsOf, joinWith, euiParse, List.range, List.range.loop]

theorem eui64_digits (v : Nat) : euiParse 8 (printHexGroups 16 2 45 false v) = parseHexN 64 (hexFixed false 16 v) := by
  simp only [printHexGroups, hexFixed]
  generalize hexChar false (v / 16 ^ 15 % 16) = c15
  generalize hexChar false (v / 16 ^ 14 % 16) = c14
  generalize hexChar false (v / 16 ^ 13 % 16) = c13
  generalize hexChar false (v / 16 ^ 12 % 16) = c12
  generalize hexChar false (v / 16 ^ 11 % 16) = c11
  generalize hexChar false (v / 16 ^ 10 % 16) = c10
  generalize hexChar false (v / 16 ^ 9 % 16) = c9
  generalize hexChar false (v / 16 ^ 8 % 16) = c8
  generalize hexChar false (v / 16 ^ 7 % 16) = c7
  generalize hexChar false (v / 16 ^ 6 % 16) = c6
  generalize hexChar false (v / 16 ^ 5 % 16) = c5
  generalize hexChar false (v / 16 ^ 4 % 16) = c4
  generalize hexChar false (v / 16 ^ 3 % 16) = c3
  generalize hexChar false (v / 16 ^ 2 % 16) = c2
  generalize hexChar false (v / 16 ^ 1 % 16) = c1
  generalize hexChar false (v / 16 ^ 0 % 16) = c0
  simp [groupsOf, joinWith, euiParse, List.range, List.range.loop]

theorem nodeId_digits (up : Bool) (v : Nat) : nodeIdParse (printHexGroups 16 4 58 up v) = parseHexN 64 (hexFixed up 16 v) := by
  simp only [printHexGroups, hexFixed]
  generalize hexChar up (v / 16 ^ 15 % 16) = c15
  generalize hexChar up (v / 16 ^ 14 % 16) = c14
  generalize hexChar up (v / 16 ^ 13 % 16) = c13
  generalize hexChar up (v / 16 ^ 12 % 16) = c12
  generalize hexChar up (v / 16 ^ 11 % 16) = c11
  generalize hexChar up (v / 16 ^ 10 % 16) = c10
  generalize hexChar up (v / 16 ^ 9 % 16) = c9
  generalize hexChar up (v / 16 ^ 8 % 16) = c8
  generalize hexChar up (v / 16 ^ 7 % 16) = c7
  generalize hexChar up (v / 16 ^ 6 % 16) = c6
  generalize hexChar up (v / 16 ^ 5 % 16) = c5
  generalize hexChar up (v / 16 ^ 4 % 16) = c4
  generalize hexChar up (v / 16 ^ 3 % 16) = c3
  generalize hexChar up (v / 16 ^ 2 % 16) = c2
  generalize hexChar up (v / 16 ^ 1 % 16) = c1
  generalize hexChar up (v / 16 ^ 0 % 16) = c0
  simp [groupsOf, joinWith, nodeIdParse]

/-- **EUI48 / EUI64 / NID / L64**: the printed token is read back as the number -/
theorem eui48_roundtrip (v : Nat) (h : v < 2 ^ 48) : euiParse 6 (printHexGroups 12 2 45 false v) = some v := by
  rw [eui48_digits]; exact parseHexN_hexFixed false 48 12 v (by decide) (by simpa using h) (by decide)

theorem eui64_roundtrip (v : Nat) (h : v < 2 ^ 64) : euiParse 8 (printHexGroups 16 2 45 false v) = some v := by
  rw [eui64_digits]; exact parseHexN_hexFixed false 64 16 v (by decide) (by simpa using h) (by decide)

theorem nodeId_roundtrip (up : Bool) (v : Nat) (h : v < 2 ^ 64) : nodeIdParse (printHexGroups 16 4 58 up v) = some v := by
  rw [nodeId_digits]; exact parseHexN_hexFixed up 64 16 v (by decide) (by simpa using h) (by decide)


/-! ### the printed token is one word -/

theorem groupsOf_plain (g : Nat) (f : Nat) (s : Bytes) (h : s.all plain = true) : ∀ w ∈ groupsOf g f s, w.all plain = true := by
  induction f generalizing s with
  | zero => simp [groupsOf]
  | succ f ih =>
    intro w hw
    simp only [groupsOf] at hw
    split at hw
    · simp only [List.mem_singleton] at hw; rw [hw]; exact h
    · simp only [List.mem_cons] at hw
      rw [List.all_eq_true] at h
      rcases hw with rfl | hw
      · rw [List.all_eq_true]; intro x hx; exact h x (List.mem_of_mem_take hx)
      · exact ih (s.drop g) (by rw [List.all_eq_true]; intro x hx; exact h x (List.mem_of_mem_drop hx)) w hw

theorem joinWith_plain (sep : Byte) (hs : plain sep = true) (ws : List Bytes) (h : ∀ w ∈ ws, w.all plain = true) :
    (joinWith sep ws).all plain = true := by
  induction ws with
  | nil => rfl
  | cons w rest ih =>
    cases rest with
    | nil => simpa [joinWith] using h w (by simp)
    | cons w2 r2 =>
      simp only [joinWith, List.all_append, List.all_cons, Bool.and_eq_true]
      exact ⟨h w (by simp), hs, ih (fun x hx => h x (by simp [hx]))⟩

theorem printHex_plain (d g sep : Nat) (up : Bool) (v : Nat) (hs : plain (UInt8.ofNat sep) = true) :
    (printHexGroups d g sep up v).all plain = true :=
  joinWith_plain _ hs _ (groupsOf_plain g _ _ (hexFixed_plain up d v))

theorem eui48_ne_nil (v : Nat) : printHexGroups 12 2 45 false v ≠ [] := by
  simp [printHexGroups, hexFixed, groupsOf, joinWith]

theorem eui64_ne_nil (v : Nat) : printHexGroups 16 2 45 false v ≠ [] := by
  simp [printHexGroups, hexFixed, groupsOf, joinWith]

theorem nodeId_ne_nil (up : Bool) (v : Nat) : printHexGroups 16 4 58 up v ≠ [] := by
  simp [printHexGroups, hexFixed, groupsOf, joinWith]

end Dns.C05H
