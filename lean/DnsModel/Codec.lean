/-
  DnsModel.Codec — the primitives of msg_helpers.go as total functions on octet lists, and the generated per-type
  pack / unpack bodies (DnsModel/Generated/Codecs.lean, translated from zmsg.go) interpreted over them.

  Values are wire-level: integers, octet strings (what the hex / base64 / character-string text denotes), names as
  presentation text (so that packName / unpackName of DnsModel.Name are the name codec), lists of character-strings.
  The RDATA handed to `unpack` is cut at RDLENGTH, as UnpackRRWithHeader does (`msg[:end]`).
-/
import DnsModel.CodecBase
import DnsModel.Name
import DnsModel.Nsec
namespace Dns

inductive Val where
  | n (v : Nat)
  | b (bs : Bytes)
  | t (text : Bytes)          -- a domain name in presentation form
  | ss (strs : List Bytes)
  | ts (types : List Nat)     -- a type bitmap as the list of type codes
deriving Repr, DecidableEq

/-- what a field holds when the unpacker stopped before reaching it -/
def zeroVal : CStep → Option Val
  | .early => none
  | .uint _ => some (.n 0)
  | .a | .aaaa | .blobRest | .blobSized _ => some (.b [])
  | .str => some (.b [])
  | .name => some (.t [])
  | .txt => some (.ss [])
  | .nsec => some (.ts [])
  | .other => none

def packTxtStrings : List Bytes → Option Bytes
  | [] => some []
  | s :: rest =>
    if s.length ≤ 255 then (packTxtStrings rest).map (fun r => UInt8.ofNat s.length :: s ++ r) else none

/-- one step of a generated `pack` body -/
def packStep : CStep → Val → Option Bytes
  | .uint w, .n v => if v < 256 ^ w then some (beBytes w v) else none
  | .a, .b bs => if bs.length = 4 ∨ bs.length = 0 then some bs else none
  | .aaaa, .b bs => if bs.length = 16 ∨ bs.length = 0 then some bs else none
  | .str, .b bs => if bs.length ≤ 255 then some (UInt8.ofNat bs.length :: bs) else none
  | .name, .t text => match packName text with | .ok w => some w | _ => none
  | .blobRest, .b bs => some bs
  | .blobSized _, .b bs => some bs
  | .txt, .ss strs => packTxtStrings strs
  | .nsec, .ts types => packNsec types
  | _, _ => none

def packPlan : List CStep → List Val → Option Bytes
  | [], [] => some []
  | .early :: steps, vals => packPlan steps vals
  | s :: steps, v :: vals =>
    match packStep s v, packPlan steps vals with
    | some a, some r => some (a ++ r)
    | _, _ => none
  | _, _ => none

def unpackTxtStrings : (fuel : Nat) → Bytes → Option (List Bytes)
  | 0, _ => none
  | _ + 1, [] => some []
  | f + 1, l :: rest =>
    if l.toNat ≤ rest.length then (unpackTxtStrings f (rest.drop l.toNat)).map (fun r => rest.take l.toNat :: r) else none

/-- one step of a generated `unpack` body on the remaining RDATA: the value and what is left -/
def unpackStep (vals : List Val) : CStep → Bytes → Option (Val × Bytes)
  | .uint w, rd => if w ≤ rd.length then some (.n (beVal (rd.take w)), rd.drop w) else none
  | .a, rd => if 4 ≤ rd.length then some (.b (rd.take 4), rd.drop 4) else none
  | .aaaa, rd => if 16 ≤ rd.length then some (.b (rd.take 16), rd.drop 16) else none
  | .str, [] => none
  | .str, l :: rest => if l.toNat ≤ rest.length then some (.b (rest.take l.toNat), rest.drop l.toNat) else none
  | .name, rd => match unpackName rd 0 with | .ok (text, off) => some (.t text, rd.drop off) | _ => none
  | .blobRest, rd => some (.b rd, [])
  | .blobSized i, rd =>
    match vals.getD i (.n 0) with
    | .n size => if size ≤ rd.length then some (.b (rd.take size), rd.drop size) else none
    | _ => none
  | .txt, rd => (unpackTxtStrings (rd.length + 1) rd).map (fun ss => (.ss ss, []))
  | .nsec, rd => (unpackNsec rd).map (fun ts => (.ts ts, []))
  | _, _ => none

/-- a generated `unpack` body: `acc` the fields decoded so far (in order) -/
def unpackPlan : List CStep → Bytes → List Val → Option (List Val)
  | [], rd, acc => if rd.isEmpty then some acc else some acc   -- trailing octets are the caller's business (off != end)
  | .early :: steps, rd, acc =>
    if rd.isEmpty then some (acc ++ steps.filterMap zeroVal) else unpackPlan steps rd acc
  | s :: steps, rd, acc =>
    match unpackStep acc s rd with
    | some (v, rd') => unpackPlan steps rd' (acc ++ [v])
    | none => none

/-- the pack plan that belongs to an unpack plan: same steps without the early exits, sized blobs copied -/
def stripPlan : List CStep → List CStep
  | [] => []
  | .early :: s => stripPlan s
  | .blobSized _ :: s => .blobRest :: stripPlan s
  | x :: s => x :: stripPlan s

end Dns
