/-
  C08 — Len never underestimates: the name-length part of Len (domainNameLen / escapedNameLen)
  against the octets the packer emits for the same name.
-/
import DnsModel.Compress
import DnsProofs.C03
namespace Dns.C08
open Dns Dns.C03

theorem escapedNameLen_le (s : Bytes) : escapedNameLen s ≤ s.length := by
  fun_induction escapedNameLen s <;> simp_all <;> omega

/-- without a backslash every character is one octet -/
theorem escapedNameLen_plain (s : Bytes) (h : s.contains 92 = false) : escapedNameLen s = s.length := by
  fun_induction escapedNameLen s
  · rfl
  · simp_all
  · simp_all
  · rename_i c rest hc ih
    have : rest.contains 92 = false := by
      simp only [List.contains_cons, Bool.or_eq_false_iff] at h; exact h.2
    simp [ih this]; omega

theorem escapedNameLen_presentByte : ∀ b : Byte, ∀ rest : Bytes,
    escapedNameLen (presentByte b ++ rest) = 1 + escapedNameLen rest := by
  intro b rest
  unfold presentByte
  by_cases hs : isSpecial b = true
  · simp only [hs, ↓reduceIte]
    have hd := isDDD_of_not_digit b rest (special_ne_digit b hs)
    rw [show [92, b] ++ rest = 92 :: b :: rest from rfl, escapedNameLen]
    simp [hd]
  · have hs' : isSpecial b = false := by simpa using hs
    simp only [hs', Bool.false_eq_true, ↓reduceIte]
    by_cases hp : (b < 32 || b > 126) = true
    · simp only [hp, ↓reduceIte]
      have ⟨h1, _⟩ := ddd_escape b rest
      have : escapeByte b ++ rest = 92 :: ((escapeByte b).tail ++ rest) := by simp [escapeByte]
      rw [this, escapedNameLen]
      simp only [h1, ↓reduceIte]
      simp [escapeByte]
    · have ⟨n92, _⟩ := plain_not_special b hs'
      simp only [hp, Bool.false_eq_true, ↓reduceIte]
      rw [show [b] ++ rest = b :: rest from rfl, escapedNameLen]
      simp [n92]

theorem escapedNameLen_presentLabel (l rest : Bytes) :
    escapedNameLen (presentLabel l ++ rest) = l.length + escapedNameLen rest := by
  induction l with
  | nil => simp [presentLabel]
  | cons b l ih =>
    have : presentLabel (b :: l) ++ rest = presentByte b ++ (presentLabel l ++ rest) := by simp [presentLabel]
    rw [this, escapedNameLen_presentByte, ih]; simp; omega

theorem escapedNameLen_dot (rest : Bytes) : escapedNameLen (46 :: rest) = 1 + escapedNameLen rest := by
  rw [escapedNameLen]; simp

/-- the decoded length of the library's spelling of a label list is the size of its wire labels -/
theorem escapedNameLen_presentLabels (ls : List Bytes) :
    escapedNameLen (presentLabels ls) = (wireLabels ls).length := by
  induction ls with
  | nil => simp [presentLabels, wireLabels, escapedNameLen]
  | cons l ls ih =>
    have : presentLabels (l :: ls) = presentLabel l ++ (46 :: presentLabels ls) := by simp [presentLabels]
    rw [this, escapedNameLen_presentLabel, escapedNameLen_dot, ih, wireLabels_length_cons]; omega

/-- **len_exact_name**: for every name within the limits in the library's spelling, the uncompressed
    length predicted by `domainNameLen` equals the number of octets `packDomainName` writes. -/
theorem domainNameLen_exact (ls : List Bytes) (off : Nat) (compress : Bool) (h : WireNameOK ls) :
    (domainNameLen (presentOf ls) off none compress).1 = (wireOf ls).length
    ∧ packName (presentOf ls) = .ok (wireOf ls) := by
  refine ⟨?_, pack_present ls h⟩
  match ls, h with
  | [], _ => simp [domainNameLen, presentOf, wireOf]
  | l :: ls, h =>
    rw [presentOf_eq]
    have hl0 := h.1 l (by simp)
    match l, hl0 with
    | b :: l', _ =>
      have hlen2 : (presentLabels ((b :: l') :: ls)).length ≥ 2 := by
        have := presentByte_ne_nil b
        simp [presentLabels, presentLabel]; omega
      have hne : presentLabels ((b :: l') :: ls) ≠ [] := by
        intro e; rw [e] at hlen2; simp at hlen2
      have hne2 : presentLabels ((b :: l') :: ls) ≠ [46] := by
        intro e; rw [e] at hlen2; simp at hlen2
      unfold domainNameLen
      simp only [hne2, decide_false, Bool.or_self, Bool.false_eq_true, ↓reduceIte]
      have e1 := escapedNameLen_presentLabels ((b :: l') :: ls)
      by_cases hc : (presentLabels ((b :: l') :: ls)).contains 92 = true
      · simp only [hc, ↓reduceIte]; rw [e1, wireOf_eq]; simp [hne]
      · have hc' : (presentLabels ((b :: l') :: ls)).contains 92 = false := by simpa using hc
        simp only [hc', Bool.false_eq_true, ↓reduceIte]
        rw [← escapedNameLen_plain _ hc', e1, wireOf_eq]; simp [hne]

end Dns.C08
