package main

// Independent reading of the type-length-value sub-structures (EDNS0 options, SVCB parameters, APL items) from the
// wire octets, following the RFC layouts, and the same description taken from the library's decoded structs.  The two
// must agree for every record the library accepts: this checks the *values* of option / parameter fields, which the
// "re-pack gives the same octets" predicate cannot see when a codec is changed consistently in both directions.

import (
	"fmt"
	"net"
	"strings"

	"github.com/miekg/dns"
)

func padTo(b []byte, n int) []byte {
	out := make([]byte, n)
	copy(out, b)
	return out
}

// describeOptWire: RDATA of an OPT record -> one line per option; ok=false for layouts this oracle does not cover.
func describeOptWire(rd []byte) ([]string, bool) {
	var out []string
	for len(rd) > 0 {
		if len(rd) < 4 {
			return nil, false
		}
		code := int(rd[0])<<8 | int(rd[1])
		n := int(rd[2])<<8 | int(rd[3])
		if 4+n > len(rd) {
			return nil, false
		}
		d := rd[4 : 4+n]
		rd = rd[4+n:]
		u := func(b []byte) uint64 {
			var v uint64
			for _, x := range b {
				v = v<<8 | uint64(x)
			}
			return v
		}
		switch code {
		case 1:
			if n != 18 {
				return nil, false
			}
			out = append(out, fmt.Sprintf("LLQ v=%d op=%d err=%d id=%d lease=%d", u(d[0:2]), u(d[2:4]), u(d[4:6]), u(d[6:14]), u(d[14:18])))
		case 2:
			switch n {
			case 4:
				out = append(out, fmt.Sprintf("UL lease=%d keylease=0", u(d)))
			case 8:
				out = append(out, fmt.Sprintf("UL lease=%d keylease=%d", u(d[:4]), u(d[4:])))
			default:
				return nil, false
			}
		case 3:
			out = append(out, fmt.Sprintf("NSID %x", d))
		case 4:
			out = append(out, fmt.Sprintf("ESU %q", string(d)))
		case 5, 6, 7:
			out = append(out, fmt.Sprintf("%s %x", map[int]string{5: "DAU", 6: "DHU", 7: "N3U"}[code], d))
		case 8:
			if n < 4 {
				return nil, false
			}
			fam := int(u(d[0:2]))
			full := map[int]int{1: 4, 2: 16}[fam]
			if full == 0 || n-4 > full {
				return nil, false
			}
			out = append(out, fmt.Sprintf("SUBNET fam=%d src=%d scope=%d addr=%x", fam, d[2], d[3], padTo(d[4:], full)))
		case 9:
			switch n {
			case 0:
				out = append(out, "EXPIRE empty")
			case 4:
				out = append(out, fmt.Sprintf("EXPIRE %d", u(d)))
			default:
				return nil, false
			}
		case 10:
			out = append(out, fmt.Sprintf("COOKIE %x", d))
		case 11:
			switch n {
			case 0:
				out = append(out, "KEEPALIVE 0")
			case 2:
				out = append(out, fmt.Sprintf("KEEPALIVE %d", u(d)))
			default:
				return nil, false
			}
		case 12:
			out = append(out, fmt.Sprintf("PADDING %x", d))
		case 15:
			if n < 2 {
				return nil, false
			}
			out = append(out, fmt.Sprintf("EDE code=%d text=%q", u(d[:2]), string(d[2:])))
		case 18:
			// agent domain: an uncompressed wire name filling the option
			p := 0
			for p < n && d[p] != 0 {
				if d[p] > 63 {
					return nil, false
				}
				p += 1 + int(d[p])
			}
			if p != n-1 {
				return nil, false
			}
			out = append(out, fmt.Sprintf("REPORTING %x", d))
		case 19:
			if n < 2 {
				return nil, false
			}
			out = append(out, fmt.Sprintf("ZONEVERSION labels=%d type=%d version=%x", d[0], d[1], d[2:]))
		default:
			out = append(out, fmt.Sprintf("LOCAL code=%d data=%x", code, d))
		}
	}
	return out, true
}

func describeOptLib(o *dns.OPT) ([]string, bool) {
	var out []string
	for _, e := range o.Option {
		switch x := e.(type) {
		case *dns.EDNS0_LLQ:
			out = append(out, fmt.Sprintf("LLQ v=%d op=%d err=%d id=%d lease=%d", x.Version, x.Opcode, x.Error, x.Id, x.LeaseLife))
		case *dns.EDNS0_UL:
			out = append(out, fmt.Sprintf("UL lease=%d keylease=%d", x.Lease, x.KeyLease))
		case *dns.EDNS0_NSID:
			out = append(out, "NSID "+strings.ToLower(x.Nsid))
		case *dns.EDNS0_ESU:
			out = append(out, fmt.Sprintf("ESU %q", x.Uri))
		case *dns.EDNS0_DAU:
			out = append(out, fmt.Sprintf("DAU %x", x.AlgCode))
		case *dns.EDNS0_DHU:
			out = append(out, fmt.Sprintf("DHU %x", x.AlgCode))
		case *dns.EDNS0_N3U:
			out = append(out, fmt.Sprintf("N3U %x", x.AlgCode))
		case *dns.EDNS0_SUBNET:
			full := map[uint16]int{1: 4, 2: 16}[x.Family]
			a := []byte(x.Address)
			if full == 4 {
				a = []byte(x.Address.To4())
			}
			if full == 0 || len(a) != full {
				return nil, false
			}
			out = append(out, fmt.Sprintf("SUBNET fam=%d src=%d scope=%d addr=%x", x.Family, x.SourceNetmask, x.SourceScope, a))
		case *dns.EDNS0_EXPIRE:
			if x.Empty {
				out = append(out, "EXPIRE empty")
			} else {
				out = append(out, fmt.Sprintf("EXPIRE %d", x.Expire))
			}
		case *dns.EDNS0_COOKIE:
			out = append(out, "COOKIE "+strings.ToLower(x.Cookie))
		case *dns.EDNS0_TCP_KEEPALIVE:
			out = append(out, fmt.Sprintf("KEEPALIVE %d", x.Timeout))
		case *dns.EDNS0_PADDING:
			out = append(out, fmt.Sprintf("PADDING %x", x.Padding))
		case *dns.EDNS0_EDE:
			out = append(out, fmt.Sprintf("EDE code=%d text=%q", x.InfoCode, x.ExtraText))
		case *dns.EDNS0_REPORTING:
			out = append(out, fmt.Sprintf("REPORTING %x", unescapeName(x.AgentDomain)))
		case *dns.EDNS0_ZONEVERSION:
			out = append(out, fmt.Sprintf("ZONEVERSION labels=%d type=%d version=%x", x.LabelCount, x.Type, []byte(x.Version)))
		case *dns.EDNS0_LOCAL:
			out = append(out, fmt.Sprintf("LOCAL code=%d data=%x", x.Code, x.Data))
		default:
			return nil, false
		}
	}
	return out, true
}

// describeSvcWire: the SvcParams part of SVCB / HTTPS RDATA (after priority and target).
func describeSvcWire(rd []byte) ([]string, bool) {
	var out []string
	for len(rd) > 0 {
		if len(rd) < 4 {
			return nil, false
		}
		key := int(rd[0])<<8 | int(rd[1])
		n := int(rd[2])<<8 | int(rd[3])
		if 4+n > len(rd) {
			return nil, false
		}
		d := rd[4 : 4+n]
		rd = rd[4+n:]
		switch key {
		case 0:
			if n%2 != 0 {
				return nil, false
			}
			var ks []string
			for i := 0; i < n; i += 2 {
				ks = append(ks, fmt.Sprint(int(d[i])<<8|int(d[i+1])))
			}
			out = append(out, "mandatory "+strings.Join(ks, ","))
		case 1:
			var ids []string
			for i := 0; i < n; {
				l := int(d[i])
				if i+1+l > n {
					return nil, false
				}
				ids = append(ids, fmt.Sprintf("%q", string(d[i+1:i+1+l])))
				i += 1 + l
			}
			out = append(out, "alpn "+strings.Join(ids, ","))
		case 2:
			out = append(out, "no-default-alpn")
		case 3:
			if n != 2 {
				return nil, false
			}
			out = append(out, fmt.Sprintf("port %d", int(d[0])<<8|int(d[1])))
		case 4, 6:
			w := map[int]int{4: 4, 6: 16}[key]
			if n%w != 0 {
				return nil, false
			}
			var hs []string
			for i := 0; i < n; i += w {
				hs = append(hs, fmt.Sprintf("%x", d[i:i+w]))
			}
			out = append(out, fmt.Sprintf("hint%d %s", w, strings.Join(hs, ",")))
		case 5:
			out = append(out, fmt.Sprintf("ech %x", d))
		case 7:
			out = append(out, fmt.Sprintf("dohpath %q", string(d)))
		case 8:
			out = append(out, "ohttp")
		default:
			out = append(out, fmt.Sprintf("key%d %x", key, d))
		}
	}
	return out, true
}

func describeSvcLib(v []dns.SVCBKeyValue) ([]string, bool) {
	var out []string
	for _, kv := range v {
		switch x := kv.(type) {
		case *dns.SVCBMandatory:
			var ks []string
			for _, k := range x.Code {
				ks = append(ks, fmt.Sprint(uint16(k)))
			}
			out = append(out, "mandatory "+strings.Join(ks, ","))
		case *dns.SVCBAlpn:
			var ids []string
			for _, a := range x.Alpn {
				ids = append(ids, fmt.Sprintf("%q", a))
			}
			out = append(out, "alpn "+strings.Join(ids, ","))
		case *dns.SVCBNoDefaultAlpn:
			out = append(out, "no-default-alpn")
		case *dns.SVCBPort:
			out = append(out, fmt.Sprintf("port %d", x.Port))
		case *dns.SVCBIPv4Hint:
			var hs []string
			for _, ip := range x.Hint {
				hs = append(hs, fmt.Sprintf("%x", []byte(ip.To4())))
			}
			out = append(out, "hint4 "+strings.Join(hs, ","))
		case *dns.SVCBIPv6Hint:
			var hs []string
			for _, ip := range x.Hint {
				hs = append(hs, fmt.Sprintf("%x", []byte(ip)))
			}
			out = append(out, "hint16 "+strings.Join(hs, ","))
		case *dns.SVCBECHConfig:
			out = append(out, fmt.Sprintf("ech %x", x.ECH))
		case *dns.SVCBDoHPath:
			out = append(out, fmt.Sprintf("dohpath %q", x.Template))
		case *dns.SVCBOhttp:
			out = append(out, "ohttp")
		case *dns.SVCBLocal:
			out = append(out, fmt.Sprintf("key%d %x", uint16(x.KeyCode), x.Data))
		default:
			return nil, false
		}
	}
	return out, true
}

func describeAplWire(rd []byte) ([]string, bool) {
	var out []string
	for len(rd) > 0 {
		if len(rd) < 4 {
			return nil, false
		}
		fam := int(rd[0])<<8 | int(rd[1])
		prefix := int(rd[2])
		neg := rd[3]&0x80 != 0
		n := int(rd[3] & 0x7f)
		full := map[int]int{1: 4, 2: 16}[fam]
		if full == 0 || n > full || 4+n > len(rd) {
			return nil, false
		}
		out = append(out, fmt.Sprintf("fam=%d prefix=%d neg=%v addr=%x", fam, prefix, neg, padTo(rd[4:4+n], full)))
		rd = rd[4+n:]
	}
	return out, true
}

func describeAplLib(ps []dns.APLPrefix) ([]string, bool) {
	var out []string
	for _, p := range ps {
		ip := []byte(p.Network.IP)
		fam := map[int]int{net.IPv4len: 1, net.IPv6len: 2}[len(ip)]
		if fam == 0 {
			return nil, false
		}
		ones, _ := p.Network.Mask.Size()
		out = append(out, fmt.Sprintf("fam=%d prefix=%d neg=%v addr=%x", fam, ones, p.Negation, ip))
	}
	return out, true
}

// tlvFields: for OPT / SVCB / HTTPS / APL records, the wire reading against the library's structs ("" = agree or not
// applicable).
func tlvFields(rr dns.RR, rdata []byte) string {
	var w, l []string
	var okw, okl bool
	switch x := rr.(type) {
	case *dns.OPT:
		w, okw = describeOptWire(rdata)
		l, okl = describeOptLib(x)
	case *dns.APL:
		w, okw = describeAplWire(rdata)
		l, okl = describeAplLib(x.Prefixes)
	case *dns.SVCB, *dns.HTTPS:
		// priority (2), target name (uncompressed), then the parameters
		if len(rdata) < 3 {
			return ""
		}
		p := 2
		for p < len(rdata) && rdata[p] != 0 {
			p += 1 + int(rdata[p])
		}
		p++
		if p > len(rdata) {
			return ""
		}
		w, okw = describeSvcWire(rdata[p:])
		if s, ok := rr.(*dns.SVCB); ok {
			l, okl = describeSvcLib(s.Value)
		} else {
			l, okl = describeSvcLib(rr.(*dns.HTTPS).Value)
		}
	default:
		return ""
	}
	if !okw || !okl {
		return ""
	}
	if strings.Join(w, " | ") != strings.Join(l, " | ") {
		return "wire: " + strings.Join(w, " | ") + "   library: " + strings.Join(l, " | ")
	}
	return ""
}
