package main

// Correspondence of the text algebra (DnsModel/TextCodec.lean interpreting the per-type parse / print plans that the
// extractor translates from scan_rr.go and types.go on every run) with the real parsers and printers: for every
// covered type, the RDATA text printed for wire-born records (`text.print`) and the field values read back from the
// printed line, from re-spaced / commented / parenthesised variants and from damaged lines (`text.parse`).

import (
	"encoding/hex"
	"encoding/json"
	"fmt"
	"net"
	"os"
	"reflect"
	"strings"

	"github.com/miekg/dns"
)

type textStep struct {
	Kind  string `json:"kind"`
	Bits  int    `json:"bits"`
	Field string `json:"field"`
}

type textPlanJSON struct {
	Type  string     `json:"type"`
	Parse []textStep `json:"parse"`
	Print []textStep `json:"print"`
}

func loadTextPlans() map[string]textPlanJSON {
	out := map[string]textPlanJSON{}
	b, err := os.ReadFile(verifDir() + "/lean/DnsModel/Generated/textplans.json")
	if err != nil {
		return out
	}
	var ps []textPlanJSON
	if json.Unmarshal(b, &ps) != nil {
		return out
	}
	for _, p := range ps {
		cov := len(p.Parse) > 0 && len(p.Print) > 0
		for _, s := range append(append([]textStep{}, p.Parse...), p.Print...) {
			if s.Kind == "other" {
				cov = false
			}
		}
		if cov {
			out[p.Type] = p
		}
	}
	return out
}

// fieldVals: the record's fields in plan order, in the driver's value syntax
func fieldVals(rr dns.RR, steps []textStep) (string, bool) {
	v := reflect.ValueOf(rr).Elem()
	var out []string
	var flat []textStep
	for _, s := range steps {
		if s.Kind == "txtpair" || s.Kind == "txtfirst" {
			// one step, one or two string fields
			for _, f := range strings.Split(s.Field, ",") {
				flat = append(flat, textStep{Kind: "endstr", Field: f})
			}
			continue
		}
		flat = append(flat, s)
	}
	for _, s := range flat {
		if s.Field == "" {
			continue
		}
		fv := v.FieldByName(s.Field)
		if !fv.IsValid() {
			// embedded struct (KEY, CDNSKEY): look one level down
			for i := 0; i < v.NumField(); i++ {
				if v.Type().Field(i).Anonymous {
					fv = v.Field(i).FieldByName(s.Field)
				}
			}
			if !fv.IsValid() {
				return "", false
			}
		}
		switch s.Kind {
		case "typelist":
			var ks []string
			for i := 0; i < fv.Len(); i++ {
				ks = append(ks, fmt.Sprint(fv.Index(i).Uint()))
			}
			if len(ks) == 0 {
				out = append(out, "t:-")
			} else {
				out = append(out, "t:"+strings.Join(ks, ","))
			}
		case "uint", "uintlax", "mnem", "uintalg", "uintttl", "hexgroups", "euitok", "nodeid":
			out = append(out, fmt.Sprintf("n:%d", fv.Uint()))
		case "name", "endstr", "endstrsplit", "tok", "tokne", "octet", "tokstr", "salt", "saltne":
			out = append(out, "s:"+hexOrDash([]byte(fv.String())))
		case "ipv4":
			// a four-octet address (from the wire), or what net.ParseIP returned for one (sixteen octets)
			ip := net.IP(fv.Bytes()).To4()
			if ip == nil {
				return "", false
			}
			out = append(out, "s:"+hexOrDash(ip))
		case "txt":
			var parts []string
			for i := 0; i < fv.Len(); i++ {
				if fv.Index(i).String() == "" {
					parts = append(parts, "~")
				} else {
					parts = append(parts, hxs(fv.Index(i).String()))
				}
			}
			if len(parts) == 0 {
				out = append(out, "l:-")
			} else {
				out = append(out, "l:"+strings.Join(parts, ","))
			}
		}
	}
	if len(out) == 0 {
		return "-", true
	}
	return strings.Join(out, " "), true
}

// damageText: a small edit somewhere in the RDATA text (the header in front of it stays as it is)
func damageText(r *Rng, rd string) string {
	b := []byte(rd)
	ins := []string{" ", "\t", ";", "\"", "(", ")", "\\", "0", "9", "65536", "256", "x", ".", "@", "\n", "4294967296", "-1", "+1", "0x10"}
	if len(b) == 0 {
		return ins[r.Intn(len(ins))]
	}
	i := r.Intn(len(b))
	switch r.Intn(4) {
	case 0:
		return string(b[:i]) + ins[r.Intn(len(ins))] + string(b[i:])
	case 1:
		return string(b[:i]) + string(b[i+1:])
	case 2:
		b[i] = ins[r.Intn(len(ins))][0]
		return string(b)
	default:
		return string(b[:i])
	}
}

func textStream(c *Ctx, per int) {
	r := c.R
	plans := loadTextPlans()
	if len(plans) == 0 {
		c.Res.Notes = append(c.Res.Notes, "no text plans found (extractor did not run?)")
		return
	}
	t := loadSpec()
	parseOne := func(kind, tn, origin, line string, steps []textStep) {
		impl := guard(func() string {
			zp := dns.NewZoneParser(strings.NewReader(line), origin, "")
			rr, ok := zp.Next()
			if !ok || rr == nil || zp.Err() != nil {
				return "none"
			}
			if dns.Type(rr.Header().Rrtype).String() != tn && !(tn == "NSAPPTR" && rr.Header().Rrtype == dns.TypeNSAPPTR) {
				return "none"
			}
			v, ok := fieldVals(rr, steps)
			if !ok {
				return "unreadable"
			}
			return v
		})
		c.OpK("text-parse", fmt.Sprintf("text.parse %s %s %s", tn, hexOrDash([]byte(origin)), hxs(line)), impl, true, "text-parse:"+kind+":"+tn)
	}
	for _, code := range t.wireTypes() {
		tn := dns.Type(code).String()
		structName := tn
		if tn == "NSAP-PTR" {
			structName = "NSAPPTR"
		}
		pl, ok := plans[structName]
		if !ok {
			continue
		}
		c.Hit("text-plan:" + structName)
		for i := 0; i < per; i++ {
			g := genRR(r, code, r.Intn(2), r.Bool())
			rr, off, err := dns.UnpackRR(g.Wire, 0)
			if err != nil || off != len(g.Wire) {
				continue
			}
			txt := rr.String()
			f := strings.SplitN(txt, "\t", 5)
			if len(f) != 5 {
				continue
			}
			// what the printer prints for the in-memory values
			if vals, ok := fieldVals(rr, pl.Print); ok {
				if vals == "-" {
					vals = ""
				}
				c.OpK("text-print", strings.TrimSpace(fmt.Sprintf("text.print %s %s", structName, vals)), hexOrDash([]byte(f[4])), true, "text-print:"+structName)
			}
			line := txt + "\n"
			parseOne("printed", structName, "", line, pl.Parse)
			// the same entry re-spaced, with a comment, in parentheses
			words := strings.Fields(f[4])
			if len(words) > 0 && !strings.ContainsAny(f[4], "\"") {
				alt := f[0] + " " + f[1] + "  " + f[2] + "\t" + f[3] + " (" + strings.Join(words, " \t") + " ) ; c\n"
				parseOne("respaced", structName, "", alt, pl.Parse)
			}
			parseOne("damaged", structName, []string{"", "example.org.", "."}[r.Intn(3)], strings.Join(f[:4], "\t")+"\t"+damageText(r, f[4])+"\n", pl.Parse)
		}
		// hex text around the lengths at which the SMIMEA printer cuts it into pieces (1024 characters: an empty last piece
		// when the length is a multiple of it)
		if structName == "SMIMEA" {
			for _, octets := range []int{1, 511, 512, 513, 1023, 1024, 1025, 1536, 2048} {
				cert := make([]byte, octets)
				for j := range cert {
					cert[j] = byte(r.Intn(256))
				}
				rr := &dns.SMIMEA{Hdr: dns.RR_Header{Name: "s.example.", Rrtype: dns.TypeSMIMEA, Class: 1, Ttl: 5}, Usage: 3, Selector: 1, MatchingType: 0, Certificate: hex.EncodeToString(cert)}
				txt := rr.String()
				f := strings.SplitN(txt, "\t", 5)
				if vals, ok := fieldVals(rr, pl.Print); ok && len(f) == 5 {
					c.OpK("text-print", fmt.Sprintf("text.print %s %s", structName, vals), hexOrDash([]byte(f[4])), true, fmt.Sprintf("text-print-pieces:%d", octets))
					parseOne("pieces", structName, "", txt+"\n", pl.Parse)
				}
			}
		}
		// every certificate type and algorithm that has a mnemonic, and their neighbours without one
		if structName == "CERT" {
			for _, ct := range []uint16{0, 1, 2, 3, 4, 5, 6, 7, 8, 9, 252, 253, 254, 255, 65535} {
				for _, alg := range []uint8{0, 1, 2, 3, 5, 6, 7, 8, 9, 10, 12, 13, 14, 15, 16, 17, 251, 252, 253, 254, 255} {
					rr := &dns.CERT{Hdr: dns.RR_Header{Name: "c.example.", Rrtype: dns.TypeCERT, Class: 1, Ttl: 5}, Type: ct, KeyTag: uint16(r.Intn(65536)), Algorithm: alg, Certificate: "YWJj"}
					txt := rr.String()
					f := strings.SplitN(txt, "\t", 5)
					if vals, ok := fieldVals(rr, pl.Print); ok && len(f) == 5 {
						c.OpK("text-print", fmt.Sprintf("text.print %s %s", structName, vals), hexOrDash([]byte(f[4])), true, "text-print-mnemonics")
						parseOne("mnemonics", structName, "", txt+"\n", pl.Parse)
					}
				}
			}
		}
		// relative names and @ against an origin, numbers at their limits
		for _, rd := range []string{"@", "rel", "rel.ative", "0 rel", "65535 @", "65536 rel", "255 255 255 abcd", "256 1 1 abcd", "0 0 0 rel", "1 2 3 @",
			"00 001 0002 rel", "\"a\" \"b\"", "abcd ef01", "1 RSASHA256 2 abcd", "1 rsasha1 2 abcd", "1 ED25519 1 ab cd", "1 NOSUCH 1 ab", "1 256 1 ab", "31 8 2 ab", "4294967295 1 1 aa", "4294967296 1 1 aa", "",
			"ns h 1 1h 2d 3w 4m", "ns. h. 1h 1 1 1 1", "@ @ 4294967295 4294967295 1H1M 1w1d 0", "ns h 4294967296 1 1 1 1", "ns h 1 2 3 4 5 6", "ns h 1 2 3 4", "ns h 1 2 3 4 5x", "ns h 1 7102w 3 4 5",
			"b. A MX TYPE65535 any Type12 tYPE12 XXXX12 TYPE65536 TYPE TYPE1x", "b.", "b. ", "b. A (\nMX ) ; c\n", "b. A ( MX", "b. A IN", "b. \"A\"", "b. A TYPE00012", "rel a mx", "b. A\tMX  aaaa",
			"1 2 A MX", "1 2", "4294967295 65535 TYPE0 TYPE255 ANY", "1 65536 A", "4294967296 1 A", "1 2 A NOPE", "1 2 )", "1 ) 2 A", "1 2 A ) MX", "b. A ) MX", "b. A ;)",
			"1 0 10 - 2t7b4g4vsa5smi47k61mv5bv1a22bojr A RRSIG", "1 0 10 AB 2t7b4g4vsa5smi47k61mv5bv1a22bojr", "1 0 10 ab 2T7B4G4VSA5SMI47K61MV5BV1A22BOJR TYPE65535 mx", "1 0 10 -", "1 0 10 - -", "1 0 10 \"\" 2t7b A",
			"1 0 10 ab \"\" A", "1 0 65536 - 2t7b A", "256 0 1 - 2t7b A", "1 0 10 - 2t7b A )", "1 0 10 ) 2t7b A", "1 0 10 - 2t7b NOPE", "1 0 10 -- 2t7b", "1 0 10 abc 2t7b",
			"PKIX 1 RSASHA256 YWJj", "pkix 1 8 YWJj", "1 1 8 YWJj", "65535 65535 255 YWJj", "65536 1 1 YWJj", "URI 0 ED25519 YWJj", "254 0 253 YWJj", "OID 1 PRIVATEOID YWJj", "PKIX 1 rsasha256 YWJj",
			"PKIX 1 256 YWJj", "PKIX 1 RSASHA256", "PKIX 1 RSASHA256 YW Jj", "0PKIX 1 1 YWJj", "PKIX 1 RSASHA1-NSEC3-SHA1 YWJj", "PKIX 65536 8 YWJj", "PKIX x 8 YWJj", "IACPKIX 1 ECC-GOST YWJj", "01 1 08 YWJj",
			"1.2.3.4", "01.2.3.4", "1.2.3.256", "1.2.3", "1.2.3.4.5", "::ffff:1.2.3.4", "1.2.3.4 x", "255.255.255.255", "0.0.0.0", "1..2.3", "1.2.3.4.",
			"0x1.2.3.4", "1.2.3.04", "1.2.3.0004", "192.0.2.1 ; c", "1.2.3.4:", "1.2.3.4%eth0", "1.2.3.+4", "1.2.3.4\\000", "\"1.2.3.4\"", "1:2:3:4:5:6:7:8", "::1.2.3.4", "1.2.3.4 (\n)", "00.0.0.0", "0.0.0.00", "1.2.3.255", "1.2.3.2555"} {
			line := "x.example. 5 IN " + tn + " " + rd + "\n"
			parseOne("directed", structName, "example.org.", line, pl.Parse)
		}
	}
}
