/-
  C14 (mux part) — ServeMux.match picks the registered pattern that is the longest suffix of the query name on
  label boundaries; for DS queries the shortest one (the parent side); the root pattern is the fallback.
  Built on the label-walk theorems of C19.
-/
import DnsModel.Serve
import DnsProofs.C19
namespace Dns.C14
open Dns Dns.C03 Dns.C19

/-- first registered suffix, longest first -/
def firstHit (z : Mux) : List Bytes → Option Bytes
  | [] => none
  | l :: more => if z.contains (presentLabels (l :: more)) then some (presentLabels (l :: more)) else firstHit z more

/-- last registered suffix (the shortest), starting from `h` -/
def lastHit (z : Mux) : Option Bytes → List Bytes → Option Bytes
  | h, [] => h
  | h, l :: more =>
    lastHit z (if z.contains (presentLabels (l :: more)) then some (presentLabels (l :: more)) else h) more

theorem drop_done (done rest : List Bytes) :
    (presentLabels (done ++ rest)).drop (presentLabels done).length = presentLabels rest := by
  rw [C03.presentLabels_append, List.drop_left]

theorem muxLoop_first (z : Mux) (done rest : List Bytes) (hr : rest ≠ []) (fuel : Nat) (hf : rest.length ≤ fuel) :
    muxLoop z (presentLabels (done ++ rest)) false fuel (presentLabels done).length none
      = match firstHit z rest with
        | some k => .inl (some k)
        | none => .inr none := by
  induction rest generalizing done fuel with
  | nil => exact absurd rfl hr
  | cons l more ih =>
    cases fuel with
    | zero => simp at hf
    | succ f =>
      simp only [muxLoop, drop_done, firstHit, Bool.not_false, Bool.and_true]
      by_cases hc : z.contains (presentLabels (l :: more)) = true
      · simp only [hc, ↓reduceIte]
      · simp only [hc, Bool.false_eq_true, ↓reduceIte]
        cases more with
        | nil => rw [nextLabel_last]; simp [firstHit]
        | cons m ms =>
          rw [nextLabel_step done l (m :: ms) (by simp)]
          simp only [Bool.false_eq_true, ↓reduceIte]
          have := ih (done ++ [l]) (by simp) f (by simpa using hf)
          simp only [List.append_assoc, List.singleton_append] at this
          exact this

theorem muxLoop_ds (z : Mux) (done rest : List Bytes) (hr : rest ≠ []) (fuel : Nat) (h : Option Bytes)
    (hf : rest.length ≤ fuel) :
    muxLoop z (presentLabels (done ++ rest)) true fuel (presentLabels done).length h
      = .inr (lastHit z h rest) := by
  induction rest generalizing done fuel h with
  | nil => exact absurd rfl hr
  | cons l more ih =>
    cases fuel with
    | zero => simp at hf
    | succ f =>
      simp only [muxLoop, drop_done, lastHit, Bool.not_true, Bool.and_false, Bool.false_eq_true, ↓reduceIte]
      cases more with
      | nil => rw [nextLabel_last]; simp [lastHit]
      | cons m ms =>
        rw [nextLabel_step done l (m :: ms) (by simp)]
        simp only [Bool.false_eq_true, ↓reduceIte]
        have := ih (done ++ [l]) (by simp) f
          (if z.contains (presentLabels (l :: m :: ms)) then some (presentLabels (l :: m :: ms)) else h)
          (by simpa using hf)
        simp only [List.append_assoc, List.singleton_append] at this
        simpa using this

/-- lower-casing a canonical spelling is the canonical spelling of the lower-cased labels -/
theorem lowerAll_presentLabels (ls : List Bytes) :
    lowerAll (presentLabels ls) = presentLabels (ls.map lowerAll) := by
  induction ls with
  | nil => rfl
  | cons l ls ih =>
    rw [List.map_cons, presentLabels_cons, presentLabels_cons, ← ih, ← fold_presentLabel]
    unfold lowerAll foldLabel lowerAll
    simp only [List.map_append, List.map_cons]
    rfl

theorem canonicalName_presentLabels (ls : List Bytes) (h0 : ls ≠ []) :
    canonicalName (presentLabels ls) = presentLabels (ls.map lowerAll) := by
  unfold canonicalName fqdn
  have hfq : isFqdn (presentLabels ls) = true := by
    rcases List.eq_nil_or_concat ls with h | ⟨i, x, h⟩
    · exact absurd h h0
    · rw [h, List.concat_eq_append]; exact C03.isFqdn_presentLabels i x
  rw [if_pos hfq, lowerAll_presentLabels]

/-- **mux_longest_suffix**: for a query that is not of type DS, `ServeMux.match` returns the first registered
    pattern among the suffixes of the (lower-cased) query name taken longest first, and otherwise the root
    pattern when that is registered -/
theorem mux_longest_suffix (z : Mux) (hz : z ≠ []) (ls : List Bytes) (h0 : ls ≠ []) :
    muxMatch z (presentLabels ls) false
      = match firstHit z (ls.map lowerAll) with
        | some k => some k
        | none => if z.contains [46] then some [46] else none := by
  unfold muxMatch
  have : z.isEmpty = false := by cases z <;> simp_all
  simp only [this, Bool.false_eq_true, ↓reduceIte, canonicalName_presentLabels ls h0]
  have hl := muxLoop_first z [] (ls.map lowerAll) (by simpa using h0)
    ((presentLabels (ls.map lowerAll)).length + 1)
    (by have := presentLabels_length_ge (ls.map lowerAll); omega)
  simp only [List.nil_append] at hl
  have e0 : (presentLabels ([] : List Bytes)).length = 0 := rfl
  rw [e0] at hl
  rw [hl]
  cases firstHit z (ls.map lowerAll) <;> rfl

/-- **mux_ds_parent**: for a DS query the root pattern wins when registered, otherwise the *last* (shortest)
    registered suffix — the parent side of the delegation -/
theorem mux_ds_parent (z : Mux) (hz : z ≠ []) (ls : List Bytes) (h0 : ls ≠ []) :
    muxMatch z (presentLabels ls) true
      = if z.contains [46] then some [46] else lastHit z none (ls.map lowerAll) := by
  unfold muxMatch
  have : z.isEmpty = false := by cases z <;> simp_all
  simp only [this, Bool.false_eq_true, ↓reduceIte, canonicalName_presentLabels ls h0]
  have hl := muxLoop_ds z [] (ls.map lowerAll) (by simpa using h0)
    ((presentLabels (ls.map lowerAll)).length + 1) none
    (by have := presentLabels_length_ge (ls.map lowerAll); omega)
  simp only [List.nil_append] at hl
  have e0 : (presentLabels ([] : List Bytes)).length = 0 := rfl
  rw [e0] at hl
  rw [hl]

/-- what `firstHit` returns: the suffix `ls.drop i` for the least `i` whose spelling is registered -/
theorem firstHit_spec (z : Mux) (ls : List Bytes) (k : Bytes) :
    firstHit z ls = some k ↔
      ∃ i, i < ls.length ∧ k = presentLabels (ls.drop i) ∧ z.contains k = true ∧
        ∀ j, j < i → z.contains (presentLabels (ls.drop j)) = false := by
  induction ls with
  | nil => simp [firstHit]
  | cons l more ih =>
    simp only [firstHit]
    by_cases hc : z.contains (presentLabels (l :: more)) = true
    · simp only [hc, ↓reduceIte, Option.some.injEq]
      constructor
      · intro h; subst h
        exact ⟨0, by simp, rfl, hc, fun j hj => absurd hj (Nat.not_lt_zero j)⟩
      · rintro ⟨i, hi, hk, hck, hmin⟩
        cases i with
        | zero => simpa using hk.symm
        | succ i => have := hmin 0 (by omega); rw [List.drop_zero, hc] at this; cases this
    · simp only [hc, Bool.false_eq_true, ↓reduceIte, ih]
      constructor
      · rintro ⟨i, hi, hk, hck, hmin⟩
        refine ⟨i + 1, by simpa using hi, by simpa using hk, hck, ?_⟩
        intro j hj
        cases j with
        | zero => simpa using hc
        | succ j => simpa using hmin j (by omega)
      · rintro ⟨i, hi, hk, hck, hmin⟩
        cases i with
        | zero => simp at hk; subst hk; exact absurd hck hc
        | succ i =>
          refine ⟨i, by simpa using hi, by simpa using hk, hck, ?_⟩
          intro j hj
          simpa using hmin (j + 1) (by omega)

/-- nothing registered on any label boundary ⇒ no hit -/
theorem firstHit_none (z : Mux) (ls : List Bytes) :
    firstHit z ls = none ↔ ∀ i, i < ls.length → z.contains (presentLabels (ls.drop i)) = false := by
  induction ls with
  | nil => simp [firstHit]
  | cons l more ih =>
    simp only [firstHit]
    by_cases hc : z.contains (presentLabels (l :: more)) = true
    · simp only [hc, ↓reduceIte]
      constructor
      · intro h; cases h
      · intro h; have := h 0 (by simp); rw [List.drop_zero, hc] at this; cases this
    · simp only [hc, Bool.false_eq_true, ↓reduceIte, ih]
      constructor
      · intro h i hi
        cases i with
        | zero => simpa using hc
        | succ i => simpa using h i (by simpa using hi)
      · intro h i hi
        simpa using h (i + 1) (by simpa using hi)

/-- non-vacuity: `www.Example.org.` against {`example.org.`, `org.`} picks `example.org.`; a DS query picks `org.` -/
example :
    let z : Mux := [presentLabels [[111,114,103]], presentLabels [[101,120,97,109,112,108,101],[111,114,103]]]
    let q : List Bytes := [[119,119,119],[69,120,97,109,112,108,101],[111,114,103]]
    muxMatch z (presentLabels q) false = some (presentLabels [[101,120,97,109,112,108,101],[111,114,103]]) ∧
    muxMatch z (presentLabels q) true = some (presentLabels [[111,114,103]]) := by decide

end Dns.C14
