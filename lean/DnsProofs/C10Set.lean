/-
  C10 — "verification is unaffected by record order, repeated records …": the octets `rawSignatureData` produces for an
  RRset depend only on the *set* of its RDATA.  After the sort by RDATA, records with equal octets are neighbours; the
  adjacent-duplicate filter then leaves a strictly increasing list, and a strictly increasing list is determined by its
  members.  Also: the `Labels` value `Sign` computes makes `rawSignatureData` sign the owner name itself.
-/
import DnsProofs.C10
namespace Dns.C10
open Dns

abbrev Pair := Bytes × Bytes

def le (a b : Pair) : Bool := bytesLE a.1 b.1

theorem dedupAdj_subset (s : List Pair) : ∀ x ∈ dedupAdj s, x ∈ s := by
  induction s using dedupAdj.induct with
  | case1 => simp [dedupAdj]
  | case2 a => simp [dedupAdj]
  | case3 a b rest h ih =>
    intro x hx
    simp only [dedupAdj, if_pos h] at hx
    have := ih x hx
    simp at this ⊢
    rcases this with h | h
    · exact Or.inr (Or.inl h)
    · exact Or.inr (Or.inr h)
  | case4 a b rest h ih =>
    intro x hx
    simp only [dedupAdj, if_neg h, List.mem_cons] at hx
    rcases hx with rfl | hx
    · simp
    · have := ih x hx
      simp at this ⊢
      rcases this with h | h
      · exact Or.inr (Or.inl h)
      · exact Or.inr (Or.inr h)

theorem dedupAdj_mem (s : List Pair) (hinj : ∀ a ∈ s, ∀ b ∈ s, a.2 = b.2 → a = b) : ∀ x ∈ s, x ∈ dedupAdj s := by
  induction s using dedupAdj.induct with
  | case1 => simp
  | case2 a => simp [dedupAdj]
  | case3 a b rest h ih =>
    intro x hx
    simp only [dedupAdj, if_pos h]
    have hab : a = b := hinj a (by simp) b (by simp) h
    have ih' := ih (fun p hp q hq => hinj p (by simp [hp]) q (by simp [hq]))
    simp only [List.mem_cons] at hx
    rcases hx with rfl | hx
    · rw [hab]; exact ih' b (by simp)
    · exact ih' x (by simpa using hx)
  | case4 a b rest h ih =>
    intro x hx
    simp only [dedupAdj, if_neg h, List.mem_cons]
    simp only [List.mem_cons] at hx
    rcases hx with rfl | hx
    · exact Or.inl rfl
    · exact Or.inr (ih (fun p hp q hq => hinj p (by simp [hp]) q (by simp [hq])) x (by simpa using hx))

/-- after the sort, dropping a record equal to its predecessor leaves a strictly increasing list -/
theorem dedupAdj_strict (s : List Pair) (hs : s.Pairwise (fun a b => le a b = true))
    (hdet : ∀ a ∈ s, ∀ b ∈ s, a.1 = b.1 → a = b) :
    (dedupAdj s).Pairwise (fun a b => le a b = true ∧ a ≠ b) := by
  induction s using dedupAdj.induct with
  | case1 => simp [dedupAdj]
  | case2 a => simp [dedupAdj]
  | case3 a b rest h ih =>
    simp only [dedupAdj, if_pos h]
    rw [List.pairwise_cons] at hs
    exact ih hs.2 (fun p hp q hq => hdet p (by simp [hp]) q (by simp [hq]))
  | case4 a b rest h ih =>
    simp only [dedupAdj, if_neg h]
    rw [List.pairwise_cons] at hs
    obtain ⟨ha, hs'⟩ := hs
    rw [List.pairwise_cons]
    refine ⟨?_, ih hs' (fun p hp q hq => hdet p (by simp [hp]) q (by simp [hq]))⟩
    intro x hx
    have hxm := dedupAdj_subset (b :: rest) x hx
    refine ⟨ha x hxm, ?_⟩
    intro hax
    subst hax
    -- a occurs again in b :: rest: then b ≤ a ≤ b, so a = b, but their octets differ
    have hab : le a b = true := ha b (by simp)
    have hba : le b a = true := by
      simp only [List.mem_cons] at hxm
      rcases hxm with e | hr
      · rw [e] at h; exact absurd rfl h
      · rw [List.pairwise_cons] at hs'
        exact hs'.1 a hr
    have e1 : a.1 = b.1 := bytesLE_antisymm a.1 b.1 hab hba
    have : a = b := hdet a (by simp) b (by simp) e1
    rw [this] at h
    exact h rfl

/-- a strictly increasing list is determined by its members -/
theorem strict_ext (l₁ l₂ : List Pair)
    (h1 : l₁.Pairwise (fun a b => le a b = true ∧ a ≠ b)) (h2 : l₂.Pairwise (fun a b => le a b = true ∧ a ≠ b))
    (hm : ∀ x, x ∈ l₁ ↔ x ∈ l₂) (hdet : ∀ a ∈ l₁, ∀ b ∈ l₁, a.1 = b.1 → a = b) : l₁ = l₂ := by
  have n1 : l₁.Nodup := h1.imp (fun h => h.2)
  have n2 : l₂.Nodup := h2.imp (fun h => h.2)
  have pp : l₁.Perm l₂ := (List.perm_ext_iff_of_nodup n1 n2).mpr hm
  apply List.Perm.eq_of_pairwise _ (h1.imp (fun h => h.1)) (h2.imp (fun h => h.1)) pp
  intro a b ha hb hab hba
  exact hdet a ha b ((hm b).mpr hb) (bytesLE_antisymm a.1 b.1 hab hba)

/-- the sorted and filtered list depends only on the set of pairs -/
theorem canonical_list_ext (ws₁ ws₂ : List Pair) (hm : ∀ x, x ∈ ws₁ ↔ x ∈ ws₂)
    (hdet : ∀ a ∈ ws₁, ∀ b ∈ ws₁, a.1 = b.1 → a = b) (hinj : ∀ a ∈ ws₁, ∀ b ∈ ws₁, a.2 = b.2 → a = b) :
    dedupAdj (ws₁.mergeSort (fun a b => bytesLE a.1 b.1)) = dedupAdj (ws₂.mergeSort (fun a b => bytesLE a.1 b.1)) := by
  have tot : ∀ (a b : Pair), (bytesLE a.1 b.1 || bytesLE b.1 a.1) = true := by
    intro a b; rcases bytesLE_total a.1 b.1 with h | h <;> simp [h]
  have tr : ∀ (a b c : Pair), bytesLE a.1 b.1 = true → bytesLE b.1 c.1 = true → bytesLE a.1 c.1 = true :=
    fun a b c => bytesLE_trans a.1 b.1 c.1
  have s1 := List.pairwise_mergeSort tr tot ws₁
  have s2 := List.pairwise_mergeSort tr tot ws₂
  have p1 := List.mergeSort_perm ws₁ (fun a b => bytesLE a.1 b.1)
  have p2 := List.mergeSort_perm ws₂ (fun a b => bytesLE a.1 b.1)
  have m1 : ∀ x, x ∈ ws₁.mergeSort (fun a b => bytesLE a.1 b.1) ↔ x ∈ ws₁ := fun x => p1.mem_iff
  have m2 : ∀ x, x ∈ ws₂.mergeSort (fun a b => bytesLE a.1 b.1) ↔ x ∈ ws₂ := fun x => p2.mem_iff
  have hdet1 : ∀ a ∈ ws₁.mergeSort (fun a b => bytesLE a.1 b.1), ∀ b ∈ ws₁.mergeSort (fun a b => bytesLE a.1 b.1), a.1 = b.1 → a = b :=
    fun a ha b hb => hdet a ((m1 a).mp ha) b ((m1 b).mp hb)
  have hdet2 : ∀ a ∈ ws₂.mergeSort (fun a b => bytesLE a.1 b.1), ∀ b ∈ ws₂.mergeSort (fun a b => bytesLE a.1 b.1), a.1 = b.1 → a = b :=
    fun a ha b hb => hdet a ((hm a).mpr ((m2 a).mp ha)) b ((hm b).mpr ((m2 b).mp hb))
  have hinj1 : ∀ a ∈ ws₁.mergeSort (fun a b => bytesLE a.1 b.1), ∀ b ∈ ws₁.mergeSort (fun a b => bytesLE a.1 b.1), a.2 = b.2 → a = b :=
    fun a ha b hb => hinj a ((m1 a).mp ha) b ((m1 b).mp hb)
  have hinj2 : ∀ a ∈ ws₂.mergeSort (fun a b => bytesLE a.1 b.1), ∀ b ∈ ws₂.mergeSort (fun a b => bytesLE a.1 b.1), a.2 = b.2 → a = b :=
    fun a ha b hb => hinj a ((hm a).mpr ((m2 a).mp ha)) b ((hm b).mpr ((m2 b).mp hb))
  apply strict_ext _ _ (dedupAdj_strict _ s1 hdet1) (dedupAdj_strict _ s2 hdet2)
  · intro x
    constructor
    · intro hx
      have := (m1 x).mp (dedupAdj_subset _ x hx)
      exact dedupAdj_mem _ hinj2 x ((m2 x).mpr ((hm x).mp this))
    · intro hx
      have := (m2 x).mp (dedupAdj_subset _ x hx)
      exact dedupAdj_mem _ hinj1 x ((m1 x).mpr ((hm x).mpr this))
  · intro a ha b hb
    exact hdet1 a (dedupAdj_subset _ a ha) b (dedupAdj_subset _ b hb)

theorem beBytes_len' (w v : Nat) : (beBytes w v).length = w := by
  induction w with
  | zero => rfl
  | succ w ih => simp [beBytes, ih]

/-- within one RRset the packed record determines the RDATA and the other way round -/
theorem wire_iff_rdata (origTtl labels : Nat) (a b : CRec) (h : a.owner = b.owner ∧ a.typ = b.typ ∧ a.cls = b.cls) :
    rrCanonWire origTtl labels a = rrCanonWire origTtl labels b ↔ a.rdata = b.rdata := by
  obtain ⟨ho, ht, hc⟩ := h
  constructor
  · intro e
    unfold rrCanonWire at e
    rw [ho, ht, hc] at e
    simp only [List.append_assoc] at e
    have e1 := List.append_cancel_left e
    have e2 := List.append_cancel_left e1
    have e3 := List.append_cancel_left e2
    have e4 := List.append_cancel_left e3
    exact (List.append_inj e4 (by simp [beBytes_len'])).2
  · intro e
    simp [rrCanonWire, ho, ht, hc, e]

/-- **canon_set_invariant**: for records of one RRset (same owner, type, class) the signed octets depend only on the
    set of RDATA — any order, any record repeated any number of times -/
theorem canon_set_invariant (origTtl labels : Nat) (rs₁ rs₂ : List CRec)
    (hset : ∀ a ∈ rs₁ ++ rs₂, ∀ b ∈ rs₁ ++ rs₂, a.owner = b.owner ∧ a.typ = b.typ ∧ a.cls = b.cls)
    (hsame : ∀ d, d ∈ rs₁.map (·.rdata) ↔ d ∈ rs₂.map (·.rdata)) :
    rawSignatureData origTtl labels rs₁ = rawSignatureData origTtl labels rs₂ := by
  unfold rawSignatureData
  simp only
  rw [canonical_list_ext]
  · -- the same set of pairs
    intro x
    simp only [List.mem_map]
    constructor
    · rintro ⟨r, hr, rfl⟩
      obtain ⟨r', hr', e⟩ := List.mem_map.mp ((hsame r.rdata).mp (List.mem_map_of_mem hr))
      refine ⟨r', hr', ?_⟩
      have := (wire_iff_rdata origTtl labels r' r (hset r' (by simp [hr']) r (by simp [hr]))).mpr e
      simp [e, this]
    · rintro ⟨r, hr, rfl⟩
      obtain ⟨r', hr', e⟩ := List.mem_map.mp ((hsame r.rdata).mpr (List.mem_map_of_mem hr))
      refine ⟨r', hr', ?_⟩
      have := (wire_iff_rdata origTtl labels r' r (hset r' (by simp [hr']) r (by simp [hr]))).mpr e
      simp [e, this]
  · intro a ha b hb hab
    simp only [List.mem_map] at ha hb
    obtain ⟨ra, hra, rfl⟩ := ha
    obtain ⟨rb, hrb, rfl⟩ := hb
    simp only at hab
    have := (wire_iff_rdata origTtl labels ra rb (hset ra (by simp [hra]) rb (by simp [hrb]))).mpr hab
    simp [hab, this]
  · intro a ha b hb hab
    simp only [List.mem_map] at ha hb
    obtain ⟨ra, hra, rfl⟩ := ha
    obtain ⟨rb, hrb, rfl⟩ := hb
    simp only at hab
    have := (wire_iff_rdata origTtl labels ra rb (hset ra (by simp [hra]) rb (by simp [hrb]))).mp hab
    simp [hab, this]

/-- **canon_repeat_invariant**: a record given twice is signed once -/
theorem canon_repeat_invariant (origTtl labels : Nat) (r : CRec) (rs : List CRec)
    (hset : ∀ a ∈ r :: rs, ∀ b ∈ r :: rs, a.owner = b.owner ∧ a.typ = b.typ ∧ a.cls = b.cls) :
    rawSignatureData origTtl labels (r :: r :: rs) = rawSignatureData origTtl labels (r :: rs) := by
  apply canon_set_invariant
  · have mem : ∀ x, x ∈ (r :: r :: rs) ++ (r :: rs) → x ∈ r :: rs := by
      intro x hx
      simp only [List.mem_append, List.mem_cons] at hx ⊢
      rcases hx with (e | e | e) | (e | e)
      · exact Or.inl e
      · exact Or.inl e
      · exact Or.inr e
      · exact Or.inl e
      · exact Or.inr e
    intro a ha b hb
    exact hset a (mem a ha) b (mem b hb)
  · intro d; simp

/-! ### the `Labels` field `Sign` computes -/

/-- **sign_owner_exact**: with the `Labels` value `Sign` computes, the owner name that enters the signed octets is the
    owner itself in lower case — also for a wildcard owner `*.…` (whose `*` label is re-created by the wildcard rule),
    for every owner whose first label is `*` or does not begin with `*` -/
theorem sign_owner_exact (owner : List Bytes) (h : ∀ l rest, owner = l :: rest → l = [42] ∨ l.head? ≠ some 42) :
    canonOwner (signLabels owner) owner = owner.map lowerAll := by
  unfold canonOwner signLabels
  match owner, h with
  | [], _ => simp
  | [] :: rest, _ => simp
  | (c :: l) :: rest, h =>
    by_cases hc : c = 42
    · subst hc
      rcases h (42 :: l) rest rfl with e | e
      · simp only [List.cons.injEq, true_and] at e
        subst e
        simp only [List.length_cons, Nat.add_sub_cancel]
        rw [if_pos (by omega)]
        have : rest.length + 1 - rest.length = 1 := by omega
        simp [this]
      · simp at e
    · have : signLabels ((c :: l) :: rest) = ((c :: l) :: rest).length := by
        unfold signLabels
        split
        · rename_i heq; simp at heq; exact absurd heq.1.1 hc
        · rfl
      unfold signLabels at this
      rw [this]
      simp

example : canonOwner (signLabels [[42], [97]]) [[42], [65]] = [[42], [97]] := by decide

end Dns.C10
