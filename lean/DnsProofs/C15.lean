/-
  C15 — zone transfers: the AXFR machine delivers exactly the transmitted zone for every composition into
  envelopes, stops at the closing SOA, and reports errors.
-/
import DnsModel.Xfr
namespace Dns.C15
open Dns

/-- a read sequence carrying the envelopes `es` under the query id, error-free -/
def goodReads (qid : Nat) (es : List (List XRec)) : List Read := es.map (Read.msg qid 0)

def NoSoa (l : List XRec) : Prop := ∀ r ∈ l, r.isSoa = false

theorem isSOALast_append_soa (a : List XRec) (s : Nat) : isSOALast (a ++ [XRec.soa s]) = true := by
  simp [isSOALast, XRec.isSoa]

theorem isSOALast_noSoa (a : List XRec) (h : NoSoa a) : isSOALast a = false := by
  unfold isSOALast
  cases hl : a.getLast? with
  | none => rfl
  | some r => simp; exact h r (List.mem_of_getLast? hl)

/-- the body phase: envelopes `es` that contain no SOA, then the envelope with the closing SOA at its end,
    then anything (`rest` is never read) -/
theorem axfr_body (qid : Nat) (es : List (List XRec)) (lastBody : List XRec) (s : Nat) (rest : List Read)
    (hes : ∀ e ∈ es, NoSoa e) :
    inAxfr qid (goodReads qid es ++ Read.msg qid 0 (lastBody ++ [XRec.soa s]) :: rest) false
      = (es.map Env.data ++ [Env.data (lastBody ++ [XRec.soa s])], es.length + 1) := by
  induction es with
  | nil =>
    simp [goodReads, inAxfr, isSOALast_append_soa]
  | cons e es ih =>
    have he : isSOALast e = false := isSOALast_noSoa e (hes e (by simp))
    have := ih (fun e' h => hes e' (by simp [h]))
    simp only [goodReads, List.map_cons, List.cons_append] at this ⊢
    simp [inAxfr, he, this]

/-- **axfr_complete** (first envelope holds more than the opening SOA, or the whole zone):
    for every serial, every SOA-free zone body and every composition of `SOA s :: body ++ [SOA s]` into
    envelopes `(SOA s :: b0) :: es ++ [lastBody ++ [SOA s]]`, the receiver delivers exactly these envelopes,
    error-free, in order, and reads nothing beyond the one that holds the closing SOA. -/
theorem axfr_complete (qid s : Nat) (b0 : List XRec) (es : List (List XRec)) (lastBody : List XRec)
    (rest : List Read) (hb0 : NoSoa b0) (hes : ∀ e ∈ es, NoSoa e) :
    inAxfr qid (Read.msg qid 0 (XRec.soa s :: b0) :: (goodReads qid es ++
        Read.msg qid 0 (lastBody ++ [XRec.soa s]) :: rest)) true
      = (Env.data (XRec.soa s :: b0) :: (es.map Env.data ++ [Env.data (lastBody ++ [XRec.soa s])]),
         es.length + 2) := by
  have hbody := axfr_body qid es lastBody s rest hes
  cases b0 with
  | nil =>
    simp [inAxfr, isSOAFirst, XRec.isSoa, hbody]
  | cons x b0 =>
    have hl : isSOALast (XRec.soa s :: x :: b0) = false := by
      have : isSOALast (XRec.soa s :: x :: b0) = isSOALast (x :: b0) := by
        simp [isSOALast, List.getLast?_cons_cons]
      rw [this]; exact isSOALast_noSoa _ hb0
    simp [inAxfr, isSOAFirst, XRec.isSoa, hl, hbody]

/-- the whole zone in one envelope -/
theorem axfr_single_envelope (qid s : Nat) (body : List XRec) (rest : List Read) :
    inAxfr qid (Read.msg qid 0 (XRec.soa s :: (body ++ [XRec.soa s])) :: rest) true
      = ([Env.data (XRec.soa s :: (body ++ [XRec.soa s]))], 1) := by
  have hl : isSOALast (XRec.soa s :: (body ++ [XRec.soa s])) = true := by
    have := isSOALast_append_soa (XRec.soa s :: body) s
    simpa using this
  simp [inAxfr, isSOAFirst, XRec.isSoa, hl]

/-- **xfr_errors**: whatever was delivered before, an envelope with a foreign ID or a non-zero RCODE ends the
    transfer with the corresponding error, a first envelope not starting with an SOA yields ErrSoa, and a read
    error is delivered as such; nothing is read afterwards. -/
theorem axfr_errors (qid : Nat) (first : Bool) (rest : List Read) (id rcode : Nat) (ans : List XRec) :
    (id ≠ qid → inAxfr qid (Read.msg id rcode ans :: rest) first = ([Env.errId ans], 1))
    ∧ (id = qid → rcode ≠ 0 → inAxfr qid (Read.msg id rcode ans :: rest) first = ([Env.errRcode ans], 1))
    ∧ (id = qid → rcode = 0 → isSOAFirst ans = false →
        inAxfr qid (Read.msg id rcode ans :: rest) true = ([Env.errSoa ans], 1))
    ∧ inAxfr qid (Read.err :: rest) first = ([Env.errRead], 1) := by
  refine ⟨?_, ?_, ?_, ?_⟩
  · intro h; simp [inAxfr, Ne.symm h]
  · intro h1 h2; subst h1; simp [inAxfr, h2]
  · intro h1 h2 h3; subst h1; subst h2; simp [inAxfr, h3]
  · simp [inAxfr]

/-- every delivery list ends the transfer: at most one error and only as the last element -/
theorem axfr_error_last (qid : Nat) (rs : List Read) (first : Bool) :
    ∀ d ∈ (inAxfr qid rs first).1.dropLast, ∃ l, d = Env.data l := by
  induction rs generalizing first with
  | nil => simp [inAxfr]
  | cons r rs ih =>
    cases r with
    | err => simp [inAxfr]
    | msg id rcode ans =>
      simp only [inAxfr]
      split
      · simp
      · split
        · simp
        · split
          · split
            · simp
            · split
              · intro d hd
                have := ih false
                cases hrec : (inAxfr qid rs false).1 with
                | nil => simp [hrec] at hd
                | cons x xs =>
                  simp only [hrec, List.dropLast_cons₂] at hd
                  rcases List.mem_cons.mp hd with h | h
                  · exact ⟨_, h⟩
                  · rw [hrec] at this; exact this d (by simpa using h)
              · split
                · simp
                · intro d hd
                  have := ih false
                  cases hrec : (inAxfr qid rs false).1 with
                  | nil => simp [hrec] at hd
                  | cons x xs =>
                    simp only [hrec, List.dropLast_cons₂] at hd
                    rcases List.mem_cons.mp hd with h | h
                    · exact ⟨_, h⟩
                    · rw [hrec] at this; exact this d (by simpa using h)
          · split
            · simp
            · intro d hd
              have := ih false
              cases hrec : (inAxfr qid rs false).1 with
              | nil => simp [hrec] at hd
              | cons x xs =>
                simp only [hrec, List.dropLast_cons₂] at hd
                rcases List.mem_cons.mp hd with h | h
                · exact ⟨_, h⟩
                · rw [hrec] at this; exact this d (by simpa using h)

end Dns.C15
