/-
  DnsModel.Compress — packDomainName with a compression map (msg.go), and the simulated
  compression of Len (domainNameLen / compressionLenSearch / escapedNameLen).
  The map is an association list keyed by the *presentation suffix* `s[compBegin:]`, which is exactly the
  text that remains when the label starts.
-/
import DnsModel.Name
import DnsModel.Labels
namespace Dns

abbrev CMap := List (Bytes × Nat)

def CMap.find (m : CMap) (k : Bytes) : Option Nat := (m.find? (·.1 == k)).map (·.2)

/-- `escapedNameLen` (msg.go): number of decoded octets of a presentation string -/
def escapedNameLen (s : Bytes) : Nat :=
  match s with
  | [] => 0
  | c :: rest =>
    if c = 92 then
      if isDDD rest then 1 + escapedNameLen (rest.drop 3)
      else 1 + escapedNameLen (rest.drop 1)
    else 1 + escapedNameLen rest
termination_by s.length
decreasing_by all_goals simp_wf <;> omega

structure PackC where
  out : Bytes        -- octets written for this name
  map : CMap
  ptr : Option (Nat × Nat) := none   -- (offset of the emitted pointer, its target), for the theorems
deriving Repr

/-- The loop of `packDomainName` with a valid compression map. `off0` is the offset at which the name
    starts, `labStart` the text remaining when the current label began. -/
def packLoopC (s : Bytes) (first multi : Bool) (label labStart : Bytes) (wasDot : Bool)
    (off0 : Nat) (out : Bytes) (m : CMap) (compress : Bool) : Outcome PackC :=
  match s with
  | [] => .ok ⟨out ++ [0], m, none⟩
  | c :: rest =>
    if c = 92 then
      if isDDD rest then
        packLoopC (rest.drop 3) false multi (label ++ [dddToByte rest]) labStart false off0 out m compress
      else
        match rest with
        | [] => .ok ⟨out ++ [0], m, none⟩
        | d :: rest' => packLoopC rest' false multi (label ++ [d]) labStart false off0 out m compress
    else if c = 46 then
      if first && multi then .err
      else if wasDot then .err
      else if label.length ≥ Gen.labelLimit then .err
      else if out.length + 1 + label.length + 1 > Gen.maxDomainNameWireOctets then .err
      else
        let off := off0 + out.length
        match m.find labStart with
        | some p =>
          if compress then
            if out.length + escapedNameLen labStart + 1 > Gen.maxDomainNameWireOctets then .err
            else .ok ⟨out ++ [UInt8.ofNat (p / 256 % 256 ^^^ 0xC0), UInt8.ofNat (p % 256)], m, some (off, p)⟩
          else
            packLoopC rest false multi [] rest true off0 (out ++ UInt8.ofNat label.length :: label) m compress
        | none =>
          let m' := if off < Gen.maxCompressionOffset then m ++ [(labStart, off)] else m
          packLoopC rest false multi [] rest true off0 (out ++ UInt8.ofNat label.length :: label) m' compress
    else packLoopC rest false multi (label ++ [c]) labStart false off0 out m compress
termination_by s.length
decreasing_by all_goals simp_wf <;> omega

/-- `packDomainName(s, msg, off, compression, compress)` with a valid map and a large enough buffer -/
def packNameC (s : Bytes) (off : Nat) (m : CMap) (compress : Bool) : Outcome PackC :=
  if s.isEmpty then .ok ⟨[], m, none⟩
  else if !isFqdn s then .err
  else if s = [46] then .ok ⟨[0], m, none⟩
  else packLoopC s true (s.length > 1) [] s false off [] m compress

/-! ### Len: simulated compression (msg.go domainNameLen, compressionLenSearch) -/

/-- `compressionLenSearch`: walk label starts with `NextLabel`; `(offset, found)` and the updated set -/
def lenSearchLoop (c : List Bytes) (s : Bytes) (msgOff : Nat) : (fuel : Nat) → (off : Nat) → (List Bytes × Nat × Bool)
  | 0, _ => (c, 0, false)
  | f + 1, off =>
    let key := s.drop off
    if c.contains key then (c, off, true)
    else
      let c' := if msgOff + off < Gen.maxCompressionOffset then c ++ [key] else c
      let nl := nextLabel s off
      if nl.2 then (c', 0, false) else lenSearchLoop c' s msgOff f nl.1

/-- `domainNameLen(s, off, compression, compress)`; `c = none` is a nil map -/
def domainNameLen (s : Bytes) (off : Nat) (c : Option (List Bytes)) (compress : Bool) : Nat × Option (List Bytes) :=
  if s.isEmpty || s = [46] then (1, c)
  else
    let escaped := s.contains 92
    match c with
    | some cm =>
      if compress || off < Gen.maxCompressionOffset then
        let (cm', l, ok) := lenSearchLoop cm s off (s.length + 1) 0
        if ok && compress then
          (if escaped then escapedNameLen (s.take l) + 2 else l + 2, some cm')
        else (if escaped then escapedNameLen s + 1 else s.length + 1, some cm')
      else (if escaped then escapedNameLen s + 1 else s.length + 1, some cm)
    | none => (if escaped then escapedNameLen s + 1 else s.length + 1, none)

end Dns
