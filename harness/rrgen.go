package main

// Wire-level record generator driven by the committed specification table /verif/spec/layouts.json
// (per-type RFC field sequences).  It builds canonical, RFC-well-formed uncompressed RDATA octets
// from field values it chooses itself, and remembers those values so that the implementation's
// decoded fields can be checked independently of the implementation's own encoder.

import (
	"encoding/base32"
	"encoding/base64"
	"encoding/binary"
	"encoding/hex"
	"encoding/json"
	"fmt"
	"net"
	"os"
	"reflect"
	"sort"
	"strings"

	"github.com/miekg/dns"
)

type specStep struct {
	Codec string `json:"codec"`
	Field string `json:"field"`
	Extra string `json:"extra"`
	Cond  string `json:"cond"`
}
type specPlan struct {
	Type  string     `json:"type"`
	Steps []specStep `json:"steps"`
}
type specTable struct {
	Pack   []specPlan     `json:"pack"`
	Unpack []specPlan     `json:"unpack"`
	Types  map[string]int `json:"types"`
	byCode map[uint16]*specPlan
	codes  []uint16
}

var spec *specTable

func loadSpec() *specTable {
	if spec != nil {
		return spec
	}
	p := os.Getenv("VERIF_SPEC")
	if p == "" {
		p = verifDir() + "/spec/layouts.json"
	}
	b, err := os.ReadFile(p)
	if err != nil {
		fmt.Fprintln(os.Stderr, "spec table:", err)
		os.Exit(2)
	}
	t := &specTable{}
	if err := json.Unmarshal(b, t); err != nil {
		fmt.Fprintln(os.Stderr, "spec table:", err)
		os.Exit(2)
	}
	t.byCode = map[uint16]*specPlan{}
	for i := range t.Unpack {
		pl := &t.Unpack[i]
		if code, ok := t.Types[pl.Type]; ok {
			t.byCode[uint16(code)] = pl
			t.codes = append(t.codes, uint16(code))
		}
	}
	sort.Slice(t.codes, func(i, j int) bool { return t.codes[i] < t.codes[j] })
	spec = t
	return t
}

// GenRR is one generated record.
type GenRR struct {
	Type   uint16
	Class  uint16
	TTL    uint32
	Owner  [][]byte
	Rdata  []byte
	Wire   []byte                 // owner + header + rdata, uncompressed
	Fields map[string]interface{} // expected decoded values: uint64 | [][]byte (name labels) | []byte | [][]byte (txt: key "txt:"+field)
	Kinds  map[string]string
	Plain  bool // only integer / address / name / character-string fields, no escapes needed
}

var boundaryU = map[int][]uint64{
	1: {0, 1, 2, 127, 128, 254, 255},
	2: {0, 1, 255, 256, 32767, 32768, 65534, 65535},
	4: {0, 1, 65535, 65536, 1<<31 - 1, 1 << 31, 1<<32 - 2, 1<<32 - 1},
	6: {0, 1, 1<<32 - 1, 1 << 32, 1<<48 - 1},
	8: {0, 1, 1<<32 - 1, 1 << 32, 1<<63 - 1, 1 << 63, 1<<64 - 1},
}

func genUint(r *Rng, w int) uint64 {
	if r.Chance(40) {
		b := boundaryU[w]
		return b[r.Intn(len(b))]
	}
	v := r.U64()
	if w < 8 {
		v &= (uint64(1) << (8 * uint(w))) - 1
	}
	return v
}

func putUint(b []byte, w int, v uint64) []byte {
	for i := w - 1; i >= 0; i-- {
		b = append(b, byte(v>>(8*uint(i))))
	}
	return b
}

// genBlob: opaque octets, boundary-biased length
func genBlob(r *Rng, max int) []byte {
	n := []int{0, 1, 2, 3, 4, 5, 8, 16, 20, 32, 33, 64}[r.Intn(12)]
	if r.Chance(5) {
		n = r.Intn(max + 1)
	}
	if n > max {
		n = max
	}
	return r.Bytes(n)
}

// genCharString: one character-string (raw octets, <= 255)
func genCharString(r *Rng, plain bool) []byte {
	n := []int{0, 1, 2, 3, 5, 8, 13, 40, 254, 255}[r.Intn(10)]
	if n > 40 && !r.Chance(10) {
		n = r.Intn(20)
	}
	b := make([]byte, n)
	for i := range b {
		if plain {
			b[i] = "abcdefghijklmnopqrstuvwxyzABCDEFGHIJKLMNOPQRSTUVWXYZ0123456789-_=+/:,.!?*#$%&'()<>[]^`{|}~@;"[r.Intn(90)]
			continue
		}
		switch r.Intn(8) {
		case 0:
			b[i] = []byte{'"', '\\', ';', '(', ')', ' ', '\t', '\n', '\r', 0, 127, 128, 255, '@', '.'}[r.Intn(15)]
		case 1:
			b[i] = r.Byte()
		default:
			b[i] = "abcdefghijklmnopqrstuvwxyzABCDEFGHIJKLMNOPQRSTUVWXYZ0123456789"[r.Intn(62)]
		}
	}
	return b
}

func genTypeBitmap(r *Rng) ([]uint16, []byte) {
	n := r.Intn(8)
	if r.Chance(10) {
		n = r.Intn(60)
	}
	set := map[uint16]bool{}
	for i := 0; i < n; i++ {
		var t uint16
		switch r.Intn(4) {
		case 0:
			t = []uint16{0, 1, 2, 6, 7, 8, 15, 16, 28, 46, 47, 48, 50, 255, 256, 257, 511, 512, 1234, 32768, 65279, 65280, 65528, 65534, 65535}[r.Intn(25)]
		case 1:
			t = uint16(r.Intn(65536))
		default:
			t = uint16(r.Intn(260))
		}
		set[t] = true
	}
	var ts []uint16
	for t := range set {
		ts = append(ts, t)
	}
	sort.Slice(ts, func(i, j int) bool { return ts[i] < ts[j] })
	// RFC 4034 4.1.2 encoding
	var out []byte
	i := 0
	for i < len(ts) {
		win := ts[i] >> 8
		var bits [32]byte
		maxOct := 0
		for i < len(ts) && ts[i]>>8 == win {
			lo := ts[i] & 0xFF
			bits[lo/8] |= 0x80 >> (lo % 8)
			if int(lo/8)+1 > maxOct {
				maxOct = int(lo/8) + 1
			}
			i++
		}
		out = append(out, byte(win), byte(maxOct))
		out = append(out, bits[:maxOct]...)
	}
	return ts, out
}

// ---- EDNS0 options (RFC 6891 and the option RFCs), canonical forms only

func genOptions(r *Rng) []byte {
	var out []byte
	n := r.Intn(4)
	for i := 0; i < n; i++ {
		var code uint16
		var data []byte
		switch r.Intn(16) {
		case 0: // LLQ
			code, data = 1, r.Bytes(18)
		case 1: // UL
			code = 2
			data = r.Bytes([]int{4, 8}[r.Intn(2)])
		case 2: // NSID
			code, data = 3, genBlob(r, 40)
		case 3: // ESU
			code, data = 4, genCharString(r, true)
		case 4: // DAU DHU N3U
			code = uint16(5 + r.Intn(3))
			data = genBlob(r, 10)
		case 5: // SUBNET
			code = 8
			fam := 1 + r.Intn(2)
			max := 32
			if fam == 2 {
				max = 128
			}
			src := r.Intn(max + 1)
			scope := 0
			if r.Chance(30) {
				scope = r.Intn(max + 1)
			}
			nb := (src + 7) / 8
			addr := r.Bytes(nb)
			if src%8 != 0 && nb > 0 {
				addr[nb-1] &= byte(0xFF << (8 - uint(src%8)))
			}
			data = append([]byte{0, byte(fam), byte(src), byte(scope)}, addr...)
		case 6: // EXPIRE
			code = 9
			if r.Bool() {
				data = r.Bytes(4)
			}
		case 7: // COOKIE
			code = 10
			data = r.Bytes([]int{8, 16, 24, 40}[r.Intn(4)])
		case 8: // TCP KEEPALIVE
			code = 11
			if r.Bool() {
				data = r.Bytes(2)
			}
		case 9: // PADDING
			code, data = 12, genBlob(r, 64)
		case 10: // EDE
			code = 15
			data = append(r.Bytes(2), genCharString(r, true)...)
		case 11: // LOCAL
			code = uint16(65001 + r.Intn(534))
			data = genBlob(r, 30)
		case 12: // unknown code -> EDNS0_LOCAL too
			code = uint16(20 + r.Intn(1000))
			if code == 18 {
				code = 19
			}
			data = genBlob(r, 30)
		case 13:
			code, data = 3, nil
		case 14: // REPORTING: an agent domain
			code, data = 18, wireOf(genLabels(r, r.Intn(3)))
		case 15: // ZONEVERSION
			code, data = 19, append(r.Bytes(2), genBlob(r, 12)...)
		}
		out = putUint(out, 2, uint64(code))
		out = putUint(out, 2, uint64(len(data)))
		out = append(out, data...)
	}
	return out
}

// ---- SVCB parameters (RFC 9460), canonical forms only

func genSvcParams(r *Rng) []byte {
	type kv struct {
		k uint16
		v []byte
	}
	var ps []kv
	used := map[uint16]bool{}
	add := func(k uint16, v []byte) {
		if !used[k] {
			used[k] = true
			ps = append(ps, kv{k, v})
		}
	}
	n := r.Intn(5)
	for i := 0; i < n; i++ {
		switch r.Intn(9) {
		case 0: // alpn
			var v []byte
			for j := 0; j <= r.Intn(3); j++ {
				id := []string{"h2", "h3", "http/1.1", "a,b", "a\\b", "x"}[r.Intn(6)]
				v = append(v, byte(len(id)))
				v = append(v, id...)
			}
			add(1, v)
		case 1:
			add(2, nil)
		case 2:
			add(3, r.Bytes(2))
		case 3:
			add(4, r.Bytes(4*(1+r.Intn(3))))
		case 4:
			add(5, genBlob(r, 40))
		case 5:
			v := r.Bytes(16 * (1 + r.Intn(2)))
			// avoid IPv4-mapped addresses, which the library refuses in ipv6hint
			for o := 0; o < len(v); o += 16 {
				v[o] = 0x20
			}
			add(6, v)
		case 6:
			add(7, []byte("/dns-query{?dns}"))
		case 7:
			add(8, nil)
		case 8:
			add(uint16(9+r.Intn(65000)), genBlob(r, 20))
		}
	}
	if len(ps) > 0 && r.Chance(30) {
		// mandatory: a non-empty ascending subset of the present keys (never key 0 itself)
		var ks []uint16
		for _, p := range ps {
			if r.Bool() {
				ks = append(ks, p.k)
			}
		}
		if len(ks) > 0 {
			sort.Slice(ks, func(i, j int) bool { return ks[i] < ks[j] })
			var v []byte
			for _, k := range ks {
				v = putUint(v, 2, uint64(k))
			}
			add(0, v)
		}
	}
	sort.Slice(ps, func(i, j int) bool { return ps[i].k < ps[j].k })
	var out []byte
	for _, p := range ps {
		out = putUint(out, 2, uint64(p.k))
		out = putUint(out, 2, uint64(len(p.v)))
		out = append(out, p.v...)
	}
	return out
}

// ---- APL (RFC 3123)

func genApl(r *Rng) []byte {
	var out []byte
	n := r.Intn(4)
	for i := 0; i < n; i++ {
		fam := 1 + r.Intn(2)
		max := 32
		if fam == 2 {
			max = 128
		}
		prefix := r.Intn(max + 1)
		if r.Chance(20) {
			prefix = []int{0, max}[r.Intn(2)]
		}
		addr := r.Bytes(max / 8)
		// zero the bits beyond the prefix
		for bit := prefix; bit < max; bit++ {
			addr[bit/8] &^= 0x80 >> uint(bit%8)
		}
		l := len(addr)
		for l > 0 && addr[l-1] == 0 {
			l--
		}
		neg := byte(0)
		if r.Chance(30) {
			neg = 0x80
		}
		out = putUint(out, 2, uint64(fam))
		out = append(out, byte(prefix), neg|byte(l))
		out = append(out, addr[:l]...)
	}
	return out
}

func sizeFieldOf(extra string) string {
	// "off+int(rr.SaltLength)" -> SaltLength ; "rdStart+int(rr.Hdr.Rdlength)" -> ""
	i := strings.Index(extra, "int(rr.")
	if i < 0 || strings.Contains(extra, "rr.Hdr.") {
		return ""
	}
	s := extra[i+7:]
	return strings.TrimSuffix(s, ")")
}

// genRdata builds RDATA for the plan. nameMode: label byte mode for embedded names.
func genRdata(r *Rng, pl *specPlan, nameMode int, plainStr bool) (rd []byte, fields map[string]interface{}, kinds map[string]string, plain bool) {
	fields = map[string]interface{}{}
	kinds = map[string]string{}
	plain = true
	// pre-pass: sizes of sized fields
	forced := map[string]uint64{}
	blobs := map[string][]byte{}
	for _, s := range pl.Steps {
		if sf := sizeFieldOf(s.Extra); sf != "" && strings.HasPrefix(s.Codec, "unpackString") {
			max := 255
			// find width of the size field
			for _, t := range pl.Steps {
				if t.Field == sf && t.Codec == "unpackUint16" {
					max = 300
				}
			}
			b := genBlob(r, max)
			if r.Chance(25) {
				// the size lives in an 8- or 16-bit field: lengths around half and at the top of its range
				b = r.Bytes([]int{127, 128, 129, 200, 254, 255, max}[r.Intn(7)])
				if len(b) > max {
					b = b[:max]
				}
			}
			if s.Codec == "unpackStringBase32" && len(b) == 0 {
				b = r.Bytes(20)
			}
			blobs[s.Field] = b
			forced[sf] = uint64(len(b))
		}
	}
	gwType := uint64(0)
	for _, s := range pl.Steps {
		switch s.Codec {
		case "earlyexit":
			continue
		case "unpackUint8", "unpackUint16", "unpackUint32", "unpackUint48", "unpackUint64":
			w := map[string]int{"unpackUint8": 1, "unpackUint16": 2, "unpackUint32": 4, "unpackUint48": 6, "unpackUint64": 8}[s.Codec]
			v := genUint(r, w)
			if f, ok := forced[s.Field]; ok {
				v = f
			}
			if s.Field == "GatewayType" {
				v = uint64(r.Intn(4))
				gwType = v
				if pl.Type == "AMTRELAY" && r.Bool() {
					v |= 0x80
				}
			}
			rd = putUint(rd, w, v)
			fields[s.Field] = v
			kinds[s.Field] = "uint"
		case "UnpackDomainName":
			ls := nameFor(r, nameMode)
			rd = append(rd, encName(ls)...)
			fields[s.Field] = ls
			kinds[s.Field] = "name"
			if nameMode != 0 {
				plain = false
			}
		case "unpackDataDomainNames":
			var all [][][]byte
			for i := 0; i < r.Intn(3); i++ {
				ls := nameFor(r, nameMode)
				rd = append(rd, encName(ls)...)
				all = append(all, ls)
			}
			fields[s.Field] = all
			kinds[s.Field] = "names"
			plain = false
		case "unpackString":
			b := genCharString(r, plainStr)
			rd = append(rd, byte(len(b)))
			rd = append(rd, b...)
			fields[s.Field] = b
			kinds[s.Field] = "str"
			if !plainStr {
				plain = false
			}
		case "unpackStringTxt":
			n := 1 + r.Intn(3)
			var ss [][]byte
			for i := 0; i < n; i++ {
				b := genCharString(r, plainStr)
				rd = append(rd, byte(len(b)))
				rd = append(rd, b...)
				ss = append(ss, b)
			}
			fields[s.Field] = ss
			kinds[s.Field] = "txt"
			if !plainStr {
				plain = false
			}
		case "unpackStringOctet":
			b := genCharString(r, plainStr)
			if r.Chance(15) {
				b = append(b, []byte{'\\', 'a', '\\', '0', '6', '5', '"'}[r.Intn(7)])
			}
			if r.Chance(12) {
				// the field takes the rest of the RDATA: it is not limited to the 255 octets of a character-string
				for len(b) < []int{256, 257, 300, 511, 1000}[r.Intn(5)] {
					b = append(b, genCharString(r, plainStr)...)
					b = append(b, 'x')
				}
			}
			rd = append(rd, b...)
			fields[s.Field] = b
			kinds[s.Field] = "octet"
			plain = false
		case "unpackStringHex", "unpackStringBase64", "unpackStringBase32", "unpackStringAny":
			b, ok := blobs[s.Field]
			if !ok {
				b = genBlob(r, 200)
			}
			rd = append(rd, b...)
			fields[s.Field] = b
			kinds[s.Field] = map[string]string{"unpackStringHex": "hex", "unpackStringBase64": "b64", "unpackStringBase32": "b32", "unpackStringAny": "any"}[s.Codec]
			plain = false
		case "unpackDataA":
			b := r.Bytes(4)
			rd = append(rd, b...)
			fields[s.Field] = b
			kinds[s.Field] = "ip"
		case "unpackDataAAAA":
			b := r.Bytes(16)
			rd = append(rd, b...)
			fields[s.Field] = b
			kinds[s.Field] = "ip"
		case "unpackDataNsec":
			ts, enc := genTypeBitmap(r)
			rd = append(rd, enc...)
			fields[s.Field] = ts
			kinds[s.Field] = "nsec"
			plain = false
		case "unpackDataOpt":
			seg := genOptions(r)
			rd = append(rd, seg...)
			fields[s.Field], kinds[s.Field] = seg, "tlv"
			plain = false
		case "unpackDataSVCB":
			seg := genSvcParams(r)
			rd = append(rd, seg...)
			fields[s.Field], kinds[s.Field] = seg, "tlv"
			plain = false
		case "unpackDataApl":
			seg := genApl(r)
			rd = append(rd, seg...)
			fields[s.Field], kinds[s.Field] = seg, "apl"
			plain = false
		case "unpackIPSECGateway":
			plain = false
			switch gwType {
			case 0:
			case 1:
				b := r.Bytes(4)
				rd = append(rd, b...)
				fields["GatewayAddr"] = b
				kinds["GatewayAddr"] = "ip"
			case 2:
				b := r.Bytes(16)
				b[0] = 0x20
				rd = append(rd, b...)
				fields["GatewayAddr"] = b
				kinds["GatewayAddr"] = "ip"
			case 3:
				ls := nameFor(r, nameMode)
				rd = append(rd, encName(ls)...)
				fields["GatewayHost"] = ls
				kinds["GatewayHost"] = "name"
			}
		default:
			panic("rrgen: unknown codec " + s.Codec)
		}
	}
	return
}

// typesForWire: registered type codes that have an ordinary RDATA layout.
func (t *specTable) wireTypes() []uint16 {
	var out []uint16
	for _, c := range t.codes {
		switch c {
		case dns.TypeOPT, dns.TypeANY, dns.TypeNXNAME:
			continue
		}
		out = append(out, c)
	}
	return out
}

// nameEnc, when set, replaces the plain wire form of the names inside generated RDATA (directed streams: names
// written with compression pointers in every field of every type)
var nameEnc func(ls [][]byte) []byte

func encName(ls [][]byte) []byte {
	if nameEnc != nil {
		return nameEnc(ls)
	}
	return wireOf(ls)
}

func genRR(r *Rng, typ uint16, nameMode int, plainStr bool) *GenRR {
	t := loadSpec()
	g := &GenRR{Type: typ, Class: 1, TTL: uint32(genUint(r, 4))}
	if r.Chance(10) {
		g.Class = uint16(genUint(r, 2))
	}
	g.Owner = nameFor(r, nameMode)
	pl := t.byCode[typ]
	if pl != nil {
		g.Rdata, g.Fields, g.Kinds, g.Plain = genRdata(r, pl, nameMode, plainStr)
	} else {
		// unknown type: RFC 3597 opaque RDATA
		g.Rdata = genBlob(r, 100)
		g.Fields = map[string]interface{}{"Rdata": g.Rdata}
		g.Kinds = map[string]string{"Rdata": "hex"}
	}
	if nameMode != 0 {
		g.Plain = false
	}
	g.Wire = assembleRR(g.Owner, g.Type, g.Class, g.TTL, g.Rdata)
	return g
}

func assembleRR(owner [][]byte, typ, class uint16, ttl uint32, rdata []byte) []byte {
	w := wireOf(owner)
	w = putUint(w, 2, uint64(typ))
	w = putUint(w, 2, uint64(class))
	w = putUint(w, 4, uint64(ttl))
	w = putUint(w, 2, uint64(len(rdata)))
	return append(w, rdata...)
}

// checkFields compares the implementation's decoded record with the generated values.
// Returns "" if all agree, otherwise a description of the first difference.
func checkFields(rr dns.RR, g *GenRR) string {
	h := rr.Header()
	if h.Rrtype != g.Type || h.Class != g.Class || h.Ttl != g.TTL || int(h.Rdlength) != len(g.Rdata) {
		return fmt.Sprintf("header: type %d class %d ttl %d rdlength %d", h.Rrtype, h.Class, h.Ttl, h.Rdlength)
	}
	if string(unescapeName(h.Name)) != string(wireOf(g.Owner)) {
		return "owner: " + h.Name
	}
	v := reflect.ValueOf(rr).Elem()
	for f, want := range g.Fields {
		fv := v.FieldByName(f)
		if !fv.IsValid() {
			return "no field " + f
		}
		switch g.Kinds[f] {
		case "uint":
			if fv.Uint() != want.(uint64) {
				return fmt.Sprintf("%s: %d want %d", f, fv.Uint(), want.(uint64))
			}
		case "name":
			if string(unescapeName(fv.String())) != string(wireOf(want.([][]byte))) {
				return fmt.Sprintf("%s: %q", f, fv.String())
			}
		case "names":
			ws := want.([][][]byte)
			if fv.Len() != len(ws) {
				return fmt.Sprintf("%s: %d names want %d", f, fv.Len(), len(ws))
			}
			for i := range ws {
				if string(unescapeName(fv.Index(i).String())) != string(wireOf(ws[i])) {
					return fmt.Sprintf("%s[%d]: %q", f, i, fv.Index(i).String())
				}
			}
		case "str":
			if string(unescape(fv.String())) != string(want.([]byte)) {
				return fmt.Sprintf("%s: %q", f, fv.String())
			}
		case "txt":
			ws := want.([][]byte)
			if fv.Len() != len(ws) {
				return fmt.Sprintf("%s: %d strings want %d", f, fv.Len(), len(ws))
			}
			for i := range ws {
				if string(unescape(fv.Index(i).String())) != string(ws[i]) {
					return fmt.Sprintf("%s[%d]: %q", f, i, fv.Index(i).String())
				}
			}
		case "octet":
			if string(unescape(fv.String())) != string(want.([]byte)) {
				return fmt.Sprintf("%s: %q", f, fv.String())
			}
		case "any":
			if fv.String() != string(want.([]byte)) {
				return fmt.Sprintf("%s: %q", f, fv.String())
			}
		case "hex":
			b, err := hex.DecodeString(fv.String())
			if err != nil || string(b) != string(want.([]byte)) {
				return fmt.Sprintf("%s: %q", f, fv.String())
			}
		case "b64":
			b, err := base64.StdEncoding.DecodeString(fv.String())
			if err != nil || string(b) != string(want.([]byte)) {
				return fmt.Sprintf("%s: %q", f, fv.String())
			}
		case "b32":
			b, err := base32.HexEncoding.WithPadding(base32.NoPadding).DecodeString(strings.ToUpper(fv.String()))
			if err != nil || string(b) != string(want.([]byte)) {
				return fmt.Sprintf("%s: %q", f, fv.String())
			}
		case "ip":
			ip, _ := fv.Interface().(net.IP)
			w := net.IP(want.([]byte))
			if !ip.Equal(w) {
				return fmt.Sprintf("%s: %v want %v", f, ip, w)
			}
		case "nsec":
			ws := want.([]uint16)
			if fv.Len() != len(ws) {
				return fmt.Sprintf("%s: %d types want %d", f, fv.Len(), len(ws))
			}
			for i := range ws {
				if uint16(fv.Index(i).Uint()) != ws[i] {
					return fmt.Sprintf("%s[%d]: %d want %d", f, i, fv.Index(i).Uint(), ws[i])
				}
			}
		}
	}
	return ""
}

// unescapeName: presentation name -> uncompressed wire octets (independent of the library)
func unescapeName(s string) []byte {
	if s == "." {
		return []byte{0}
	}
	var out []byte
	var lab []byte
	for i := 0; i < len(s); i++ {
		c := s[i]
		switch {
		case c == '\\':
			if i+3 < len(s) && isDig(s, i+1) && isDig(s, i+2) && isDig(s, i+3) {
				lab = append(lab, byte((int(s[i+1]-'0')*100+int(s[i+2]-'0')*10+int(s[i+3]-'0'))&0xFF))
				i += 3
			} else if i+1 < len(s) {
				lab = append(lab, s[i+1])
				i++
			}
		case c == '.':
			out = append(out, byte(len(lab)))
			out = append(out, lab...)
			lab = nil
		default:
			lab = append(lab, c)
		}
	}
	return append(out, 0)
}

var _ = binary.BigEndian

// nameFieldsOf returns the domain names held in the RDATA fields of rr according to the plan.
func nameFieldsOf(rr dns.RR, pl *specPlan) []string {
	var out []string
	v := reflect.ValueOf(rr).Elem()
	for _, s := range pl.Steps {
		switch s.Codec {
		case "UnpackDomainName":
			if f := v.FieldByName(s.Field); f.IsValid() && f.Kind() == reflect.String {
				out = append(out, f.String())
			}
		case "unpackDataDomainNames":
			if f := v.FieldByName(s.Field); f.IsValid() && f.Kind() == reflect.Slice {
				for i := 0; i < f.Len(); i++ {
					out = append(out, f.Index(i).String())
				}
			}
		case "unpackIPSECGateway":
			if f := v.FieldByName("GatewayHost"); f.IsValid() {
				out = append(out, f.String())
			}
		}
	}
	return out
}
