/-
  C06 — zone files: TTL values with unit suffixes; owner / TTL / class inheritance for the six entry shapes.
-/
import DnsModel.Zone
namespace Dns.C06
open Dns

/-! ### stringToTTL: units, and no 64-bit wrap-around -/

theorem unitOf_le (c : Byte) (u : Nat) (h : unitOf c = some u) : u ≤ 604800 := by
  unfold unitOf at h
  repeat' split at h
  all_goals simp at h
  all_goals omega

theorem unitOf_ge (c : Byte) (u : Nat) (h : unitOf c = some u) : 1 ≤ u := by
  unfold unitOf at h
  repeat' split at h
  all_goals simp at h
  all_goals omega

/-- the unbounded total is at least the partial sums seen so far -/
theorem spec_ge (t : Bytes) (a b v : Nat) (h : ttlSpecLoop t a b = some v) : a + b ≤ v := by
  induction t generalizing a b with
  | nil => simp [ttlSpecLoop] at h; omega
  | cons c t ih =>
    simp only [ttlSpecLoop] at h
    cases hu : unitOf c with
    | some u =>
      simp only [hu] at h
      have := ih _ _ h
      have h1 := unitOf_ge c u hu
      have : b ≤ b * u := Nat.le_mul_of_pos_right b h1
      omega
    | none =>
      simp only [hu] at h
      by_cases hd : isDigit c = true
      · simp only [hd, ↓reduceIte] at h
        have := ih _ _ h
        omega
      · simp [hd] at h

theorem spec_reject (t : Bytes) (a b : Nat) (h : a + b > maxU32) :
    (match ttlSpecLoop t a b with
      | some v => if v > maxU32 then none else some v
      | none => (none : Option Nat)) = none := by
  cases hv : ttlSpecLoop t a b with
  | none => rfl
  | some v =>
    have := spec_ge t a b v hv
    simp; omega

/-- with both accumulators inside the 32-bit range, one step of the loop does not wrap, and the loop computes
    the unbounded sum whenever that sum fits; if it does not fit the token is rejected -/
theorem ttlLoop_eq (tok : Bytes) (s i : Nat) (hs : s ≤ maxU32) (hi : i ≤ maxU32) :
    ttlLoop tok s i = (match ttlSpecLoop tok s i with
      | some v => if v > maxU32 then none else some v
      | none => none) := by
  induction tok generalizing s i with
  | nil =>
    simp only [ttlLoop, ttlSpecLoop, w64, maxU32] at *
    have : (s + i) % 18446744073709551616 = s + i := Nat.mod_eq_of_lt (by omega)
    simp [this]
  | cons c rest ih =>
    simp only [ttlLoop, ttlSpecLoop]
    cases hu : unitOf c with
    | some u =>
      have hule := unitOf_le c u hu
      have hmul : i * u ≤ 4294967295 * 604800 := Nat.mul_le_mul (by simpa [maxU32] using hi) hule
      have hs' : s ≤ 4294967295 := by simpa [maxU32] using hs
      have e1 : w64 (i * u) = i * u := Nat.mod_eq_of_lt (by omega)
      have e2 : w64 (s + i * u) = s + i * u := Nat.mod_eq_of_lt (by omega)
      simp only [e1, e2]
      by_cases hbig : s + i * u > maxU32
      · have hr := spec_reject rest (s + i * u) 0 (by omega)
        simp [hbig, hr]
      · have : ¬ (0 > maxU32 ∨ s + i * u > maxU32) := by simp [maxU32] at *; omega
        simp only [this, ↓reduceIte]
        exact ih (s + i * u) 0 (by omega) (by simp [maxU32])
    | none =>
      simp only
      by_cases hd : isDigit c = true
      · simp only [hd, ↓reduceIte]
        have hc : c.toNat - 48 ≤ 9 := by
          simp [isDigit] at hd
          have : c.toNat ≤ 57 := UInt8.le_iff_toNat_le.mp hd.2
          omega
        have hi' : i ≤ 4294967295 := by simpa [maxU32] using hi
        have e1 : w64 (i * 10) = i * 10 := Nat.mod_eq_of_lt (by omega)
        have e2 : w64 (i * 10 + (c.toNat - 48)) = i * 10 + (c.toNat - 48) := Nat.mod_eq_of_lt (by omega)
        simp only [e1, e2]
        by_cases hbig : i * 10 + (c.toNat - 48) > maxU32
        · have hr := spec_reject rest s (i * 10 + (c.toNat - 48)) (by omega)
          simp [hbig, hr]
        · have : ¬ (i * 10 + (c.toNat - 48) > maxU32 ∨ s > maxU32) := by omega
          simp only [this, ↓reduceIte]
          exact ih s _ hs (by omega)
      · simp [hd]

/-- **ttl_units**: for every token, `stringToTTL` returns the sum of number × unit over its groups when that sum
    fits in 32 bits, and rejects the token otherwise — in particular nothing wraps around 2^64 -/
theorem ttl_units (tok : Bytes) : stringToTTL tok = ttlSpec tok := by
  unfold stringToTTL ttlSpec
  exact ttlLoop_eq tok 0 0 (by simp [maxU32]) (by simp [maxU32])

example : stringToTTL [49, 104, 51, 48, 109] = some 5400 := by decide   -- "1h30m"
example : ttlSpec [49, 56, 52, 52, 54, 55, 52, 52, 48, 55, 51, 55, 48, 57, 53, 53, 49, 54, 49, 55] = none := by decide

/-! ### owner / TTL / class inheritance -/

/-- the parser state corresponds to a specification environment -/
structure Rel (zp : ZP) (e : ZEnv) : Prop where
  origin : zp.origin = e.origin
  name : zp.h.name = e.lastOwner
  deflt : zp.defttl = e.deflt
  ttl : e.deflt = none → zp.h.ttl = e.lastTtl

/-- **parser_refines_denote**: for every list of entries — each in any of the six header shapes (owner given or
    omitted; TTL and class present or absent, in either order), `$TTL` and `$ORIGIN` directives and blank
    lines anywhere — and every configuration (origin, default TTL), the token machine of `ZoneParser.Next`
    produces exactly the headers the entries denote: relative names completed with the current origin, `@` the
    origin, an omitted owner the previous owner, an omitted TTL the `$TTL` value, else the most recently stated
    TTL, else the configured default, an omitted class IN. -/
theorem parser_refines_denote (ls : List ZLine) (e : ZEnv) (zp : ZP) (acc rs : List ZHdr) (hr : Rel zp e)
    (h : denote ls e acc = some rs) :
    zrun (ls.flatMap tokensOf) .ownerDir zp acc = (rs, false) := by
  induction ls generalizing e zp acc with
  | nil => simp [denote] at h; subst h; simp [zrun]
  | cons l ls ih =>
    obtain ⟨ho, hn, hd, ht⟩ := hr
    obtain ⟨zo, ⟨zn, zt, zc, zy⟩, zd⟩ := zp
    simp only at ho hn hd ht
    subst ho hn hd
    cases l with
    | empty =>
      simp only [denote] at h
      simp only [List.flatMap_cons, tokensOf, List.cons_append, List.nil_append, zrun]
      exact ih e _ acc ⟨rfl, rfl, rfl, by intro hdn; simp [hdn] at ht ⊢; exact ht⟩ h
    | ttlDir v =>
      simp only [denote] at h
      simp only [List.flatMap_cons, tokensOf, List.cons_append, List.nil_append, zrun]
      exact ih { e with deflt := some (v, true) } _ acc ⟨rfl, rfl, rfl, by simp⟩ h
    | originDir n =>
      simp only [denote] at h
      simp only [List.flatMap_cons, tokensOf, List.cons_append, List.nil_append, zrun]
      cases ha : toAbsoluteName n e.origin with
      | none => simp [ha] at h
      | some a =>
        simp only [ha] at h ⊢
        exact ih { e with origin := a } _ acc ⟨rfl, rfl, rfl, by intro hdn; simp at hdn; simp [hdn] at ht ⊢; exact ht⟩ h
    | rr owner ttl c ttlFirst ty =>
      rcases hdd : e.deflt with _ | ⟨dv, db⟩ <;> cases ttlFirst <;> cases ttl <;> cases c <;> cases owner
      all_goals try cases db
      all_goals (try (have htt := ht hdd; subst htt))
      all_goals simp only [denote, hdd] at h
      all_goals (try (split at h))
      all_goals (try (simp at h; done))
      all_goals (try simp at h)
      all_goals simp only [List.flatMap_cons, tokensOf, List.cons_append, List.nil_append, List.append_assoc, zrun,
        noteTTL, hdd, ↓reduceIte, Bool.false_eq_true]
      all_goals (try simp only [*])
      all_goals (first | (apply ih _ _ _ _ h; constructor <;> simp_all; done) | skip)

end Dns.C06
