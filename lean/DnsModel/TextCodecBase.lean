/-
  DnsModel.TextCodecBase — the step alphabet of the text algebra (kept apart so that the generated table
  DnsModel/Generated/TextPlans.lean can import it).
-/
namespace Dns

/-- one step of a hand-written RDATA parser (`func (rr *T) parse`) or printer (`func (rr *T) String`) -/
inductive TStep where
  | uint (bits : Nat)       -- `strconv.ParseUint(l.token, 10, bits)` / `strconv.Itoa(int(rr.F))` with F a uint<bits> field
  | uintTtl (strict : Bool) -- `ParseUint(l.token, 10, 32)`, else (unless strict) `stringToTTL(l.token)`: the numbers of an SOA record
  | uintAlg                 -- a DNSSEC algorithm: `ParseUint(l.token, 10, 8)`, else the mnemonic in `StringToAlgorithm`
  | tok                     -- the token as it is (`rr.F = l.token` behind an `l.err` check)
  | name                    -- `toAbsoluteName(l.token, o)` / `sprintName(rr.F)`
  | endStr (upper : Bool)   -- `endingToString(c, …)` / the field as it is (or through `strings.ToUpper`)
  | txt                     -- `endingToTxtSlice(c, …)` / `sprintTxt(rr.F)`
  | txtPair                 -- two string fields: `sprintTxt([]string{rr.F, rr.G})` / the chunks of `endingToTxtSlice` shared out as HINFO and ISDN do
  | octet                   -- `endingToOctetString(c, …)` / `sprintTxtOctet(rr.F)`: one string of any length, quoted or not (URI, CAA)
  | tokStr                  -- the token as it is, which must be a string token (`if l.value != zString { return … }; rr.F = l.token`)
  | hexGroups (digits group sep : Nat) (upper : Bool)  -- `fmt.Sprintf("%0<digits>x", rr.F)` cut into groups joined by a separator (EUI48, EUI64, NID, L64)
  | euiTok (groups : Nat)    -- `(*EUI48).parse` / `(*EUI64).parse`: that many pairs of hex digits with a dash between them
  | nodeId                  -- `stringToNodeID`: four groups of four hex digits with colons
  | salt                    -- the salt of NSEC3PARAM: `saltToString(rr.F)` (`-` when empty, else upper case) / the token, `-` standing for none
  | uintLax (bits : Nat)    -- `strconv.ParseUint(l.token, 10, bits)` where the token's error flag is not looked at (CSYNC)
  | endStrSplit (n : Nat)   -- `strings.Join(splitN(rr.F, n), " ")`: the field cut into pieces of n octets with blanks between them (SMIMEA)
  | mnem (tbl bits : Nat)   -- a code written as the mnemonic of a table (0: `CertTypeToString`, else `AlgorithmToString`), else as a number (CERT)
  | saltNE                  -- the salt of NSEC3: as `salt`, behind `if l.token == "" || l.err { return … }`
  | tokNE                   -- the token as it is, which must not be empty (`if l.token == "" || l.err { return … }; rr.F = l.token`)
  | typeList                -- the rest of the entry as type mnemonics (NSEC, CSYNC): `" " + Type(t).String()` per type / the loop over `StringToType`, `typeToInt`
  | ipv4                    -- an IPv4 address: `rr.A.String()` / `net.ParseIP(l.token)` with no colon in the token (A)
  | txtFirst                -- one string field: `sprintTxt([]string{rr.F})` / the first chunk of `endingToTxtSlice` (UINFO)
  | blank                   -- `c.Next()` that skips the blank / `" "`
  | slurp                   -- `slurpRemainder(c)`
  | other                   -- an idiom outside the algebra
deriving Repr, DecidableEq

end Dns
