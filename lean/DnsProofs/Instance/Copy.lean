/-
  Instance facts about the copy plans regenerated from /repo's copy() methods.
-/
import DnsModel.Generated.CopyPlans
namespace Dns.Instance
open Dns

def fieldDeep (f : String × String × String) : Bool :=
  f.2.1 == "none"
    || (f.2.1 == "flat" && (f.2.2 == "clone" || f.2.2 == "rebuilt" || f.2.2 == "copycall"))
    || (f.2.1 == "deep" && (f.2.2 == "rebuilt" || f.2.2 == "copycall"))

/-- **every copy plan is deep**: each generated record `copy()`, each EDNS0 option, each SVCB parameter and
    `APLPrefix.copy` clones every slice / rebuilds every nested value; `PrivateRR` delegates to the user's
    `Copy` and `RR_Header.copy` is unused (returns nil) -/
theorem copy_plans_deep :
    (Gen.copyPlans.all fun p => p.1 == "PrivateRR" || p.1 == "RR_Header" || p.2.all fieldDeep) = true := by
  decide +kernel

/-- the plans cover the record types, the options and the parameters (not an empty table) -/
theorem copy_plans_nonempty : Gen.copyPlans.length ≥ 100 := by decide +kernel

end Dns.Instance
