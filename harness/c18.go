package main

import (
	"bytes"
	"crypto"
	"crypto/ed25519"
	"crypto/x509"
	"encoding/base64"
	"fmt"
	"math/big"
	"time"

	"github.com/miekg/dns"
)

func init() { props["C18"] = runC18 }

func keyRRFrom(k *dns.DNSKEY) *dns.KEY {
	return &dns.KEY{DNSKEY: dns.DNSKEY{Hdr: dns.RR_Header{Name: k.Hdr.Name, Rrtype: dns.TypeKEY, Class: 1, Ttl: 3600}, Flags: k.Flags, Protocol: 3, Algorithm: k.Algorithm, PublicKey: k.PublicKey}}
}

func runC18(c *Ctx) {
	r := c.R
	c.Res.Rule = "messages (compressed or not, any sections, 0..300 additional records) x supported algorithms x keys x validity windows; every single-bit alteration and every truncation point of small signed messages; distinct by content"
	algs := []uint8{dns.ED25519, dns.ECDSAP256SHA256, dns.ECDSAP384SHA384, dns.RSASHA256}
	if c.Tier == "thorough" {
		algs = append(algs, dns.RSASHA1, dns.RSASHA512, dns.RSASHA1NSEC3SHA1)
	}
	keys := map[uint8]*signKey{}
	for _, a := range algs {
		keys[a] = newSignKey(r, a, "Signer.Example.")
	}
	_, capPriv, _ := ed25519.GenerateKey(detRand{r})
	now := uint32(time.Now().Unix())
	n := c.Scale(400, 8000)
	extras := []int{0, 1, 2, 254, 255, 256, 257, 300}
	done := 0 // messages that got past the generator's filter: the directed cases below must not depend on its luck
	for i := 0; i < n; i++ {
		// the library reads the clock itself: the windows below are laid around the time of this iteration, not of the
		// start of the run (the thorough tier runs longer than the 100 s margins: a window that lay in the future at the
		// start had begun by the time it was tested — a false alarm of this check, see DESIGN.md)
		now = uint32(time.Now().Unix())
		g := genMsg(r, msgOpts{mode: r.Intn(2), pool: r.Chance(70), maxAn: 3, maxNs: 2, maxEx: 2, optPct: 30})
		m, err := unpackGen(g)
		if err != nil || hasType(m, dns.TypeSIG) || hasType(m, dns.TypeTSIG) {
			continue
		}
		m.Compress = r.Bool()
		done++
		if done%40 == 1 {
			// many additional records (the ARCOUNT high octet matters from 256 on)
			k := extras[(done/40)%len(extras)]
			m.Extra = nil
			for j := 0; j < k; j++ {
				m.Extra = append(m.Extra, &dns.A{Hdr: dns.RR_Header{Name: fmt.Sprintf("h%d.example.", j), Rrtype: dns.TypeA, Class: 1, Ttl: 1}, A: []byte{10, 0, byte(j >> 8), byte(j)}})
			}
			c.Hit(fmt.Sprintf("extras:%d", k))
		}
		mk := func(alg uint8, tag uint16) *dns.SIG {
			s := new(dns.SIG)
			s.Algorithm = alg
			s.KeyTag = tag
			s.SignerName = "signer.example."
			s.Inception = now - 300
			s.Expiration = now + 300
			return s
		}
		mp := m.Copy()
		packed, perr := mp.Pack()
		if perr != nil {
			continue
		}
		in := fmt.Sprintf("compress=%v msg=%s", m.Compress, hx(packed))
		// (a) what Sign hashes = what the model of Verify's walk hashes on Sign's output; layout
		cs := &captureSigner{priv: capPriv}
		out, err := mk(dns.ED25519, 77).Sign(cs, m.Copy())
		if err != nil || len(cs.got) != 1 {
			c.Pred("sign", "sign-ok", in, false, fmt.Sprint(err), "nil", true)
			continue
		}
		lay := len(out) > len(packed) && bytes.Equal(out[:10], packed[:10]) && be16(out, 10) == be16(packed, 10)+1 && bytes.Equal(out[12:len(packed)], packed[12:]) &&
			out[len(packed)] == 0 && be16(out, len(packed)+1) == int(dns.TypeSIG)
		c.Pred("sign", "signed-layout", in, lay, "", "packed message ++ one SIG record, ARCOUNT+1", true)
		walk := fmt.Sprintf("ok %d %d %d %d %d %s %s", len(packed), len(packed)+11, len(out)-64, now+300, now-300, hxs("signer.example."), hx(cs.got[0]))
		c.Op("sign", "sig0.walk "+hx(out), walk, true)
		// (a2) what Sign hashes and returns = the model of Sign applied to the packed message and the signature octets
		c.Op("sign-model", fmt.Sprintf("sig0.sign %s %d %d %d %d %s %s", hx(packed), dns.ED25519, now+300, now-300, 77, hxs("signer.example."),
			hx(out[len(out)-64:])), hx(out)+" "+hx(cs.got[0]), true)
		// (b) real keys
		alg := algs[r.Intn(len(algs))]
		k := keys[alg]
		key := keyRRFrom(k.key)
		out, err = mk(alg, key.KeyTag()).Sign(k.signer, m.Copy())
		if err != nil {
			c.Pred("verify", "sign-real", fmt.Sprintf("alg=%d %s", alg, in), false, err.Error(), "nil", true)
			continue
		}
		verify := func(b []byte, ky *dns.KEY) string {
			return guard(func() string {
				var mm dns.Msg
				if err := mm.Unpack(b); err != nil {
					return "err-unpack"
				}
				if len(mm.Extra) == 0 {
					return "err-nosig"
				}
				s, ok := mm.Extra[len(mm.Extra)-1].(*dns.SIG)
				if !ok {
					return "err-nosig"
				}
				if err := s.Verify(ky, b); err != nil {
					return "err"
				}
				return "ok"
			})
		}
		v := verify(out, key)
		c.Pred("verify", "sign-then-verify", fmt.Sprintf("alg=%d %s", alg, in), v == "ok", v, "ok", true)
		// Verify as a whole on the model (Ed25519: the hash is the identity, the check is done with the standard library)
		var vqs []sigVerifyQuery
		var s1 *dns.SIG
		if alg == dns.ED25519 && v == "ok" {
			var mm dns.Msg
			mm.Unpack(out)
			s1 = mm.Extra[len(mm.Extra)-1].(*dns.SIG)
		}
		ask := func(b []byte, label string) {
			if s1 == nil {
				return
			}
			at := uint32(time.Now().Unix())
			res := guard(func() string {
				if err := s1.Verify(key, b); err != nil {
					return "err"
				}
				return "ok"
			})
			vqs = append(vqs, sigVerifyQuery{buf: append([]byte{}, b...), real: res, at: at, in: label})
		}
		ask(out, "signed "+in)
		for k2 := 0; k2 < 6 && s1 != nil; k2++ {
			if hb := mutateBytes(r, out); len(hb) >= 12 {
				ask(hb, "mutated "+in)
			}
		}
		if s1 != nil && len(out) < 400 {
			for bit := 0; bit < len(out)*8; bit += 5 {
				t2 := append([]byte{}, out...)
				t2[bit/8] ^= 1 << uint(bit%8)
				ask(t2, fmt.Sprintf("bit=%d %s", bit, in))
			}
			for cutAt := 12; cutAt < len(out); cutAt += 2 {
				ask(out[:cutAt], fmt.Sprintf("cut=%d %s", cutAt, in))
			}
		}
		if s1 != nil {
			sigModelVerdicts(c, "verify-model", k.signer.(ed25519.PrivateKey).Public().(ed25519.PublicKey), key.Hdr.Name, vqs)
		}
		if v != "ok" {
			continue
		}
		// the same SIG value signs again (another message, and the same one): every output verifies
		{
			s := mk(alg, key.KeyTag())
			okAll, detail := true, ""
			for round := 0; round < 3; round++ {
				m2 := m.Copy()
				m2.Id = uint16(int(m.Id) + round)
				o, err := s.Sign(k.signer, m2)
				if err != nil {
					okAll, detail = false, fmt.Sprintf("round %d sign: %v", round, err)
					break
				}
				if v2 := verify(o, key); v2 != "ok" {
					okAll, detail = false, fmt.Sprintf("round %d verify: %s", round, v2)
					break
				}
			}
			c.Pred("verify", "sig-value-reused", fmt.Sprintf("alg=%d %s", alg, in), okAll, detail, "every round verifies", true)
		}
		// wrong key / signer name
		other := keyRRFrom(keys[alg].key)
		other.Hdr.Name = "other.example."
		c.Pred("verify", "signer-name-mismatch-rejected", in, verify(out, other) != "ok", "ok", "err", true)
		// names that are different octet strings but look alike: Unicode fold partners of ASCII letters (U+017F long s,
		// U+212A Kelvin sign), a different final label, a missing label
		for _, nm := range []string{"\u017Figner.example.", "signer.e\u017Fample.", "signer.example.\u212A.", "signer.exampl\u0435.", "signer.exarnple.", "example.", "xsigner.example."} {
			look := keyRRFrom(keys[alg].key)
			look.Hdr.Name = nm
			c.Pred("verify", "signer-name-lookalike-rejected", "key owner "+hxs(nm)+" "+in, verify(out, look) != "ok", "ok", "err", true)
		}
		// outside the validity window
		for _, w := range [][2]uint32{{now + 100, now + 300}, {now - 300, now - 100}, {now + 0x80000100, now + 0x80000200}, {now + 300, now - 300},
			{now - 300, now - 600}, {now + 600, now + 300}, {0xFFFFFFFF, now - 1}} { // the last three: inverted windows, both ends on one side of now
			s := mk(alg, key.KeyTag())
			s.Inception, s.Expiration = w[0], w[1]
			o2, err := s.Sign(k.signer, m.Copy())
			if err == nil {
				c.Pred("verify", "outside-window-rejected", fmt.Sprintf("window=%d..%d now=%d %s", w[0], w[1], now, in), verify(o2, key) != "ok", "ok", "err", true)
			}
		}
		// inside the window, however far its ends are (plain 32-bit comparison of seconds)
		for _, w := range [][2]uint32{{now - 300, 0xFFFFFFFF}, {0, now + 300}, {1, now + 0x7FFFFFFF + 1000}} {
			s := mk(alg, key.KeyTag())
			s.Inception, s.Expiration = w[0], w[1]
			o2, err := s.Sign(k.signer, m.Copy())
			if err == nil {
				v3 := verify(o2, key)
				c.Pred("verify", "inside-window-accepted", fmt.Sprintf("window=%d..%d now=%d %s", w[0], w[1], now, in), v3 == "ok", v3, "ok", true)
			}
		}
		// (c) every single-bit alteration of message and SIG RDATA (small messages), truncations
		if (len(out) < 260 && i%3 == 0) || i%25 == 0 {
			step := 1
			if len(out) >= 260 {
				step = 13
			}
			if alg == dns.ECDSAP384SHA384 {
				step *= 7 // P-384 verification is two orders slower; sample
			}
			sigRdata := len(packed) + 11
			var s0 *dns.SIG
			{
				var mm dns.Msg
				mm.Unpack(out)
				s0 = mm.Extra[len(mm.Extra)-1].(*dns.SIG)
			}
			for bit := 0; bit < len(out)*8; bit += step {
				pos := bit / 8
				if pos >= len(packed) && pos < sigRdata {
					continue // the SIG record's own header is not signed
				}
				t2 := append([]byte{}, out...)
				t2[pos] ^= 1 << uint(bit%8)
				res := guard(func() string {
					if err := s0.Verify(key, t2); err != nil {
						return "err"
					}
					return "ok"
				})
				c.Pred("tamper", "altered-octet-rejected", fmt.Sprintf("bit=%d alg=%d %s", bit, alg, in), res == "err", res, "err", true)
			}
			// the signature lengthened: a zero octet in front of it (for ECDSA: in front of r and of s, the same two numbers),
			// RDLENGTH raised to match — the SIG RDATA is altered, verification fails
			{
				siglen := map[uint8]int{dns.ECDSAP256SHA256: 64, dns.ECDSAP384SHA384: 96, dns.ED25519: 64}[alg]
				if siglen == 0 {
					siglen = len(out) - (len(packed) + 11 + 18 + len(wireOf([][]byte{[]byte("signer"), []byte("example")})))
				}
				if siglen > 0 && siglen < len(out)-sigRdata {
					body, sg := out[:len(out)-siglen], out[len(out)-siglen:]
					var t2 []byte
					if alg == dns.ECDSAP256SHA256 || alg == dns.ECDSAP384SHA384 {
						t2 = append(append([]byte{}, body...), 0)
						t2 = append(t2, sg[:siglen/2]...)
						t2 = append(append(t2, 0), sg[siglen/2:]...)
					} else {
						t2 = append(append(append([]byte{}, body...), 0), sg...)
					}
					rl := int(t2[sigRdata-2])<<8 | int(t2[sigRdata-1])
					rl += len(t2) - len(out)
					t2[sigRdata-2], t2[sigRdata-1] = byte(rl>>8), byte(rl)
					res := guard(func() string {
						if err := s0.Verify(key, t2); err != nil {
							return "err"
						}
						return "ok"
					})
					c.Pred("tamper", "lengthened-signature-rejected", fmt.Sprintf("alg=%d %s", alg, in), res == "err", res, "err", true)
				}
			}
			for cut := 12; cut < len(out); cut += step {
				res := guard(func() string {
					if err := s0.Verify(key, out[:cut]); err != nil {
						return "err"
					}
					return "ok"
				})
				c.Pred("truncate", "truncated-rejected-no-panic", fmt.Sprintf("cut=%d alg=%d %s", cut, alg, in), res == "err", res, "err", true)
				if cut%3 == 0 {
					c.Op("truncate", "sig0.class "+hx(out[:cut]), walkClass(s0, key, out[:cut]), true)
				}
			}
		}
		// hostile buffers of at least header size through Verify: no panic; the walk's outcome class agrees with the model
		for k2 := 0; k2 < 4; k2++ {
			hb := mutateBytes(r, out)
			if len(hb) < 12 {
				continue
			}
			var s0 = mk(alg, key.KeyTag())
			res := guard(func() string { s0.Verify(key, hb); return "returned" })
			c.Pred("hostile", "verify-no-panic", "buf="+hx(hb), res == "returned", res, "returned", true)
			c.Op("hostile", "sig0.class "+hx(hb), walkClass(s0, key, hb), true)
		}
	}
	_ = crypto.SHA1
	now = uint32(time.Now().Unix())
	// a message far beyond 64 KiB uncompressed that compression brings well below it: it can be signed, and verifies
	{
		k := keys[dns.ED25519]
		key := keyRRFrom(k.key)
		for _, nrec := range []int{1500, 3000} {
			m := new(dns.Msg)
			m.SetQuestion("big.example.", dns.TypeA)
			m.Response = true
			m.Compress = true
			for j := 0; j < nrec; j++ {
				m.Answer = append(m.Answer, &dns.A{Hdr: dns.RR_Header{Name: "a-rather-long-owner-name-shared-by-all.records.big.example.", Rrtype: dns.TypeA, Class: 1, Ttl: 1}, A: []byte{10, 1, byte(j >> 8), byte(j)}})
			}
			s := new(dns.SIG)
			s.Algorithm, s.KeyTag, s.SignerName = dns.ED25519, key.KeyTag(), "signer.example."
			s.Inception, s.Expiration = now-300, now+300
			packed, perr := m.Copy().Pack()
			in := fmt.Sprintf("%d A records under one owner, compress=true, uncompressed Len %d, packed %d", nrec, func() int { c2 := m.Copy(); c2.Compress = false; return c2.Len() }(), len(packed))
			if perr != nil || len(packed) > 60000 {
				continue
			}
			out, err := s.Sign(k.signer, m.Copy())
			res := "sign: " + fmt.Sprint(err)
			if err == nil {
				res = guard(func() string {
					var mm dns.Msg
					if e := mm.Unpack(out); e != nil || len(mm.Extra) == 0 {
						return "signed message does not decode"
					}
					sg, ok := mm.Extra[len(mm.Extra)-1].(*dns.SIG)
					if !ok {
						return "no SIG record"
					}
					if e := sg.Verify(key, out); e != nil {
						return "verify: " + e.Error()
					}
					return "ok"
				})
			}
			c.Pred("big-compressible", "large-compressible-message-signs", in, res == "ok", res, "ok", true)
		}
	}
	// RSA keys of every supported modulus size up to the 4096-bit maximum (fixed keys, rsakeys.go): SIG(0) made with the
	// private key verifies with the KEY built from the public key
	for _, bits := range []int{1024, 2048, 3072, 4096} {
		der, _ := base64.StdEncoding.DecodeString(rsaKeysDER[bits])
		priv, err := x509.ParsePKCS1PrivateKey(der)
		if err != nil {
			continue
		}
		eb := big.NewInt(int64(priv.PublicKey.E)).Bytes()
		pk := append([]byte{byte(len(eb))}, eb...)
		pk = append(pk, priv.PublicKey.N.Bytes()...)
		for _, alg := range []uint8{dns.RSASHA256, dns.RSASHA512} {
			k := &dns.KEY{DNSKEY: dns.DNSKEY{Hdr: dns.RR_Header{Name: "signer.example.", Rrtype: dns.TypeKEY, Class: 1, Ttl: 0}, Flags: 256, Protocol: 3, Algorithm: alg,
				PublicKey: base64.StdEncoding.EncodeToString(pk)}}
			m := new(dns.Msg)
			m.SetQuestion("rsa.example.", dns.TypeA)
			s := new(dns.SIG)
			s.Hdr = dns.RR_Header{Name: ".", Rrtype: dns.TypeSIG, Class: dns.ClassANY, Ttl: 0}
			s.Algorithm, s.KeyTag, s.SignerName = alg, k.KeyTag(), "signer.example."
			s.Inception, s.Expiration = uint32(time.Now().Unix()-300), uint32(time.Now().Unix()+300)
			in := fmt.Sprintf("rsa-bits=%d alg=%d", bits, alg)
			out, err := s.Sign(priv, m)
			if err != nil {
				c.Pred("rsa-sizes", "sig0-sign", in, false, err.Error(), "nil", true)
				continue
			}
			res := guard(func() string {
				var mm dns.Msg
				if e := mm.Unpack(out); e != nil || len(mm.Extra) == 0 {
					return "signed message does not decode"
				}
				sg, ok := mm.Extra[len(mm.Extra)-1].(*dns.SIG)
				if !ok {
					return "no SIG record"
				}
				if e := sg.Verify(k, out); e != nil {
					return "verify: " + e.Error()
				}
				return "ok"
			})
			c.Pred("rsa-sizes", "sig0-verifies", in, res == "ok", res, "ok", true)
		}
	}
	// every algorithm SIG.Sign accepts is one SIG.Verify accepts: one small message per RSA flavour (the quick tier draws its
	// messages for algorithm 8 only)
	for _, alg := range []uint8{dns.RSASHA1, dns.RSASHA1NSEC3SHA1, dns.RSASHA256, dns.RSASHA512} {
		k := newSignKey(r, alg, "signer.example.")
		key := keyRRFrom(k.key)
		m := new(dns.Msg)
		m.SetQuestion("alg.example.", dns.TypeSOA)
		s := new(dns.SIG)
		s.Algorithm, s.KeyTag, s.SignerName = alg, key.KeyTag(), "signer.example."
		at := uint32(time.Now().Unix())
		s.Inception, s.Expiration = at-300, at+300
		res := guard(func() string {
			out, err := s.Sign(k.signer, m)
			if err != nil {
				return "sign: " + err.Error()
			}
			if err := s.Verify(key, out); err != nil {
				return "verify: " + err.Error()
			}
			return "ok"
		})
		c.Pred("algorithms", "sign-then-verify", fmt.Sprintf("alg=%d", alg), res == "ok" || (len(res) > 5 && res[:5] == "sign:"), res, "ok (or not signable at all)", true)
	}
}

// walkClass: coarse outcome of the implementation for comparison with the model's walk on truncated
// buffers: the model says "err" exactly when Verify stops before hashing.
func walkClass(s *dns.SIG, key *dns.KEY, b []byte) string {
	// the implementation does not expose the walk; only the panic / no-panic distinction is compared here
	out := guard(func() string { s.Verify(key, b); return "nopanic" })
	if out == "panic" {
		return "panic"
	}
	return "nopanic"
}
