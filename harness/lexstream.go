package main

// Correspondence of the Lean lexer model (DnsModel/Lexer.lean, op `lex <hex>`) with zlexer.Next through the verif hook
// dns.VerifLex: the whole token stream (value, text, type-or-class code, error flag, line, column, comment) of zone
// texts of every kind the other streams produce, plus octet soup over the lexer's own alphabet.

import (
	"fmt"
	"strings"

	"github.com/miekg/dns"
)

func lexImpl(text string) string {
	return guard(func() string {
		// the model's stream ends after at most 4n+3 tokens (theorem lexAll_complete): more than that is a runaway
		max := 4*len(text) + 8
		toks := dns.VerifLex(text, max)
		if len(toks) == 0 {
			return "-"
		}
		if len(toks) >= max {
			return fmt.Sprintf("runaway: %d tokens and no end for %d octets of input", len(toks), len(text))
		}
		parts := make([]string, len(toks))
		hd := func(s string) string {
			if s == "" {
				return "-"
			}
			return hxs(s)
		}
		for i, t := range toks {
			e := 0
			if t.Err {
				e = 1
			}
			parts[i] = fmt.Sprintf("%d,%s,%d,%d,%d,%d,%s", t.Value, hd(t.Token), t.Torc, e, t.Line, t.Column, hd(t.Comment))
		}
		return strings.Join(parts, " ")
	})
}

var lexAlphabet = []string{" ", " ", "\t", "\n", "\n", "\r", "\r\n", ";", ";", "(", ")", "\"", "\\", "\\", "a", "b", "A", "in", "IN", "ch", "ANY", "any", "a", "mx", "NS", "soa", "TYPE", "type1", "TYPE65535", "TYPE65536",
	"TYPE", "TYPE1x", "class1", "CLASS", "CLASS65535", "CLASS99999", "CLASS-1", "type01", "None", "NONE", "Reserved", "$TTL", "$ttl", "$ORIGIN", "$include", "$GENERATE", "$", "@", "1", "3600", ".", "x.",
	"\xc4\xb1", "\xc5\xbf", "\xc4", "\xb1", "\xff", "\x00", "TYPE\xc4\xb1", "CLA\xc5\xbf\xc5\xbf1", "$\xc4\xb1NCLUDE", "\xc5\xbfoa", "m\xc5\xbf", "\xc4\xb1n", "nsap-ptr", "NSAP-PTR", "; c", ";;", "x;y"}

func genLexSoup(r *Rng) string {
	var sb strings.Builder
	n := 1 + r.Intn(40)
	for i := 0; i < n; i++ {
		if r.Chance(5) {
			sb.Write(r.Bytes(1 + r.Intn(3)))
		} else {
			sb.WriteString(lexAlphabet[r.Intn(len(lexAlphabet))])
		}
	}
	return sb.String()
}

// long comments: the lexer grows its comment buffer by hand in steps of maxTok and carries comment text over line
// breaks inside parentheses (at most maxTok octets of it)
func genLexComments(r *Rng) string {
	var sb strings.Builder
	sb.WriteString("a 1 IN TXT ( ")
	for i := 0; i < 1+r.Intn(5); i++ {
		sb.WriteString("x ;")
		n := []int{0, 1, 2, 100, 505, 506, 507, 508, 509, 510, 511, 512, 513, 1017, 1018, 1019, 1020, 1021, 1022, 1023, 1024, 1025, 1100, 1533, 1534, 1535}[r.Intn(26)]
		if r.Chance(20) {
			n = r.Intn(1600)
		}
		sb.WriteString(strings.Repeat("c", n))
		if r.Chance(15) {
			sb.WriteString(";")
		}
		sb.WriteString("\n")
		if r.Chance(30) {
			sb.WriteString(" ")
		}
	}
	if r.Chance(80) {
		sb.WriteString(")")
	}
	if r.Chance(80) {
		sb.WriteString("\n")
	}
	return sb.String()
}

func lexStream(c *Ctx, n int) {
	r := c.R
	one := func(kind, text string) {
		c.OpK("lex", "lex "+func() string {
			if text == "" {
				return "-"
			}
			return hxs(text)
		}(), lexImpl(text), len(text) > 0, "lex:"+kind)
	}
	one("empty", "")
	for i := 0; i < n; i++ {
		switch i % 5 {
		case 0:
			one("soup", genLexSoup(r))
		case 1:
			one("hostile", genHostileZone(r))
		case 2:
			ls := genZone(r)
			one("rendering", renderZone(r, ls, 1+r.Intn(2), false))
		case 3:
			one("comments", genLexComments(r))
		case 4:
			// long tokens across the maxTok boundary of the hand-grown token buffer
			k := []int{510, 511, 512, 513, 1023, 1024, 1025, 2048}[r.Intn(8)]
			one("long", strings.Repeat("y", k)+[]string{" ", "\n", ";", "\"", ""}[r.Intn(5)]+genLexSoup(r))
		}
	}
}

// zoneTextStream: the header-level reading of whole zone texts — Lean: lexer model, grouping into abstract tokens
// (DnsModel/ZoneText.lean), header machine — against the real ZoneParser, on every rendering style of generated zones.
// Texts the parser refuses are not compared (the first error may come from RDATA, which the header model does not see).
func zoneTextStream(c *Ctx, n int) {
	r := c.R
	for i := 0; i < n; i++ {
		ls := genZone(r)
		origin := []string{"example.org.", "", ".", "Zone.Example."}[r.Intn(4)]
		defTTL := []int{-1, 3600, 0}[r.Intn(3)]
		style := r.Intn(3)
		txt := renderZone(r, ls, style, false)
		recs, res := parseZone(txt, origin, defTTL, nil)
		if res != "ok" {
			c.Hit("zone-text:rejected")
			continue
		}
		c.Hit(fmt.Sprintf("zone-text:accepted:style%d", style))
		dt := "-"
		if defTTL >= 0 {
			dt = fmt.Sprint(defTTL)
		}
		got := strings.TrimSpace("ok " + hdrsOf(recs))
		c.OpK("zone-text", fmt.Sprintf("zone.text %s %s %s", strOrDash(hxs(origin)), dt, strOrDash(hxs(txt))), got, len(recs) > 1, "zone-text")
	}
}
