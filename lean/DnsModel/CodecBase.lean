/-
  DnsModel.CodecBase — the step alphabet of the codec algebra (kept apart so that the generated table
  DnsModel/Generated/Codecs.lean can import it).
-/
namespace Dns

/-- one step of a generated `pack` / `unpack` body -/
inductive CStep where
  | early                       -- `if off == len(msg) { return off, nil }`
  | uint (w : Nat)              -- packUintN / unpackUintN, N = 8w
  | a | aaaa                    -- packDataA / packDataAAAA
  | str                         -- one character-string: length octet + octets
  | name                        -- packDomainName / UnpackDomainName
  | blobRest                    -- octets up to the end of the RDATA (hex / base64 / base32 / any / octet fields)
  | blobSized (sizeIdx : Nat)   -- octets whose number is the value of an earlier field
  | txt                         -- character-strings up to the end of the RDATA
  | nsec                        -- type bitmap up to the end of the RDATA (packDataNsec / unpackDataNsec)
  | gateway (typeIdx : Nat) (mask7 : Bool)  -- packIPSECGateway: nothing / A / AAAA / name, chosen by an earlier field (AMTRELAY: its low 7 bits)
  | names                       -- domain names up to the end of the RDATA (packDataDomainNames)
  | tlvs (sorted : Bool)        -- (code, length, data) triples up to the end of the RDATA: packDataOpt (false) / packDataSVCB (true: keys strictly increasing)
  | apl                         -- address prefix items up to the end of the RDATA (packDataApl)
  | other                       -- a primitive outside the algebra
deriving Repr, DecidableEq

end Dns
