package main

// Correspondence of the Lean value codecs of EDNS0 options and SVCB parameters (DnsModel/Options.lean: unpackOpts /
// packOpts, unpackParams / packParams) with edns.go / svcb.go, on well-formed and on damaged RDATA: what is accepted,
// what every field holds (`*.describe`), and what is written back (`*.repack`).

import (
	"fmt"
	"strings"

	"github.com/miekg/dns"
)

func hexOrDash(b []byte) string {
	if len(b) == 0 {
		return "-"
	}
	return hx(b)
}

func hexListOrDash(xs [][]byte) string {
	if len(xs) == 0 {
		return "-"
	}
	var p []string
	for _, x := range xs {
		p = append(p, hexOrDash(x))
	}
	return strings.Join(p, ",")
}

// optDescribeModelFormat: the library's decoded options in the format of the Lean driver's `opt.describe`.
func optDescribeModelFormat(o *dns.OPT) (string, bool) {
	var out []string
	for _, e := range o.Option {
		switch x := e.(type) {
		case *dns.EDNS0_LLQ:
			out = append(out, fmt.Sprintf("LLQ v=%d op=%d err=%d id=%d lease=%d", x.Version, x.Opcode, x.Error, x.Id, x.LeaseLife))
		case *dns.EDNS0_UL:
			out = append(out, fmt.Sprintf("UL lease=%d keylease=%d", x.Lease, x.KeyLease))
		case *dns.EDNS0_NSID:
			out = append(out, "NSID "+strOrDash(strings.ToLower(x.Nsid)))
		case *dns.EDNS0_ESU:
			out = append(out, "ESU "+hexOrDash([]byte(x.Uri)))
		case *dns.EDNS0_DAU:
			out = append(out, "DAU "+hexOrDash(x.AlgCode))
		case *dns.EDNS0_DHU:
			out = append(out, "DHU "+hexOrDash(x.AlgCode))
		case *dns.EDNS0_N3U:
			out = append(out, "N3U "+hexOrDash(x.AlgCode))
		case *dns.EDNS0_SUBNET:
			a := []byte(x.Address)
			if x.Family != 2 {
				a = []byte(x.Address.To4())
			}
			if a == nil {
				return "", false
			}
			out = append(out, fmt.Sprintf("SUBNET fam=%d src=%d scope=%d addr=%s", x.Family, x.SourceNetmask, x.SourceScope, hexOrDash(a)))
		case *dns.EDNS0_EXPIRE:
			if x.Empty {
				out = append(out, "EXPIRE empty")
			} else {
				out = append(out, fmt.Sprintf("EXPIRE %d", x.Expire))
			}
		case *dns.EDNS0_COOKIE:
			out = append(out, "COOKIE "+strOrDash(strings.ToLower(x.Cookie)))
		case *dns.EDNS0_TCP_KEEPALIVE:
			out = append(out, fmt.Sprintf("KEEPALIVE %d", x.Timeout))
		case *dns.EDNS0_PADDING:
			out = append(out, "PADDING "+hexOrDash(x.Padding))
		case *dns.EDNS0_EDE:
			out = append(out, fmt.Sprintf("EDE code=%d text=%s", x.InfoCode, hexOrDash([]byte(x.ExtraText))))
		case *dns.EDNS0_REPORTING:
			out = append(out, "REPORTING "+hexOrDash([]byte(x.AgentDomain)))
		case *dns.EDNS0_ZONEVERSION:
			out = append(out, fmt.Sprintf("ZONEVERSION labels=%d type=%d version=%s", x.LabelCount, x.Type, hexOrDash([]byte(x.Version))))
		case *dns.EDNS0_LOCAL:
			out = append(out, fmt.Sprintf("LOCAL code=%d data=%s", x.Code, hexOrDash(x.Data)))
		default:
			return "", false
		}
	}
	if len(out) == 0 {
		return "-", true
	}
	return strings.Join(out, " | "), true
}

func svcDescribeModelFormat(v []dns.SVCBKeyValue) (string, bool) {
	var out []string
	for _, kv := range v {
		switch x := kv.(type) {
		case *dns.SVCBMandatory:
			var ks []string
			for _, k := range x.Code {
				ks = append(ks, fmt.Sprint(uint16(k)))
			}
			out = append(out, "mandatory "+strOrDash(strings.Join(ks, ",")))
		case *dns.SVCBAlpn:
			var ids [][]byte
			for _, a := range x.Alpn {
				ids = append(ids, []byte(a))
			}
			out = append(out, "alpn "+hexListOrDash(ids))
		case *dns.SVCBNoDefaultAlpn:
			out = append(out, "no-default-alpn")
		case *dns.SVCBPort:
			out = append(out, fmt.Sprintf("port %d", x.Port))
		case *dns.SVCBIPv4Hint:
			var hs [][]byte
			for _, ip := range x.Hint {
				hs = append(hs, []byte(ip.To4()))
			}
			out = append(out, "hint4 "+hexListOrDash(hs))
		case *dns.SVCBIPv6Hint:
			var hs [][]byte
			for _, ip := range x.Hint {
				hs = append(hs, []byte(ip))
			}
			out = append(out, "hint16 "+hexListOrDash(hs))
		case *dns.SVCBECHConfig:
			out = append(out, "ech "+hexOrDash(x.ECH))
		case *dns.SVCBDoHPath:
			out = append(out, "dohpath "+hexOrDash([]byte(x.Template)))
		case *dns.SVCBOhttp:
			out = append(out, "ohttp")
		case *dns.SVCBLocal:
			out = append(out, fmt.Sprintf("key%d %s", uint16(x.KeyCode), hexOrDash(x.Data)))
		default:
			return "", false
		}
	}
	if len(out) == 0 {
		return "-", true
	}
	return strings.Join(out, " | "), true
}

// damage: small edits of an RDATA (flip, cut, grow, duplicate a stretch) so that both decoders see the same malformed data
func damage(r *Rng, rd []byte) []byte {
	b := append([]byte{}, rd...)
	switch r.Intn(6) {
	case 0:
		if len(b) > 0 {
			b[r.Intn(len(b))] ^= byte(1 << uint(r.Intn(8)))
		}
	case 1:
		if len(b) > 0 {
			b = b[:r.Intn(len(b))]
		}
	case 2:
		b = append(b, r.Bytes(1+r.Intn(4))...)
	case 3:
		if len(b) > 0 {
			i := r.Intn(len(b))
			b[i] = []byte{0, 1, 255, 4, 8, 16, 18, 64}[r.Intn(8)]
		}
	case 4:
		if len(b) >= 4 {
			// rewrite a length octet pair near the front
			b[2], b[3] = byte(r.Intn(2)), byte(r.Intn(256))
		}
	case 5:
		if len(b) > 4 {
			i := r.Intn(len(b) - 2)
			b = append(b[:i], b[i+1+r.Intn(2):]...)
		}
	}
	return b
}

func optStream(c *Ctx, n int) {
	r := c.R
	optOne := func(kind string, rd []byte) {
		wire := assembleRR(nil, dns.TypeOPT, 1232, 0, rd)
		wire = wire[:len(wire):len(wire)] // nothing behind the record: a read past its end is a panic, not a quiet success
		desc, rep := "none", "none"
		guard(func() string {
			rr, off, err := dns.UnpackRR(wire, 0)
			if err != nil || off != len(wire) {
				return ""
			}
			o, ok := rr.(*dns.OPT)
			if !ok {
				return ""
			}
			if d, ok := optDescribeModelFormat(o); ok {
				desc = d
			} else {
				desc = "undescribed"
			}
			if w2, err := packRRBytes(rr); err == nil && len(w2) >= len(wire)-len(rd) {
				rep = hexOrDash(w2[len(wire)-len(rd):])
			}
			return ""
		})
		c.OpK("opt-values", "opt.describe "+hexOrDash(rd), desc, len(rd) > 0, "opt-describe:"+kind)
		c.OpK("opt-values", "opt.repack "+hexOrDash(rd), rep, len(rd) > 0, "opt-repack:"+kind)
	}
	svcOne := func(kind string, typ uint16, params []byte) {
		rd := append([]byte{0, 1, 0}, params...) // priority 1, target "."
		wire := assembleRR([][]byte{[]byte("s")}, typ, 1, 60, rd)
		wire = wire[:len(wire):len(wire)]
		desc, rep := "none", "none"
		guard(func() string {
			rr, off, err := dns.UnpackRR(wire, 0)
			if err != nil || off != len(wire) {
				return ""
			}
			var v []dns.SVCBKeyValue
			switch x := rr.(type) {
			case *dns.SVCB:
				v = x.Value
			case *dns.HTTPS:
				v = x.Value
			default:
				return ""
			}
			if d, ok := svcDescribeModelFormat(v); ok {
				desc = d
			} else {
				desc = "undescribed"
			}
			if w2, err := packRRBytes(rr); err == nil && len(w2) >= len(wire)-len(params) {
				rep = hexOrDash(w2[len(wire)-len(params):])
			}
			return ""
		})
		c.OpK("svc-values", "svc.describe "+hexOrDash(params), desc, len(params) > 0, "svc-describe:"+kind)
		c.OpK("svc-values", "svc.repack "+hexOrDash(params), rep, len(params) > 0, "svc-repack:"+kind)
	}
	optOne("empty", nil)
	svcOne("empty", dns.TypeSVCB, nil)
	// every option code / parameter key with every small length, zero and non-zero octets
	for code := 0; code <= 21; code++ {
		for l := 0; l <= 20; l++ {
			for _, fill := range []byte{0, 1, 0xff} {
				d := make([]byte, l)
				for i := range d {
					d[i] = fill
				}
				rd := putUint(putUint(nil, 2, uint64(code)), 2, uint64(l))
				optOne("sweep", append(rd, d...))
				if code <= 9 {
					svcOne("sweep", dns.TypeSVCB, append(append([]byte{}, rd...), d...))
				}
			}
		}
	}
	// client-subnet: every family, prefix lengths around the octet boundaries and limits, every address length — alone
	// and followed by another option (octets read past the option's end would come from that one)
	tail := append(putUint(putUint(nil, 2, 12), 2, 3), 0xAA, 0xBB, 0xCC)
	for fam := 0; fam <= 3; fam++ {
		for _, mask := range []int{0, 1, 7, 8, 9, 16, 24, 25, 31, 32, 33, 64, 127, 128, 129, 255} {
			for _, scope := range []int{0, 24, 32, 33, 128, 129} {
				for al := 0; al <= 17; al++ {
					d := []byte{0, byte(fam), byte(mask), byte(scope)}
					for i := 0; i < al; i++ {
						d = append(d, byte(0x11*(i+1)))
					}
					rd := append(putUint(putUint(nil, 2, 8), 2, uint64(len(d))), d...)
					optOne("subnet", rd)
					if scope == 0 {
						optOne("subnet", append(append([]byte{}, rd...), tail...))
					}
				}
			}
		}
	}
	for _, k := range []int{65534, 65535, 9, 10, 255, 256} {
		svcOne("sweep", dns.TypeHTTPS, putUint(putUint(nil, 2, uint64(k)), 2, 0))
	}
	for i := 0; i < n; i++ {
		rd := genOptions(r)
		optOne("generated", rd)
		optOne("damaged", damage(r, rd))
		ps := genSvcParams(r)
		typ := []uint16{dns.TypeSVCB, dns.TypeHTTPS}[r.Intn(2)]
		svcOne("generated", typ, ps)
		svcOne("damaged", typ, damage(r, ps))
		if r.Chance(10) {
			// unsorted / duplicated keys
			svcOne("reordered", typ, append(append([]byte{}, ps...), genSvcParams(r)...))
		}
	}
}
