#!/bin/bash
# run the scratch harness on the unpatched scratch worktree
export GOFLAGS=-mod=mod GOPROXY=off DNSDRIVER=/verif/lean/.lake/build/bin/dnsdriver GOMEMLIMIT=6GiB
prop=$1; seed=${2:-1}
cd /tmp/wtm && git checkout -q -- . && git clean -fdq
cd /tmp/stage/h8 && go build -tags verif -o /tmp/stage/h8bin . || { echo BUILD-FAIL; exit 1; }
cd /tmp/stage && timeout 900 ./h8bin -prop $prop -tier quick -seed $seed -out /tmp/stage/h8_none.json >/dev/null 2>/tmp/stage/h8_none.err
python3 - $prop $seed <<'PY'
import json,sys
d=json.load(open('/tmp/stage/h8_none.json'))
ks={}
for v in d.get('violations',[]):
    if v['key'].startswith('rdlen0-repack') or v['key'].startswith('comment-length:acc511') or 'paren' in v['key']: continue
    ks[v['key']]=ks.get(v['key'],0)+1
print(sys.argv[1],'seed',sys.argv[2],'unpatched: violations',d.get('n_violations'),ks,'wall',round(d.get('wall_s',0),1))
for v in d.get('violations',[])[:0]: print(v)
PY
