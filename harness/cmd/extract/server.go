package main

// Structural facts about the server's lock discipline (server.go), read from the AST.

import (
	"fmt"
	"go/ast"
	"strings"
)

func (p *pkgInfo) stmtsOf(fn string) []ast.Stmt {
	fd, ok := p.funcs[fn]
	if !ok || fd.Body == nil {
		fail("function %s not found", fn)
		return nil
	}
	return fd.Body.List
}

// readerAtomic: the reader refreshes the read deadline inside one RLock..RUnlock section that also tests srv.started
func (p *pkgInfo) readerAtomic(fn string) bool {
	st := p.stmtsOf(fn)
	for i := 0; i+2 < len(st); i++ {
		if p.src(st[i]) != "srv.lock.RLock()" {
			continue
		}
		ifs, ok := st[i+1].(*ast.IfStmt)
		if !ok || p.src(ifs.Cond) != "srv.started" || ifs.Else != nil {
			continue
		}
		if !strings.Contains(p.src(ifs.Body), "SetReadDeadline(") {
			continue
		}
		if p.src(st[i+2]) == "srv.lock.RUnlock()" {
			return true
		}
	}
	return false
}

// shutdownCritical: what ShutdownContext does between srv.lock.Lock() and the srv.lock.Unlock() that ends the section
func (p *pkgInfo) shutdownCritical() []string {
	st := p.stmtsOf("Server.ShutdownContext")
	var out []string
	in := false
	for _, s := range st {
		src := p.src(s)
		if src == "srv.lock.Lock()" {
			in = true
			continue
		}
		if src == "srv.lock.Unlock()" && in {
			break
		}
		if !in {
			continue
		}
		switch {
		case strings.HasPrefix(src, "if!srv.started{"):
			out = append(out, "not-started-returns-error")
		case src == "srv.started=false":
			out = append(out, "started=false")
		case strings.Contains(src, "srv.PacketConn.SetReadDeadline(aLongTimeAgo)"):
			out = append(out, "packetconn-deadline-past")
		case strings.Contains(src, "srv.Listener.Close()"):
			out = append(out, "listener-close")
		case strings.HasPrefix(src, "forrw:=rangesrv.conns{") && strings.Contains(src, "rw.SetReadDeadline(aLongTimeAgo)"):
			out = append(out, "conns-deadline-past")
		default:
			out = append(out, "other:"+src)
		}
	}
	return out
}

// startedSetBeforeServe: every `srv.started = true` is directly followed by unlock() and `return srv.serve…`
func (p *pkgInfo) startedSetBeforeServe(fn string) (n int, ok bool) {
	fd := p.funcs[fn]
	if fd == nil {
		fail("function %s not found", fn)
		return 0, false
	}
	ok = true
	var walk func(list []ast.Stmt)
	walk = func(list []ast.Stmt) {
		for i, s := range list {
			if p.src(s) == "srv.started=true" {
				n++
				if i+2 >= len(list) || p.src(list[i+1]) != "unlock()" || !strings.HasPrefix(p.src(list[i+2]), "returnsrv.serve") {
					ok = false
				}
			}
			switch x := s.(type) {
			case *ast.IfStmt:
				walk(x.Body.List)
			case *ast.SwitchStmt:
				for _, c := range x.Body.List {
					walk(c.(*ast.CaseClause).Body)
				}
			case *ast.BlockStmt:
				walk(x.List)
			}
		}
	}
	walk(fd.Body.List)
	return
}

// loopChecksStarted: the function contains a for statement whose condition calls srv.isStarted()
// (`loopCheck` / `wCheck` of the model: the serve loops and the per-connection loop re-test the flag every round)
func (p *pkgInfo) loopChecksStarted(fn string) bool {
	fd := p.funcs[fn]
	if fd == nil || fd.Body == nil {
		fail("function %s not found", fn)
		return false
	}
	found := false
	ast.Inspect(fd.Body, func(n ast.Node) bool {
		if f, ok := n.(*ast.ForStmt); ok && f.Cond != nil && strings.Contains(p.src(f.Cond), "srv.isStarted()") {
			found = true
		}
		return true
	})
	return found
}

func (p *pkgInfo) serverFacts() string {
	var b strings.Builder
	b.WriteString("def readersAtomic : List (String × Bool) := [")
	for i, fn := range []string{"Server.readTCP", "Server.readUDP", "Server.readPacketConn"} {
		if i > 0 {
			b.WriteString(", ")
		}
		fmt.Fprintf(&b, "(%s, %v)", leanStr(fn), p.readerAtomic(fn))
	}
	b.WriteString("]\n")
	fmt.Fprintf(&b, "def shutdownCritical : List String := %s\n", leanStrList(p.shutdownCritical()))
	b.WriteString("def startedSetBeforeServe : List (String × Nat × Bool) := [")
	for i, fn := range []string{"Server.ListenAndServe", "Server.ActivateAndServe"} {
		if i > 0 {
			b.WriteString(", ")
		}
		n, ok := p.startedSetBeforeServe(fn)
		fmt.Fprintf(&b, "(%s, %d, %v)", leanStr(fn), n, ok)
	}
	b.WriteString("]\n")
	b.WriteString("def loopsCheckStarted : List (String × Bool) := [")
	for i, fn := range []string{"Server.serveTCP", "Server.serveUDP", "Server.serveTCPConn"} {
		if i > 0 {
			b.WriteString(", ")
		}
		fmt.Fprintf(&b, "(%s, %v)", leanStr(fn), p.loopChecksStarted(fn))
	}
	b.WriteString("]\n")
	return b.String()
}
