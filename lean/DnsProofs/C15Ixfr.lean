/-
  C15 (IXFR part) — the IXFR receiver decides "finished" as a fold over the *stream* of records, so the
  composition into envelopes is irrelevant; both RFC 1995 shapes (incremental and AXFR-style) finish exactly at
  the closing SOA; an up-to-date answer is a single envelope; errors end the transfer.
-/
import DnsModel.Xfr
import DnsProofs.C15
namespace Dns.C15
open Dns

/-- the scan is a fold over the record stream: scanning `a ++ b` is scanning `a`, then (unless finished) `b` -/
theorem scan_append (serial : Nat) (a b : List XRec) (n : Nat) (ax : Bool) :
    ixfrScan serial (a ++ b) n ax =
      if (ixfrScan serial a n ax).2.2 then ixfrScan serial a n ax
      else ixfrScan serial b (ixfrScan serial a n ax).1 (ixfrScan serial a n ax).2.1 := by
  induction a generalizing n ax with
  | nil => simp [ixfrScan]
  | cons r a ih =>
    cases r with
    | other id => simp only [List.cons_append, ixfrScan]; exact ih n ax
    | soa s =>
      simp only [List.cons_append, ixfrScan]
      by_cases hs : (s == serial) = true
      · simp only [hs, ↓reduceIte]
        by_cases hf : ((ax && n + 1 == 2) || n + 1 == 3) = true
        · simp only [hf, ↓reduceIte]
        · simp only [hf, Bool.false_eq_true, ↓reduceIte]; exact ih (n + 1) ax
      · simp only [hs, Bool.false_eq_true, ↓reduceIte]; exact ih n _

/-- envelopes `es` scanned in sequence without finishing, ending in state `out` -/
def NotFin (serial : Nat) : List (List XRec) → Nat → Bool → Nat × Bool → Prop
  | [], n, ax, out => out = (n, ax)
  | e :: es, n, ax, out =>
    (ixfrScan serial e n ax).2.2 = false ∧
      NotFin serial es (ixfrScan serial e n ax).1 (ixfrScan serial e n ax).2.1 out

/-- **segmentation independence**: a sequence of envelopes is scanned without finishing exactly when their
    concatenation is -/
theorem notFin_iff_flatten (serial : Nat) (es : List (List XRec)) (n : Nat) (ax : Bool) (out : Nat × Bool) :
    NotFin serial es n ax out ↔ ixfrScan serial es.flatten n ax = (out.1, out.2, false) := by
  induction es generalizing n ax with
  | nil =>
    simp only [NotFin, List.flatten_nil, ixfrScan]
    constructor
    · intro h; subst h; rfl
    · intro h; cases out; simp only [Prod.mk.injEq] at h; simp [h.1, h.2.1]
  | cons e es ih =>
    simp only [NotFin, List.flatten_cons, scan_append]
    by_cases hf : (ixfrScan serial e n ax).2.2 = true
    · simp only [hf, Bool.true_eq_false, false_and, ↓reduceIte, false_iff]
      intro h
      rw [h] at hf; cases hf
    · simp only [hf, Bool.false_eq_true, ↓reduceIte]
      have hf' : (ixfrScan serial e n ax).2.2 = false := by simpa using hf
      simp only [hf', true_and]
      exact ih _ _

/-- the scan never decreases the count and leaves it ≥ 1 once it is -/
theorem scan_n_ge (serial : Nat) (a : List XRec) (n : Nat) (ax : Bool) : n ≤ (ixfrScan serial a n ax).1 := by
  induction a generalizing n ax with
  | nil => simp [ixfrScan]
  | cons r a ih =>
    cases r with
    | other id => simp only [ixfrScan]; exact ih n ax
    | soa s =>
      simp only [ixfrScan]
      split
      · split
        · simp
        · have := ih (n + 1) ax; omega
      · exact ih n _

/-- the receiving loop after the first envelope (`n ≥ 1`): envelopes that do not finish the scan are delivered and
    the next one is read; the envelope that finishes it is delivered and nothing after it is read -/
theorem ixfr_body (qid qser serial : Nat) (pre : List (List XRec)) (last : List XRec) (rest : List Read)
    (n : Nat) (ax : Bool) (out : Nat × Bool) (hn : 1 ≤ n)
    (hpre : NotFin serial pre n ax out) (hlast : (ixfrScan serial last out.1 out.2).2.2 = true) :
    inIxfr qid qser (goodReads qid pre ++ Read.msg qid 0 last :: rest) n serial ax
      = (pre.map Env.data ++ [Env.data last], pre.length + 1) := by
  induction pre generalizing n ax with
  | nil =>
    simp only [NotFin] at hpre
    subst hpre
    have hn0 : (n == 0) = false := by simp; omega
    simp only [goodReads, List.map_nil, List.nil_append, inIxfr, bne_self_eq_false, Bool.false_eq_true,
      ↓reduceIte, hn0, Bool.false_and]
    simp only at hlast
    simp [hlast]
  | cons e es ih =>
    obtain ⟨hnf, hrest⟩ := hpre
    have hn0 : (n == 0) = false := by simp; omega
    have hn' : 1 ≤ (ixfrScan serial e n ax).1 := Nat.le_trans hn (scan_n_ge serial e n ax)
    have := ih _ _ hn' hrest
    simp only [goodReads, List.map_cons, List.cons_append] at this ⊢
    simp only [inIxfr, bne_self_eq_false, Bool.false_eq_true, ↓reduceIte, hn0, Bool.false_and, hnf, this]
    simp

/-- **ixfr_complete**: the first envelope starts with the server's SOA (serial newer than ours) and does not by
    itself finish; then `pre` do not finish and `last` does: exactly these envelopes are delivered, error-free, in
    order, and nothing is read after `last` -/
theorem ixfr_complete (qid qser s : Nat) (b0 : List XRec) (pre : List (List XRec)) (last : List XRec)
    (rest : List Read) (out : Nat × Bool) (hnew : qser < s)
    (h0 : (ixfrScan s (XRec.soa s :: b0) 0 true).2.2 = false)
    (hpre : NotFin s pre (ixfrScan s (XRec.soa s :: b0) 0 true).1 (ixfrScan s (XRec.soa s :: b0) 0 true).2.1 out)
    (hlast : (ixfrScan s last out.1 out.2).2.2 = true) :
    inIxfr qid qser (Read.msg qid 0 (XRec.soa s :: b0) :: (goodReads qid pre ++ Read.msg qid 0 last :: rest)) 0 0 true
      = (Env.data (XRec.soa s :: b0) :: (pre.map Env.data ++ [Env.data last]), pre.length + 2) := by
  have hge : ¬ (qser ≥ s) := by omega
  have hn1 : 1 ≤ (ixfrScan s (XRec.soa s :: b0) 0 true).1 := by
    simp only [ixfrScan, beq_self_eq_true, ↓reduceIte]
    have := scan_n_ge s b0 1 true
    simpa using this
  have hb := ixfr_body qid qser s pre last rest _ _ out hn1 hpre hlast
  simp only [inIxfr, bne_self_eq_false, Bool.false_eq_true, ↓reduceIte, beq_self_eq_true, Bool.true_and,
    isSOAFirst, List.head?_cons, XRec.isSoa, Bool.not_true, decide_eq_true_eq, hge, h0, hb]

/-- **ixfr_up_to_date**: the server's serial is not newer than ours: the single envelope is delivered and the
    transfer is over -/
theorem ixfr_up_to_date (qid qser s : Nat) (b0 : List XRec) (rest : List Read) (h : s ≤ qser) :
    inIxfr qid qser (Read.msg qid 0 (XRec.soa s :: b0) :: rest) 0 0 true
      = ([Env.data (XRec.soa s :: b0)], 1) := by
  simp [inIxfr, isSOAFirst, XRec.isSoa, h]

/-- a first envelope that does not begin with a SOA is an error -/
theorem ixfr_first_not_soa (qid qser id : Nat) (b0 : List XRec) (rest : List Read) :
    inIxfr qid qser (Read.msg qid 0 (XRec.other id :: b0) :: rest) 0 0 true
      = ([Env.errSoa (XRec.other id :: b0)], 1) := by
  simp [inIxfr, isSOAFirst, XRec.isSoa]

/-- **ixfr_errors**: in any state, a foreign ID, a non-zero RCODE or a failed read ends the transfer with
    exactly one error, and nothing else is read -/
theorem ixfr_errors (qid qser n serial : Nat) (ax : Bool) (rest : List Read) (id rcode : Nat) (ans : List XRec) :
    (id ≠ qid → inIxfr qid qser (Read.msg id rcode ans :: rest) n serial ax = ([Env.errId ans], 1)) ∧
    (id = qid → rcode ≠ 0 → inIxfr qid qser (Read.msg id rcode ans :: rest) n serial ax = ([Env.errRcode ans], 1)) ∧
    inIxfr qid qser (Read.err :: rest) n serial ax = ([Env.errRead], 1) := by
  refine ⟨?_, ?_, ?_⟩
  · intro h
    have : (qid != id) = true := by simp; exact fun e => h e.symm
    simp [inIxfr, this]
  · intro h hr
    subst h
    simp [inIxfr, hr]
  · simp [inIxfr]

def Env.isErr : Env → Bool
  | .data _ => false
  | _ => true

/-- one step of the receiver: either the transfer ends with a single delivery, or the envelope is delivered
    as data and the loop continues -/
theorem ixfr_step_shape (qid qser : Nat) (id rcode : Nat) (ans : List XRec) (rs : List Read) (n serial : Nat)
    (ax : Bool) :
    (∃ e, inIxfr qid qser (Read.msg id rcode ans :: rs) n serial ax = ([e], 1)) ∨
    (∃ n' s' ax', inIxfr qid qser (Read.msg id rcode ans :: rs) n serial ax
        = (Env.data ans :: (inIxfr qid qser rs n' s' ax').1, (inIxfr qid qser rs n' s' ax').2 + 1)) := by
  simp only [inIxfr]
  repeat' split
  all_goals first | exact Or.inl ⟨_, rfl⟩ | exact Or.inr ⟨_, _, _, rfl⟩

/-- at most one error and only as the last delivery; one delivery per message read -/
theorem ixfr_error_last (qid qser : Nat) (rs : List Read) (n serial : Nat) (ax : Bool) :
    (∀ e ∈ (inIxfr qid qser rs n serial ax).1.dropLast, Env.isErr e = false) ∧
    (inIxfr qid qser rs n serial ax).1.length = (inIxfr qid qser rs n serial ax).2 ∧
    (inIxfr qid qser rs n serial ax).2 ≤ rs.length := by
  induction rs generalizing n serial ax with
  | nil => simp [inIxfr]
  | cons r rs ih =>
    cases r with
    | err => simp [inIxfr]
    | msg id rcode ans =>
      rcases ixfr_step_shape qid qser id rcode ans rs n serial ax with ⟨e, he⟩ | ⟨n', s', ax', he⟩
      · rw [he]; simp
      · rw [he]
        obtain ⟨h1, h2, h3⟩ := ih n' s' ax'
        refine ⟨?_, ?_, ?_⟩
        · intro e hmem
          simp only at hmem
          cases hd : (inIxfr qid qser rs n' s' ax').1 with
          | nil => rw [hd] at hmem; simp at hmem
          | cons x xs =>
            rw [hd] at hmem h1
            simp only [List.dropLast_cons₂, List.mem_cons] at hmem
            rcases hmem with rfl | hmem
            · rfl
            · exact h1 e hmem
        · simp only [List.length_cons]; omega
        · simp only [List.length_cons]; omega

/-! ### the two RFC 1995 stream shapes -/

theorem scan_noSoaS (serial : Nat) (a : List XRec) (n : Nat) (ax : Bool)
    (h : ∀ r ∈ a, r ≠ XRec.soa serial) : (ixfrScan serial a n ax).1 = n ∧ (ixfrScan serial a n ax).2.2 = false := by
  induction a generalizing ax with
  | nil => simp [ixfrScan]
  | cons r a ih =>
    have ha : ∀ r ∈ a, r ≠ XRec.soa serial := fun r hr => h r (List.mem_cons_of_mem _ hr)
    cases r with
    | other id => simp only [ixfrScan]; exact ih ax ha
    | soa s =>
      have : (s == serial) = false := by
        have := h (XRec.soa s) (List.mem_cons_self ..)
        simp only [ne_eq, XRec.soa.injEq] at this
        simpa using this
      simp only [ixfrScan, this, Bool.false_eq_true, ↓reduceIte]
      exact ih _ ha

theorem scan_noSoa_ax (serial : Nat) (a : List XRec) (n : Nat) (ax : Bool) (h : NoSoa a) :
    ixfrScan serial a n ax = (n, ax, false) := by
  induction a with
  | nil => simp [ixfrScan]
  | cons r a ih =>
    cases r with
    | other id => simp only [ixfrScan]; exact ih (fun r hr => h r (List.mem_cons_of_mem _ hr))
    | soa s => have := h (XRec.soa s) (List.mem_cons_self ..); simp [XRec.isSoa] at this

/-- **AXFR-style answer** `SOA s, body (no SOA), SOA s, …`: not finished before the second SOA, finished at it -/
theorem axfr_style_stream (s : Nat) (body tail : List XRec) (hb : NoSoa body) :
    ixfrScan s (XRec.soa s :: body) 0 true = (1, true, false) ∧
    (ixfrScan s (XRec.soa s :: body ++ XRec.soa s :: tail) 0 true).2.2 = true := by
  have h1 : ixfrScan s (XRec.soa s :: body) 0 true = (1, true, false) := by
    simp only [ixfrScan, beq_self_eq_true, ↓reduceIte]
    simpa using scan_noSoa_ax s body 1 true hb
  refine ⟨h1, ?_⟩
  have : XRec.soa s :: body ++ XRec.soa s :: tail = (XRec.soa s :: body) ++ XRec.soa s :: tail := rfl
  rw [this, scan_append, h1]
  simp [ixfrScan]

theorem scan_noSoaS_false (serial : Nat) (a : List XRec) (n : Nat)
    (h : ∀ r ∈ a, r ≠ XRec.soa serial) : ixfrScan serial a n false = (n, false, false) := by
  induction a with
  | nil => simp [ixfrScan]
  | cons r a ih =>
    have ha : ∀ r ∈ a, r ≠ XRec.soa serial := fun r hr => h r (List.mem_cons_of_mem _ hr)
    cases r with
    | other id => simp only [ixfrScan]; exact ih ha
    | soa s =>
      have : (s == serial) = false := by
        have := h (XRec.soa s) (List.mem_cons_self ..)
        simp only [ne_eq, XRec.soa.injEq] at this
        simpa using this
      simp only [ixfrScan, this, Bool.false_eq_true, ↓reduceIte]
      exact ih ha

/-- **incremental answer** `SOA s, SOA old, …(no SOA s)…, SOA s, additions (no SOA s), SOA s, …` with
    `old ≠ s`: not finished before the third `SOA s`, finished at it -/
theorem incremental_stream (s old : Nat) (mid adds tail : List XRec) (hold : old ≠ s)
    (hm : ∀ r ∈ mid, r ≠ XRec.soa s) (ha : ∀ r ∈ adds, r ≠ XRec.soa s) :
    ixfrScan s ((XRec.soa s :: XRec.soa old :: mid) ++ XRec.soa s :: adds) 0 true = (2, false, false) ∧
    (ixfrScan s (((XRec.soa s :: XRec.soa old :: mid) ++ XRec.soa s :: adds) ++ XRec.soa s :: tail) 0 true).2.2
      = true := by
  have ho : (old == s) = false := by simpa using hold
  have e1 : ixfrScan s (XRec.soa s :: XRec.soa old :: mid) 0 true = (1, false, false) := by
    have := scan_noSoaS_false s mid 1 hm
    simp [ixfrScan, ho, this]
  have e2 : ixfrScan s ((XRec.soa s :: XRec.soa old :: mid) ++ XRec.soa s :: adds) 0 true = (2, false, false) := by
    rw [scan_append, e1]
    have := scan_noSoaS_false s adds 2 ha
    simp [ixfrScan, this]
  refine ⟨e2, ?_⟩
  rw [scan_append, e2]
  simp [ixfrScan]

/-- non-vacuity: an incremental transfer cut into three envelopes at arbitrary points is delivered whole -/
example :
    inIxfr 7 10 [Read.msg 7 0 [XRec.soa 12, XRec.soa 10, XRec.other 1], Read.msg 7 0 [XRec.soa 12],
                 Read.msg 7 0 [XRec.other 2, XRec.soa 12, XRec.other 9], Read.msg 7 0 [XRec.other 3]] 0 0 true
      = ([Env.data [XRec.soa 12, XRec.soa 10, XRec.other 1], Env.data [XRec.soa 12],
          Env.data [XRec.other 2, XRec.soa 12, XRec.other 9]], 3) := by decide

end Dns.C15
