/-
  C18 — SIG(0): the manual offset walk of SIG.Verify never indexes outside the buffer.
-/
import DnsModel.Sig0
import DnsProofs.C02
namespace Dns.C18
open Dns Dns.C02

set_option tactic.hygienic false in
/-- the end offset reported by the name decoder lies strictly after the offset it started from -/
theorem unpackLoop_mono (msg : Bytes) (off ptr budget off1 : Nat) (acc : Bytes) (s : Bytes) (o lb : Nat) :
    (ptr = 0 → lb ≤ off) → (ptr > 0 → lb < off1) →
    unpackNameLoop msg off ptr budget off1 acc = .ok (s, o) → lb < o := by
  fun_induction unpackNameLoop msg off ptr budget off1 acc
  all_goals intro h0 h1 h
  all_goals try (simp at h; done)
  case case1 =>
    simp at h
    obtain ⟨_, rfl⟩ := h
    simp only [off1']
    split
    · have := h0 (by assumption); omega
    · exact h1 (by omega)
  case case4 =>
    apply ih1 _ _ h
    · intro hp; have := h0 hp; omega
    · exact h1
  case case6 =>
    apply ih1 _ _ h
    · intro hp; omega
    · intro _
      simp only [off1']
      split
      · have := h0 (by assumption); omega
      · exact h1 (by omega)

theorem unpackName_gt (msg : Bytes) (off : Nat) (s : Bytes) (o : Nat) (h : unpackName msg off = .ok (s, o)) :
    off < o :=
  unpackLoop_mono msg off 0 _ 0 [] s o off (fun _ => Nat.le_refl _) (fun h => absurd h (by omega)) h

theorem unpackName_le (msg : Bytes) (off : Nat) (s : Bytes) (o : Nat) (h : unpackName msg off = .ok (s, o)) :
    o ≤ msg.length := (unpackName_sound msg off s o h).1

theorem skipQuestions_ok (buf : Bytes) (n off : Nat) :
    skipQuestions buf n off ≠ .panic ∧ ∀ o, skipQuestions buf n off = .ok o → off ≤ o := by
  induction n generalizing off with
  | zero => simp [skipQuestions]
  | succ n ih =>
    simp only [skipQuestions]
    split
    · cases hu : unpackName buf off with
      | ok r =>
        obtain ⟨s, o1⟩ := r
        have := unpackName_gt buf off s o1 hu
        refine ⟨(ih (o1 + 4)).1, fun o ho => ?_⟩
        have := (ih (o1 + 4)).2 o ho
        omega
      | err => simp
      | panic => exact absurd hu (unpackName_ne_panic buf off)
    · simp

theorem goU16_ok (buf : Bytes) (off : Nat) (h : off + 2 ≤ buf.length) : ∃ v, goU16 buf off = .ok v := by
  simp [goU16, h]

theorem skipRecords_ok (buf : Bytes) (n off : Nat) :
    skipRecords buf n off ≠ .panic ∧ ∀ o, skipRecords buf n off = .ok o → off ≤ o := by
  induction n generalizing off with
  | zero => simp [skipRecords]
  | succ n ih =>
    simp only [skipRecords]
    split
    · cases hu : unpackName buf off with
      | ok r =>
        obtain ⟨s, o1⟩ := r
        have hgt := unpackName_gt buf off s o1 hu
        simp only
        split
        · refine ⟨(ih (o1 + 8)).1, fun o ho => ?_⟩
          have := (ih (o1 + 8)).2 o ho
          omega
        · rename_i hlt
          obtain ⟨v, hv⟩ := goU16_ok buf (o1 + 8) (by omega)
          simp only [hv]
          refine ⟨(ih (o1 + 8 + 2 + v)).1, fun o ho => ?_⟩
          have := (ih (o1 + 8 + 2 + v)).2 o ho
          omega
      | err => simp
      | panic => exact absurd hu (unpackName_ne_panic buf off)
    · simp

/-- **sig0_verify_never_panics**: on every input of at least header size the offset walk of SIG.Verify ends
    in a result or an error; no index or slice expression leaves the buffer -/
theorem sigWalk_ne_panic (buf : Bytes) (hlen : 12 ≤ buf.length) : sigWalk buf ≠ .panic := by
  unfold sigWalk
  obtain ⟨qdc, h1⟩ := goU16_ok buf 4 (by omega)
  obtain ⟨anc, h2⟩ := goU16_ok buf 6 (by omega)
  obtain ⟨auc, h3⟩ := goU16_ok buf 8 (by omega)
  obtain ⟨adc, h4⟩ := goU16_ok buf 10 (by omega)
  simp only [h1, h2, h3, h4, bind, Outcome.bind]
  have hq := skipQuestions_ok buf qdc 12
  cases hsq : skipQuestions buf qdc 12 with
  | panic => exact absurd hsq hq.1
  | err => simp
  | ok o1 =>
    have ho1 := hq.2 o1 hsq
    simp only
    have hr := skipRecords_ok buf ((anc + auc + adc) % 65536 - 1) o1
    cases hsr : skipRecords buf ((anc + auc + adc) % 65536 - 1) o1 with
    | panic => exact absurd hsr hr.1
    | err => simp
    | ok o2 =>
      have ho2 := hr.2 o2 hsr
      simp only
      split
      · simp
      · rename_i hlt
        cases hu : unpackName buf o2 with
        | panic => exact absurd hu (unpackName_ne_panic buf o2)
        | err => simp
        | ok r =>
          obtain ⟨s, o3⟩ := r
          simp only
          split
          · simp
          · rename_i hlt2
            have e1 : goU32 buf (o3 + 10 + 8) = .ok (beVal (slice buf (o3 + 10 + 8) 4)) := by
              simp [goU32]; omega
            have e2 : goU32 buf (o3 + 10 + 8 + 4) = .ok (beVal (slice buf (o3 + 10 + 8 + 4) 4)) := by
              simp [goU32]; omega
            simp only [e1, e2]
            cases hu2 : unpackName buf (o3 + 10 + 8 + 10) with
            | panic => exact absurd hu2 (unpackName_ne_panic buf _)
            | err => simp
            | ok r2 =>
              obtain ⟨signer, o4⟩ := r2
              have g1 := unpackName_gt buf _ signer o4 hu2
              have g2 := unpackName_le buf _ signer o4 hu2
              have c : o3 + 10 ≤ o4 ∧ o4 ≤ buf.length ∧ 12 ≤ o2 ∧ o2 ≤ buf.length ∧ 10 ≤ buf.length := by
                refine ⟨by omega, g2, by omega, by omega, by omega⟩
              simp [c]

end Dns.C18
