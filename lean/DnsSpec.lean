import DnsSpec.RfcLayouts
