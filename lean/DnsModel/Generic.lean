/-
  DnsModel.Generic — the RFC 3597 generic form of RDATA in zone text (`\# <length> <hex>`): scan_rr.go
  `(*RFC3597).parse`, types.go `(*RFC3597).String`, dns.go `(*RFC3597).fromRFC3597` — a record of any registered type
  written in the generic form is parsed as RFC3597 and then unpacked from the decoded octets by the type's own
  `unpack` (here: the generated unpack body of the codec algebra).
-/
import DnsModel.TextCodec
import DnsModel.Codec
import DnsModel.Generated.Codecs
namespace Dns.Generic
open Dns Dns.Lex Dns.TextCodec

def hexDigit (n : Nat) : Byte := if n < 10 then UInt8.ofNat (48 + n) else UInt8.ofNat (87 + n)

/-- `hex.EncodeToString` -/
def hexOf : Bytes → Bytes
  | [] => []
  | b :: bs => hexDigit (b.toNat / 16) :: hexDigit (b.toNat % 16) :: hexOf bs

def hexVal (c : Byte) : Option Nat :=
  if 48 ≤ c.toNat ∧ c.toNat ≤ 57 then some (c.toNat - 48)
  else if 97 ≤ c.toNat ∧ c.toNat ≤ 102 then some (c.toNat - 87)
  else if 65 ≤ c.toNat ∧ c.toNat ≤ 70 then some (c.toNat - 55)
  else none

/-- `hex.DecodeString` -/
def unhexOf : Bytes → Option Bytes
  | [] => some []
  | [_] => none
  | a :: b :: rest =>
    match hexVal a, hexVal b, unhexOf rest with
    | some x, some y, some r => some (UInt8.ofNat (x * 16 + y) :: r)
    | _, _, _ => none

/-- `(*RFC3597).String` behind the header: `\# `, the number of octets, a blank, the hex digits -/
def printGeneric (hexText : Bytes) : Bytes :=
  [92, 35, 32] ++ itoa (hexText.length / 2) ++ [32] ++ hexText

/-- `(*RFC3597).parse` over the tokens behind the type and its blank: the hex text stored in `Rdata` -/
def parseGeneric (ts : List Tok) : Option Bytes :=
  let l := headTok ts
  if l.token ≠ [92, 35] then none
  else
    let ts1 := ts.tail.tail           -- the blank
    let l2 := headTok ts1
    match parseUintN 16 l2.token with
    | none => none
    | some n =>
      if l2.err then none
      else match endingToString ts1.tail [] with
        | none => none
        | some s => if n * 2 ≠ s.length then none else some s

/-- `fromRFC3597` for a record of Go type `kind`: nothing when there are no octets (a dynamic-update record), else the
    type's unpack body on the decoded octets -/
def fromGeneric (kind : String) (hexText : Bytes) : Option (Option (List Val)) :=
  if hexText.isEmpty then some none
  else match unhexOf hexText, Gen.unpackCodecs.lookup kind with
    | some rd, some plan => (unpackPlan plan rd []).map some
    | _, _ => none

end Dns.Generic
