/-
  DnsModel.Framing — client.go / server.go: two-octet length framing over a stream delivered in arbitrary
  chunks (`binary.Read` + `io.ReadFull`), the ID matching of an exchange, and the UDP receive-buffer pool.
-/
import DnsModel.Basic
namespace Dns

/-- `Conn.Write` on a stream: refused above 65535 octets, else length prefix + message -/
def frame (p : Bytes) : Option Bytes :=
  if p.length > 65535 then none else some (beBytes 2 p.length ++ p)

/-- `io.ReadFull` over a stream that arrives as a list of chunks (each `Read` returns a piece of the
    current chunk): take exactly `n` octets or fail at end of stream -/
def readFull : (n : Nat) → List Bytes → Option (Bytes × List Bytes)
  | 0, cs => some ([], cs)
  | _ + 1, [] => none
  | n + 1, [] :: cs => readFull (n + 1) cs
  | n + 1, (b :: c) :: cs =>
    match readFull n (c :: cs) with
    | some (bs, rest) => some (b :: bs, rest)
    | none => none

inductive StreamEnd where
  | eof            -- clean end between messages
  | unexpected     -- stream ended inside a length prefix or a message
deriving Repr, DecidableEq

/-- read messages until the stream ends (`fuel` bounds the number of messages) -/
def readMsgs : (fuel : Nat) → List Bytes → List Bytes × StreamEnd
  | 0, _ => ([], .eof)
  | f + 1, cs =>
    if cs.flatten.isEmpty then ([], .eof)
    else match readFull 2 cs with
      | none => ([], .unexpected)
      | some (lenb, rest) =>
        match readFull (beVal lenb) rest with
        | none => ([], if rest.flatten.isEmpty then .eof else .unexpected)  -- io.ReadFull: EOF when nothing was read
        | some (m, rest') =>
          let (ms, e) := readMsgs f rest'
          (m :: ms, e)

/-! ### exchange: matching replies to the request ID -/

inductive Reply where
  | msg (id : Nat)
  | err
deriving Repr, DecidableEq

/-- datagram exchange: `for { r, err = ReadMsg(); if err != nil || r.Id == m.Id { break } }` -/
def exchangeDatagram (qid : Nat) : List Reply → Option Reply
  | [] => none                         -- nothing more arrives: the read deadline fires (an error)
  | Reply.err :: _ => some Reply.err
  | Reply.msg id :: rest => if id = qid then some (Reply.msg id) else exchangeDatagram qid rest

/-- stream exchange: one read; a foreign ID is `ErrId` -/
inductive StreamResult where
  | ok (id : Nat) | errId | err
deriving Repr, DecidableEq

def exchangeStream (qid : Nat) : List Reply → StreamResult
  | [] => .err
  | Reply.err :: _ => .err
  | Reply.msg id :: _ => if id = qid then .ok id else .errId

/-! ### the UDP receive-buffer pool

A request goes through: `Get` a buffer, read the datagram into it, (spawn) decode it into a message that
shares no memory with the buffer, `Put` the buffer back, run the handler on the decoded message. -/

inductive Phase where
  | reading        -- buffer taken, datagram being read into it
  | undecoded      -- datagram in the buffer, not decoded yet
  | decoded        -- message decoded (own memory), buffer not yet returned
  | released       -- buffer returned to the pool, handler may be running
deriving Repr, DecidableEq

structure Req where
  id : Nat
  buf : Nat
  phase : Phase
  payload : Nat       -- what the client sent
  seen : Option Nat   -- what the decoder saw
deriving Repr, DecidableEq

structure PoolState where
  free : List Nat                 -- buffers in the pool
  content : List (Nat × Nat)      -- buffer ↦ current content
  reqs : List Req
  nextBuf : Nat
deriving Repr

inductive PoolEv where
  | get (id payload : Nat)        -- server loop: Get + ReadFrom for a new datagram
  | arrive (id : Nat)             -- the datagram has been read into the buffer
  | decode (id : Nat)             -- worker: unpack from the buffer
  | put (id : Nat)                -- worker: Put the buffer back
deriving Repr

def setContent (c : List (Nat × Nat)) (b v : Nat) : List (Nat × Nat) := (b, v) :: c.filter (·.1 != b)

def poolStep (s : PoolState) : PoolEv → PoolState
  | .get id payload =>
    match s.free with
    | b :: rest => { s with free := rest, reqs := ⟨id, b, .reading, payload, none⟩ :: s.reqs }
    | [] => { s with nextBuf := s.nextBuf + 1, reqs := ⟨id, s.nextBuf, .reading, payload, none⟩ :: s.reqs }
  | .arrive id =>
    match s.reqs.find? (fun r => r.id == id && r.phase == .reading) with
    | some r => { s with content := setContent s.content r.buf r.payload,
                         reqs := s.reqs.map fun q => if q.id == id then { q with phase := .undecoded } else q }
    | none => s
  | .decode id =>
    match s.reqs.find? (fun r => r.id == id && r.phase == .undecoded) with
    | some r => { s with reqs := s.reqs.map fun q =>
                    if q.id == id then { q with phase := .decoded, seen := (s.content.lookup r.buf) } else q }
    | none => s
  | .put id =>
    match s.reqs.find? (fun r => r.id == id && r.phase == .decoded) with
    | some r => { s with free := r.buf :: s.free,
                         reqs := s.reqs.map fun q => if q.id == id then { q with phase := .released } else q }
    | none => s

def poolInit : PoolState := ⟨[], [], [], 0⟩

end Dns

namespace Dns

/-! ### the pool machine with functional state (used for the invariant proofs) -/

structure PS where
  free : Nat → Bool              -- buffer is in the pool
  content : Nat → Nat            -- buffer ↦ octets currently in it
  phase : Nat → Option Phase     -- request ↦ phase (`none`: not started)
  buf : Nat → Nat                -- request ↦ its buffer
  payload : Nat → Nat            -- request ↦ what its client sent
  seen : Nat → Option Nat        -- request ↦ what the decoder saw

def upd {α : Type} (f : Nat → α) (k : Nat) (v : α) : Nat → α := fun x => if x = k then v else f x

def PS.active (s : PS) (id : Nat) : Prop :=
  s.phase id = some .reading ∨ s.phase id = some .undecoded ∨ s.phase id = some .decoded

inductive PEv where
  | get (id b payload : Nat)     -- `udpPool.Get()` returned buffer `b` (pooled or freshly made) for a new datagram
  | arrive (id : Nat)            -- ReadFrom filled the buffer
  | decode (id : Nat)            -- unpack: the message is built from the buffer's octets, sharing none of them
  | put (id : Nat)               -- `udpPool.Put`

/-- enabledness: what the Go code and sync.Pool guarantee for each step -/
def PS.enabled (s : PS) : PEv → Prop
  | .get id b _ => s.phase id = none ∧ (s.free b = true ∨ ∀ j, s.active j → s.buf j ≠ b)
  | .arrive id => s.phase id = some .reading
  | .decode id => s.phase id = some .undecoded
  | .put id => s.phase id = some .decoded

def PS.step (s : PS) : PEv → PS
  | .get id b p => { s with free := upd s.free b false, phase := upd s.phase id (some .reading),
                            buf := upd s.buf id b, payload := upd s.payload id p }
  | .arrive id => { s with content := upd s.content (s.buf id) (s.payload id), phase := upd s.phase id (some .undecoded) }
  | .decode id => { s with seen := upd s.seen id (some (s.content (s.buf id))), phase := upd s.phase id (some .decoded) }
  | .put id => { s with free := upd s.free (s.buf id) true, phase := upd s.phase id (some .released) }

def PS.init : PS := ⟨fun _ => false, fun _ => 0, fun _ => none, fun _ => 0, fun _ => 0, fun _ => none⟩

/-- runs: every step enabled -/
inductive PS.Reach : PS → Prop
  | init : PS.Reach PS.init
  | step (s : PS) (e : PEv) : PS.Reach s → s.enabled e → PS.Reach (s.step e)

end Dns
