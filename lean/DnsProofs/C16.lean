/-
  C16 — copies are deep: on the abstract heap, a copy made with a plan that clones every reference field
  shares no location with the original, so no write through one is visible through the other.
-/
import DnsModel.Heap
namespace Dns.C16
open Dns

theorem copyRec_next_ge (fs : List (Field × CopyOp)) (h : Heap) (next : Nat) :
    next ≤ (copyRec fs h next).2.2 := by
  induction fs generalizing h next with
  | nil => simp [copyRec]
  | cons f fs ih =>
    obtain ⟨fld, op⟩ := f
    cases fld with
    | imm v => simp only [copyRec]; exact ih h next
    | ref l =>
      cases op with
      | assign => simp only [copyRec]; exact ih h next
      | clone =>
        simp only [copyRec]
        exact Nat.le_trans (Nat.le_succ _) (ih ((next, (h.read l).getD []) :: h) (next + 1))

/-- every location of a deep copy is fresh (≥ `next`) -/
theorem copy_locs_fresh (fs : List (Field × CopyOp)) (h : Heap) (next : Nat) (hd : PlanDeep fs) :
    ∀ l ∈ locsOf (copyRec fs h next).1, next ≤ l := by
  induction fs generalizing h next with
  | nil => simp [copyRec, locsOf]
  | cons f fs ih =>
    obtain ⟨fld, op⟩ := f
    cases fld with
    | imm v =>
      simp only [copyRec, locsOf]
      exact ih h next hd
    | ref l0 =>
      obtain ⟨hop, hd'⟩ := hd
      subst hop
      simp only [copyRec, locsOf]
      intro l hl
      rcases List.mem_cons.mp hl with h1 | h1
      · omega
      · have := ih ((next, (h.read l0).getD []) :: h) (next + 1) hd' l h1
        omega

/-- **deep_plan_disjoint**: if all locations of the original lie below the allocation pointer, the copy made
    by a deep plan shares no location with the original. -/
theorem deep_plan_disjoint (fs : List (Field × CopyOp)) (h : Heap) (next : Nat) (hd : PlanDeep fs)
    (hlt : ∀ l ∈ locsOf (fs.map (·.1)), l < next) :
    ∀ l, l ∈ locsOf (copyRec fs h next).1 → l ∉ locsOf (fs.map (·.1)) := by
  intro l hl hmem
  have h1 := copy_locs_fresh fs h next hd l hl
  have h2 := hlt l hmem
  omega

theorem write_other (h : Heap) (l l' : Nat) (v : List Nat) (hne : l ≠ l') :
    (h.write l v).read l' = h.read l' := by
  induction h with
  | nil => rfl
  | cons e h ih =>
    simp only [Heap.write, Heap.read, List.map_cons, List.lookup] at ih ⊢
    by_cases h1 : e.1 = l
    · simp only [h1, ↓reduceIte]
      have : (l' == l) = false := by simp; omega
      have e1 : (l' == e.1) = false := by rw [h1]; exact this
      simp only [this, e1]
      exact ih
    · simp only [h1, ↓reduceIte]
      cases hb : (l' == e.1) <;> simp [hb]
      exact ih

/-- **no write is visible**: writing through any location of a deep copy leaves every location of the
    original unchanged (and vice versa, by symmetry of disjointness). -/
theorem write_through_copy_invisible (fs : List (Field × CopyOp)) (h : Heap) (next : Nat) (hd : PlanDeep fs)
    (hlt : ∀ l ∈ locsOf (fs.map (·.1)), l < next) (lc : Nat) (v : List Nat)
    (hlc : lc ∈ locsOf (copyRec fs h next).1) :
    ∀ lo ∈ locsOf (fs.map (·.1)),
      ((copyRec fs h next).2.1.write lc v).read lo = (copyRec fs h next).2.1.read lo := by
  intro lo hlo
  apply write_other
  intro e
  subst e
  exact deep_plan_disjoint fs h next hd hlt lc hlc hlo

/-- non-vacuity: a record with two slices, both cloned -/
example : PlanDeep [(Field.imm 5, CopyOp.assign), (Field.ref 0, CopyOp.clone), (Field.ref 1, CopyOp.clone)] := by
  simp [PlanDeep]

/-- and the negative: sharing a reference is observable (the shape of defect F2) -/
example : locsOf (copyRec [(Field.ref 0, CopyOp.assign)] [(0, [1])] 1).1 = [0] := by decide

end Dns.C16
