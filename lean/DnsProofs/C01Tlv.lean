/-
  C01 (codec algebra, list-shaped fields) — type-length-value lists (EDNS0 options, SVCB parameters) and APL items:
  the framing loops of msg_helpers.go are inverse to each other for all values; SVCB parameters given in any order
  are packed in the one canonical order and read back in it.
-/
import DnsModel.Codec
namespace Dns.C01
open Dns

/-! ### integers -/

theorem foldl_be (bs : Bytes) (acc : Nat) :
    bs.foldl (fun a b => a * 256 + b.toNat) acc = acc * 256 ^ bs.length + bs.foldl (fun a b => a * 256 + b.toNat) 0 := by
  induction bs generalizing acc with
  | nil => simp
  | cons b bs ih =>
    simp only [List.foldl_cons, List.length_cons]
    rw [ih (acc * 256 + b.toNat), ih (0 * 256 + b.toNat)]
    simp only [Nat.zero_mul, Nat.zero_add, Nat.pow_succ]
    rw [Nat.add_mul, Nat.mul_assoc, Nat.mul_comm 256 (256 ^ bs.length)]
    omega

theorem beBytes_len (w v : Nat) : (beBytes w v).length = w := by
  induction w with
  | zero => rfl
  | succ w ih => simp [beBytes, ih]

theorem beVal_beBytes_mod (w v : Nat) : beVal (beBytes w v) = v % 256 ^ w := by
  induction w with
  | zero => simp [beBytes, beVal, Nat.mod_one]
  | succ w ih =>
    unfold beVal at ih ⊢
    simp only [beBytes, List.foldl_cons, Nat.zero_mul, Nat.zero_add]
    rw [foldl_be, ih, beBytes_len]
    have hb : (UInt8.ofNat (v / 256 ^ w % 256)).toNat = v / 256 ^ w % 256 := by
      simp [UInt8.toNat_ofNat']
    rw [hb, Nat.pow_succ, Nat.mod_mul]
    rw [Nat.mul_comm]; omega

theorem beVal_beBytes (w v : Nat) (h : v < 256 ^ w) : beVal (beBytes w v) = v := by
  rw [beVal_beBytes_mod, Nat.mod_eq_of_lt h]


/-! ### type-length-value lists -/

def TlvOK (items : List (Nat × Bytes)) : Prop := ∀ x ∈ items, x.1 < 65536 ∧ x.2.length < 65536

/-- what `unpackDataSVCB` demands of the keys (nothing for `unpackDataOpt`) -/
def KeysFrom (prev : Option Nat) (sorted : Bool) (items : List (Nat × Bytes)) : Prop :=
  sorted = true → (items.map (·.1)).Pairwise (· < ·) ∧ (∀ x ∈ items, x.1 ≠ 65535) ∧
    (∀ p, prev = some p → ∀ x ∈ items, p < x.1)

theorem tlvs_roundtrip (sorted : Bool) (items : List (Nat × Bytes)) (hok : TlvOK items) :
    ∃ w, packTlvs items = some w ∧
      ∀ fuel prev, w.length < fuel → KeysFrom prev sorted items → unpackTlvs sorted fuel prev w = some items := by
  induction items with
  | nil =>
    refine ⟨[], rfl, ?_⟩
    intro fuel prev hf _
    cases fuel with
    | zero => simp at hf
    | succ f => simp [unpackTlvs]
  | cons x rest ih =>
    obtain ⟨c, d⟩ := x
    obtain ⟨hc, hd⟩ := hok (c, d) (by simp)
    obtain ⟨w', hp, hu⟩ := ih (fun y hy => hok y (by simp [hy]))
    refine ⟨beBytes 2 c ++ (beBytes 2 d.length ++ (d ++ w')), by simp [packTlvs, hc, hd, hp], ?_⟩
    intro fuel prev hf hk
    cases fuel with
    | zero => simp at hf
    | succ f =>
      have hlen : (beBytes 2 c ++ (beBytes 2 d.length ++ (d ++ w'))).length = 4 + d.length + w'.length := by
        simp [beBytes_len]; omega
      have hne : (beBytes 2 c ++ (beBytes 2 d.length ++ (d ++ w'))).isEmpty = false := by
        cases h : beBytes 2 c ++ (beBytes 2 d.length ++ (d ++ w')) with
        | nil => rw [h] at hlen; simp at hlen; omega
        | cons _ _ => rfl
      have e1 : (beBytes 2 c ++ (beBytes 2 d.length ++ (d ++ w'))).take 2 = beBytes 2 c :=
        List.take_left' (beBytes_len 2 c)
      have e2 : (beBytes 2 c ++ (beBytes 2 d.length ++ (d ++ w'))).drop 2 = beBytes 2 d.length ++ (d ++ w') :=
        List.drop_left' (beBytes_len 2 c)
      have e3 : (beBytes 2 d.length ++ (d ++ w')).take 2 = beBytes 2 d.length := List.take_left' (beBytes_len 2 _)
      have e4 : (beBytes 2 c ++ (beBytes 2 d.length ++ (d ++ w'))).drop 4 = d ++ w' := by
        have : (4 : Nat) = 2 + 2 := rfl
        rw [this, ← List.drop_drop, e2]
        exact List.drop_left' (beBytes_len 2 _)
      unfold unpackTlvs
      simp only [hne, Bool.false_eq_true, ↓reduceIte, e1, e2, e3, e4, hlen]
      have h4 : 4 ≤ 4 + d.length + w'.length := by omega
      simp only [h4, ↓reduceIte, beVal_beBytes 2 c (by simpa using hc), beVal_beBytes 2 d.length (by simpa using hd),
        List.length_append]
      have hn : d.length ≤ d.length + w'.length := by omega
      simp only [hn, ↓reduceIte, List.take_left', List.drop_left']
      have hcond : (sorted && svcbKeyBad prev c) = false := by
        cases sorted with
        | false => rfl
        | true =>
          obtain ⟨_, h2, h3⟩ := hk rfl
          have hc2 : c ≠ 65535 := h2 (c, d) (by simp)
          cases prev with
          | none => simp [svcbKeyBad, hc2]
          | some p =>
            have := h3 p rfl (c, d) (by simp)
            simp only [svcbKeyBad, Bool.true_and, Bool.or_eq_false_iff, beq_eq_false_iff_ne, ne_eq, decide_eq_false_iff_not]
            exact ⟨hc2, by simp at this; omega⟩
      rw [hcond]
      simp only [Bool.false_eq_true, ↓reduceIte]
      rw [hu f (some c) (by rw [hlen] at hf; omega) ?_]
      · rfl
      · intro hs
        obtain ⟨h1, h2, _⟩ := hk hs
        simp only [List.map_cons, List.pairwise_cons] at h1
        refine ⟨h1.2, fun y hy => h2 y (by simp [hy]), ?_⟩
        intro p hp y hy
        cases hp
        exact h1.1 y.1 (List.mem_map_of_mem hy)

/-! ### SVCB: the packed order is canonical -/

theorem mem_insertKV (x y : Nat × Bytes) (ys : List (Nat × Bytes)) : y ∈ insertKV x ys ↔ y = x ∨ y ∈ ys := by
  induction ys with
  | nil => simp [insertKV]
  | cons z zs ih =>
    simp only [insertKV]
    split
    · simp
    · simp only [List.mem_cons, ih]
      constructor
      · rintro (h | h | h) <;> simp [h]
      · rintro (h | h | h) <;> simp [h]

theorem insertKV_perm (x : Nat × Bytes) (ys : List (Nat × Bytes)) : (insertKV x ys).Perm (x :: ys) := by
  induction ys with
  | nil => exact List.Perm.refl _
  | cons z zs ih =>
    simp only [insertKV]
    split
    · exact List.Perm.refl _
    · exact (List.Perm.cons z ih).trans (List.Perm.swap x z zs)

theorem sortKV_perm (xs : List (Nat × Bytes)) : (sortKV xs).Perm xs := by
  induction xs with
  | nil => exact List.Perm.refl _
  | cons x xs ih => exact (insertKV_perm x (sortKV xs)).trans (List.Perm.cons x ih)

theorem insertKV_sorted (x : Nat × Bytes) (ys : List (Nat × Bytes)) (hs : (ys.map (·.1)).Pairwise (· < ·))
    (hx : ∀ y ∈ ys, y.1 ≠ x.1) : ((insertKV x ys).map (·.1)).Pairwise (· < ·) := by
  induction ys with
  | nil => simp [insertKV]
  | cons z zs ih =>
    simp only [List.map_cons, List.pairwise_cons] at hs
    simp only [insertKV]
    split
    · rename_i hlt
      simp only [List.map_cons, List.pairwise_cons, List.mem_cons, forall_eq_or_imp]
      refine ⟨⟨hlt, ?_⟩, hs.1, hs.2⟩
      intro a ha
      exact Nat.lt_trans hlt (hs.1 a ha)
    · rename_i hge
      have hne := hx z (by simp)
      have hzx : z.1 < x.1 := by omega
      simp only [List.map_cons, List.pairwise_cons]
      refine ⟨?_, ih hs.2 (fun y hy => hx y (by simp [hy]))⟩
      intro a ha
      obtain ⟨y, hy, rfl⟩ := List.mem_map.mp ha
      rcases (mem_insertKV x y zs).mp hy with rfl | h
      · exact hzx
      · exact hs.1 y.1 (List.mem_map_of_mem h)

theorem sortKV_sorted (xs : List (Nat × Bytes)) (hn : (xs.map (·.1)).Nodup) :
    ((sortKV xs).map (·.1)).Pairwise (· < ·) := by
  induction xs with
  | nil => simp [sortKV]
  | cons x xs ih =>
    simp only [List.map_cons, List.nodup_cons] at hn
    refine insertKV_sorted x (sortKV xs) (ih hn.2) ?_
    intro y hy he
    exact hn.1 (he ▸ List.mem_map_of_mem ((sortKV_perm xs).mem_iff.mp hy))

theorem sortKV_of_sorted (xs : List (Nat × Bytes)) (hs : (xs.map (·.1)).Pairwise (· < ·)) : sortKV xs = xs := by
  induction xs with
  | nil => rfl
  | cons x xs ih =>
    simp only [List.map_cons, List.pairwise_cons] at hs
    rw [sortKV, ih hs.2]
    cases xs with
    | nil => rfl
    | cons y ys =>
      have : x.1 < y.1 := hs.1 y.1 (by simp)
      simp [insertKV, this]

theorem svcbKeysOK_sorted (prev : Nat) (xs : List (Nat × Bytes)) (hs : (xs.map (·.1)).Pairwise (· < ·))
    (hp : ∀ x ∈ xs, x.1 ≠ prev) : svcbKeysOK prev xs = true := by
  induction xs generalizing prev with
  | nil => rfl
  | cons x xs ih =>
    obtain ⟨c, d⟩ := x
    simp only [List.map_cons, List.pairwise_cons] at hs
    simp only [svcbKeysOK, Bool.and_eq_true, bne_iff_ne, ne_eq]
    refine ⟨hp (c, d) (by simp), ih c hs.2 ?_⟩
    intro y hy he
    have := hs.1 y.1 (List.mem_map_of_mem hy)
    omega

/-- **SVCB parameters in any order**: whatever order the parameters are listed in (distinct keys, none reserved), the
    packed octets are those of the key-sorted list, and unpacking returns exactly that sorted list — a permutation of
    what was given, in strictly increasing key order -/
theorem svcb_any_order (items : List (Nat × Bytes)) (hok : TlvOK items) (hn : (items.map (·.1)).Nodup)
    (hr : ∀ x ∈ items, x.1 ≠ 65535) :
    ∃ w, packStep [] (.tlvs true) (.kv items) = some w ∧
      unpackStep [] (.tlvs true) w = some (.kv (sortKV items), []) ∧
      (sortKV items).Perm items ∧ ((sortKV items).map (·.1)).Pairwise (· < ·) := by
  have hperm := sortKV_perm items
  have hsorted := sortKV_sorted items hn
  have hok' : TlvOK (sortKV items) := fun x hx => hok x (hperm.mem_iff.mp hx)
  have hr' : ∀ x ∈ sortKV items, x.1 ≠ 65535 := fun x hx => hr x (hperm.mem_iff.mp hx)
  obtain ⟨w, hp, hu⟩ := tlvs_roundtrip true (sortKV items) hok'
  refine ⟨w, by simp [packStep, svcbKeysOK_sorted 65535 _ hsorted hr', hp], ?_, hperm, hsorted⟩
  simp only [unpackStep]
  rw [hu (w.length + 1) none (by omega) (fun _ => ⟨hsorted, hr', by intro p hp; cases hp⟩)]
  rfl

/-! ### APL items -/

theorem mask_fix_zero (p : Nat) (ip : Bytes) (h : maskBytes p ip = ip) : ∀ b ∈ ip.drop ((p + 7) / 8), b = 0 := by
  induction ip generalizing p with
  | nil => simp
  | cons b bs ih =>
    simp only [maskBytes, List.cons.injEq] at h
    obtain ⟨hb, ht⟩ := h
    by_cases h8 : 8 ≤ p
    · have : (p + 7) / 8 = (p - 8 + 7) / 8 + 1 := by omega
      rw [this, List.drop_succ_cons]
      exact ih (p - 8) ht
    · have h0 : p - 8 = 0 := by omega
      rw [h0] at ht
      have hz := ih 0 ht
      simp only [Nat.zero_add, Nat.reduceDiv, List.drop_zero] at hz
      by_cases hp0 : p = 0
      · subst hp0
        simp only [Nat.zero_add, Nat.reduceDiv, List.drop_zero, List.mem_cons]
        rintro x (rfl | hx)
        · simp only [Nat.not_le_of_lt (by omega : 0 < 8), ↓reduceIte] at hb
          rw [← hb]
          show x &&& UInt8.ofNat (256 - 2 ^ 8) = 0
          have : UInt8.ofNat (256 - 2 ^ 8) = 0 := by decide
          rw [this]; exact UInt8.and_zero
        · exact hz x hx
      · have : (p + 7) / 8 = 1 := by omega
        rw [this, List.drop_succ_cons, List.drop_zero]
        exact hz

theorem all_zero_replicate (bs : Bytes) (h : ∀ b ∈ bs, b = 0) : bs = List.replicate bs.length 0 := by
  induction bs with
  | nil => rfl
  | cons b bs ih =>
    rw [List.length_cons, List.replicate_succ, h b (by simp), ← ih (fun x hx => h x (by simp [hx]))]

theorem takeWhile_all (p : UInt8 → Bool) (l : Bytes) : ∀ b ∈ l.takeWhile p, p b = true := by
  induction l with
  | nil => simp
  | cons x xs ih =>
    intro b hb
    rw [List.takeWhile_cons] at hb
    split at hb
    · rcases List.mem_cons.mp hb with rfl | h
      · assumption
      · exact ih b h
    · simp at hb

theorem trimZeros_split (bs : Bytes) : bs = trimZeros bs ++ List.replicate (bs.length - (trimZeros bs).length) 0 := by
  have h := List.takeWhile_append_dropWhile (p := (· == (0 : UInt8))) (l := bs.reverse)
  have hz : ∀ b ∈ bs.reverse.takeWhile (· == 0), b = 0 := by
    intro b hb
    have := takeWhile_all _ _ b hb
    simpa using this
  have hrep := all_zero_replicate _ hz
  have hb : bs = (bs.reverse.dropWhile (· == 0)).reverse ++ (bs.reverse.takeWhile (· == 0)).reverse := by
    rw [← List.reverse_append, h, List.reverse_reverse]
  have hl : (bs.reverse.takeWhile (· == 0)).length = bs.length - (trimZeros bs).length := by
    have := congrArg List.length hb
    simp only [List.length_append, List.length_reverse] at this
    simp only [trimZeros, List.length_reverse]
    omega
  conv => lhs; rw [hb]
  rw [hrep, List.reverse_replicate, hl]
  rfl

theorem trimZeros_len (bs : Bytes) : (trimZeros bs).length ≤ bs.length := by
  have := congrArg List.length (trimZeros_split bs)
  simp only [List.length_append, List.length_replicate] at this
  omega

theorem trimZeros_last (bs : Bytes) (h : 0 < (trimZeros bs).length) :
    (trimZeros bs).getD ((trimZeros bs).length - 1) 0 ≠ 0 := by
  unfold trimZeros at h ⊢
  cases hd : bs.reverse.dropWhile (· == 0) with
  | nil => rw [hd] at h; simp at h
  | cons x xs =>
    have hx : (x == 0) = false := by
      have := List.head_dropWhile_not (p := (· == (0 : UInt8))) (l := bs.reverse) (w := by rw [hd]; simp)
      simpa [hd] using this
    simp only [List.reverse_cons, List.length_append, List.length_reverse, List.length_cons, List.length_nil,
      Nat.zero_add, Nat.add_sub_cancel]
    rw [List.getD_eq_getElem?_getD, List.getElem?_append_right (by simp)]
    simp only [List.length_reverse, Nat.sub_self, List.getElem?_cons_zero, Option.getD_some]
    simpa using hx

/-- an APL item the packer leaves as it is: a 4- or 16-octet address, a prefix length that fits it, and no address
    bits beyond the prefix -/
def AplOK (it : Nat × Bool × Bytes) : Prop :=
  (it.2.2.length = 4 ∨ it.2.2.length = 16) ∧ it.1 ≤ 8 * it.2.2.length ∧ maskBytes it.1 it.2.2 = it.2.2

theorem apl_pad (plen : Nat) (ip : Bytes) (hm : maskBytes plen ip = ip) :
    trimZeros (ip.take ((plen + 7) / 8)) ++
      List.replicate (ip.length - (trimZeros (ip.take ((plen + 7) / 8))).length) 0 = ip := by
  have h1 := trimZeros_split (ip.take ((plen + 7) / 8))
  have h2 := all_zero_replicate _ (mask_fix_zero plen ip hm)
  have h3 := List.take_append_drop ((plen + 7) / 8) ip
  have hl := trimZeros_len (ip.take ((plen + 7) / 8))
  have hlen := congrArg List.length h3
  simp only [List.length_append] at hlen
  conv => rhs; rw [← h3, h1, h2]
  rw [List.append_assoc, List.replicate_append_replicate]
  congr 2
  omega

theorem toNat_ofNat_lt (n : Nat) (h : n < 256) : (UInt8.ofNat n).toNat = n := by
  simp [UInt8.toNat_ofNat']; omega

theorem apl_item_roundtrip (it : Nat × Bool × Bytes) (rest : Bytes) (h : AplOK it) :
    ∃ w, packAplItem it = some w ∧ 0 < w.length ∧ unpackAplItem (w ++ rest) = some (it, rest) := by
  obtain ⟨plen, neg, ip⟩ := it
  obtain ⟨hlen, hp, hm⟩ := h
  simp only at hlen hp hm
  have hpad := apl_pad plen ip hm
  have hal := trimZeros_len (ip.take ((plen + 7) / 8))
  have htl : (ip.take ((plen + 7) / 8)).length ≤ ip.length := by simp; omega
  have hlast := trimZeros_last (ip.take ((plen + 7) / 8))
  generalize haddr : trimZeros (ip.take ((plen + 7) / 8)) = addr at hpad hal hlast
  have hpk : packAplItem (plen, neg, ip) = some (beBytes 2 (if ip.length = 4 then 1 else 2) ++
      (UInt8.ofNat plen :: UInt8.ofNat ((if neg then 128 else 0) + addr.length) :: addr)) := by
    simp only [packAplItem, hlen, hp, and_self, ↓reduceIte, hm, haddr]
  refine ⟨_, hpk, by simp; omega, ?_⟩
  have hP : (UInt8.ofNat plen).toNat = plen := toNat_ofNat_lt plen (by omega)
  have hN : (UInt8.ofNat ((if neg then 128 else 0) + addr.length)).toNat = (if neg then 128 else 0) + addr.length :=
    toNat_ofNat_lt _ (by split <;> omega)
  have hmod : ((if neg then 128 else 0) + addr.length) % 128 = addr.length := by split <;> omega
  have hneg : decide (128 ≤ (if neg then 128 else 0) + addr.length) = neg := by
    cases neg <;> simp <;> omega
  have hlast' : ¬ (addr.length > 0 ∧ addr.getD (addr.length - 1) 0 = 0) := by
    rintro ⟨h1, h2⟩; exact hlast h1 h2
  rcases hlen with h4 | h16
  · have hb : beBytes 2 (if ip.length = 4 then 1 else 2) = [0, 1] := by simp [h4, beBytes]
    rw [hb]
    unfold unpackAplItem
    simp only [List.cons_append, List.nil_append, List.length_cons, List.length_append]
    have : 4 ≤ addr.length + rest.length + 1 + 1 + 1 + 1 := by omega
    simp only [this, ↓reduceIte]
    have hv : beVal (List.take 2 (0 :: 1 :: UInt8.ofNat plen ::
        UInt8.ofNat ((if neg then 128 else 0) + addr.length) :: (addr ++ rest))) = 1 := by simp [beVal]
    simp only [hv, List.getD_cons_succ, List.getD_cons_zero, hP, hN, hmod, List.drop_succ_cons, List.drop_zero,
      ↓reduceIte, List.length_append, List.take_left', List.drop_left', hneg, hlast']
    have hc : ((1 = 1 ∨ 1 = 2) ∧ plen ≤ 8 * 4 ∧ addr.length ≤ 4 ∧ addr.length ≤ addr.length + rest.length) := by
      refine ⟨Or.inl rfl, by omega, by omega, by omega⟩
    simp only [hc, and_self, ↓reduceIte]
    simp
    first
      | (rw [← h4]; exact hpad)
      | (rw [← h16]; exact hpad)
  · have hb : beBytes 2 (if ip.length = 4 then 1 else 2) = [0, 2] := by simp [h16, beBytes]
    rw [hb]
    unfold unpackAplItem
    simp only [List.cons_append, List.nil_append, List.length_cons, List.length_append]
    have : 4 ≤ addr.length + rest.length + 1 + 1 + 1 + 1 := by omega
    simp only [this, ↓reduceIte]
    have hv : beVal (List.take 2 (0 :: 2 :: UInt8.ofNat plen ::
        UInt8.ofNat ((if neg then 128 else 0) + addr.length) :: (addr ++ rest))) = 2 := by simp [beVal]
    simp only [hv, List.getD_cons_succ, List.getD_cons_zero, hP, hN, hmod, List.drop_succ_cons, List.drop_zero,
      List.length_append, List.take_left', List.drop_left', hneg, hlast']
    have hc : ((2 = 1 ∨ 2 = 2) ∧ plen ≤ 8 * (if 2 = 1 then 4 else 16) ∧ addr.length ≤ (if 2 = 1 then 4 else 16) ∧
        addr.length ≤ addr.length + rest.length) := by
      refine ⟨Or.inr rfl, by simp; omega, by simp; omega, by omega⟩
    simp only [hc, and_self, ↓reduceIte]
    simp
    first
      | (rw [← h4]; exact hpad)
      | (rw [← h16]; exact hpad)

theorem apl_roundtrip (items : List (Nat × Bool × Bytes)) (h : ∀ it ∈ items, AplOK it) :
    ∃ w, packApl items = some w ∧ ∀ fuel, w.length < fuel → unpackApl fuel w = some items := by
  induction items with
  | nil =>
    refine ⟨[], rfl, ?_⟩
    intro fuel hf
    cases fuel with
    | zero => simp at hf
    | succ f => simp [unpackApl]
  | cons it rest ih =>
    obtain ⟨w', hp, hu⟩ := ih (fun x hx => h x (by simp [hx]))
    obtain ⟨a, ha, hpos, hua⟩ := apl_item_roundtrip it w' (h it (by simp))
    refine ⟨a ++ w', by simp [packApl, ha, hp], ?_⟩
    intro fuel hf
    cases fuel with
    | zero => simp at hf
    | succ f =>
      have hne : (a ++ w').isEmpty = false := by
        cases a with
        | nil => simp at hpos
        | cons _ _ => rfl
      unfold unpackApl
      simp only [hne, Bool.false_eq_true, ↓reduceIte, hua]
      rw [hu f (by simp only [List.length_append] at hf; omega)]
      rfl

end Dns.C01
