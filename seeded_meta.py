#!/usr/bin/env python3
"""Folds my own confirmation of each seeded change (a report written while re-running the agent's demonstration in a
scratch worktree) and the outcome of ./seeded_run.sh (result.json) into seeded/<id>/meta.json.
usage: seeded_meta.py [report-file]     report lines: "<id> | pristine+demo: ... | patch+demo: ... | patch: ... [note]" """
import json, os, sys, glob, subprocess
ROOT = os.path.dirname(os.path.abspath(__file__))
report = {}
if len(sys.argv) > 1:
    for line in open(sys.argv[1]):
        parts = [p.strip() for p in line.split("|")]
        if len(parts) >= 4:
            report[parts[0]] = parts[1:]
head = subprocess.run(["git", "-C", "/repo", "rev-parse", "--short", "HEAD"], capture_output=True, text=True).stdout.strip()
for d in sorted(glob.glob(os.path.join(ROOT, "seeded", "C*"))):
    sid = os.path.basename(d)
    mp = os.path.join(d, "meta.json")
    meta = json.load(open(mp))
    if "confirmed" not in meta and sid in report:
        pr, pd, pa = report[sid][:3]
        meta["confirmed"] = {
            "where": "scratch git worktree of /repo at %s (all fix: commits included), removed afterwards" % head,
            "ran": ["demo_test.go copied in, pristine tree: go test -vet=off -count=1 -run Test <pkg>  => " + pr.split(":", 1)[1].strip(),
                    "git apply patch.diff; go test -vet=off -count=1 <pkg> (with demo) => " + pd.split(":", 1)[1].strip(),
                    "demo removed; go build ./... && go test -vet=off -count=1 ./... => " + pa.split(":", 1)[1].strip()],
            "compiles": True,
            "existing_suite_passes": pa.split(":", 1)[1].strip().startswith("ok") and "FAIL" not in pa,
            "demo_passes_pristine": pr.split(":", 1)[1].strip().startswith("ok"),
            "demo_fails_with_patch": "FAIL" in pd,
        }
    rp = os.path.join(d, "result.json")
    if os.path.exists(rp):
        r = json.load(open(rp))
        meta["detected_by"] = {"command": r.get("check"), "exit": r.get("exit"), "summary": r.get("summary"),
                               "first_violation": r.get("first_violation_detail")}
    json.dump(meta, open(mp, "w"), indent=1)
    print(sid, "confirmed" in meta, meta.get("detected_by", {}).get("exit"))
