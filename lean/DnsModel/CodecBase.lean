/-
  DnsModel.CodecBase — the step alphabet of the codec algebra (kept apart so that the generated table
  DnsModel/Generated/Codecs.lean can import it).
-/
namespace Dns

/-- one step of a generated `pack` / `unpack` body -/
inductive CStep where
  | early                       -- `if off == len(msg) { return off, nil }`
  | uint (w : Nat)              -- packUintN / unpackUintN, N = 8w
  | a | aaaa                    -- packDataA / packDataAAAA
  | str                         -- one character-string: length octet + octets
  | name                        -- packDomainName / UnpackDomainName
  | blobRest                    -- octets up to the end of the RDATA (hex / base64 / base32 / any / octet fields)
  | blobSized (sizeIdx : Nat)   -- octets whose number is the value of an earlier field
  | txt                         -- character-strings up to the end of the RDATA
  | nsec                        -- type bitmap up to the end of the RDATA (packDataNsec / unpackDataNsec)
  | other                       -- a primitive outside the algebra (SVCB, OPT, APL, gateway, name lists)
deriving Repr, DecidableEq

end Dns
