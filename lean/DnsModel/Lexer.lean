/-
  DnsModel.Lexer — the zone-file tokeniser `zlexer.Next` of scan.go, octet by octet.

  The Go code keeps mode flags in the `zlexer` value and a few locals (`str`, `com`, `escape`) per call of `Next`;
  here the flags are a structure, the locals are arguments of the scanning function, and the input is the list of
  octets that `readByte` would deliver (a read error other than EOF is outside the model).  `Next` returns at most one
  token per call; a second token that became ready at the same octet (`nextL`) is delivered by the following call,
  exactly as in the Go code.

  The tables the lexer looks tokens up in (`StringToType`, `StringToClass`, `maxTok`) are regenerated from /repo on
  every run (DnsModel/Generated/LexTables.lean).
-/
import DnsModel.Basic
import DnsModel.Generated.LexTables
namespace Dns.Lex
open Dns

/-! token values: the `iota` block at the top of scan.go -/
def zEOF : Nat := 0
def zString : Nat := 1
def zBlank : Nat := 2
def zQuote : Nat := 3
def zNewline : Nat := 4
def zRrtpe : Nat := 5
def zOwner : Nat := 6
def zClass : Nat := 7
def zDirOrigin : Nat := 8
def zDirTTL : Nat := 9
def zDirInclude : Nat := 10
def zDirGenerate : Nat := 11

/-- `lex` -/
structure Tok where
  value : Nat := 0
  token : Bytes := []
  torc : Nat := 0
  err : Bool := false
  line : Nat := 0
  column : Nat := 0
deriving Repr, DecidableEq, Inhabited

/-- the fields of `zlexer` that survive a call of `Next` -/
structure St where
  line : Nat := 1
  column : Nat := 0
  eol : Bool := false
  comBuf : Bytes := []
  comment : Bytes := []
  l : Tok := {}
  brace : Nat := 0
  quote : Bool := false
  space : Bool := false
  commt : Bool := false
  rrtype : Bool := false
  owner : Bool := true
  nextL : Bool := false
deriving Repr, DecidableEq, Inhabited

/-- the octets of an ASCII literal -/
def ascii (s : String) : Bytes := s.toList.map (fun c => UInt8.ofNat c.toNat)

/-- what `strings.ToUpper` does to a token as far as comparisons with ASCII keys can tell: ASCII letters are folded,
    and the only two non-ASCII runes whose upper case is ASCII are U+0131 (dotless i, `C4 B1` → `I`) and U+017F
    (long s, `C5 BF` → `S`); every other non-ASCII octet stays non-ASCII -/
def goUpper : Bytes → Bytes
  | [] => []
  | [b] => [if 97 ≤ b.toNat ∧ b.toNat ≤ 122 then b - 32 else b]
  | b :: c :: rest =>
    if b == 0xC4 ∧ c == 0xB1 then 73 :: goUpper rest
    else if b == 0xC5 ∧ c == 0xBF then 83 :: goUpper rest
    else (if 97 ≤ b.toNat ∧ b.toNat ≤ 122 then b - 32 else b) :: goUpper (c :: rest)

def lookup (tbl : List (String × Nat)) (key : Bytes) : Option Nat :=
  (tbl.find? (fun p => ascii p.1 == key)).map (·.2)

def isPrefix (p s : Bytes) : Bool := s.take p.length == p

/-- `strconv.ParseUint(s, 10, 16)`: decimal digits only, at least one, value at most 65535 -/
def parseUint16 (s : Bytes) : Option Nat :=
  if s.isEmpty ∨ !(s.all (fun b => 48 ≤ b.toNat ∧ b.toNat ≤ 57)) then none
  else
    let v := s.foldl (fun a b => a * 10 + (b.toNat - 48)) 0
    if v ≤ 65535 then some v else none

/-- `typeToInt` (offset 4) / `classToInt` (offset 5) -/
def numericCode (offset : Nat) (token : Bytes) : Option Nat :=
  if token.length < offset + 1 then none else parseUint16 (token.drop offset)

/-- the type half of `zlexer.text`: a mnemonic of `StringToType`, or `TYPEnnn` (`none` = malformed `TYPEnnn`) -/
def typeStep (zl : St) (l : Tok) (up str : Bytes) : Option (St × Tok) :=
  match lookup Gen.stringToType up with
  | some t => some ({ zl with rrtype := true }, { l with value := zRrtpe, torc := t })
  | none =>
    if isPrefix (ascii "TYPE") up then
      match numericCode 4 str with
      | some t => some ({ zl with rrtype := true }, { l with value := zRrtpe, torc := t })
      | none => none
    else some (zl, l)

/-- the class half of `zlexer.text` (it runs after the type half, so `ANY` ends up as a class) -/
def classStep (zl : St) (l : Tok) (up str : Bytes) : St × Bool :=
  match lookup Gen.stringToClass up with
  | some t => ({ zl with l := { l with value := zClass, torc := t } }, true)
  | none =>
    if isPrefix (ascii "CLASS") up then
      match numericCode 5 str with
      | some t => ({ zl with l := { l with value := zClass, torc := t } }, true)
      | none => ({ zl with l := { l with token := ascii "unknown class", err := true } }, false)
    else ({ zl with l := l }, true)

/-- `zlexer.text` (scan.go): the text gathered before a blank or a comment becomes an owner / directive when it is the
    first thing on a line, a type or class while no type has been seen, a plain string otherwise.  `false` = the token
    carries a lexer error (malformed TYPEnnn / CLASSnnn). -/
def classify (zl : St) (str : Bytes) : St × Bool :=
  let l := { zl.l with token := str }
  if zl.owner then
    let up := goUpper str
    let v := if up == ascii "$TTL" then zDirTTL
      else if up == ascii "$ORIGIN" then zDirOrigin
      else if up == ascii "$INCLUDE" then zDirInclude
      else if up == ascii "$GENERATE" then zDirGenerate
      else zOwner
    ({ zl with l := { l with value := v } }, true)
  else
    let l := { l with value := zString }
    if zl.rrtype then ({ zl with l := l }, true)
    else
      match typeStep zl l (goUpper str) str with
      | none => ({ zl with l := { l with token := ascii "unknown RR type", err := true } }, false)
      | some (zl1, l1) => classStep zl1 l1 (goUpper str) str

/-- `readByte`'s line / column bookkeeping for the octet `c`, and `l.line, l.column = zl.line, zl.column` -/
def advance (zl : St) (c : UInt8) : St :=
  let zl := if zl.eol then { zl with line := zl.line + 1, column := 0, eol := false } else zl
  let zl := if c == 10 then { zl with eol := true } else { zl with column := zl.column + 1 }
  { zl with l := { zl.l with line := zl.line, column := zl.column } }

/-- the result of one call of `Next`: the new lexer state, the input that is left, and the token (`none` = the
    `(lex{value: zEOF}, false)` return) -/
abbrev Res := St × Bytes × Option Tok

/-- the `for x, ok := zl.readByte(); ok; …` loop of `Next` and the code behind it -/
def scan (zl : St) (str com : Bytes) (escape : Bool) : Bytes → Res
  | [] =>
    -- end of input
    if !str.isEmpty then
      let l := { zl.l with value := zString, token := str }
      if com.isEmpty then ({ zl with l := l }, [], some l)
      else
        let l2 := { l with value := zNewline, token := [10] }
        ({ zl with l := l2, comment := com, nextL := true }, [], some l)
    else if !com.isEmpty then
      let l := { zl.l with value := zNewline, token := [10] }
      ({ zl with l := l, comment := com }, [], some l)
    else if zl.brace != 0 then
      let l := { zl.l with token := ascii "unbalanced brace", err := true }
      ({ zl with l := l }, [], some l)
    else (zl, [], none)
  | x :: rest =>
    let zl := advance zl x
    if x == 32 ∨ x == 9 then
      if escape ∨ zl.quote then scan zl (str ++ [x]) com false rest
      else if zl.commt then scan zl str (com ++ [x]) escape rest
      else if str.isEmpty then
        -- "Space directly in the beginning, handled in the grammar"
        let zl := { zl with owner := false }
        if !zl.space then
          let l := { zl.l with value := zBlank, token := [32] }
          ({ zl with space := true, l := l }, rest, some l)
        else scan zl str com escape rest
      else
        let r := classify zl str
        if !r.2 then (r.1, rest, some r.1.l)
        else
          let retL := r.1.l
          let zl := { r.1 with owner := false }
          if !zl.space then
            ({ zl with space := true, l := { zl.l with value := zBlank, token := [32] }, nextL := true }, rest, some retL)
          else (zl, rest, some retL)
    else if x == 59 then   -- ';'
      if escape ∨ zl.quote then scan zl (str ++ [x]) com false rest
      else
        let zl := { zl with commt := true, comBuf := [] }
        if com.length > 1 ∧ (com.length + 1) % Gen.maxTok = 0 then
          -- the delayed newline does not fit the hand-grown buffer
          let l := { zl.l with token := ascii "comment length insufficient for parsing", err := true }
          ({ zl with l := l }, rest, some l)
        else
          let com := (if com.length > 1 then com ++ [32] else com) ++ [59]
          if !str.isEmpty then
            let r := classify { zl with comBuf := com } str
            ({ r.1 with owner := false }, rest, some r.1.l)
          else scan zl str com escape rest
    else if x == 13 then   -- '\r'
      if zl.quote then scan zl (str ++ [x]) com false rest else scan zl str com false rest
    else if x == 10 then   -- '\n'
      if zl.quote then scan zl (str ++ [x]) com false rest
      else if zl.commt then
        let zl := { zl with commt := false, rrtype := false }
        if zl.brace == 0 then
          let l := { zl.l with value := zNewline, token := [10] }
          ({ zl with owner := true, l := l, comment := com }, rest, some l)
        else scan { zl with comBuf := com } str com false rest
      else if zl.brace == 0 then
        if !str.isEmpty then
          let l := { zl.l with value := zString, token := str }
          -- only a type mnemonic is recognised here (`rrtype` is reset right below)
          let ty := if !zl.rrtype then lookup Gen.stringToType (goUpper str) else none
          let retL := match ty with
            | some t => { l with value := zRrtpe, torc := t }
            | none => l
          let l := { retL with value := zNewline, token := [10] }
          ({ zl with l := l, comment := zl.comBuf, comBuf := [], rrtype := false, owner := true, nextL := true },
            rest, some retL)
        else
          let l := { zl.l with value := zNewline, token := [10] }
          ({ zl with l := l, comment := zl.comBuf, comBuf := [], rrtype := false, owner := true }, rest, some l)
      else scan zl str com false rest
    else if x == 92 then   -- '\\'
      if zl.commt then scan zl str (com ++ [x]) escape rest
      else if escape then scan zl (str ++ [x]) com false rest
      else scan zl (str ++ [x]) com true rest
    else if x == 34 then   -- '"'
      if zl.commt then scan zl str (com ++ [x]) escape rest
      else if escape then scan zl (str ++ [x]) com false rest
      else
        let zl := { zl with space := false }
        if !str.isEmpty then
          let retL := { zl.l with value := zString, token := str }
          let l := { retL with value := zQuote, token := [34] }
          ({ zl with l := l, quote := !zl.quote, nextL := true }, rest, some retL)
        else
          let l := { zl.l with value := zQuote, token := [34] }
          ({ zl with l := l, quote := !zl.quote }, rest, some l)
    else if x == 40 ∨ x == 41 then   -- '(' ')'
      if zl.commt then scan zl str (com ++ [x]) escape rest
      else if escape ∨ zl.quote then scan zl (str ++ [x]) com false rest
      else if x == 41 then
        if zl.brace == 0 then
          let l := { zl.l with token := ascii "extra closing brace", err := true }
          ({ zl with l := l }, rest, some l)
        else scan { zl with brace := zl.brace - 1 } str com escape rest
      else scan { zl with brace := zl.brace + 1 } str com escape rest
    else
      if zl.commt then scan zl str (com ++ [x]) false rest
      else scan { zl with space := false } (str ++ [x]) com false rest

/-- `zlexer.Next` (without `Peek`'s `cachedL`, which the token stream does not use) -/
def next (zl : St) (input : Bytes) : Res :=
  if zl.nextL then ({ zl with nextL := false }, input, some zl.l)
  else if zl.l.err then (zl, input, none)
  else
    -- `comi = copy(com[:], zl.comBuf)`: at most maxTok octets of a carried comment survive
    scan { zl with comBuf := [], comment := [] } [] (zl.comBuf.take Gen.maxTok) false input

/-- `zlexer.Comment` -/
def commentOf (zl : St) : Bytes := if zl.l.err then [] else zl.comment

/-- every token up to the end of the input, each with the comment reported right after it -/
def tokens : (fuel : Nat) → St → Bytes → List (Tok × Bytes)
  | 0, _, _ => []
  | f + 1, zl, input =>
    match next zl input with
    | (_, _, none) => []
    | (zl', rest, some t) => (t, commentOf zl') :: tokens f zl' rest

/-- enough fuel for any input (`C07.lexAll_complete`: any larger amount gives the same stream) -/
def lexAll (input : Bytes) : List (Tok × Bytes) := tokens (4 * input.length + 4) {} input

end Dns.Lex
