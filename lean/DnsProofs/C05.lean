/-
  C05 — presentation text: character-strings survive wire → text → wire for every octet string.
-/
import DnsModel.Text
import DnsProofs.Lemmas.Bytes
import DnsProofs.C03
namespace Dns.C05
open Dns Dns.C03

theorem txt_special_not_digit : ∀ b : Byte, (b = 34 ∨ b = 92) → isDigit b = false := by
  apply forall_byte; decide +kernel

theorem txt_plain_ne_bs : ∀ b : Byte, ¬ (b = 34 ∨ b = 92) → b ≠ 92 := by
  intro b h e; exact h (Or.inr e)

/-- one octet, in the library's spelling, followed by anything, is read back as that octet -/
theorem txtUnescape_escapeByte (b : Byte) (rest : Bytes) :
    txtUnescape (txtEscapeByte b ++ rest) = b :: txtUnescape rest := by
  unfold txtEscapeByte
  by_cases hs : b = 34 ∨ b = 92
  · simp only [hs, ↓reduceIte]
    have hd := isDDD_of_not_digit b rest (txt_special_not_digit b hs)
    rw [show [92, b] ++ rest = 92 :: b :: rest from rfl, txtUnescape]
    simp [hd]
  · simp only [hs, ↓reduceIte]
    by_cases hp : b < 32 ∨ b > 126
    · simp only [hp, ↓reduceIte]
      have ⟨h1, h2⟩ := ddd_escape b rest
      have : escapeByte b ++ rest = 92 :: ((escapeByte b).tail ++ rest) := by simp [escapeByte]
      rw [this, txtUnescape.eq_def]
      simp only [h1, h2, ↓reduceIte]
      simp [escapeByte]
    · simp only [hp, ↓reduceIte]
      have n92 := txt_plain_ne_bs b hs
      rw [show [b] ++ rest = b :: rest from rfl, txtUnescape.eq_def]
      simp [n92]

/-- **charstring_text_roundtrip**: for every octet string (quotes, backslashes, semicolons, parentheses,
    blanks, newlines, non-ASCII — all 256 values in every position) the presentation form produced on unpacking
    packs back to exactly the same octets -/
theorem charstring_roundtrip (bs : Bytes) : txtUnescape (txtEscape bs) = bs := by
  induction bs with
  | nil => simp [txtEscape, txtUnescape]
  | cons b bs ih =>
    have : txtEscape (b :: bs) = txtEscapeByte b ++ txtEscape bs := by simp [txtEscape]
    rw [this, txtUnescape_escapeByte, ih]

/-- printing is stable: the text of a string obtained from the wire is its in-memory form between quotes,
    and printing the re-read string gives the same text again -/
theorem sprint_fixed_point (bs : Bytes) : sprintTxtOne (txtEscape bs) = [34] ++ txtEscape bs ++ [34] := by
  simp [sprintTxtOne, charstring_roundtrip]

/-- the spelling uses printable ASCII only -/
theorem txtEscape_printable : ∀ b : Byte, ∀ c ∈ txtEscapeByte b, 32 ≤ c ∧ c ≤ 126 := by
  apply forall_byte; decide +kernel

end Dns.C05
