/-
  C05 (text algebra) — `strconv.Itoa`: the digits printed for a number are decimal digits with that value.
-/
import DnsModel.TextCodec
import DnsProofs.C06Text
namespace Dns.C05X
open Dns Dns.Lex Dns.TextCodec Dns.C07 Dns.C06T

/-! ### decimal numbers -/

theorem foldl_dec_append (a : Bytes) (b : Byte) (acc : Nat) :
    (a ++ [b]).foldl (fun x y => x * 10 + (y.toNat - 48)) acc = (a.foldl (fun x y => x * 10 + (y.toNat - 48)) acc) * 10 + (b.toNat - 48) := by
  simp [List.foldl_append]

theorem digit_byte (d : Nat) (h : d < 10) : (UInt8.ofNat (48 + d)).toNat = 48 + d ∧ isDig (UInt8.ofNat (48 + d)) = true := by
  have : (UInt8.ofNat (48 + d)).toNat = 48 + d := by simp [UInt8.toNat_ofNat']; omega
  exact ⟨this, by simp [isDig, this]; omega⟩

/-- `itoaAux` prepends the digits of `n` -/
theorem itoaAux_spec (fuel n : Nat) (acc : Bytes) (hf : n < fuel) :
    ∃ ds, itoaAux fuel n acc = ds ++ acc ∧ ds ≠ [] ∧ ds.all isDig = true ∧ decVal ds = n := by
  induction fuel generalizing n acc with
  | zero => omega
  | succ f ih =>
    unfold itoaAux
    by_cases h10 : n < 10
    · obtain ⟨h1, h2⟩ := digit_byte n h10
      refine ⟨[UInt8.ofNat (48 + n)], by simp only [h10, ↓reduceIte, List.singleton_append], by simp,
        by simp only [List.all_cons, List.all_nil, Bool.and_true]; exact h2, ?_⟩
      simp only [decVal, List.foldl_cons, List.foldl_nil, h1]
      omega
    · simp only [h10, ↓reduceIte]
      obtain ⟨h1, h2⟩ := digit_byte (n % 10) (Nat.mod_lt _ (by omega))
      obtain ⟨ds, e, hne, hall, hv⟩ := ih (n / 10) (UInt8.ofNat (48 + n % 10) :: acc) (by omega)
      refine ⟨ds ++ [UInt8.ofNat (48 + n % 10)], by rw [e]; simp only [List.append_assoc, List.singleton_append], by simp,
        by rw [List.all_append, hall]; simp only [List.all_cons, List.all_nil, Bool.and_true, Bool.true_and]; exact h2, ?_⟩
      unfold decVal at hv ⊢
      rw [foldl_dec_append, hv, h1]
      omega

theorem itoa_spec (n : Nat) : Digits (itoa n) ∧ decVal (itoa n) = n := by
  obtain ⟨ds, e, hne, hall, hv⟩ := itoaAux_spec (n + 1) n [] (by omega)
  unfold itoa
  rw [e, List.append_nil]
  exact ⟨⟨hne, hall⟩, hv⟩

end Dns.C05X
