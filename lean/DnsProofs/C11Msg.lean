/-
  C11 (whole messages) — "a message signed by TsigGenerate verifies with TsigVerify … for every message": on the models
  of `stripTsig` / `tsigVerify` and of the buffer `TsigGenerate` returns (DnsModel/Signed.lean).

  `strip_generated`: for every packed message the decoder reads section by section (plain or compressed, records of any
  generated type, no TSIG among them) and every TSIG record, `stripTsig` applied to message ‖ TSIG with ARCOUNT + 1 gives
  back exactly the message (ARCOUNT restored) and the fields of the TSIG record.  `generate_verifies`: hence the digest
  `tsigVerify` hands to the MAC function is the digest `TsigGenerate` computed, and verification succeeds for any MAC
  function, inside the fudge window.  `verify_accepts_only`: acceptance implies that the MAC function accepted the
  RFC 8945 digest of the stripped message and that the signing time is within the fudge.
-/
import DnsProofs.C18Msg
import DnsProofs.C11
namespace Dns.C11M
open Dns Dns.MU Dns.C18 Dns.C02M Dns.C01 Dns.C03 Dns.C04 Dns.C01M Dns.C04M Dns.SW Dns.C18M

/-- the accumulator of the section loop is only ever a prefix of the result -/
theorem unpackSection_acc (c : Nat) (buf : Bytes) (off : Nat) (acc : List RRm) :
    unpackSection c buf off acc = (unpackSection c buf off []).map (fun p => (acc.reverse ++ p.1, p.2)) := by
  induction c generalizing off acc with
  | zero => simp [unpackSection]
  | succ c ih =>
    simp only [unpackSection]
    cases hr : unpackRR buf off with
    | none => simp
    | some p =>
      obtain ⟨r, o'⟩ := p
      simp only
      split
      · simp
      · rw [ih o' (r :: acc), ih o' [r]]
        cases unpackSection c buf o' [] with
        | none => simp
        | some q => simp

/-- records that are not TSIG records are passed over by the loop of `stripTsig` -/
theorem findTsig_skip (c n : Nat) (buf : Bytes) (off last : Nat) (rs : List RRm) (o : Nat)
    (h : unpackSection c buf off [] = some (rs, o)) (hfull : rs.length = c) (hno : ∀ r ∈ rs, r.typ ≠ 250) :
    ∃ last', findTsig (c + n) buf off last = findTsig n buf o last' := by
  induction c generalizing off last rs with
  | zero =>
    simp only [unpackSection, Option.some.injEq, Prod.mk.injEq] at h
    exact ⟨last, by rw [h.2]; simp⟩
  | succ c ih =>
    simp only [unpackSection] at h
    cases hr : unpackRR buf off with
    | none => rw [hr] at h; cases h
    | some p =>
      obtain ⟨r, o'⟩ := p
      rw [hr] at h
      simp only at h
      split at h
      · simp only [Option.some.injEq, Prod.mk.injEq] at h
        rw [← h.1] at hfull; simp at hfull
      · rw [unpackSection_acc] at h
        cases hs : unpackSection c buf o' [] with
        | none => rw [hs] at h; simp at h
        | some q =>
          obtain ⟨new, o2⟩ := q
          rw [hs] at h
          simp only [Option.map_some, List.reverse_cons, List.reverse_nil, List.nil_append, List.singleton_append,
            Option.some.injEq, Prod.mk.injEq] at h
          obtain ⟨rfl, rfl⟩ := h
          have hr250 : r.typ ≠ 250 := hno r (by simp)
          obtain ⟨l', hl⟩ := ih o' off new hs (by simpa using hfull) (fun y hy => hno y (by simp [hy]))
          refine ⟨l', ?_⟩
          have e : c + 1 + n = (c + n) + 1 := by omega
          rw [e]
          simp only [findTsig, hr, if_neg hr250]
          exact hl

theorem beBytes2_wrap (v : Nat) : beBytes 2 (v + 65536) = beBytes 2 v := by
  simp only [beBytes, Nat.pow_zero, Nat.div_one, Nat.pow_one]
  have e1 : (v + 65536) / 256 % 256 = v / 256 % 256 := by omega
  have e2 : (v + 65536) % 256 = v % 256 := by omega
  rw [e1, e2]

theorem word_of_goU16 (buf : Bytes) (off v : Nat) (h : goU16 buf off = .ok v) : beVal ((buf.drop off).take 2) = v := by
  unfold goU16 at h
  split at h
  · simp only [Outcome.ok.injEq] at h; exact h
  · cases h

theorem hdr_bits (id bits nq na nn ne : Nat) (rest : Bytes) (hb : bits < 65536) :
    beVal (((hdr id bits nq na nn ne ++ rest).drop 2).take 2) = bits := by
  have := word_at (beBytes 2 id) (beBytes 2 nq ++ (beBytes 2 na ++ (beBytes 2 nn ++ beBytes 2 ne)) ++ rest) bits hb
  simpa [hdr, beBytes_len, List.append_assoc] using this

/-- replacing the ID of a buffer that starts with a header -/
theorem setId_hdr (id id' bits nq na nn ne : Nat) (rest : Bytes) :
    beBytes 2 id' ++ (hdr id bits nq na nn ne ++ rest).drop 2 = hdr id' bits nq na nn ne ++ rest := by
  unfold hdr
  have : (beBytes 2 id ++ (beBytes 2 bits ++ (beBytes 2 nq ++ (beBytes 2 na ++ (beBytes 2 nn ++ beBytes 2 ne)))) ++ rest).drop 2
      = beBytes 2 bits ++ (beBytes 2 nq ++ (beBytes 2 na ++ (beBytes 2 nn ++ beBytes 2 ne))) ++ rest := by
    rw [List.append_assoc, List.drop_left' (beBytes_len 2 id)]
  rw [this]
  simp [List.append_assoc]

/-- the digest does not depend on the ID the message carries: `tsigBuffer` overwrites it with the original ID -/
theorem digest_id_irrelevant (id id' bits nq na nn ne : Nat) (rest : Bytes) (v : TsigVars) (mac : Bytes) (t : Bool) :
    tsigDigest (hdr id bits nq na nn ne ++ rest) id' v mac t = tsigDigest (hdr id' bits nq na nn ne ++ rest) id' v mac t := by
  unfold tsigDigest tsigMsgPart
  rw [setId_hdr, setId_hdr]

/-- the TSIG record as `Generate` packs it: a record of type 250 whose body holds the nine fields -/
structure IsTsig (x : RRItem) (alg : Bytes) (ts fudge macSize : Nat) (mac : Bytes) (origId err olen : Nat) (other : Bytes) : Prop where
  wf : x.spec.WF x.plan x.rd
  typ : x.spec.typ = 250
  vals : x.spec.vals = [.t alg, .n ts, .n fudge, .n macSize, .b mac, .n origId, .n err, .n olen, .b other]

/-- **strip_generated**: `stripTsig` undoes what `TsigGenerate` appended -/
theorem strip_generated (id bits : Nat) (body : Bytes) (nq na nn ne : Nat) (types : List Nat)
    (hw : Walks body nq na nn ne types) (hno : ∀ t ∈ types, t ≠ 250)
    (hbits : bits < 65536) (hauth : bits % 16 ≠ 9)
    (hq : nq < 65536) (ha : na < 65536) (hn : nn < 65536) (he : ne + 1 < 65536)
    (x : RRItem) (alg : Bytes) (ts fudge macSize : Nat) (mac : Bytes) (origId err olen : Nat) (other : Bytes)
    (hx : IsTsig x alg ts fudge macSize mac origId err olen other) :
    ∃ s, stripTsig (tsigGenerateBuf (hdr id bits nq na nn ne ++ body) origId x.enc) = .ok s ∧
      s.msg = hdr origId bits nq na nn ne ++ body ∧ s.found = true ∧ s.name = presentOf x.spec.labels ∧
      s.ttl = x.spec.ttl ∧ s.body = some x.spec.vals := by
  -- the buffer
  have ebuf : tsigGenerateBuf (hdr id bits nq na nn ne ++ body) origId x.enc =
      hdr origId bits nq na nn (ne + 1) ++ body ++ x.enc := by
    unfold tsigGenerateBuf
    rw [arcount_hdr id bits nq na nn ne body (by omega), setId_hdr, List.append_assoc, setArcount_hdr]
    simp [List.append_assoc]
  rw [ebuf]
  generalize hH : hdr origId bits nq na nn (ne + 1) = Hs
  have lH : Hs.length = 12 := by rw [← hH]; exact hdr_len ..
  have eb : Hs ++ body ++ x.enc = Hs ++ (body ++ x.enc) := by simp [List.append_assoc]
  obtain ⟨c1, c2, c3, c4⟩ := counts_hdr origId bits nq na nn (ne + 1) (body ++ x.enc) hq ha hn he
  rw [hH, ← eb] at c1 c2 c3 c4
  have w1 : beVal (((Hs ++ body ++ x.enc).drop 2).take 2) = bits := by
    rw [eb, ← hH]; exact hdr_bits origId bits nq na nn (ne + 1) _ hbits
  have w2 := word_of_goU16 _ _ _ c1
  have w3 := word_of_goU16 _ _ _ c2
  have w4 := word_of_goU16 _ _ _ c3
  have w5 := word_of_goU16 _ _ _ c4
  obtain ⟨qs, an, ns, ex, o1, o2, o3, uq, lq, ua, la, un, ln, ue, le, ety, m1, m2, m3⟩ := hw Hs x.enc lH
  have xpos := enc_pos x
  have blen : (Hs ++ body ++ x.enc).length = 12 + body.length + x.enc.length := by simp [lH]; omega
  have sq := (skip_questions nq (Hs ++ body ++ x.enc) 12 [] qs o1 uq (by simpa using lq) (by omega)).2
  obtain ⟨l', hf⟩ := findTsig_skip ne 1 (Hs ++ body ++ x.enc) o3 0 ex (12 + body.length) ue le
    (fun r hr => hno r.typ (by rw [← ety]; exact List.mem_map_of_mem hr))
  have hrr := rr_roundtrip x.spec x.plan x.rd hx.wf (Hs ++ body) []
  simp only [List.append_nil, List.length_append, lH] at hrr
  have hx1 : findTsig 1 (Hs ++ body ++ x.enc) (12 + body.length) l' =
      some (some (x.spec.decoded x.rd.length), 12 + body.length) := by
    simp only [findTsig]
    unfold RRItem.enc
    rw [hrr]
    simp [RRSpec.decoded, hx.typ]
  unfold stripTsig
  rw [if_neg (by rw [blen]; omega)]
  simp only [Nat.mul_one, show 2 * 5 = 10 from rfl, show 2 * 2 = 4 from rfl, show 2 * 3 = 6 from rfl, show 2 * 4 = 8 from rfl,
    w1, w2, w3, w4, w5]
  rw [if_neg (by omega), if_neg hauth, sq]
  simp only [ua, un, hf, hx1]
  refine ⟨_, rfl, ?_, rfl, rfl, rfl, rfl⟩
  simp only
  rw [eb, ← hH, setArcount_hdr, show ne + 1 + 65535 = ne + 65536 from by omega]
  unfold hdr
  rw [beBytes2_wrap]
  have : (beBytes 2 origId ++ (beBytes 2 bits ++ (beBytes 2 nq ++ (beBytes 2 na ++ (beBytes 2 nn ++ beBytes 2 ne)))) ++
      (body ++ x.enc)) = (beBytes 2 origId ++ (beBytes 2 bits ++ (beBytes 2 nq ++ (beBytes 2 na ++ (beBytes 2 nn ++ beBytes 2 ne)))) ++
      body) ++ x.enc := by simp [List.append_assoc]
  rw [this, List.take_left' (by simp [beBytes_len]; omega)]

/-- **generate_verifies**: what `TsigGenerate` returns verifies — for any MAC function `check` that accepts the MAC over
    the digest `TsigGenerate` computed (request MAC ‖ message under the original ID ‖ variables, or timers), inside the
    fudge window.  `ts` and `fudge` are the values of the packed record (`TsigGenerate` has replaced zeros). -/
theorem generate_verifies (id bits : Nat) (body : Bytes) (nq na nn ne : Nat) (types : List Nat)
    (hw : Walks body nq na nn ne types) (hno : ∀ t ∈ types, t ≠ 250)
    (hbits : bits < 65536) (hauth : bits % 16 ≠ 9)
    (hq : nq < 65536) (ha : na < 65536) (hn : nn < 65536) (he : ne + 1 < 65536)
    (x : RRItem) (alg : Bytes) (ts fudge macSize : Nat) (mac : Bytes) (origId err olen : Nat) (other : Bytes)
    (hx : IsTsig x alg ts fudge macSize mac origId err olen other)
    (requestMAC : Bytes) (timersOnly : Bool) (now wall : Nat) (check : Bytes → Bytes → Bytes → Bool)
    (hc : check (tsigDigest (hdr id bits nq na nn ne ++ body) origId
      ⟨presentOf x.spec.labels, x.spec.ttl, alg, ts, fudge, err, olen, other⟩ requestMAC timersOnly) alg mac = true)
    (hbuf : tsigBufferOK ⟨presentOf x.spec.labels, x.spec.ttl, alg, ts, fudge, err, olen, other⟩ requestMAC timersOnly = true)
    (ht1 : now ≤ ts + fudge) (ht2 : ts ≤ now + fudge) :
    tsigVerifyM (tsigGenerateBuf (hdr id bits nq na nn ne ++ body) origId x.enc) requestMAC timersOnly now wall check
      = .accepted := by
  obtain ⟨s, hs, hm, _, hname, httl, hbody⟩ := strip_generated id bits body nq na nn ne types hw hno hbits hauth hq ha hn he
    x alg ts fudge macSize mac origId err olen other hx
  unfold tsigVerifyM
  rw [hs]
  simp only
  have hv : tsigVarsOf s wall = ⟨presentOf x.spec.labels, x.spec.ttl, alg, ts, fudge, err, olen, other⟩ := by
    unfold tsigVarsOf
    rw [hbody, hx.vals, hname, httl]
    simp [fieldN, fieldB]
  have hd : stripDigest s requestMAC timersOnly wall = tsigDigest (hdr id bits nq na nn ne ++ body) origId
      ⟨presentOf x.spec.labels, x.spec.ttl, alg, ts, fudge, err, olen, other⟩ requestMAC timersOnly := by
    unfold stripDigest
    rw [hv, hm, digest_id_irrelevant id origId]
    rw [hbody, hx.vals]
    simp [fieldN]
  have ha' : fieldB s.body 0 = alg := by rw [hbody, hx.vals]; simp [fieldB]
  have hm' : fieldB s.body 4 = mac := by rw [hbody, hx.vals]; simp [fieldB]
  rw [hd, ha', hm', hc, hv, hbuf]
  simp only [if_true, Bool.not_true, Bool.false_eq_true, if_false]
  have := (Dns.C11.time_window now ts fudge).mpr ⟨ht1, ht2⟩
  rw [this]
  rfl


/-- **generate_verifies_plain**: for the plain packer of the model (`Compress` off), every message of questions and
    records of any generated type -/
theorem generate_verifies_plain (id bits : Nat) (qs : List QSpec) (an ns ex : List RRItem)
    (hq : ∀ q ∈ qs, q.WF) (han : ∀ x ∈ an, x.spec.WF x.plan x.rd) (hns : ∀ x ∈ ns, x.spec.WF x.plan x.rd)
    (hex : ∀ x ∈ ex, x.spec.WF x.plan x.rd) (hno : ∀ x ∈ ex, x.spec.typ ≠ 250)
    (hbits : bits < 65536) (hauth : bits % 16 ≠ 9)
    (cq : qs.length < 65536) (ca : an.length < 65536) (cn : ns.length < 65536) (ce : ex.length + 1 < 65536)
    (x : RRItem) (alg : Bytes) (ts fudge macSize : Nat) (mac : Bytes) (origId err olen : Nat) (other : Bytes)
    (hx : IsTsig x alg ts fudge macSize mac origId err olen other)
    (requestMAC : Bytes) (timersOnly : Bool) (now wall : Nat) (check : Bytes → Bytes → Bytes → Bool)
    (hc : check (tsigDigest (encodeMsg id bits qs an ns ex) origId
      ⟨presentOf x.spec.labels, x.spec.ttl, alg, ts, fudge, err, olen, other⟩ requestMAC timersOnly) alg mac = true)
    (hbuf : tsigBufferOK ⟨presentOf x.spec.labels, x.spec.ttl, alg, ts, fudge, err, olen, other⟩ requestMAC timersOnly = true)
    (ht1 : now ≤ ts + fudge) (ht2 : ts ≤ now + fudge) :
    tsigVerifyM (tsigGenerateBuf (encodeMsg id bits qs an ns ex) origId x.enc) requestMAC timersOnly now wall check
      = .accepted := by
  have e : encodeMsg id bits qs an ns ex = hdr id bits qs.length an.length ns.length ex.length ++
      (encQuestions qs ++ (encSection an ++ (encSection ns ++ encSection ex))) := by
    simp [encodeMsg, hdr, List.append_assoc]
  rw [e] at hc ⊢
  exact generate_verifies id bits _ _ _ _ _ _ (plain_walks qs an ns ex hq han hns hex)
    (by intro t ht; simp only [List.mem_map] at ht; obtain ⟨y, hy, rfl⟩ := ht; exact hno y hy)
    hbits hauth cq ca cn ce x alg ts fudge macSize mac origId err olen other hx requestMAC timersOnly now wall check hc hbuf ht1 ht2

/-- **generate_verifies_compressed**: for the compressing packer of the model (`Compress` on) -/
theorem generate_verifies_compressed (id bits : Nat) (qs : List QSpec) (an ns ex : List (RRItem × List Bool))
    (hq : ∀ q ∈ qs, q.WF) (han : ∀ x ∈ an, x.1.spec.WF x.1.plan x.1.rd) (hns : ∀ x ∈ ns, x.1.spec.WF x.1.plan x.1.rd)
    (hex : ∀ x ∈ ex, x.1.spec.WF x.1.plan x.1.rd) (hno : ∀ x ∈ ex, x.1.spec.typ ≠ 250)
    (hbits : bits < 65536) (hauth : bits % 16 ≠ 9)
    (cq : qs.length < 65536) (ca : an.length < 65536) (cn : ns.length < 65536) (ce : ex.length + 1 < 65536)
    (B : Bytes)
    (hp : packMsgC id bits (qs.map QSpec.dec) (an.map (fun x => toRRc x.1 x.2)) (ns.map (fun x => toRRc x.1 x.2))
      (ex.map (fun x => toRRc x.1 x.2)) = some B)
    (x : RRItem) (alg : Bytes) (ts fudge macSize : Nat) (mac : Bytes) (origId err olen : Nat) (other : Bytes)
    (hx : IsTsig x alg ts fudge macSize mac origId err olen other)
    (requestMAC : Bytes) (timersOnly : Bool) (now wall : Nat) (check : Bytes → Bytes → Bytes → Bool)
    (hc : check (tsigDigest B origId
      ⟨presentOf x.spec.labels, x.spec.ttl, alg, ts, fudge, err, olen, other⟩ requestMAC timersOnly) alg mac = true)
    (hbuf : tsigBufferOK ⟨presentOf x.spec.labels, x.spec.ttl, alg, ts, fudge, err, olen, other⟩ requestMAC timersOnly = true)
    (ht1 : now ≤ ts + fudge) (ht2 : ts ≤ now + fudge) :
    tsigVerifyM (tsigGenerateBuf B origId x.enc) requestMAC timersOnly now wall check = .accepted := by
  unfold packMsgC at hp
  simp only [List.length_map] at hp
  cases h1 : packQCs 12 [] true (qs.map QSpec.dec) with
  | none => rw [h1] at hp; cases hp
  | some r1 =>
    obtain ⟨wq, m1⟩ := r1
    rw [h1] at hp; simp only at hp
    cases h2 : packRRcs (12 + wq.length) m1 true (an.map (fun x => toRRc x.1 x.2)) with
    | none => rw [h2] at hp; cases hp
    | some r2 =>
      obtain ⟨wa, m2⟩ := r2
      rw [h2] at hp; simp only at hp
      cases h3 : packRRcs (12 + wq.length + wa.length) m2 true (ns.map (fun x => toRRc x.1 x.2)) with
      | none => rw [h3] at hp; cases hp
      | some r3 =>
        obtain ⟨wn, m3⟩ := r3
        rw [h3] at hp; simp only at hp
        cases h4 : packRRcs (12 + wq.length + wa.length + wn.length) m3 true (ex.map (fun x => toRRc x.1 x.2)) with
        | none => rw [h4] at hp; cases hp
        | some r4 =>
          obtain ⟨we, m4⟩ := r4
          rw [h4] at hp
          simp only [Option.some.injEq] at hp
          have e : B = hdr id bits qs.length an.length ns.length ex.length ++ (wq ++ (wa ++ (wn ++ we))) := by
            rw [← hp]; simp [hdr, List.append_assoc]
          rw [e] at hc ⊢
          exact generate_verifies id bits _ _ _ _ _ _ (packC_walks qs an ns ex hq han hns hex wq wa wn we m1 m2 m3 m4 h1 h2 h3 h4)
            (by intro t ht; simp only [List.mem_map] at ht; obtain ⟨y, hy, rfl⟩ := ht; exact hno y hy)
            hbits hauth cq ca cn ce x alg ts fudge macSize mac origId err olen other hx requestMAC timersOnly now wall
            check hc hbuf ht1 ht2

/-- the premises are satisfiable: a TSIG record for key `k.`, algorithm `h.`, a two-octet MAC -/
example : IsTsig ⟨⟨[[107]], 250, 255, 0, "TSIG",
      [.t (presentOf [[104]]), .n 1000, .n 300, .n 2, .b [1, 2], .n 7, .n 0, .n 0, .b []]⟩,
      [.name, .early, .uint 6, .early, .uint 2, .early, .uint 2, .early, .blobSized 3, .uint 2, .early, .uint 2, .early, .uint 2,
        .early, .blobSized 7],
      wireOf [[104]] ++ [0, 0, 0, 0, 3, 232, 1, 44, 0, 2, 1, 2, 0, 7, 0, 0, 0, 0]⟩
    (presentOf [[104]]) 1000 300 2 [1, 2] 7 0 0 [] :=
  ⟨⟨by decide, by decide, by decide, by decide, by decide, by decide, by decide,
    by simp only [WFPlan, WFStep, and_true, List.getD]; exact ⟨⟨[[104]], by decide, rfl⟩, by decide, by decide, by decide, by decide, by decide, by decide, by decide, by decide⟩,
    by decide,
    by simp [packPlan, packPlanAcc, packStep, stripPlan, pack_present [[104]] (by decide)]; decide,
    by decide, by decide⟩, rfl, rfl⟩

/-- **verify_accepts_only**: `tsigVerify` succeeds only if `stripTsig` found its way through the message, the MAC
    function accepted the digest of the stripped message — request MAC, the message with the original ID and without
    the TSIG record, the variables of that record — and the signing time is within the fudge of `now` -/
theorem verify_accepts_only (msg requestMAC : Bytes) (timersOnly : Bool) (now wall : Nat) (check : Bytes → Bytes → Bytes → Bool)
    (h : tsigVerifyM msg requestMAC timersOnly now wall check = .accepted) :
    ∃ s, stripTsig msg = .ok s ∧
      check (tsigDigest s.msg (fieldN s.body 5) (tsigVarsOf s wall) requestMAC timersOnly) (fieldB s.body 0) (fieldB s.body 4) = true ∧
      now ≤ (tsigVarsOf s wall).timeSigned + (tsigVarsOf s wall).fudge ∧
      (tsigVarsOf s wall).timeSigned ≤ now + (tsigVarsOf s wall).fudge := by
  unfold tsigVerifyM at h
  split at h
  · cases h
  · rename_i s hs
    refine ⟨s, hs, ?_⟩
    simp only at h
    split at h
    · cases h
    · split at h
      · rename_i hc
        split at h
        · rename_i ht
          have := (Dns.C11.time_window now _ _).mp ht
          exact ⟨hc, this.1, this.2⟩
        · cases h
      · cases h

/-- a message without additional records, or with RCODE NOTAUTH, is never verified -/
theorem no_additional_never_verifies (msg requestMAC : Bytes) (timersOnly : Bool) (now wall : Nat)
    (check : Bytes → Bytes → Bytes → Bool) (h : beVal ((msg.drop 10).take 2) = 0) :
    tsigVerifyM msg requestMAC timersOnly now wall check = .stripError := by
  have hs : stripTsig msg = .err := by
    unfold stripTsig
    split
    · rfl
    · simp only [show 2 * 5 = 10 from rfl, h, if_true]
  unfold tsigVerifyM
  rw [hs]

end Dns.C11M
