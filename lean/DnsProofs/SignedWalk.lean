/-
  Bridging lemmas for the signed-message theorems (C11, C18): what the whole-message decoder reads section by section,
  the hand-written offset walks of sig0.go (`skipQuestions`, `skipRecords`) and the loops of `stripTsig` read too; and
  the two packers of the model produce bodies that are read section by section whatever header stands in front and
  whatever octets follow (`Walks`).
-/
import DnsModel.Signed
import DnsProofs.C02Msg
import DnsProofs.C01Msg
import DnsProofs.C04Msg
namespace Dns.SW
open Dns Dns.MU Dns.C18 Dns.C02M Dns.C01 Dns.C03 Dns.C04 Dns.C01M Dns.C04M

/-! ### one record / one question: the decoder's step seen by the offset walk -/

/-- a record the decoder reads from an offset inside the message: owner, ten octets, RDLENGTH octets -/
theorem unpackRR_shape (msg : Bytes) (off : Nat) (r : RRm) (o : Nat) (hne : off ≠ msg.length)
    (h : unpackRR msg off = some (r, o)) :
    ∃ o1, unpackName msg off = .ok (r.name, o1) ∧ o1 + 10 ≤ msg.length ∧
      r.typ = beVal (slice msg o1 2) ∧ r.rdlen = beVal (slice msg (o1 + 8) 2) ∧ o = o1 + 10 + r.rdlen ∧ o ≤ msg.length := by
  unfold unpackRR at h
  rw [if_neg hne] at h
  split at h
  · rename_i name o1 hn
    split at h
    · simp at h
    · rename_i typ o2 h2
      obtain ⟨e2, _⟩ := uintAt_spec 2 msg o1 typ o2 h2
      split at h
      · simp at h
      · rename_i cls o3 h3
        obtain ⟨e3, _⟩ := uintAt_spec 2 msg o2 cls o3 h3
        split at h
        · simp at h
        · rename_i ttl o4 h4
          obtain ⟨e4, _⟩ := uintAt_spec 4 msg o3 ttl o4 h4
          split at h
          · simp at h
          · rename_i rdlen o5 h5
            obtain ⟨e5, l5⟩ := uintAt_spec 2 msg o4 rdlen o5 h5
            have hv : rdlen = beVal (slice msg (o1 + 8) 2) := by
              unfold uintAt at h5
              split at h5
              · simp only [Option.some.injEq, Prod.mk.injEq] at h5
                rw [← h5.1]; unfold slice
                have : o4 = o1 + 8 := by omega
                rw [this]
              · simp at h5
            have ht : typ = beVal (slice msg o1 2) := by
              unfold uintAt at h2
              split at h2
              · simp only [Option.some.injEq, Prod.mk.injEq] at h2
                rw [← h2.1]; rfl
              · simp at h2
            split at h
            · simp at h
            · rename_i hlen
              simp only at h
              split at h
              · simp only [Option.some.injEq, Prod.mk.injEq] at h
                obtain ⟨rfl, rfl⟩ := h
                refine ⟨o1, hn, by omega, ht, hv, by simp only; omega, by omega⟩
              · split at h
                · simp at h
                · split at h
                  · split at h
                    · rename_i hok
                      simp only [Option.some.injEq, Prod.mk.injEq] at h
                      obtain ⟨rfl, rfl⟩ := h
                      refine ⟨o1, hn, by omega, ht, hv, by simp only; omega, by omega⟩
                    · simp at h
                  · simp at h
  · simp at h

/-- the step of `skipRecords` over a record the decoder reads -/
theorem skipRecords_step (buf : Bytes) (n off : Nat) (r : RRm) (o : Nat) (hlt : off < buf.length)
    (h : unpackRR buf off = some (r, o)) :
    skipRecords buf (n + 1) off = skipRecords buf n o := by
  obtain ⟨o1, hn, hl, _, hv, ho, _⟩ := unpackRR_shape buf off r o (by omega) h
  simp only [skipRecords, if_pos hlt, hn]
  rw [if_neg (by omega)]
  have : goU16 buf (o1 + 8) = .ok r.rdlen := by
    unfold goU16; rw [if_pos (by omega), hv]
  rw [this]
  simp only
  have : o1 + 8 + 2 + r.rdlen = o := by omega
  rw [this]

/-- a section the decoder reads in full (as many records as counted) is skipped to the same offset -/
theorem skipRecords_section (c : Nat) (buf : Bytes) (off : Nat) (acc rs : List RRm) (o : Nat)
    (h : unpackSection c buf off acc = some (rs, o)) (hfull : rs.length = acc.length + c) (hoff : off ≤ buf.length)
    (n : Nat) :
    skipRecords buf (c + n) off = skipRecords buf n o := by
  induction c generalizing off acc with
  | zero =>
    simp only [unpackSection, Option.some.injEq, Prod.mk.injEq] at h
    rw [h.2]; simp
  | succ c ih =>
    simp only [unpackSection] at h
    cases hr : unpackRR buf off with
    | none => rw [hr] at h; cases h
    | some p =>
      obtain ⟨r, o'⟩ := p
      rw [hr] at h
      simp only at h
      split at h
      · simp only [Option.some.injEq, Prod.mk.injEq] at h
        rw [← h.1] at hfull; simp at hfull
      · rename_i hmove
        obtain ⟨hle, hadv⟩ := unpackRR_advance buf off r o' hoff hr
        have hlt : off < buf.length := by
          rcases hadv with ⟨_, e⟩ | e
          · exact absurd e hmove
          · omega
        have e : c + 1 + n = (c + n) + 1 := by omega
        rw [e, skipRecords_step buf (c + n) off r o' hlt hr]
        exact ih o' (r :: acc) h (by simp; omega) hle

/-- a question the decoder reads that does not end the message is a name and four octets -/
theorem unpackQuestion_shape (msg : Bytes) (off : Nat) (q : Qm) (o : Nat) (h : unpackQuestion msg off = some (q, o))
    (hlt : o < msg.length) : ∃ o1, unpackName msg off = .ok (q.name, o1) ∧ o = o1 + 4 := by
  unfold unpackQuestion at h
  split at h
  · rename_i name o1 hn
    split at h
    · simp only [Option.some.injEq, Prod.mk.injEq] at h; omega
    · split at h
      · simp at h
      · rename_i typ o2 h2
        obtain ⟨e2, _⟩ := uintAt_spec 2 msg o1 typ o2 h2
        split at h
        · simp only [Option.some.injEq, Prod.mk.injEq] at h; omega
        · split at h
          · simp at h
          · rename_i cls o3 h3
            obtain ⟨e3, _⟩ := uintAt_spec 2 msg o2 cls o3 h3
            simp only [Option.some.injEq, Prod.mk.injEq] at h
            obtain ⟨rfl, rfl⟩ := h
            exact ⟨o1, hn, by omega⟩
  · simp at h

theorem unpackQuestions_mono (c : Nat) (msg : Bytes) (off : Nat) (acc : List Qm) :
    off ≤ (unpackQuestions c msg off acc).2.1 := by
  induction c generalizing off acc with
  | zero => simp [unpackQuestions]
  | succ c ih =>
    simp only [unpackQuestions]
    cases hq : unpackQuestion msg off with
    | none => simp
    | some p =>
      obtain ⟨q, o⟩ := p
      simp only
      split
      · simp
      · have := (unpackQuestion_advance msg off q o hq)
        have := ih o (q :: acc)
        omega

theorem unpackQuestions_len (c : Nat) (msg : Bytes) (off : Nat) (acc : List Qm) :
    (unpackQuestions c msg off acc).1.length ≤ acc.length + c := by
  induction c generalizing off acc with
  | zero => simp [unpackQuestions]
  | succ c ih =>
    simp only [unpackQuestions]
    cases hq : unpackQuestion msg off with
    | none => simp
    | some p =>
      obtain ⟨q, o⟩ := p
      simp only
      split
      · simp
      · have := ih o (q :: acc)
        simp at this
        omega

/-- questions the decoder reads in full, ending before the end of the message, are skipped to the same offset — by
    `skipQuestions` (sig0.go) and by the loop of `stripTsig` alike -/
theorem skip_questions (c : Nat) (buf : Bytes) (off : Nat) (acc qs : List Qm) (o : Nat)
    (h : unpackQuestions c buf off acc = (qs, o, false)) (hfull : qs.length = acc.length + c) (hlt : o < buf.length) :
    skipQuestions buf c off = .ok o ∧ stripQuestions c buf off = some o := by
  induction c generalizing off acc with
  | zero =>
    simp only [unpackQuestions, Prod.mk.injEq] at h
    simp [skipQuestions, stripQuestions, h.2.1]
  | succ c ih =>
    simp only [unpackQuestions] at h
    cases hq : unpackQuestion buf off with
    | none => rw [hq] at h; simp at h
    | some p =>
      obtain ⟨q, o'⟩ := p
      rw [hq] at h
      simp only at h
      split at h
      · simp only [Prod.mk.injEq] at h
        rw [← h.1] at hfull; simp at hfull
      · have hm := unpackQuestions_mono c buf o' (q :: acc)
        rw [h] at hm
        simp only at hm
        obtain ⟨o1, hn, ho⟩ := unpackQuestion_shape buf off q o' hq (by omega)
        have hgt := unpackName_gt buf off q.name o1 hn
        obtain ⟨i1, i2⟩ := ih o' (q :: acc) h (by simp; omega)
        constructor
        · simp only [skipQuestions]
          rw [if_pos (by omega), hn]
          simp only
          rw [← ho]; exact i1
        · simp only [stripQuestions, hq]
          exact i2

/-! ### bodies that are read section by section -/

/-- the octets behind a header: read as `nq` questions and three sections of `na`, `nn`, `ne` records, ending exactly
    where the body ends, whatever twelve octets stand in front and whatever follows; `types` are the type codes of the
    additional records -/
def Walks (body : Bytes) (nq na nn ne : Nat) (types : List Nat) : Prop :=
  ∀ (H tail : Bytes), H.length = 12 →
    ∃ qs an ns ex o1 o2 o3,
      unpackQuestions nq (H ++ body ++ tail) 12 [] = (qs, o1, false) ∧ qs.length = nq ∧
      unpackSection na (H ++ body ++ tail) o1 [] = some (an, o2) ∧ an.length = na ∧
      unpackSection nn (H ++ body ++ tail) o2 [] = some (ns, o3) ∧ ns.length = nn ∧
      unpackSection ne (H ++ body ++ tail) o3 [] = some (ex, 12 + body.length) ∧ ex.length = ne ∧
      ex.map (·.typ) = types ∧ o1 ≤ o2 ∧ o2 ≤ o3 ∧ o3 ≤ 12 + body.length

/-- the plain encoding of the model (`Compress` off) -/
theorem plain_walks (qs : List QSpec) (an ns ex : List RRItem)
    (hq : ∀ q ∈ qs, q.WF) (han : ∀ x ∈ an, x.spec.WF x.plan x.rd) (hns : ∀ x ∈ ns, x.spec.WF x.plan x.rd)
    (hex : ∀ x ∈ ex, x.spec.WF x.plan x.rd) :
    Walks (encQuestions qs ++ (encSection an ++ (encSection ns ++ encSection ex))) qs.length an.length ns.length ex.length
      (ex.map (·.spec.typ)) := by
  intro H tail hH
  have q1 := questions_roundtrip qs hq H (encSection an ++ (encSection ns ++ encSection ex) ++ tail) []
  have a1 := section_roundtrip an han (H ++ encQuestions qs) (encSection ns ++ encSection ex ++ tail) []
  have n1 := section_roundtrip ns hns (H ++ encQuestions qs ++ encSection an) (encSection ex ++ tail) []
  have e1 := section_roundtrip ex hex (H ++ encQuestions qs ++ encSection an ++ encSection ns) tail []
  simp only [List.append_assoc, List.length_append, hH, List.reverse_nil, List.nil_append, ← Nat.add_assoc] at q1 a1 n1 e1 ⊢
  refine ⟨_, _, _, _, 12 + (encQuestions qs).length, 12 + (encQuestions qs).length + (encSection an).length,
    12 + (encQuestions qs).length + (encSection an).length + (encSection ns).length,
    q1, by simp, a1, by simp, n1, by simp, e1, by simp, ?_, by omega, by omega, by omega⟩
  simp [RRItem.dec, RRSpec.decoded, Function.comp_def]

theorem map_typ_erase (rs : List RRm) (xs : List (RRItem × List Bool)) (h : rs.map eraseLen = xs.map (fun x => dec0 x.1)) :
    rs.map (·.typ) = xs.map (·.1.spec.typ) := by
  have : (rs.map eraseLen).map (·.typ) = (xs.map (fun x => dec0 x.1)).map (·.typ) := by rw [h]
  simpa [eraseLen, dec0, RRSpec.decoded, Function.comp_def] using this


/-- what the compressing packer of the model writes behind the header (`Compress` on: one map through questions and
    sections, any compress flags) -/
theorem packC_walks (qs : List QSpec) (an ns ex : List (RRItem × List Bool))
    (hq : ∀ q ∈ qs, q.WF) (han : ∀ x ∈ an, x.1.spec.WF x.1.plan x.1.rd) (hns : ∀ x ∈ ns, x.1.spec.WF x.1.plan x.1.rd)
    (hex : ∀ x ∈ ex, x.1.spec.WF x.1.plan x.1.rd)
    (wq wa wn we : Bytes) (m1 m2 m3 m4 : CMap)
    (h1 : packQCs 12 [] true (qs.map QSpec.dec) = some (wq, m1))
    (h2 : packRRcs (12 + wq.length) m1 true (an.map (fun x => toRRc x.1 x.2)) = some (wa, m2))
    (h3 : packRRcs (12 + wq.length + wa.length) m2 true (ns.map (fun x => toRRc x.1 x.2)) = some (wn, m3))
    (h4 : packRRcs (12 + wq.length + wa.length + wn.length) m3 true (ex.map (fun x => toRRc x.1 x.2)) = some (we, m4)) :
    Walks (wq ++ (wa ++ (wn ++ we))) qs.length an.length ns.length ex.length (ex.map (·.1.spec.typ)) := by
  intro H tail hH
  have hm0 : MapOK H [] := mapOK_nil H
  have h1' : packQCs H.length [] true (qs.map QSpec.dec) = some (wq, m1) := by rw [hH]; exact h1
  obtain ⟨dq, mq⟩ := questionsC_roundtrip qs hq true H [] hm0 wq m1 h1' (wa ++ (wn ++ we) ++ tail) []
  have h2' : packRRcs (H ++ wq).length m1 true (an.map (fun x => toRRc x.1 x.2)) = some (wa, m2) := by
    rw [List.length_append, hH]; exact h2
  obtain ⟨⟨ra, da, ea⟩, ma⟩ := sectionC_roundtrip an han true (H ++ wq) m1 mq wa m2 h2' (wn ++ we ++ tail) []
  have h3' : packRRcs (H ++ wq ++ wa).length m2 true (ns.map (fun x => toRRc x.1 x.2)) = some (wn, m3) := by
    simp only [List.length_append, hH]; exact h3
  obtain ⟨⟨rn, dn, en⟩, mn⟩ := sectionC_roundtrip ns hns true (H ++ wq ++ wa) m2 ma wn m3 h3' (we ++ tail) []
  have h4' : packRRcs (H ++ wq ++ wa ++ wn).length m3 true (ex.map (fun x => toRRc x.1 x.2)) = some (we, m4) := by
    simp only [List.length_append, hH]; exact h4
  obtain ⟨⟨re, de, ee⟩, _⟩ := sectionC_roundtrip ex hex true (H ++ wq ++ wa ++ wn) m3 mn we m4 h4' tail []
  simp only [List.append_assoc, List.length_append, hH, List.reverse_nil, List.nil_append, ← Nat.add_assoc] at dq da dn de ⊢
  have la : ra.length = an.length := by have := congrArg List.length ea; simpa using this
  have ln : rn.length = ns.length := by have := congrArg List.length en; simpa using this
  have le : re.length = ex.length := by have := congrArg List.length ee; simpa using this
  exact ⟨_, ra, rn, re, 12 + wq.length, 12 + wq.length + wa.length, 12 + wq.length + wa.length + wn.length,
    dq, by simp, da, la, dn, ln, de, le, map_typ_erase re ex ee, by omega, by omega, by omega⟩


/-- a body that is read section by section holds at most one question per octet and one record per eleven octets: the
    counts of a packed message are bounded by its length -/
theorem walks_counts (body : Bytes) (nq na nn ne : Nat) (types : List Nat) (hw : Walks body nq na nn ne types) :
    nq ≤ body.length ∧ 11 * (na + nn + ne) ≤ body.length := by
  obtain ⟨qs, an, ns, ex, o1, o2, o3, uq, lq, ua, la, un, ln, ue, le, _, m1, m2, m3⟩ :=
    hw (List.replicate 12 0) [] (by simp)
  have hl : (List.replicate 12 (0 : UInt8) ++ body ++ []).length = 12 + body.length := by simp; omega
  have bq := unpackQuestions_bound nq (List.replicate 12 0 ++ body ++ []) 12 [] (by rw [hl]; omega)
  rw [uq] at bq
  simp only [List.length_nil, Nat.zero_add] at bq
  obtain ⟨q1, q2, _, q4⟩ := bq
  have ba := unpackSection_bound na _ o1 [] an o2 (by rw [hl]; omega) ua
  have bn := unpackSection_bound nn _ o2 [] ns o3 (by rw [hl]; omega) un
  have be := unpackSection_bound ne _ o3 [] ex (12 + body.length) (by rw [hl]; omega) ue
  simp only [List.length_nil, Nat.sub_zero] at ba bn be
  constructor
  · omega
  · omega

end Dns.SW
