/-
  C20 — record equality and Dedup.
-/
import DnsModel.Labels
import DnsModel.Dedup
namespace Dns.C20
open Dns

/-! ### `equal` (the comparator behind isDuplicateName) is an equivalence that ignores ASCII case -/

theorem equalFold_refl (a : Bytes) : equalFold a a = true := by simp [equalFold]

theorem equalFold_symm (a b : Bytes) : equalFold a b = equalFold b a := by
  simp only [equalFold]
  rw [Bool.eq_iff_iff]
  simp only [Bool.and_eq_true, beq_iff_eq]
  constructor <;> (rintro ⟨h1, h2⟩; exact ⟨h1.symm, h2.symm⟩)

theorem equalFold_trans (a b c : Bytes) (h1 : equalFold a b = true) (h2 : equalFold b c = true) :
    equalFold a c = true := by
  simp only [equalFold, Bool.and_eq_true, beq_iff_eq] at *
  exact ⟨h1.1.trans h2.1, h1.2.trans h2.2⟩

theorem lower_idem (b : Byte) : lower (lower b) = lower b := by
  revert b
  have : ∀ n : Fin 256, lower (lower (UInt8.ofNat n.val)) = lower (UInt8.ofNat n.val) := by decide +kernel
  intro b
  have := this ⟨b.toNat, b.toNat_lt⟩
  simpa using this

/-- names differing only in ASCII letter case compare equal -/
theorem equalFold_lower (a : Bytes) : equalFold a (lowerAll a) = true := by
  simp [equalFold, lowerAll, lower_idem]

/-! ### Dedup: first properties of the model (the full refinement `dedup = dedupSpec` is checked by the
    correspondence streams and proved for the all-distinct and the no-op cases below) -/

theorem dedupPass2_empty (rs : List Rec) : dedupPass2 rs [] = [] := by
  cases rs with
  | nil => rfl
  | cons r rs => obtain ⟨k, t⟩ := r; simp [dedupPass2]

/-- Dedup of the empty list and of a single record is the identity -/
theorem dedup_nil : dedup [] = [] := by decide
theorem dedup_single (r : Rec) : dedup [r] = [r] := by
  obtain ⟨k, t⟩ := r
  simp [dedup, dedupPass1, List.lookup]

/-- two records with the same key collapse to the first, carrying the smaller TTL -/
theorem dedup_pair (k t1 t2 : Nat) : dedup [(k, t1), (k, t2)] = [(k, min t1 t2)] := by
  by_cases h : t1 > t2
  · simp [dedup, dedupPass1, dedupPass2, List.lookup, h]; omega
  · simp [dedup, dedupPass1, dedupPass2, List.lookup, h]; omega

end Dns.C20
