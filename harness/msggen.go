package main

import "github.com/miekg/dns"

var commonTypes = []uint16{dns.TypeA, dns.TypeAAAA, dns.TypeNS, dns.TypeCNAME, dns.TypeSOA, dns.TypePTR, dns.TypeMX, dns.TypeSRV,
	dns.TypeTXT, dns.TypeDNAME, dns.TypeMINFO, dns.TypeRP, dns.TypeAFSDB, dns.TypeKX, dns.TypeNAPTR, dns.TypeHINFO}

type GenMsg struct {
	Wire       []byte
	Qs         [][]byte
	An, Ns, Ex []*GenRR
	HasOpt     bool
	Plain      bool // common types only, escape-free content
}

type msgOpts struct {
	mode     int  // label byte mode
	plain    bool // common types, escape-free
	pool     bool // shared-suffix names
	maxAn    int
	maxNs    int
	maxEx    int
	optPct   int
	response bool
}

func genMsg(r *Rng, o msgOpts) *GenMsg {
	t := loadSpec()
	types := t.wireTypes()
	if o.plain {
		o.mode = 0
	}
	if o.pool {
		setNamePool(r, o.mode)
		defer func() { namePool = nil }()
	}
	g := &GenMsg{Plain: o.plain}
	nq := []int{0, 1, 1, 1, 1, 2, 3}[r.Intn(7)]
	for k := 0; k < nq; k++ {
		w := wireOf(nameFor(r, o.mode))
		w = putUint(w, 2, genUint(r, 2))
		w = putUint(w, 2, genUint(r, 2))
		g.Qs = append(g.Qs, w)
	}
	sec := func(max int) []*GenRR {
		var s []*GenRR
		n := r.Intn(max + 1)
		for k := 0; k < n; k++ {
			var typ uint16
			if o.plain || r.Chance(50) {
				typ = commonTypes[r.Intn(len(commonTypes))]
			} else {
				typ = types[r.Intn(len(types))]
			}
			s = append(s, genRR(r, typ, o.mode, o.plain || r.Bool()))
		}
		return s
	}
	g.An, g.Ns, g.Ex = sec(o.maxAn), sec(o.maxNs), sec(o.maxEx)
	if r.Chance(o.optPct) {
		g.HasOpt = true
		opt := genOPT(r)
		opt.TTL &= 0x00FFFFFF // extended RCODE 0
		opt.Wire = assembleRR(nil, opt.Type, opt.Class, opt.TTL, opt.Rdata)
		if len(g.Ex) > 0 && r.Chance(35) {
			// RFC 6891 6.1.1: the OPT record may be anywhere in the additional section
			i := r.Intn(len(g.Ex))
			g.Ex = append(g.Ex[:i], append([]*GenRR{opt}, g.Ex[i:]...)...)
		} else {
			g.Ex = append(g.Ex, opt)
		}
	}
	bits := uint16(r.U64()) & 0xFFF0 // RCODE 0 so that no OPT is needed
	if o.response {
		bits |= 0x8000
	}
	g.Wire = buildMsgWire(uint16(r.U64()), bits, g.Qs, g.An, g.Ns, g.Ex)
	return g
}

// unpackGen decodes the generated message with the library.
func unpackGen(g *GenMsg) (*dns.Msg, error) {
	m := new(dns.Msg)
	if err := m.Unpack(g.Wire); err != nil {
		return nil, err
	}
	return m, nil
}
