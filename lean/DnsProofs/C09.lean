/-
  C09 — Truncate: section prefixes, no later section after a cut, TC, size bound, maximality.
  Generic in the record type and in Len's length function.
-/
import DnsModel.Truncate
namespace Dns.C09
open Dns

variable {R σ : Type} (lenf : σ → Nat → R → Nat × σ)

/-- the loop never reports more kept records than there are (so `rrs[:num]` cannot panic) -/
theorem loop_kept_le (size : Int) (rs : List R) (l : Nat) (st : σ) (i : Nat) :
    (truncateLoop lenf size rs l st i).2.1 ≤ i + rs.length := by
  induction rs generalizing l st i with
  | nil => simp [truncateLoop]
  | cons r rs ih =>
    simp only [truncateLoop]
    split
    · simp
    · split
      · simp
      · have := ih (l + (lenf st l r).1) (lenf st l r).2 (i + 1)
        simp only [List.length_cons]; omega

theorem loop_kept_ge (size : Int) (rs : List R) (l : Nat) (st : σ) (i : Nat) :
    i ≤ (truncateLoop lenf size rs l st i).2.1 := by
  induction rs generalizing l st i with
  | nil => simp [truncateLoop]
  | cons r rs ih =>
    simp only [truncateLoop]
    split
    · simp
    · split
      · simp
      · have := ih (l + (lenf st l r).1) (lenf st l r).2 (i + 1); omega

/-- if a record was dropped, the loop returns exactly `size`, which closes all later sections -/
theorem loop_cut_size (size : Int) (rs : List R) (l : Nat) (st : σ) (i : Nat)
    (h : (truncateLoop lenf size rs l st i).2.1 < i + rs.length) :
    (truncateLoop lenf size rs l st i).1 = size := by
  induction rs generalizing l st i with
  | nil => simp [truncateLoop] at h
  | cons r rs ih =>
    simp only [truncateLoop] at h ⊢
    split
    · rfl
    · split
      · rename_i h2; simp [h2]
      · rename_i h1 h2
        simp only [h1, h2, ↓reduceIte] at h
        apply ih
        simp only [List.length_cons] at h; omega

/-- the running length never exceeds `size` -/
theorem loop_le_size (size : Int) (rs : List R) (l : Nat) (st : σ) (i : Nat) (h : (l : Int) ≤ size) :
    (truncateLoop lenf size rs l st i).1 ≤ size := by
  induction rs generalizing l st i with
  | nil => simpa [truncateLoop] using h
  | cons r rs ih =>
    simp only [truncateLoop]
    split
    · exact Int.le_refl _
    · split
      · rename_i h2; simp [h2]
      · rename_i h1 h2
        apply ih; omega

/-- what the loop keeps is a prefix whose folded length (the Len of the kept records at their offsets)
    stays within `size`; and when nothing was cut the returned length is that folded length -/
theorem loop_fold_le (size : Int) (rs : List R) (l : Nat) (st : σ) (i : Nat) (h : (l : Int) ≤ size) :
    ((lenFold lenf (rs.take ((truncateLoop lenf size rs l st i).2.1 - i)) l st).1 : Int) ≤ size := by
  induction rs generalizing l st i with
  | nil => simpa [truncateLoop, lenFold] using h
  | cons r rs ih =>
    simp only [truncateLoop]
    split
    · simpa [lenFold] using h
    · split
      · rename_i h2
        simp only [Nat.add_sub_cancel_left, List.take_succ_cons, List.take_zero, lenFold]
        omega
      · rename_i h1 h2
        have hk := loop_kept_ge lenf size rs (l + (lenf st l r).1) (lenf st l r).2 (i + 1)
        have e : (truncateLoop lenf size rs (l + (lenf st l r).1) (lenf st l r).2 (i + 1)).2.1 - i
            = ((truncateLoop lenf size rs (l + (lenf st l r).1) (lenf st l r).2 (i + 1)).2.1 - (i + 1)) + 1 := by omega
        rw [e, List.take_succ_cons]
        simp only [lenFold]
        apply ih; omega

/-- **maximality inside a section**: if the loop dropped a record, then the first dropped record did not
    fit: the folded length of the kept prefix plus that record's Len exceeds `size` — or the kept prefix
    fills `size` exactly (then nothing of positive length fits). -/
theorem loop_first_dropped (size : Int) (rs : List R) (l : Nat) (st : σ) (i : Nat)
    (h : (truncateLoop lenf size rs l st i).2.1 < i + rs.length) :
    let k := (truncateLoop lenf size rs l st i).2.1 - i
    let (lk, stk) := lenFold lenf (rs.take k) l st
    ∃ r, rs[k]? = some r ∧ ((lk : Int) = size ∨ ((lk + (lenf stk lk r).1 : Nat) : Int) > size) := by
  induction rs generalizing l st i with
  | nil => simp [truncateLoop] at h
  | cons r rs ih =>
    simp only [truncateLoop] at h ⊢
    split
    · rename_i h1
      simp only [Nat.sub_self, List.take_zero, lenFold, List.getElem?_cons_zero]
      exact ⟨r, rfl, Or.inr (by simpa using h1)⟩
    · split
      · rename_i h1 h2
        simp only [h1, h2, ↓reduceIte, List.length_cons] at h
        have hne : rs ≠ [] := by intro e; subst e; simp at h
        obtain ⟨r', rs', rfl⟩ := List.exists_cons_of_ne_nil hne
        simp only [Nat.add_sub_cancel_left, List.take_succ_cons, List.take_zero, lenFold]
        exact ⟨r', by simp, Or.inl h2⟩
      · rename_i h1 h2
        simp only [h1, h2, ↓reduceIte, List.length_cons] at h
        have hk := loop_kept_ge lenf size rs (l + (lenf st l r).1) (lenf st l r).2 (i + 1)
        have e : (truncateLoop lenf size rs (l + (lenf st l r).1) (lenf st l r).2 (i + 1)).2.1 - i
            = ((truncateLoop lenf size rs (l + (lenf st l r).1) (lenf st l r).2 (i + 1)).2.1 - (i + 1)) + 1 := by omega
        rw [e, List.take_succ_cons]
        simp only [lenFold, List.getElem?_cons_succ]
        exact ih _ _ _ (by omega)

/-- when nothing was dropped the loop is exactly Len's fold over the section -/
theorem loop_all_kept (size : Int) (rs : List R) (l : Nat) (st : σ) (i : Nat)
    (h : (truncateLoop lenf size rs l st i).2.1 = i + rs.length) :
    (truncateLoop lenf size rs l st i).1 = ((lenFold lenf rs l st).1 : Int)
    ∧ (truncateLoop lenf size rs l st i).2.2 = (lenFold lenf rs l st).2 := by
  induction rs generalizing l st i with
  | nil => simp [truncateLoop, lenFold]
  | cons r rs ih =>
    simp only [truncateLoop] at h ⊢
    split
    · rename_i h1; simp only [h1, ↓reduceIte, List.length_cons] at h; omega
    · split
      · rename_i h1 h2
        simp only [h1, h2, ↓reduceIte, List.length_cons] at h
        have : rs = [] := by
          cases rs with
          | nil => rfl
          | cons _ _ => simp at h
        subst this
        simp [lenFold]
      · rename_i h1 h2
        simp only [h1, h2, ↓reduceIte, List.length_cons] at h
        simp only [lenFold]
        exact ih _ _ _ (by omega)

/-! ### the whole message -/

variable (st0 : σ) (ulen optLen : Nat)

/-- every section of the result is a prefix of the original section, in the original order;
    question and OPT are untouched -/
theorem truncate_prefixes (size : Int) (m : TMsg R) :
    (truncate lenf st0 ulen optLen size m).answer <+: m.answer
    ∧ (truncate lenf st0 ulen optLen size m).ns <+: m.ns
    ∧ (truncate lenf st0 ulen optLen size m).extra <+: m.extra
    ∧ (truncate lenf st0 ulen optLen size m).opt = m.opt
    ∧ (truncate lenf st0 ulen optLen size m).question = m.question := by
  unfold truncate
  split
  · simp
  · simp [List.take_prefix]

/-- a message that already fits keeps all its records (and is marked uncompressed) -/
theorem truncate_fits (size : Int) (m : TMsg R) (h : (ulen : Int) ≤ effSize size) :
    truncate lenf st0 ulen optLen size m = { m with compress := false } := by
  simp [truncate, h]

theorem guard_kept_le (c : Prop) [Decidable c] (size : Int) (rs : List R) (l : Nat) (st : σ)
    (d : Int × Nat × σ) (hd : d.2.1 = 0) :
    (if c then truncateLoop lenf size rs l st 0 else d).2.1 ≤ rs.length := by
  split
  · simpa using loop_kept_le lenf size rs l st 0
  · omega

/-- the counts never exceed the section lengths (the re-slicing cannot panic) -/
theorem counts_le (size : Int) (m : TMsg R) :
    (truncCounts lenf st0 size m).a.2.1 ≤ m.answer.length
    ∧ (truncCounts lenf st0 size m).n.2.1 ≤ m.ns.length
    ∧ (truncCounts lenf st0 size m).e.2.1 ≤ m.extra.length := by
  simp only [truncCounts]
  exact ⟨guard_kept_le lenf _ _ _ _ _ _ rfl, guard_kept_le lenf _ _ _ _ _ _ rfl, guard_kept_le lenf _ _ _ _ _ _ rfl⟩

/-- TC ends up set exactly when it was set or a record was dropped -/
theorem truncate_tc (size : Int) (m : TMsg R) (hfit : ¬ (ulen : Int) ≤ effSize size) :
    (truncate lenf st0 ulen optLen size m).truncated
      = (m.truncated || decide ((truncate lenf st0 ulen optLen size m).answer.length < m.answer.length)
      || decide ((truncate lenf st0 ulen optLen size m).ns.length < m.ns.length)
      || decide ((truncate lenf st0 ulen optLen size m).extra.length < m.extra.length)) := by
  have ⟨ha, hn, he⟩ := counts_le lenf st0 (budget optLen size m) m
  simp only [truncate, hfit, ↓reduceIte, List.length_take]
  congr 1
  · congr 1
    · congr 1
      simp only [decide_eq_decide]; omega
    · simp only [decide_eq_decide]; omega
  · simp only [decide_eq_decide]; omega

/-- no record of a later section is kept once a record of an earlier section was dropped -/
theorem counts_no_later (size : Int) (m : TMsg R) :
    ((truncCounts lenf st0 size m).a.2.1 < m.answer.length →
        (truncCounts lenf st0 size m).n.2.1 = 0 ∧ (truncCounts lenf st0 size m).e.2.1 = 0)
    ∧ ((truncCounts lenf st0 size m).n.2.1 < m.ns.length → (truncCounts lenf st0 size m).e.2.1 = 0) := by
  simp only [truncCounts]
  generalize lenFold lenf m.question 12 st0 = q
  by_cases h0 : (q.1 : Int) < size
  · simp only [h0, ↓reduceIte]
    have cA := loop_cut_size lenf size m.answer q.1 q.2 0
    generalize truncateLoop lenf size m.answer q.1 q.2 0 = A at cA ⊢
    simp only [Nat.zero_add] at cA
    constructor
    · intro hcut
      have hl : A.1 = size := cA hcut
      simp [hl]
    · by_cases h1 : A.1 < size
      · simp only [h1, ↓reduceIte]
        have cN := loop_cut_size lenf size m.ns A.1.toNat A.2.2 0
        generalize truncateLoop lenf size m.ns A.1.toNat A.2.2 0 = N at cN ⊢
        simp only [Nat.zero_add] at cN
        intro hcut
        have hl : N.1 = size := cN hcut
        simp [hl]
      · simp [h1]
  · simp [h0]

theorem truncate_no_later (size : Int) (m : TMsg R) :
    ((truncate lenf st0 ulen optLen size m).answer.length < m.answer.length →
        (truncate lenf st0 ulen optLen size m).ns = [] ∧ (truncate lenf st0 ulen optLen size m).extra = [])
    ∧ ((truncate lenf st0 ulen optLen size m).ns.length < m.ns.length →
        (truncate lenf st0 ulen optLen size m).extra = []) := by
  have ⟨ha, hn, he⟩ := counts_le lenf st0 (budget optLen size m) m
  have ⟨h1, h2⟩ := counts_no_later lenf st0 (budget optLen size m) m
  unfold truncate
  split
  · simp
  · simp only [List.length_take]
    constructor
    · intro hcut
      have := h1 (by omega)
      simp [this.1, this.2]
    · intro hcut
      have := h2 (by omega)
      simp [this]

/-! ### the Len of what is kept, over the whole message -/

theorem lenFold_append (xs ys : List R) (l : Nat) (st : σ) :
    lenFold lenf (xs ++ ys) l st = lenFold lenf ys (lenFold lenf xs l st).1 (lenFold lenf xs l st).2 := by
  induction xs generalizing l st with
  | nil => rfl
  | cons x xs ih => simp only [List.cons_append, lenFold]; exact ih _ _

/-- one section: the kept prefix folds to at most `size`; and if the loop reports less than `size`, nothing was
    cut and the loop's length and state are exactly the fold's -/
theorem loop_result (size : Int) (rs : List R) (l : Nat) (st : σ) (i : Nat) (h : (l : Int) ≤ size) :
    ((lenFold lenf (rs.take ((truncateLoop lenf size rs l st i).2.1 - i)) l st).1 : Int) ≤ size ∧
    ((truncateLoop lenf size rs l st i).1 < size →
      (truncateLoop lenf size rs l st i).2.1 - i = rs.length ∧
      (truncateLoop lenf size rs l st i).1 = ((lenFold lenf rs l st).1 : Int) ∧
      (truncateLoop lenf size rs l st i).2.2 = (lenFold lenf rs l st).2) := by
  refine ⟨loop_fold_le lenf size rs l st i h, ?_⟩
  intro hlt
  have hk : (truncateLoop lenf size rs l st i).2.1 = i + rs.length := by
    have hle := loop_kept_le lenf size rs l st i
    by_cases hc : (truncateLoop lenf size rs l st i).2.1 < i + rs.length
    · have := loop_cut_size lenf size rs l st i hc
      omega
    · omega
  have := loop_all_kept lenf size rs l st i hk
  exact ⟨by omega, this.1, this.2⟩

/-- **kept_len_le**: the Len of question + kept answer + kept authority + kept additional records, computed as
    Len computes it (running offset, simulated compression state), is at most the budget -/
theorem kept_len_le (st0 : σ) (size : Int) (m : TMsg R)
    (hq : ((lenFold lenf m.question 12 st0).1 : Int) ≤ size) :
    let c := truncCounts lenf st0 size m
    ((lenFold lenf (m.question ++ m.answer.take c.a.2.1 ++ m.ns.take c.n.2.1 ++ m.extra.take c.e.2.1) 12 st0).1 : Int)
      ≤ size := by
  simp only [truncCounts]
  rw [lenFold_append, lenFold_append, lenFold_append]
  generalize hqd : lenFold lenf m.question 12 st0 = q at hq ⊢
  by_cases h0 : (q.1 : Int) < size
  · simp only [h0, ↓reduceIte]
    obtain ⟨hA1, hA2⟩ := loop_result lenf size m.answer q.1 q.2 0 hq
    simp only [Nat.sub_zero] at hA1 hA2
    by_cases h1 : (truncateLoop lenf size m.answer q.1 q.2 0).1 < size
    · obtain ⟨eA1, eA2, eA3⟩ := hA2 h1
      simp only [h1, ↓reduceIte]
      have hAl : ((truncateLoop lenf size m.answer q.1 q.2 0).1).toNat = (lenFold lenf m.answer q.1 q.2).1 := by
        rw [eA2]; simp
      rw [eA1, List.take_length, hAl, eA3]
      have hA : ((lenFold lenf m.answer q.1 q.2).1 : Int) ≤ size := by rw [← eA2]; omega
      obtain ⟨hN1, hN2⟩ := loop_result lenf size m.ns (lenFold lenf m.answer q.1 q.2).1 (lenFold lenf m.answer q.1 q.2).2 0 hA
      simp only [Nat.sub_zero] at hN1 hN2
      by_cases h2 : (truncateLoop lenf size m.ns (lenFold lenf m.answer q.1 q.2).1 (lenFold lenf m.answer q.1 q.2).2 0).1 < size
      · obtain ⟨eN1, eN2, eN3⟩ := hN2 h2
        simp only [h2, ↓reduceIte]
        have hNl : ((truncateLoop lenf size m.ns (lenFold lenf m.answer q.1 q.2).1 (lenFold lenf m.answer q.1 q.2).2 0).1).toNat
            = (lenFold lenf m.ns (lenFold lenf m.answer q.1 q.2).1 (lenFold lenf m.answer q.1 q.2).2).1 := by
          rw [eN2]; simp
        rw [eN1, List.take_length, hNl, eN3]
        have hN : ((lenFold lenf m.ns (lenFold lenf m.answer q.1 q.2).1 (lenFold lenf m.answer q.1 q.2).2).1 : Int) ≤ size := by
          rw [← eN2]; omega
        have := (loop_result lenf size m.extra
          (lenFold lenf m.ns (lenFold lenf m.answer q.1 q.2).1 (lenFold lenf m.answer q.1 q.2).2).1
          (lenFold lenf m.ns (lenFold lenf m.answer q.1 q.2).1 (lenFold lenf m.answer q.1 q.2).2).2 0 hN).1
        simpa using this
      · simp only [h2, ↓reduceIte, List.take_zero, lenFold]
        exact hN1
    · simp only [h1, ↓reduceIte, List.take_zero, lenFold]
      exact hA1
  · simp only [h0, ↓reduceIte, List.take_zero, lenFold]
    exact hq

end Dns.C09
