/-
  DnsModel.Canon — dnssec.go rawSignatureData / packSigWire: the octets an RRSIG signs.
  Records are given with RDATA already in canonical form (embedded names of the RFC 4034 §6.2 types
  lower-cased; that step is a per-type switch in the code and is checked by the correspondence).
-/
import DnsModel.Basic
import DnsModel.Name
namespace Dns

structure CRec where
  owner : List Bytes
  typ : Nat
  cls : Nat
  ttl : Nat
  rdata : Bytes
deriving Repr, DecidableEq

/-- `bytes.Compare(a, b) <= 0` -/
def bytesLE : Bytes → Bytes → Bool
  | [], _ => true
  | _ :: _, [] => false
  | a :: as, b :: bs => if a.toNat < b.toNat then true else if b.toNat < a.toNat then false else bytesLE as bs

/-- owner in canonical form: wildcard replacement by `Labels`, then lower case -/
def canonOwner (labels : Nat) (o : List Bytes) : List Bytes :=
  (if o.length > labels then [42] :: o.drop (o.length - labels) else o).map lowerAll

def rrCanonWire (origTtl labels : Nat) (r : CRec) : Bytes :=
  wireOf (canonOwner labels r.owner) ++ beBytes 2 r.typ ++ beBytes 2 r.cls ++ beBytes 4 origTtl
    ++ beBytes 2 r.rdata.length ++ r.rdata

/-- drop a record equal to its predecessor (`bytes.Equal(wire, wires[i-1])`) -/
def dedupAdj : List (Bytes × Bytes) → List (Bytes × Bytes)
  | [] => []
  | [a] => [a]
  | a :: b :: rest => if a.2 = b.2 then dedupAdj (b :: rest) else a :: dedupAdj (b :: rest)

/-- `rawSignatureData`: pack every record in canonical form, sort by RDATA, drop repeated records -/
def rawSignatureData (origTtl labels : Nat) (rs : List CRec) : Bytes :=
  let wires := rs.map fun r => (r.rdata, rrCanonWire origTtl labels r)
  let sorted := wires.mergeSort (fun a b => bytesLE a.1 b.1)
  (dedupAdj sorted).flatMap (·.2)

/-- the `Labels` field `RRSIG.Sign` computes: `CountLabel(owner)`, one less when the owner's text starts with `*` -/
def signLabels (owner : List Bytes) : Nat :=
  match owner with
  | (42 :: _) :: _ => owner.length - 1
  | _ => owner.length

structure SigFields where
  typeCovered : Nat
  algorithm : Nat
  labels : Nat
  origTtl : Nat
  expiration : Nat
  inception : Nat
  keyTag : Nat
  signer : List Bytes
deriving Repr

/-- `packSigWire`: the RRSIG RDATA without the signature, signer name in canonical form -/
def sigPrefix (s : SigFields) : Bytes :=
  beBytes 2 s.typeCovered ++ beBytes 1 s.algorithm ++ beBytes 1 s.labels ++ beBytes 4 s.origTtl
    ++ beBytes 4 s.expiration ++ beBytes 4 s.inception ++ beBytes 2 s.keyTag ++ wireOf (s.signer.map lowerAll)

def signedData (s : SigFields) (rs : List CRec) : Bytes :=
  sigPrefix s ++ rawSignatureData s.origTtl s.labels rs

end Dns
