/-
  C05 (TXT family, end to end at the text level) — for every list of character-strings (each up to 255 octets, any
  octets), the RDATA text the library prints (`sprintTxt`) is read back by the lexer and `endingToTxtSlice` as exactly
  the strings it was printed from: TXT, SPF, AVC, NINFO and RESINFO records survive text for all values.
-/
import DnsModel.TxtParse
import DnsProofs.C05Lex
namespace Dns.C05T
open Dns Dns.Lex Dns.TxtParse Dns.C07 Dns.C06T Dns.C05L

/-! ### counting unescaped octets in an escaped string -/

theorem chunk_facts : ∀ b : Byte,
    (txtEscapeByte b = [b] ∧ b ≠ 92) ∨ (txtEscapeByte b = [92, b] ∧ isDigit b = false) ∨
    ((txtEscapeByte b).length = 4 ∧ (txtEscapeByte b).head? = some 92 ∧ isDDD (txtEscapeByte b).tail = true) := by
  apply C07.forall_byte; decide +kernel

theorem txtEscape_cons (b : Byte) (bs : Bytes) : txtEscape (b :: bs) = txtEscapeByte b ++ txtEscape bs := by
  simp [txtEscape]

theorem isDDD_append (a b c : Byte) (t : Bytes) : isDDD (a :: b :: c :: t) = isDDD [a, b, c] := by
  simp [isDDD]

/-- one octet of the original string = one step of `escapedStringOffset` -/
theorem aux_step (b : Byte) (t : Bytes) (f cur i d : Nat) :
    escOffsetAux (f + 1) (txtEscapeByte b ++ t) cur i d =
      if cur + 1 ≥ d then some (some (i + (txtEscapeByte b).length))
      else escOffsetAux f t (cur + 1) (i + (txtEscapeByte b).length) d := by
  rcases chunk_facts b with ⟨h, hb⟩ | ⟨h, hd⟩ | ⟨hl, hh, hddd⟩
  · rw [h]
    have : (b != 92) = true := by simpa using hb
    simp [escOffsetAux, this]
  · rw [h]
    have hdd : isDDD (b :: t) = false := by
      cases t with
      | nil => rfl
      | cons x t => cases t with
        | nil => rfl
        | cons y t => simp [isDDD, hd]
    simp [escOffsetAux, hdd]
  · match hx : txtEscapeByte b, hl, hh, hddd with
    | [c, d1, d2, d3], _, hh, hddd =>
      simp only [List.head?_cons, Option.some.injEq] at hh
      subst hh
      simp only [List.tail_cons] at hddd
      have h1 : isDDD (d1 :: d2 :: d3 :: t) = true := by rw [isDDD_append]; exact hddd
      simp [escOffsetAux, h1]

/-- walking over an escaped string counts its octets one by one -/
theorem escOffsetAux_escape (bs : Bytes) (fuel cur i desired : Nat) (hf : (txtEscape bs).length < fuel)
    (hc : cur < desired) :
    escOffsetAux fuel (txtEscape bs) cur i desired =
      if cur + bs.length ≥ desired then some (some (i + (txtEscape (bs.take (desired - cur))).length)) else some none := by
  induction bs generalizing fuel cur i with
  | nil =>
    cases fuel with
    | zero => simp at hf
    | succ f =>
      have : ¬ cur + 0 ≥ desired := by omega
      simp [txtEscape, escOffsetAux, this, hc]
  | cons b bs ih =>
    cases fuel with
    | zero => simp at hf
    | succ f =>
      rw [txtEscape_cons, aux_step]
      rw [txtEscape_cons, List.length_append] at hf
      have hpos : 1 ≤ (txtEscapeByte b).length := by
        rcases chunk_facts b with ⟨h, _⟩ | ⟨h, _⟩ | ⟨hl, _, _⟩ <;> simp [*]
      by_cases h1 : cur + 1 ≥ desired
      · have hd : desired - cur = 1 := by omega
        have h2 : cur + (b :: bs).length ≥ desired := by simp; omega
        simp [h1, hd, txtEscape]
        omega
      · simp only [h1, ↓reduceIte]
        rw [ih f (cur + 1) (i + (txtEscapeByte b).length) (by omega) (by omega)]
        have hd : desired - cur = (desired - (cur + 1)) + 1 := by omega
        by_cases h3 : cur + 1 + bs.length ≥ desired
        · have h4 : cur + (b :: bs).length ≥ desired := by simp; omega
          simp only [h3, ↓reduceIte, h4]
          rw [hd, List.take_succ_cons, txtEscape_cons, List.length_append]
          congr 2
          omega
        · have h4 : ¬ cur + (b :: bs).length ≥ desired := by simp; omega
          simp only [h3, ↓reduceIte, h4]

/-- a string of at most 255 octets, escaped, is one chunk -/
theorem chunk255_escape (bs : Bytes) (hl : bs.length ≤ 255) (fuel : Nat) (hf : 0 < fuel) :
    chunk255 fuel (txtEscape bs) = some [txtEscape bs] := by
  cases fuel with
  | zero => omega
  | succ f =>
    unfold chunk255 escOffset
    simp only [show (255 : Nat) ≠ 0 from by omega, ↓reduceIte]
    rw [escOffsetAux_escape bs _ 0 0 255 (by omega) (by omega)]
    by_cases h : 0 + bs.length ≥ 255
    · have hb : bs.take (255 - 0) = bs := List.take_of_length_le (by omega)
      have h' : bs.length ≥ 255 := by omega
      simp [h', hb]
    · have h' : ¬ bs.length ≥ 255 := by omega
      simp [h']

/-! ### the printed RDATA and its tokens -/

/-- the strings between quotes, one blank between them: what `sprintTxt` prints for strings that came from the wire -/
def quotedList : List Bytes → Bytes
  | [] => []
  | [bs] => 34 :: (txtEscape bs ++ [34])
  | bs :: rest => 34 :: (txtEscape bs ++ 34 :: 32 :: quotedList rest)

theorem sprintTxt_wire (bss : List Bytes) : sprintTxt (bss.map txtEscape) = quotedList bss := by
  induction bss with
  | nil => rfl
  | cons bs rest ih =>
    cases rest with
    | nil => simp [sprintTxt, quotedList, C05.sprint_fixed_point]
    | cons b2 r2 =>
      simp only [List.map_cons] at ih ⊢
      simp only [sprintTxt, quotedList, C05.sprint_fixed_point, ih]
      simp

theorem txtEscape_nil_iff (bs : Bytes) : txtEscape bs = [] ↔ bs = [] := by
  constructor
  · intro h
    cases bs with
    | nil => rfl
    | cons b bs =>
      rw [txtEscape_cons] at h
      have hb : ∀ b : Byte, txtEscapeByte b ≠ [] := by apply C07.forall_byte; decide +kernel
      exact absurd (List.append_eq_nil_iff.mp h).1 (hb b)
  · intro h; subst h; rfl

/-- one quoted string in front of more tokens: `endingToTxtSlice` takes it as one string -/
theorem slice_one (zl : St) (bs rest : Bytes) (o r sp : Bool) (hL : LS zl o r sp) (hl : bs.length ≤ 255)
    (e : Bool) (acc : List Bytes) :
    ∃ zl', LS zl' o r false ∧
      txtSlice (stream zl (34 :: (txtEscape bs ++ 34 :: rest))) false e acc =
        txtSlice (stream zl' rest) false true (acc ++ [txtEscape bs]) := by
  obtain ⟨h1, h2⟩ := txtEscape_ok bs
  obtain ⟨q1, mid, q2, zl', a1, a2, a3, a4, a5, a6, a7, a8⟩ := stream_quoted zl (txtEscape bs) rest o r sp hL h1 h2
  refine ⟨zl', a5, ?_⟩
  rw [a6]
  have hq1 : ∀ ts acc', txtSlice (q1 :: ts) false e acc' = txtSlice ts true true acc' := by
    intro ts acc'
    simp [txtSlice, a1, a2, zQuote, zNewline, zString, zBlank]
  rw [hq1]
  by_cases hbs : txtEscape bs = []
  · rw [a7 hbs, hbs]
    simp [txtSlice, a3, a4, zQuote, zNewline, zString, zBlank]
  · obtain ⟨t, ht, tv, tt, te⟩ := a8 hbs
    rw [ht]
    have hck : chunk255 ((txtEscape bs).length + 1) (txtEscape bs) = some [txtEscape bs] :=
      chunk255_escape bs hl _ (by omega)
    simp [txtSlice, a3, a4, tv, te, hck, tt, zQuote, zNewline, zString, zBlank]

/-- **the TXT family**: the RDATA text printed for any list of character-strings is read back as those strings -/
theorem slice_quotedList (zl : St) (bss : List Bytes) (rest : Bytes) (o r sp : Bool) (hL : LS zl o r sp)
    (hl : ∀ bs ∈ bss, bs.length ≤ 255) (e : Bool) (acc : List Bytes) :
    txtSlice (stream zl (quotedList bss ++ 10 :: rest)) false e acc = some (acc ++ bss.map txtEscape) := by
  induction bss generalizing zl o sp e acc with
  | nil =>
    obtain ⟨b, zl', hs, hbv, hbe, _⟩ := stream_nl_first zl rest o r sp hL
    simp only [quotedList, List.nil_append, List.map_nil, List.append_nil]
    rw [hs]
    simp [txtSlice, hbv]
  | cons bs rest' ih =>
    cases rest' with
    | nil =>
      obtain ⟨zl', hL', h⟩ := slice_one zl bs (10 :: rest) o r sp hL (hl bs (by simp)) e acc
      simp only [quotedList, List.cons_append, List.append_assoc, List.singleton_append, List.map_cons, List.map_nil,
        List.nil_append]
      rw [h]
      obtain ⟨b, zl2, hs, hbv, hbe, _⟩ := stream_nl_first zl' rest o r false hL'
      rw [hs]
      simp [txtSlice, hbv]
    | cons b2 r2 =>
      obtain ⟨zl', hL', h⟩ := slice_one zl bs (32 :: (quotedList (b2 :: r2) ++ 10 :: rest)) o r sp hL (hl bs (by simp)) e acc
      have hq : quotedList (bs :: b2 :: r2) ++ 10 :: rest =
          34 :: (txtEscape bs ++ 34 :: (32 :: (quotedList (b2 :: r2) ++ 10 :: rest))) := by
        simp [quotedList, List.append_assoc]
      rw [hq, h]
      obtain ⟨b, zl2, hs, hbv, hbe, hL2⟩ := stream_blank_first zl' (quotedList (b2 :: r2) ++ 10 :: rest) o r hL'
      rw [hs]
      have hb : ∀ ts acc', txtSlice (b :: ts) false true acc' = txtSlice ts false true acc' := by
        intro ts acc'
        simp [txtSlice, hbv, hbe, zQuote, zNewline, zString, zBlank]
      rw [hb, ih zl2 false true hL2 (fun x hx => hl x (by simp [hx])) true (acc ++ [txtEscape bs])]
      simp

theorem quotedList_head (bss : List Bytes) (hne : bss ≠ []) : ∃ bs tail, quotedList bss = 34 :: (txtEscape bs ++ 34 :: tail) := by
  cases bss with
  | nil => exact absurd rfl hne
  | cons bs rest =>
    cases rest with
    | nil => exact ⟨bs, [], rfl⟩
    | cons b2 r2 => exact ⟨bs, 32 :: quotedList (b2 :: r2), rfl⟩

/-- **TXT, SPF, AVC, NINFO, RESINFO through text**: behind the type and its blank, the RDATA text that `sprintTxt` prints
    for character-strings that came from the wire — any number of strings, each any octets up to 255 — is read by the
    lexer and `endingToTxtSlice` as exactly the in-memory strings it was printed from -/
theorem txt_family_text_roundtrip (zl : St) (bss : List Bytes) (rest : Bytes) (hL : LS zl false true true)
    (hl : ∀ bs ∈ bss, bs.length ≤ 255) :
    endingToTxtSlice (stream zl (sprintTxt (bss.map txtEscape) ++ 10 :: rest)) = some (bss.map txtEscape) := by
  rw [sprintTxt_wire]
  have hs := slice_quotedList zl bss rest false true true hL hl false []
  simp only [List.nil_append] at hs
  by_cases hne : bss = []
  · subst hne
    obtain ⟨b, zl', hst, hbv, hbe, _⟩ := stream_nl_first zl rest false true true hL
    simp only [quotedList, List.nil_append] at hs ⊢
    rw [hst] at hs ⊢
    simp only [endingToTxtSlice, hbe, Bool.false_eq_true, ↓reduceIte]
    exact hs
  · obtain ⟨bs, tail, hq⟩ := quotedList_head bss hne
    obtain ⟨h1, h2⟩ := txtEscape_ok bs
    rw [hq] at hs ⊢
    simp only [List.cons_append, List.append_assoc] at hs ⊢
    obtain ⟨q1, mid, q2, zl', a1, a2, a3, a4, a5, a6, a7, a8⟩ :=
      stream_quoted zl (txtEscape bs) (tail ++ 10 :: rest) false true true hL h1 h2
    rw [a6] at hs ⊢
    simp only [endingToTxtSlice, a2, Bool.false_eq_true, ↓reduceIte]
    exact hs

end Dns.C05T
