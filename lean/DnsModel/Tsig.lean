/-
  DnsModel.Tsig — tsig.go: the digest input (tsigBuffer) and the time window of tsigVerify.
-/
import DnsModel.Basic
import DnsModel.Name
namespace Dns

structure TsigVars where
  keyName : Bytes        -- presentation form, as in rr.Hdr.Name
  ttl : Nat
  algorithm : Bytes      -- presentation form
  timeSigned : Nat
  fudge : Nat
  error : Nat
  otherLen : Nat         -- the OtherLen field as the record holds it (a record cut right behind it has no data)
  otherData : Bytes      -- decoded octets
deriving Repr

def outBytes : Outcome Bytes → Bytes
  | .ok b => b
  | _ => []

def tsigMacPart (requestMAC : Bytes) : Bytes :=
  if requestMAC.isEmpty then [] else beBytes 2 requestMAC.length ++ requestMAC

def tsigMsgPart (msg : Bytes) (origId : Nat) : Bytes := beBytes 2 origId ++ msg.drop 2

def tsigVarPart (v : TsigVars) (timersOnly : Bool) : Bytes :=
  if timersOnly then beBytes 6 v.timeSigned ++ beBytes 2 v.fudge
  else outBytes (packName (canonicalName v.keyName)) ++ beBytes 2 255 ++ beBytes 4 v.ttl
    ++ outBytes (packName (canonicalName v.algorithm)) ++ beBytes 6 v.timeSigned ++ beBytes 2 v.fudge
    ++ beBytes 2 v.error ++ beBytes 2 v.otherLen ++ v.otherData

/-- `tsigBuffer`: request MAC (length-prefixed) ‖ message with the ID replaced by the original ID ‖
    TSIG variables (RFC 8945 §4.3.3) or, for subsequent envelopes, the timers only (§5.3.1) -/
def tsigDigest (msg : Bytes) (origId : Nat) (v : TsigVars) (requestMAC : Bytes) (timersOnly : Bool) : Bytes :=
  tsigMacPart requestMAC ++ tsigMsgPart msg origId ++ tsigVarPart v timersOnly

/-- the fudge test of `tsigVerify` on uint64 values: `ti := now - ts; if now < ts { ti = ts - now }` -/
def tsigTimeOk (now timeSigned fudge : Nat) : Bool :=
  let ti := if now < timeSigned then timeSigned - now else now - timeSigned
  !(fudge < ti)

end Dns
