/-
  DnsModel.Truncate — msg_truncate.go (Msg.Truncate, truncateLoop), generic in the record type `R`,
  the state `σ` of Len's simulated compression and the length function `lenf` (`r.len(l, compression)`).
-/
import DnsModel.Basic
namespace Dns

variable {R σ : Type}

/-- `truncateLoop(rrs, size, l, compression)` returning `(l, number kept, state)`.
    `i` counts the records already accepted. -/
def truncateLoop (lenf : σ → Nat → R → Nat × σ) (size : Int) : List R → Nat → σ → Nat → (Int × Nat × σ)
  | [], l, st, i => ((l : Int), i, st)
  | r :: rs, l, st, i =>
    let (n, st') := lenf st l r
    let l' := l + n
    if (l' : Int) > size then (size, i, st')
    else if (l' : Int) = size then ((l' : Int), i + 1, st')
    else truncateLoop lenf size rs l' st' (i + 1)

structure TMsg (R : Type) where
  question : List R
  answer : List R
  ns : List R
  extra : List R          -- without the OPT record
  opt : Option R
  truncated : Bool
  compress : Bool
deriving Repr

/-- fold of `r.len(l, compression)` over a list, as `msgLenWithCompressionMap` does -/
def lenFold (lenf : σ → Nat → R → Nat × σ) : List R → Nat → σ → Nat × σ
  | [], l, st => (l, st)
  | r :: rs, l, st => let (n, st') := lenf st l r; lenFold lenf rs (l + n) st'

/-- RFC 6891: a size below 512 is treated as 512 -/
def effSize (size : Int) : Int := if size < 512 then 512 else size

/-- the budget left for the sections once the OPT record (re-appended at the end) is accounted for -/
def budget (optLen : Nat) (size : Int) (m : TMsg R) : Int :=
  match m.opt with
  | some _ => effSize size - optLen
  | none => effSize size

structure Counts (σ : Type) where
  a : Int × Nat × σ
  n : Int × Nat × σ
  e : Int × Nat × σ

/-- the three guarded `truncateLoop` calls -/
def truncCounts (lenf : σ → Nat → R → Nat × σ) (st0 : σ) (size : Int) (m : TMsg R) : Counts σ :=
  let q := lenFold lenf m.question 12 st0
  let a := if (q.1 : Int) < size then truncateLoop lenf size m.answer q.1 q.2 0 else ((q.1 : Int), 0, q.2)
  let n := if a.1 < size then truncateLoop lenf size m.ns a.1.toNat a.2.2 0 else (a.1, 0, a.2.2)
  let e := if n.1 < size then truncateLoop lenf size m.extra n.1.toNat n.2.2 0 else (n.1, 0, n.2.2)
  ⟨a, n, e⟩

/-- `Truncate(size)` for a message without TSIG. `ulen` is the uncompressed length
    (`msgLenWithCompressionMap(dns, nil)`), `optLen` is `Len(edns0)`, `st0` the empty compression set. -/
def truncate (lenf : σ → Nat → R → Nat × σ) (st0 : σ) (ulen optLen : Nat) (size : Int) (m : TMsg R) : TMsg R :=
  if (ulen : Int) ≤ effSize size then { m with compress := false }
  else
    let c := truncCounts lenf st0 (budget optLen size m) m
    { m with
      compress := true
      truncated := m.truncated || decide (m.answer.length > c.a.2.1) || decide (m.ns.length > c.n.2.1)
        || decide (m.extra.length > c.e.2.1)
      answer := m.answer.take c.a.2.1
      ns := m.ns.take c.n.2.1
      extra := m.extra.take c.e.2.1 }

end Dns
