/-
  C14 — admission policy and the per-message decision of the server.
-/
import DnsModel.Serve
import DnsProofs.C01Hdr
namespace Dns.C14
open Dns

/-- **default_policy_table**: for every header word and all counts, in terms of the decoded header
    (`unpackBits`, the model of setHdr): QR set ⇒ ignore; opcode other than QUERY/NOTIFY ⇒ NOTIMP;
    QDCOUNT ≠ 1 or ANCOUNT > 1 or NSCOUNT > 1 or ARCOUNT > 2 ⇒ FORMERR; else accept. -/
theorem default_policy_table (bits : BitVec 16) (qd an ns ar : Nat) :
    defaultAccept bits qd an ns ar =
      if (unpackBits bits).response then .ignore
      else if (unpackBits bits).opcode ≠ 0 ∧ (unpackBits bits).opcode ≠ 4 then .rejectNotImpl
      else if qd ≠ 1 ∨ an > 1 ∨ ns > 1 ∨ ar > 2 then .reject
      else .accept := by
  unfold defaultAccept unpackBits
  simp only
  generalize (bits &&& 0x8000 != 0) = qr
  generalize ((bits >>> 11) &&& 0xF).toNat = op
  cases qr
  · by_cases h2 : op = 0
    · subst h2
      by_cases a : qd = 1 <;> by_cases b : an > 1 <;> by_cases c : ns > 1 <;> by_cases d : ar > 2 <;> simp [a, b, c, d]
    · by_cases h3 : op = 4
      · subst h3
        by_cases a : qd = 1 <;> by_cases b : an > 1 <;> by_cases c : ns > 1 <;> by_cases d : ar > 2 <;> simp [a, b, c, d]
      · simp [h2, h3]
  · simp

/-- QR set ⇒ never answered -/
theorem response_never_answered (bits : BitVec 16) (qd an ns ar : Nat) (req : MsgHdr) (ok : Bool)
    (h : (unpackBits bits).response = true) :
    serveDecision true (defaultAccept bits qd an ns ar) req ok = .ignored := by
  rw [default_policy_table]; simp [h, serveDecision]

/-- **exactly_once**: the handler is invoked exactly when the header parses, the policy accepts and the
    message decodes; in every other case it is not invoked and the message was ignored by the policy, answered
    by a library reply, or reported to the invalid-message callback. -/
theorem exactly_once (hdrOk : Bool) (a : Action) (req : MsgHdr) (decodeOk : Bool) :
    (serveDecision hdrOk a req decodeOk = .handler ↔ (hdrOk = true ∧ a = .accept ∧ decodeOk = true))
    ∧ (serveDecision hdrOk a req decodeOk ≠ .handler →
        serveDecision hdrOk a req decodeOk = .invalidOnly
        ∨ serveDecision hdrOk a req decodeOk = .ignored
        ∨ ∃ h i, serveDecision hdrOk a req decodeOk = .reply h i) := by
  cases hdrOk <;> cases a <;> cases decodeOk <;> simp [serveDecision]

/-- **reject_reply_shape**: every reply the server constructs itself is a response carrying FORMERR (opcode
    QUERY) or NOTIMP (opcode preserved), with AA and Z clear; undecodable accepted messages are also
    reported to the invalid-message callback. -/
theorem reject_reply_shape (a : Action) (req : MsgHdr) (decodeOk : Bool) (h : MsgHdr) (i : Bool)
    (hs : serveDecision true a req decodeOk = .reply h i) :
    h.response = true ∧ h.authoritative = false ∧ h.zero = false
    ∧ ((h.rcode = 1 ∧ h.opcode = 0) ∨ (h.rcode = 4 ∧ h.opcode = req.opcode ∧ a = .rejectNotImpl))
    ∧ (i = true ↔ a = .accept) := by
  cases a <;> cases decodeOk <;> simp [serveDecision, rejectHdr] at hs <;>
    (obtain ⟨rfl, rfl⟩ := hs; simp)


/-- **reject_reply_keeps**: apart from QR, opcode, AA, Z and RCODE the reply the server builds itself carries the
    request's flag bits (RD, CD, TC, RA, AD) as they came -/
theorem reject_reply_keeps (a : Action) (req : MsgHdr) (decodeOk : Bool) (h : MsgHdr) (i : Bool)
    (hs : serveDecision true a req decodeOk = .reply h i) :
    h.recursionDesired = req.recursionDesired ∧ h.checkingDisabled = req.checkingDisabled
    ∧ h.truncated = req.truncated ∧ h.recursionAvailable = req.recursionAvailable
    ∧ h.authenticatedData = req.authenticatedData := by
  unfold serveDecision at hs
  cases a <;> cases decodeOk <;> simp [rejectHdr] at hs <;>
    (obtain ⟨rfl, rfl⟩ := hs; simp)

/-- **library_reply_is_ignored**: no reply the server constructs itself is ever answered by a server running the
    default policy — whatever its counts, it is dropped without a reply (two servers cannot bounce rejections) -/
theorem library_reply_is_ignored (a : Action) (req : MsgHdr) (decodeOk : Bool) (h : MsgHdr) (i : Bool)
    (ho : req.opcode < 16) (hs : serveDecision true a req decodeOk = .reply h i)
    (qd an ns ar : Nat) (req' : MsgHdr) (ok' : Bool) :
    serveDecision true (defaultAccept (packBits h) qd an ns ar) req' ok' = .ignored := by
  obtain ⟨hr, _, _, hcode, _⟩ := reject_reply_shape a req decodeOk h i hs
  have hlt : h.opcode < 16 ∧ h.rcode < 16 := by
    rcases hcode with ⟨h1, h2⟩ | ⟨h1, h2, _⟩
    · omega
    · omega
  apply response_never_answered
  rw [Dns.C01H.unpackBits_packBits h hlt.1 hlt.2]
  exact hr

/-- non-vacuity: a NOTIFY-like opcode 5 request is answered NOTIMP, and that answer is ignored when sent back -/
example : serveDecision true (defaultAccept (0x2800 : BitVec 16) 1 0 0 0) (unpackBits 0x2800) true
    = .reply (rejectHdr (unpackBits 0x2800) true) false := by decide

end Dns.C14
