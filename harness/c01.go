package main

import (
	"net"
	"bytes"
	"fmt"
	"reflect"
	"strings"

	"github.com/miekg/dns"
)

func init() { props["C01"] = runC01 }

func packRRBytes(rr dns.RR) ([]byte, error) {
	buf := make([]byte, dns.Len(rr)+512)
	off, err := dns.PackRR(rr, buf, 0, nil, false)
	if err != nil {
		return nil, err
	}
	return buf[:off], nil
}

// c01RR: one generated record through unpack -> field check -> repack -> unpack.
func c01RR(c *Ctx, stream string, g *GenRR) {
	tn := dns.Type(g.Type).String()
	in := fmt.Sprintf("type=%s wire=%s", tn, hx(g.Wire))
	nt := len(g.Rdata) > 0
	out := guard(func() string {
		rr, off, err := dns.UnpackRR(g.Wire, 0)
		if err != nil {
			return "unpack-error: " + err.Error()
		}
		if off != len(g.Wire) {
			return fmt.Sprintf("unpack-offset %d want %d", off, len(g.Wire))
		}
		if d := checkFields(rr, g); d != "" {
			return "field-mismatch " + d
		}
		if d := tlvFields(rr, g.Rdata); d != "" {
			return "tlv-field-mismatch " + d
		}
		w2, err := packRRBytes(rr)
		if err != nil {
			return "repack-error: " + err.Error()
		}
		if !bytes.Equal(w2, g.Wire) {
			return "repack-differs " + hx(w2)
		}
		rr2, _, err := dns.UnpackRR(w2, 0)
		if err != nil {
			return "reunpack-error: " + err.Error()
		}
		if !reflect.DeepEqual(rr, rr2) {
			return "reunpack-differs " + rr2.String()
		}
		return "ok"
	})
	c.Hit("rr:" + tn)
	c.Pred(stream, "rr-roundtrip:"+tn, in, out == "ok", out, "ok", nt)
}

// hdrFields renders the Msg header as the driver does.
func hdrFields(m *dns.Msg) string {
	return strings.Join([]string{b01(m.Response), fmt.Sprint(m.Opcode), b01(m.Authoritative), b01(m.Truncated),
		b01(m.RecursionDesired), b01(m.RecursionAvailable), b01(m.Zero), b01(m.AuthenticatedData),
		b01(m.CheckingDisabled), fmt.Sprint(m.Rcode)}, " ")
}

func buildMsgWire(id uint16, bits uint16, qs [][]byte, an, ns, ex []*GenRR) []byte {
	var w []byte
	w = putUint(w, 2, uint64(id))
	w = putUint(w, 2, uint64(bits))
	w = putUint(w, 2, uint64(len(qs)))
	w = putUint(w, 2, uint64(len(an)))
	w = putUint(w, 2, uint64(len(ns)))
	w = putUint(w, 2, uint64(len(ex)))
	for _, q := range qs {
		w = append(w, q...)
	}
	for _, s := range [][]*GenRR{an, ns, ex} {
		for _, g := range s {
			w = append(w, g.Wire...)
		}
	}
	return w
}

func genQuestionWire(r *Rng, mode int) []byte {
	w := wireOf(genLabels(r, mode))
	w = putUint(w, 2, genUint(r, 2))
	return putUint(w, 2, genUint(r, 2))
}

func genOPT(r *Rng) *GenRR {
	// OPT: owner root, class = UDP size, TTL = ext-rcode | version | DO+Z
	g := &GenRR{Type: dns.TypeOPT, Class: uint16(genUint(r, 2)), TTL: uint32(genUint(r, 4)) & 0x00FFFFFF}
	if r.Chance(20) {
		g.TTL |= uint32(r.Intn(256)) << 24
	}
	g.Rdata = genOptions(r)
	g.Fields = map[string]interface{}{"Option": g.Rdata}
	g.Kinds = map[string]string{"Option": "tlv"}
	g.Wire = assembleRR(nil, g.Type, g.Class, g.TTL, g.Rdata)
	return g
}

// codecLine renders the generated field values in plan order for the Lean codec algebra; ok=false when the type's
// body uses a primitive outside the algebra.
func codecLine(pl *specPlan, g *GenRR) (string, bool) {
	covered := map[string]bool{"unpackUint8": true, "unpackUint16": true, "unpackUint32": true, "unpackUint48": true, "unpackUint64": true,
		"unpackDataA": true, "unpackDataAAAA": true, "unpackString": true, "UnpackDomainName": true, "unpackStringHex": true,
		"unpackStringBase64": true, "unpackStringBase32": true, "unpackStringAny": true, "unpackStringOctet": true, "unpackStringTxt": true,
		"unpackDataNsec": true, "unpackIPSECGateway": true, "unpackDataDomainNames": true,
		"unpackDataOpt": true, "unpackDataSVCB": true, "unpackDataApl": true}
	var out []string
	for _, s := range pl.Steps {
		if s.Codec == "earlyexit" {
			continue
		}
		if !covered[s.Codec] || (s.Cond != "" && s.Cond != "rr.Salt!=\"-\"") {
			return "", false
		}
		v := g.Fields[s.Field]
		if s.Codec == "unpackIPSECGateway" {
			// one step, two struct fields: the address (types 1, 2), the host name (type 3) or nothing
			if a, ok := g.Fields["GatewayAddr"]; ok {
				out = append(out, "b:"+hx(a.([]byte)))
			} else if h, ok := g.Fields["GatewayHost"]; ok {
				out = append(out, "t:"+hxs(presentLabels(h.([][]byte))))
			} else {
				out = append(out, "b:-")
			}
			continue
		}
		hexOrDash := func(b []byte) string {
			if len(b) == 0 {
				return "-"
			}
			return hx(b)
		}
		switch g.Kinds[s.Field] {
		case "uint":
			out = append(out, fmt.Sprintf("n:%d", v.(uint64)))
		case "name":
			out = append(out, "t:"+hxs(presentLabels(v.([][]byte))))
		case "txt":
			ss := v.([][]byte)
			if len(ss) == 0 {
				out = append(out, "s:-")
				break
			}
			var parts []string
			for _, x := range ss {
				if len(x) == 0 {
					parts = append(parts, "~")
				} else {
					parts = append(parts, hx(x))
				}
			}
			out = append(out, "s:"+strings.Join(parts, ","))
		case "names":
			all := v.([][][]byte)
			if len(all) == 0 {
				out = append(out, "m:-")
				break
			}
			var parts []string
			for _, ls := range all {
				parts = append(parts, hxs(presentLabels(ls)))
			}
			out = append(out, "m:"+strings.Join(parts, ","))
		case "tlv":
			// (code, value octets) pairs read off the generated octets
			seg := v.([]byte)
			var parts []string
			for len(seg) >= 4 {
				n := int(seg[2])<<8 | int(seg[3])
				d := "~"
				if n > 0 {
					d = hx(seg[4 : 4+n])
				}
				parts = append(parts, fmt.Sprintf("%d=%s", int(seg[0])<<8|int(seg[1]), d))
				seg = seg[4+n:]
			}
			if len(parts) == 0 {
				out = append(out, "k:-")
			} else {
				out = append(out, "k:"+strings.Join(parts, ","))
			}
		case "apl":
			seg := v.([]byte)
			var parts []string
			for len(seg) >= 4 {
				full := 4
				if seg[1] == 2 {
					full = 16
				}
				n := int(seg[3] & 0x7f)
				parts = append(parts, fmt.Sprintf("%d/%d/%s", seg[2], seg[3]>>7, hx(padTo(seg[4:4+n], full))))
				seg = seg[4+n:]
			}
			if len(parts) == 0 {
				out = append(out, "p:-")
			} else {
				out = append(out, "p:"+strings.Join(parts, ","))
			}
		case "nsec":
			ts := v.([]uint16)
			if len(ts) == 0 {
				out = append(out, "y:-")
				break
			}
			var parts []string
			for _, x := range ts {
				parts = append(parts, fmt.Sprint(x))
			}
			out = append(out, "y:"+strings.Join(parts, ","))
		default: // str, octet, hex, b64, b32, any, ip
			out = append(out, "b:"+hexOrDash(v.([]byte)))
		}
	}
	return strings.Join(out, " "), true
}

// c01Codec: the regenerated pack / unpack bodies interpreted in Lean against the real record code, on wire-level values.
func c01Codec(c *Ctx, g *GenRR) {
	t := loadSpec()
	pl := t.byCode[g.Type]
	if pl == nil {
		return
	}
	vals, ok := codecLine(pl, g)
	if !ok {
		c.Hit("codec:uncovered:" + pl.Type)
		return
	}
	rr, off, err := dns.UnpackRR(g.Wire, 0)
	if err != nil || off != len(g.Wire) {
		return
	}
	fixedTailChecks(c, "codec", g, rr)
	rdHex := "-"
	if len(g.Rdata) > 0 {
		rdHex = hx(g.Rdata)
	}
	// unpack body: the model's values = the generator's values = (checkFields) the real decoder's values
	implVals := vals
	if d := checkFields(rr, g); d != "" {
		implVals = "field-mismatch " + d
	}
	c.OpK("codec", fmt.Sprintf("codec.unpack %s %s", pl.Type, rdHex), strings.TrimSpace(implVals), len(g.Rdata) > 0, "codec-unpack:"+pl.Type)
	// pack body: the model's octets = what the real packer writes for the decoded record
	w2, err := packRRBytes(rr)
	implRd := "pack-error"
	if err == nil && len(w2) >= len(g.Wire)-len(g.Rdata) {
		implRd = "-"
		if rd := w2[len(g.Wire)-len(g.Rdata):]; len(rd) > 0 {
			implRd = hx(rd)
		}
	}
	c.OpK("codec", strings.TrimSpace(fmt.Sprintf("codec.pack %s %s", pl.Type, vals)), implRd, len(g.Rdata) > 0, "codec-pack:"+pl.Type)
	c.Hit("codec:covered:" + pl.Type)
}


// c05Generic: the RFC 3597 generic form on the model (lean/DnsModel/Generic.lean): what (*RFC3597).String prints for the
// RDATA octets, and what a record of a known type written in the generic form is read back as — parsed as RFC3597, the
// hex text decoded, the type's own unpack body run on the octets — against the real parser; also with the hex text cut
// into chunks, in upper case, with a wrong length and with a digit damaged.
func c05Generic(c *Ctx, g *GenRR) {
	t := loadSpec()
	pl := t.byCode[g.Type]
	if pl == nil || len(g.Rdata) == 0 {
		return
	}
	vals, ok := codecLine(pl, g)
	if !ok {
		return
	}
	h := hx(g.Rdata)
	gen := &dns.RFC3597{Hdr: dns.RR_Header{Name: "g.example.", Rrtype: g.Type, Class: 1, Ttl: 60}, Rdata: h}
	f := strings.SplitN(gen.String(), "\t", 5)
	if len(f) == 5 {
		c.OpK("generic", "generic.print "+h, hexOrDash([]byte(f[4])), true, "generic-print")
	}
	tn := dns.Type(g.Type).String()
	if strings.HasPrefix(tn, "TYPE") {
		return
	}
	r := c.R
	forms := []string{fmt.Sprintf("\\# %d %s", len(g.Rdata), h)}
	if len(h) > 4 {
		k := 2 * (1 + r.Intn(len(h)/2-1))
		forms = append(forms, fmt.Sprintf("\\# %d %s %s", len(g.Rdata), h[:k], h[k:]), fmt.Sprintf("\\# %d ( %s\n %s )", len(g.Rdata), h[:k], strings.ToUpper(h[k:])))
	}
	forms = append(forms, fmt.Sprintf("\\# %d %s", len(g.Rdata)+1, h), fmt.Sprintf("\\# %d %sx", len(g.Rdata), h[:len(h)-1]), fmt.Sprintf("\\#  %d  %s ; c", len(g.Rdata), h))
	for i, form := range forms {
		line := fmt.Sprintf("%s\t%d\tCLASS%d\t%s\t%s\n", presentLabels(g.Owner), g.TTL, g.Class, tn, form)
		impl := guard(func() string {
			zp := dns.NewZoneParser(strings.NewReader(line), "", "")
			rr, ok := zp.Next()
			if !ok || rr == nil || zp.Err() != nil {
				return "none"
			}
			if d := checkFields(rr, g); d != "" {
				return "field-mismatch " + d
			}
			return strings.TrimSpace(vals)
		})
		c.OpK("generic", fmt.Sprintf("generic.parse %s %s", pl.Type, hxs(line)), impl, true, fmt.Sprintf("generic-parse:%d:%s", i, pl.Type))
	}
}

func runC01(c *Ctx) {
	r := c.R
	t := loadSpec()
	c.Res.Rule = "records built at wire level from the committed RFC layout table (every registered type, unknown types, boundary-biased field values), whole messages over all 2^16 flag words, RCODE 0..4095 x OPT; a case is non-trivial when its RDATA is non-empty / message has at least one record; distinct by content"
	types := t.wireTypes()
	// 1. every registered type, many values
	per := c.Scale(150, 3000)
	for _, typ := range types {
		for i := 0; i < per; i++ {
			g := genRR(r, typ, r.Intn(3), r.Chance(40))
			c01RR(c, "rr", g)
			if i%3 == 0 {
				c01Codec(c, g)
			}
		}
	}
	// OPT on its own (owner root, class and TTL carry the EDNS0 header fields)
	for i := 0; i < per; i++ {
		g := genOPT(r)
		c01RR(c, "rr", g)
		c01Codec(c, g)
	}
	// the value codecs of EDNS0 options and SVCB parameters: Lean model vs edns.go / svcb.go, well-formed and damaged
	optStream(c, c.Scale(400, 8000))
	// unknown / private-range types as RFC 3597
	for i := 0; i < c.Scale(500, 10000); i++ {
		typ := uint16(r.Intn(65536))
		if _, known := t.byCode[typ]; known || typ == dns.TypeOPT || typ == dns.TypeANY || typ == dns.TypeNXNAME {
			continue
		}
		c01RR(c, "rfc3597", genRR(r, typ, r.Intn(3), false))
	}
	// 2. all 2^16 header words: impl vs model (setHdr), and pack(unpack) restores the word
	for w := 0; w < 65536; w++ {
		wire := buildMsgWire(uint16(w*7+1), uint16(w), nil, nil, nil, nil)
		var m dns.Msg
		out := guard(func() string {
			if err := m.Unpack(wire); err != nil {
				return "err"
			}
			return hdrFields(&m)
		})
		c.Op("header", fmt.Sprintf("hdr.unpack %d", w), out, w&0x7FF0 != 0)
		back := guard(func() string {
			b, err := m.Pack()
			if err != nil {
				return "err"
			}
			return hx(b)
		})
		c.Pred("header", "header-repack", fmt.Sprint(w), back == hx(wire), back, hx(wire), true)
		if w%257 == 0 {
			c.Op("header", "hdr.pack "+out, guard(func() string {
				b, err := m.Pack()
				if err != nil || len(b) < 4 {
					return "err"
				}
				return fmt.Sprint(int(b[2])<<8 | int(b[3]))
			}), true)
		}
	}
	// 3. RCODE 0..4095 (+ out of range) with and without OPT
	for rc := -1; rc <= 4100; rc++ {
		for _, withOpt := range []bool{false, true} {
			m := new(dns.Msg)
			m.SetQuestion("example.org.", dns.TypeA)
			m.Rcode = rc
			if withOpt {
				m.SetEdns0(1232, rc%2 == 0)
			}
			out := guard(func() string {
				b, err := m.Pack()
				if err != nil {
					return "err"
				}
				nib := int(b[3] & 0xF)
				top := "-"
				if withOpt {
					// OPT is the last RR: root, type, class, ttl(4), rdlen
					top = fmt.Sprint(int(b[len(b)-6]))
				}
				var m2 dns.Msg
				if err := m2.Unpack(b); err != nil {
					return "unpack-err"
				}
				if m2.Rcode != rc {
					return fmt.Sprintf("rcode-lost %d", m2.Rcode)
				}
				return fmt.Sprintf("ok %d %s", nib, top)
			})
			if rc >= 0 {
				c.Op("rcode", fmt.Sprintf("rcode.split %d %s", rc, b01(withOpt)), out, rc > 15)
			} else {
				c.Pred("rcode", "negative-rcode", fmt.Sprint(rc), out == "err", out, "err", true)
			}
		}
	}
	// 3b. RCODE histories: the same message (and its OPT) packed again with another RCODE,
	//     directly and after a round trip through the wire
	rcs := []int{0, 1, 3, 15, 16, 17, 23, 255, 256, 2748, 4095}
	for _, r1 := range rcs {
		for _, r2 := range rcs {
			for _, via := range []string{"reuse", "wire"} {
				m := new(dns.Msg)
				m.SetQuestion("example.org.", dns.TypeA)
				m.SetEdns0(4096, true)
				m.Rcode = r1
				out := guard(func() string {
					b, err := m.Pack()
					if err != nil {
						return "err"
					}
					if via == "wire" {
						m = new(dns.Msg)
						if err := m.Unpack(b); err != nil {
							return "unpack-err"
						}
					}
					m.Rcode = r2
					b, err = m.Pack()
					if err != nil {
						return "err"
					}
					return fmt.Sprintf("ok %d %d", int(b[3]&0xF), int(b[len(b)-6]))
				})
				c.OpK("rcode-history", fmt.Sprintf("rcode.split %d 1", r2), out, true, fmt.Sprintf("rcode-history:%s", via))
			}
		}
	}
	// 4. whole messages: unpack, compare sections, re-pack (uncompressed) = same octets, re-unpack equal
	nm := c.Scale(6000, 150000)
	for i := 0; i < nm; i++ {
		mode := r.Intn(3)
		var qs [][]byte
		for k := 0; k < []int{0, 1, 1, 1, 2}[r.Intn(5)]; k++ {
			qs = append(qs, genQuestionWire(r, mode))
		}
		sec := func(max int) []*GenRR {
			var s []*GenRR
			for k := 0; k < r.Intn(max+1); k++ {
				typ := types[r.Intn(len(types))]
				if r.Chance(50) {
					typ = []uint16{dns.TypeA, dns.TypeAAAA, dns.TypeNS, dns.TypeCNAME, dns.TypeSOA, dns.TypeMX, dns.TypeTXT, dns.TypeSRV, dns.TypeRRSIG, dns.TypeNSEC}[r.Intn(10)]
				}
				s = append(s, genRR(r, typ, mode, r.Bool()))
			}
			return s
		}
		an, ns, ex := sec(4), sec(2), sec(3)
		hasOpt := r.Chance(40)
		if hasOpt {
			ex = append(ex, genOPT(r))
		}
		bits := uint16(r.U64())
		wire := buildMsgWire(uint16(r.U64()), bits, qs, an, ns, ex)
		in := "msg=" + hx(wire)
		nt := len(an)+len(ns)+len(ex) > 0
		out := guard(func() string {
			var m dns.Msg
			if err := m.Unpack(wire); err != nil {
				return "unpack-error: " + err.Error()
			}
			if len(m.Question) != len(qs) || len(m.Answer) != len(an) || len(m.Ns) != len(ns) || len(m.Extra) != len(ex) {
				return fmt.Sprintf("section-counts %d %d %d %d", len(m.Question), len(m.Answer), len(m.Ns), len(m.Extra))
			}
			for si, s := range [][]*GenRR{an, ns, ex} {
				rrs := [][]dns.RR{m.Answer, m.Ns, m.Extra}[si]
				for k, g := range s {
					if g.Type == dns.TypeOPT {
						continue
					}
					if d := checkFields(rrs[k], g); d != "" {
						return fmt.Sprintf("section %d record %d: %s", si, k, d)
					}
				}
			}
			b, err := m.Pack()
			if err != nil {
				return "repack-error: " + err.Error()
			}
			if !bytes.Equal(b, wire) {
				return "repack-differs " + hx(b)
			}
			var m2 dns.Msg
			if err := m2.Unpack(b); err != nil {
				return "reunpack-error: " + err.Error()
			}
			if !reflect.DeepEqual(&m, &m2) {
				return "reunpack-differs"
			}
			return "ok"
		})
		c.Pred("msg", "msg-roundtrip", in, out == "ok", out, "ok", nt)
		if out == "ok" && i%4 == 0 {
			c01PackBuffer(c, "msg", wire)
		}
		// the whole-message decoder and plain packer of the Lean model (message_roundtrip, pack_unpack_message) on the same octets
		msgUnpackCorr(c, "msg", wire)
	}
	c01EmptyTails(c, r)
	// 5. RDATA-less (RFC 2136) records: unpack then pack must reproduce RDLENGTH 0
	for _, typ := range types {
		g := &GenRR{Type: typ, Class: []uint16{dns.ClassANY, dns.ClassNONE, 1}[r.Intn(3)], Owner: genLabels(r, 0)}
		g.Wire = assembleRR(g.Owner, g.Type, g.Class, 0, nil)
		tn := dns.Type(typ).String()
		out := guard(func() string {
			rr, off, err := dns.UnpackRR(g.Wire, 0)
			if err != nil || off != len(g.Wire) {
				return "unpack-error"
			}
			w2, err := packRRBytes(rr)
			if err != nil {
				return "repack-error: " + err.Error()
			}
			if !bytes.Equal(w2, g.Wire) {
				return "repack-differs"
			}
			return "ok"
		})
		c.Pred("rdlen0", "rdlen0-repack:"+tn, "type="+tn+" wire="+hx(g.Wire), out == "ok", out, "ok", true)
	}
}


// c01PackBuffer: the sibling entry point PackBuffer writes the octets Pack writes, whatever buffer the caller brings:
// none, too small, exactly Len(), one more, plenty.
func c01PackBuffer(c *Ctx, stream string, wire []byte) {
	var m dns.Msg
	if m.Unpack(wire) != nil {
		return
	}
	for _, compress := range []bool{false, true} {
		m.Compress = compress
		want, err := m.Pack()
		if err != nil {
			continue
		}
		l := m.Len()
		for _, n := range []int{0, l - 1, l, l + 1, 2*l + 7} {
			if n < 0 {
				continue
			}
			out := guard(func() string {
				got, err := m.PackBuffer(make([]byte, n))
				if err != nil {
					return "error: " + err.Error()
				}
				if !bytes.Equal(got, want) {
					return "differs: " + hx(got)
				}
				return "ok"
			})
			c.Pred(stream, "packbuffer-any-buffer", fmt.Sprintf("compress=%v buffer=Len%+d msg=%s", compress, n-l, hx(wire)), out == "ok", out, "the octets of Pack()", true)
		}
	}
}

// c01EmptyTails: messages whose last record ends in a field that may be empty and then writes nothing (rest-of-RDATA
// octet strings, TXT lists): the place where one octet of slack in the buffer hides a missing room check
func c01EmptyTails(c *Ctx, r *Rng) {
	mk := func(last dns.RR) []byte {
		m := new(dns.Msg)
		m.SetQuestion("tail.example.", dns.TypeANY)
		m.Response = true
		for k := 0; k < r.Intn(3); k++ {
			m.Answer = append(m.Answer, &dns.A{Hdr: dns.RR_Header{Name: "tail.example.", Rrtype: dns.TypeA, Class: 1, Ttl: 5}, A: net.IPv4(192, 0, 2, byte(k)).To4()})
		}
		m.Answer = append(m.Answer, last)
		b, err := m.Pack()
		if err != nil {
			return nil
		}
		return b
	}
	h := func(t uint16) dns.RR_Header { return dns.RR_Header{Name: "tail.example.", Rrtype: t, Class: 1, Ttl: 5} }
	for _, last := range []dns.RR{
		&dns.URI{Hdr: h(dns.TypeURI), Priority: 1, Weight: 2, Target: ""},
		&dns.CAA{Hdr: h(dns.TypeCAA), Flag: 0, Tag: "issue", Value: ""},
		&dns.TXT{Hdr: h(dns.TypeTXT)},
		&dns.SPF{Hdr: h(dns.TypeSPF)},
		&dns.AVC{Hdr: h(dns.TypeAVC)},
		&dns.NINFO{Hdr: h(dns.TypeNINFO)},
		&dns.NULL{Hdr: h(dns.TypeNULL), Data: ""},
		&dns.OPENPGPKEY{Hdr: h(dns.TypeOPENPGPKEY), PublicKey: ""},
		&dns.DHCID{Hdr: h(dns.TypeDHCID), Digest: ""},
		&dns.EID{Hdr: h(dns.TypeEID), Endpoint: ""},
		&dns.NSEC{Hdr: h(dns.TypeNSEC), NextDomain: "tail.example."},
		&dns.OPT{Hdr: dns.RR_Header{Name: ".", Rrtype: dns.TypeOPT, Class: 1232}},
	} {
		if w := mk(last); w != nil {
			c01PackBuffer(c, "empty-tails", w)
		}
	}
}
