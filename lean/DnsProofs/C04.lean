/-
  C04 — name compression: invariants of the compression map and of the pointers the packer emits.
-/
import DnsModel.Compress
namespace Dns.C04
open Dns

/-- all offsets stored in the map are usable as 14-bit pointers -/
def MapBelow (m : CMap) (bound : Nat) : Prop := ∀ e ∈ m, e.2 < bound

/-- **map_offsets_below_limit**: packing a name never stores an offset ≥ 16384 in the compression map,
    whatever the name, the position and the compress flag. -/
theorem packLoopC_map_below (s : Bytes) (first multi : Bool) (label labStart : Bytes) (wasDot : Bool)
    (off0 : Nat) (out : Bytes) (m : CMap) (compress : Bool) (r : PackC)
    (hm : MapBelow m Gen.maxCompressionOffset)
    (h : packLoopC s first multi label labStart wasDot off0 out m compress = .ok r) :
    MapBelow r.map Gen.maxCompressionOffset := by
  fun_induction packLoopC s first multi label labStart wasDot off0 out m compress generalizing r
  all_goals first
    | (simp at h; done)
    | (simp at h; subst h; exact hm)
    | (rename_i ih; exact ih r hm h)
    | skip
  -- the remaining case inserts (labStart, off) when off < maxCompressionOffset
  rename_i off hfind m' hne ih
  apply ih r _ h
  intro e he
  simp only [m'] at he
  split at he
  · rcases List.mem_append.mp he with h1 | h1
    · exact hm e h1
    · simp at h1; subst h1; assumption
  · exact hm e he

theorem find_mem (m : CMap) (k : Bytes) (p : Nat) (h : m.find k = some p) : ∃ k', (k', p) ∈ m := by
  unfold CMap.find at h
  match hf : m.find? (·.1 == k) with
  | none => simp [hf] at h
  | some e =>
    simp [hf] at h
    exact ⟨e.1, by have := List.mem_of_find?_eq_some hf; rw [← h]; exact this⟩

/-- **pointers_valid**: when the packer emits a compression pointer, its target is an offset recorded in
    the compression map (the start of a suffix of an earlier name of the same message, or of an earlier
    label of this name), lies strictly before the pointer itself, and is below 16384. -/
theorem packLoopC_pointer (s : Bytes) (first multi : Bool) (label labStart : Bytes) (wasDot : Bool)
    (off0 : Nat) (out : Bytes) (m : CMap) (compress : Bool) (r : PackC)
    (hm : MapBelow m Gen.maxCompressionOffset)
    (he : ∀ e ∈ m, e.2 < off0 + out.length)
    (h : packLoopC s first multi label labStart wasDot off0 out m compress = .ok r) :
    ∀ pos p, r.ptr = some (pos, p) → p < pos ∧ p < Gen.maxCompressionOffset ∧ ∃ k, (k, p) ∈ r.map := by
  fun_induction packLoopC s first multi label labStart wasDot off0 out m compress generalizing r
  all_goals first
    | (simp at h; done)
    | (simp at h; subst h; simp; done)
    | (rename_i ih; exact ih r hm he h)
    | skip
  case case10 =>
    simp at h; subst h
    intro pos q hq
    simp at hq
    obtain ⟨rfl, rfl⟩ := hq
    obtain ⟨k, hk⟩ := find_mem _ _ _ ‹_ = some _›
    exact ⟨he _ hk, hm _ hk, k, hk⟩
  case case11 =>
    rename_i ih
    apply ih r hm _ h
    intro e hem
    have := he e hem
    simp; omega
  case case12 =>
    rename_i off hfind m' hne ih
    apply ih r _ _ h
    · intro e hem
      simp only [m'] at hem
      split at hem
      · rcases List.mem_append.mp hem with h1 | h1
        · exact hm e h1
        · simp at h1; subst h1; assumption
      · exact hm e hem
    · intro e hem
      simp only [m'] at hem
      split at hem
      · rcases List.mem_append.mp hem with h1 | h1
        · have := he e h1; simp; omega
        · simp at h1; subst h1; simp [off]
      · have := he e hem; simp; omega

/-- **uncompressed fields stay uncompressed**: with `compress = false` (every name field outside the
    RFC 1035 set) the packer emits exactly the octets of the plain packer — no pointer — whatever the map holds. -/
theorem packLoopC_false (s : Bytes) (first multi : Bool) (label labStart : Bytes) (wasDot : Bool)
    (off0 : Nat) (out : Bytes) (m : CMap) :
    (match packLoopC s first multi label labStart wasDot off0 out m false with
      | .ok r => Outcome.ok r.out | .err => .err | .panic => .panic)
      = packLoop s first multi label wasDot out
    ∧ ∀ r, packLoopC s first multi label labStart wasDot off0 out m false = .ok r → r.ptr = none := by
  fun_induction packLoopC s first multi label labStart wasDot off0 out m false
  all_goals first
    | (rename_i ih; rw [packLoop.eq_def]; simp_all; done)
    | (rw [packLoop.eq_def]; simp_all; done)
    | (rename_i ih; refine ⟨?_, ih.2⟩; rw [ih.1]; conv => rhs; rw [packLoop.eq_def]
       simp [*])

end Dns.C04
