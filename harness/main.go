package main

import (
	"flag"
	"fmt"
	"os"
	"strconv"
)

var props = map[string]func(*Ctx){}

func main() {
	prop := flag.String("prop", "", "property id (C01..C20)")
	tier := flag.String("tier", "quick", "quick|thorough")
	seed := flag.Uint64("seed", 1, "PRNG seed")
	out := flag.String("out", "-", "result file")
	flag.Parse()
	if s := os.Getenv("VERIF_SEED"); s != "" && !isFlagSet("seed") {
		if v, err := strconv.ParseUint(s, 10, 64); err == nil {
			*seed = v
		}
	}
	f, ok := props[*prop]
	if !ok {
		fmt.Fprintln(os.Stderr, "unknown property", *prop)
		os.Exit(2)
	}
	c := NewCtx(*prop, *tier, *seed)
	f(c)
	c.Finish(*out)
}

func isFlagSet(name string) bool {
	set := false
	flag.Visit(func(f *flag.Flag) {
		if f.Name == name {
			set = true
		}
	})
	return set
}
