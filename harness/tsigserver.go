package main

import (
	"context"
	"fmt"
	"net"
	"strings"
	"time"

	"github.com/miekg/dns"
)

// keepOpen shields the connection from Transfer.In's close-on-completion.
type keepOpen struct{ net.Conn }

func (keepOpen) Close() error { return nil }

// tsigServerSession runs a real dns.Server (TSIG secret configured) behind an in-memory listener and performs the
// given sequence of signed transactions over ONE stream connection: 'x' = an AXFR answered with Transfer.Out in
// several envelopes, 'q' = an ordinary signed query answered with a signed reply. It returns one result per
// transaction: "ok" or a description of what went wrong.
func tsigServerSession(seq string, nrec int) []string {
	resCh := make(chan []string, 1)
	go func() { resCh <- tsigServerSessionInner(seq, nrec) }()
	select {
	case r := <-resCh:
		return r
	case <-time.After(40 * time.Second):
		return []string{"session hung"}
	}
}

func tsigServerSessionInner(seq string, nrec int) []string {
	const keyName = "xfr-key."
	secret := "c2Vzc2lvbi1zZWNyZXQtMDEyMzQ1Njc4OQ=="
	zone := "session.example."
	soa := func() dns.RR {
		rr, _ := dns.NewRR(zone + " 3600 IN SOA ns." + zone + " h." + zone + " 7 7200 3600 1209600 300")
		return rr
	}
	mux := dns.NewServeMux()
	mux.HandleFunc(".", func(w dns.ResponseWriter, r *dns.Msg) {
		if len(r.Question) == 1 && r.Question[0].Qtype == dns.TypeAXFR {
			ch := make(chan *dns.Envelope)
			tr := new(dns.Transfer)
			done := make(chan error, 1)
			go func() { done <- tr.Out(w, r, ch) }()
			send := func(rr dns.RR) bool { // false once Out has given up
				select {
				case ch <- &dns.Envelope{RR: []dns.RR{rr}}:
					return true
				case err := <-done:
					done <- err
					return false
				case <-time.After(5 * time.Second):
					return false
				}
			}
			ok := send(soa())
			for i := 0; ok && i < nrec; i++ {
				a, _ := dns.NewRR(fmt.Sprintf("h%d.%s 60 IN A 192.0.2.%d", i, zone, i+1))
				ok = send(a)
			}
			if ok {
				send(soa())
			}
			close(ch)
			select {
			case <-done:
			case <-time.After(5 * time.Second):
			}
			return
		}
		m := new(dns.Msg)
		m.SetReply(r)
		if t := r.IsTsig(); t != nil && w.TsigStatus() == nil {
			m.SetTsig(t.Hdr.Name, dns.HmacSHA256, 300, time.Now().Unix())
		}
		m.Answer = append(m.Answer, soa())
		w.WriteMsg(m)
	})
	ln := newPipeListener()
	srv := &dns.Server{Listener: ln, Handler: mux, TsigSecret: map[string]string{keyName: secret}, ReadTimeout: 3 * time.Second}
	started := make(chan struct{})
	srv.NotifyStartedFunc = func() { close(started) }
	go srv.ActivateAndServe()
	defer func() {
		ctx, cancel := context.WithTimeout(context.Background(), 3*time.Second)
		defer cancel()
		srv.ShutdownContext(ctx)
	}()
	select {
	case <-started:
	case <-time.After(3 * time.Second):
		return []string{"server did not start"}
	}
	raw := ln.dial()
	defer raw.Close()
	raw.SetDeadline(time.Now().Add(8 * time.Second))
	var out []string
	for i, kind := range seq {
		switch kind {
		case 'x':
			q := new(dns.Msg)
			q.SetAxfr(zone)
			q.Id = uint16(1000 + i)
			q.SetTsig(keyName, dns.HmacSHA256, 300, time.Now().Unix())
			tr := &dns.Transfer{Conn: &dns.Conn{Conn: keepOpen{raw}}, TsigSecret: map[string]string{keyName: secret}, ReadTimeout: 4 * time.Second}
			ch, err := tr.In(q, "pipe")
			if err != nil {
				out = append(out, "transfer: "+err.Error())
				continue
			}
			n, res := 0, "ok"
			for e := range ch {
				if e.Error != nil {
					res = "envelope error: " + e.Error.Error()
					break
				}
				n += len(e.RR)
			}
			if res == "ok" && n != nrec+2 {
				res = fmt.Sprintf("%d records of %d", n, nrec+2)
			}
			out = append(out, res)
		default:
			q := new(dns.Msg)
			q.SetQuestion(zone, dns.TypeSOA)
			q.Id = uint16(2000 + i)
			q.SetTsig(keyName, dns.HmacSHA256, 300, time.Now().Unix())
			co := &dns.Conn{Conn: raw, TsigSecret: map[string]string{keyName: secret}}
			if err := co.WriteMsg(q); err != nil {
				out = append(out, "write: "+err.Error())
				continue
			}
			r, err := co.ReadMsg()
			switch {
			case err != nil:
				out = append(out, "read: "+err.Error())
			case r.Id != q.Id:
				out = append(out, "wrong id")
			case r.IsTsig() == nil:
				out = append(out, "reply not signed")
			default:
				out = append(out, "ok")
			}
		}
	}
	return out
}

func sessionOK(res []string, n int) bool {
	if len(res) != n {
		return false
	}
	for _, s := range res {
		if s != "ok" {
			return false
		}
	}
	return true
}

func sessionText(res []string) string { return strings.Join(res, " | ") }
