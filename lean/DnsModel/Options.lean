/-
  DnsModel.Options — the value codecs of the individual EDNS0 options (edns.go) and SVCB parameters (svcb.go): what the
  value octets of a given code mean.  Values are wire-level (integers, octet strings, addresses as octets); the
  in-memory text forms (hex for NSID / COOKIE, strings) are what those octets are printed as.
  The framing around them — (code, length, value) triples — is `packTlvs` / `unpackTlvs` of DnsModel/Codec.lean.
-/
import DnsModel.Codec
namespace Dns.Opt
open Dns

inductive Opt where
  | llq (version opcode error id lease : Nat)
  | ul (lease keyLease : Nat)
  | nsid (d : Bytes)
  | esu (uri : Bytes)
  | dau (d : Bytes) | dhu (d : Bytes) | n3u (d : Bytes)
  | subnet (family netmask scope : Nat) (addr : Bytes)   -- addr: 4 / 16 octets (family 0: the all-zero IPv4 address)
  | expire (v : Option Nat)
  | cookie (d : Bytes)
  | keepalive (timeout : Nat)
  | padding (d : Bytes)
  | ede (infoCode : Nat) (text : Bytes)
  | reporting (agent : Bytes)                             -- the agent domain in presentation form
  | zoneversion (labels typ : Nat) (version : Bytes)
  | local (code : Nat) (d : Bytes)
deriving Repr, DecidableEq

def Opt.code : Opt → Nat
  | .llq .. => 1 | .ul .. => 2 | .nsid _ => 3 | .esu _ => 4 | .dau _ => 5 | .dhu _ => 6 | .n3u _ => 7
  | .subnet .. => 8 | .expire _ => 9 | .cookie _ => 10 | .keepalive _ => 11 | .padding _ => 12 | .ede .. => 15
  | .reporting _ => 18 | .zoneversion .. => 19 | .local c _ => c

def padTo (b : Bytes) (n : Nat) : Bytes := b.take n ++ List.replicate (n - b.length) 0

/-- `Fqdn` -/
def fqdn (t : Bytes) : Bytes := if isFqdn t then t else t ++ [46]

/-- `EDNS0.pack()` of each option: the value octets (`none` = error) -/
def packOpt : Opt → Option Bytes
  | .llq v o e i l =>
    if v < 65536 ∧ o < 65536 ∧ e < 65536 ∧ i < 2 ^ 64 ∧ l < 2 ^ 32 then
      some (beBytes 2 v ++ beBytes 2 o ++ beBytes 2 e ++ beBytes 8 i ++ beBytes 4 l) else none
  | .ul l k =>
    if l < 2 ^ 32 ∧ k < 2 ^ 32 then some (if k = 0 then beBytes 4 l else beBytes 4 l ++ beBytes 4 k) else none
  | .nsid d | .esu d | .dau d | .dhu d | .n3u d | .cookie d | .padding d => some d
  | .local _ d => some d
  | .subnet fam mask scope addr =>
    if scope < 256 then
      if fam = 0 then (if mask = 0 then some [0, 0, 0, UInt8.ofNat scope] else none)
      else if fam = 1 then
        if mask ≤ 32 ∧ addr.length = 4 then
          some (beBytes 2 1 ++ [UInt8.ofNat mask, UInt8.ofNat scope] ++ (maskBytes mask addr).take ((mask + 7) / 8)) else none
      else if fam = 2 then
        if mask ≤ 128 ∧ addr.length = 16 then
          some (beBytes 2 2 ++ [UInt8.ofNat mask, UInt8.ofNat scope] ++ (maskBytes mask addr).take ((mask + 7) / 8)) else none
      else none
    else none
  | .expire none => some []
  | .expire (some v) => if v < 2 ^ 32 then some (beBytes 4 v) else none
  | .keepalive t => if t < 65536 then some (if t > 0 then beBytes 2 t else []) else none
  | .ede c text => if c < 65536 then some (beBytes 2 c ++ text) else none
  | .reporting agent => match packName (fqdn agent) with | .ok w => some w | _ => none
  | .zoneversion labels typ ver => if labels < 256 ∧ typ < 256 then some ([UInt8.ofNat labels, UInt8.ofNat typ] ++ ver) else none

/-- `makeDataOpt(code)` followed by the option's `unpack(b)` -/
def unpackOpt (code : Nat) (b : Bytes) : Option Opt :=
  if code = 1 then
    if b.length < 18 then none
    else some (.llq (beVal (b.take 2)) (beVal ((b.drop 2).take 2)) (beVal ((b.drop 4).take 2)) (beVal ((b.drop 6).take 8))
      (beVal ((b.drop 14).take 4)))
  else if code = 2 then
    if b.length = 4 then some (.ul (beVal b) 0)
    else if b.length = 8 then some (.ul (beVal (b.take 4)) (beVal (b.drop 4)))
    else none
  else if code = 3 then some (.nsid b)
  else if code = 4 then some (.esu b)
  else if code = 5 then some (.dau b)
  else if code = 6 then some (.dhu b)
  else if code = 7 then some (.n3u b)
  else if code = 8 then
    if b.length < 4 then none
    else
      let fam := beVal (b.take 2)
      let mask := (b.getD 2 0).toNat
      let scope := (b.getD 3 0).toNat
      if fam = 0 then (if mask = 0 then some (.subnet 0 0 scope [0, 0, 0, 0]) else none)
      else if fam = 1 then (if mask ≤ 32 ∧ scope ≤ 32 then some (.subnet 1 mask scope (padTo (b.drop 4) 4)) else none)
      else if fam = 2 then (if mask ≤ 128 ∧ scope ≤ 128 then some (.subnet 2 mask scope (padTo (b.drop 4) 16)) else none)
      else none
  else if code = 9 then
    if b.isEmpty then some (.expire none)
    else if b.length < 4 then none
    else some (.expire (some (beVal (b.take 4))))
  else if code = 10 then some (.cookie b)
  else if code = 11 then
    if b.isEmpty then some (.keepalive 0)
    else if b.length = 2 then some (.keepalive (beVal b))
    else none
  else if code = 12 then some (.padding b)
  else if code = 15 then
    if b.length < 2 then none else some (.ede (beVal (b.take 2)) (b.drop 2))
  else if code = 18 then
    match unpackName b 0 with
    | .ok (text, _) => some (.reporting text)
    | _ => none
  else if code = 19 then
    if b.length < 2 then none else some (.zoneversion (b.getD 0 0).toNat (b.getD 1 0).toNat (b.drop 2))
  else some (.local code b)

/-! ### SVCB parameters -/

inductive Param where
  | mandatory (codes : List Nat)
  | alpn (ids : List Bytes)
  | noDefaultAlpn
  | port (p : Nat)
  | ipv4hint (ips : List Bytes)
  | ech (d : Bytes)
  | ipv6hint (ips : List Bytes)
  | dohpath (t : Bytes)
  | ohttp
  | local (key : Nat) (d : Bytes)
deriving Repr, DecidableEq

def Param.key : Param → Nat
  | .mandatory _ => 0 | .alpn _ => 1 | .noDefaultAlpn => 2 | .port _ => 3 | .ipv4hint _ => 4 | .ech _ => 5
  | .ipv6hint _ => 6 | .dohpath _ => 7 | .ohttp => 8 | .local k _ => k

def insertNat (x : Nat) : List Nat → List Nat
  | [] => [x]
  | y :: ys => if x < y then x :: y :: ys else y :: insertNat x ys

/-- `sort.Slice(codes, <)` -/
def sortNat : List Nat → List Nat
  | [] => []
  | x :: xs => insertNat x (sortNat xs)

/-- `net.IP.To4() != nil` for a 16-octet address: the IPv4-mapped prefix -/
def isV4Mapped (ip : Bytes) : Bool := ip.take 12 == [0, 0, 0, 0, 0, 0, 0, 0, 0, 0, 255, 255]

def packAlpn : List Bytes → Option Bytes
  | [] => some []
  | e :: rest => if e.isEmpty ∨ e.length > 255 then none else (packAlpn rest).map (fun r => UInt8.ofNat e.length :: e ++ r)

def unpackAlpn : (fuel : Nat) → Bytes → Option (List Bytes)
  | 0, _ => none
  | _ + 1, [] => some []
  | f + 1, l :: rest =>
    if l.toNat ≤ rest.length then (unpackAlpn f (rest.drop l.toNat)).map (fun r => rest.take l.toNat :: r) else none

def chunks (n : Nat) : (fuel : Nat) → Bytes → List Bytes
  | 0, _ => []
  | f + 1, b => if b.isEmpty then [] else b.take n :: chunks n f (b.drop n)

def packParam : Param → Option Bytes
  | .mandatory codes => if codes.all (· < 65536) then some ((sortNat codes).flatMap (beBytes 2)) else none
  | .alpn ids => packAlpn ids
  | .noDefaultAlpn | .ohttp => some []
  | .port p => if p < 65536 then some (beBytes 2 p) else none
  | .ipv4hint ips => if ips.all (fun ip => ip.length == 4) then some ips.flatten else none
  | .ipv6hint ips => if ips.all (fun ip => ip.length == 16 && !isV4Mapped ip) then some ips.flatten else none
  | .ech d | .dohpath d => some d
  | .local _ d => some d

/-- `makeSVCBKeyValue(key)` followed by `unpack(b)` (key 65535 has no value type) -/
def unpackParam (key : Nat) (b : Bytes) : Option Param :=
  if key = 0 then
    if b.length % 2 ≠ 0 then none else some (.mandatory ((chunks 2 b.length b).map beVal))
  else if key = 1 then (unpackAlpn (b.length + 1) b).map .alpn
  else if key = 2 then (if b.isEmpty then some .noDefaultAlpn else none)
  else if key = 3 then (if b.length = 2 then some (.port (beVal b)) else none)
  else if key = 4 then
    if b.isEmpty ∨ b.length % 4 ≠ 0 then none else some (.ipv4hint (chunks 4 b.length b))
  else if key = 5 then some (.ech b)
  else if key = 6 then
    if b.isEmpty ∨ b.length % 16 ≠ 0 then none
    else if (chunks 16 b.length b).any isV4Mapped then none
    else some (.ipv6hint (chunks 16 b.length b))
  else if key = 7 then some (.dohpath b)
  else if key = 8 then (if b.isEmpty then some .ohttp else none)
  else if key = 65535 then none
  else some (.local key b)

/-! ### whole lists: the RDATA of an OPT record, the parameters of an SVCB / HTTPS record -/

def packOpts (opts : List Opt) : Option Bytes :=
  (opts.mapM (fun o => (packOpt o).map (fun d => (o.code, d)))).bind packTlvs

def unpackOpts (rd : Bytes) : Option (List Opt) :=
  (unpackTlvs false (rd.length + 1) none rd).bind (fun items => items.mapM (fun x => unpackOpt x.1 x.2))

def packParams (ps : List Param) : Option Bytes :=
  (ps.mapM (fun p => (packParam p).map (fun d => (p.key, d)))).bind
    (fun kv => if svcbKeysOK 65535 (sortKV kv) then packTlvs (sortKV kv) else none)

def unpackParams (rd : Bytes) : Option (List Param) :=
  (unpackTlvs true (rd.length + 1) none rd).bind (fun items => items.mapM (fun x => unpackParam x.1 x.2))

end Dns.Opt
