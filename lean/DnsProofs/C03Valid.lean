/-
  C03 (validity) — for every text, in every escape spelling: a fully-qualified name is accepted by the packer exactly
  when the independent tokeniser + RFC limits accept it, with the RFC wire form as result; and IsDomainName agrees.
-/
import DnsModel.Name
import DnsProofs.C03
namespace Dns.C03
open Dns

/-- left-to-right reading of the escapes: does the text end in an unescaped dot?  `d`: the last item read was one -/
def eud : Bytes → Bool → Bool
  | [], d => d
  | c :: rest, _ =>
    if c = 92 then
      if isDDD rest then eud (rest.drop 3) false
      else match rest with
        | [] => false
        | _ :: r => eud r false
    else if c = 46 then eud rest true
    else eud rest false
termination_by s => s.length
decreasing_by all_goals simp_wf <;> omega

theorem tb_append (y : Bytes) (b : Byte) (r : Bytes) (hb : b ≠ 92) :
    trailingBackslashes (y ++ [b] ++ r) = trailingBackslashes r := by
  unfold trailingBackslashes
  simp only [List.reverse_append, List.reverse_cons, List.reverse_nil, List.nil_append, List.singleton_append]
  rw [List.takeWhile_append]
  have hb' : (b == 92) = false := by simpa using hb
  split
  · rename_i hall
    simp [List.takeWhile_cons, hb', hall]
  · rfl

theorem tb_two (r : Bytes) : trailingBackslashes (92 :: 92 :: r) % 2 = trailingBackslashes r % 2 := by
  unfold trailingBackslashes
  have e : (92 :: 92 :: r).reverse = r.reverse ++ [92, 92] := by simp
  rw [e, List.takeWhile_append]
  split
  · rename_i hall
    simp only [List.length_append]
    have : (List.takeWhile (fun x => x == 92) [(92 : Byte), 92]).length = 2 := by decide
    rw [this, hall]; omega
  · rfl

/-- a prefix ending in something other than a backslash does not change the verdict on a non-empty rest -/
theorem isFqdn_prefix (y : Bytes) (b : Byte) (r : Bytes) (hb : b ≠ 92) (hr : r ≠ []) :
    isFqdn (y ++ [b] ++ r) = isFqdn r := by
  have hl : (y ++ [b] ++ r).getLast? = r.getLast? := by
    rw [List.getLast?_append]
    cases h : r.getLast? with
    | none => exact absurd (List.getLast?_eq_none_iff.mp h) hr
    | some c => rfl
  unfold isFqdn
  rw [hl, List.dropLast_append_of_ne_nil hr, tb_append y b _ hb]

theorem isFqdn_bsbs (r : Bytes) (hr : r ≠ []) : isFqdn (92 :: 92 :: r) = isFqdn r := by
  have e : (92 : Byte) :: 92 :: r = [92, 92] ++ r := rfl
  have hl : ([92, 92] ++ r).getLast? = r.getLast? := by
    rw [List.getLast?_append]
    cases h : r.getLast? with
    | none => exact absurd (List.getLast?_eq_none_iff.mp h) hr
    | some c => rfl
  unfold isFqdn
  rw [e, hl, List.dropLast_append_of_ne_nil hr]
  have := tb_two r.dropLast
  simp only [List.cons_append, List.nil_append] at this ⊢
  cases r.getLast? with
  | none => rfl
  | some c =>
    by_cases hc : c = 46
    · subst hc; simp only; rw [this]
    · simp [hc]

theorem isFqdn_single (c : Byte) : isFqdn [c] = (c == 46) := by
  unfold isFqdn trailingBackslashes
  by_cases h : c = 46
  · subst h; decide
  · simp [h]

theorem eud_flag (c : Byte) (rest : Bytes) (d : Bool) : eud (c :: rest) d = eud (c :: rest) false := by
  rw [eud.eq_def]; conv => rhs; rw [eud.eq_def]

theorem isFqdn_last_ne (y : Bytes) (c : Byte) (hc : c ≠ 46) : isFqdn (y ++ [c]) = false := by
  unfold isFqdn
  simp only [List.getLast?_append, List.getLast?_singleton, Option.some_or]
  split
  · rename_i h; simp only [Option.some.injEq] at h; exact absurd h hc
  · rfl

theorem isFqdn_bs_one : ∀ h : Byte, isFqdn [92, h] = false := by
  apply forall_byte; decide +kernel

theorem isDDD_shape (rest : Bytes) (h : isDDD rest = true) :
    ∃ a b c r, rest = a :: b :: c :: r ∧ isDigit c = true := by
  match rest, h with
  | a :: b :: c :: r, h =>
    simp only [isDDD, Bool.and_eq_true] at h
    exact ⟨a, b, c, r, rfl, h.2⟩

theorem digit_ne_bs (c : Byte) (h : isDigit c = true) : c ≠ 92 ∧ c ≠ 46 := by
  revert h; revert c; apply forall_byte; decide +kernel

set_option tactic.hygienic false in
/-- **IsFqdn is the left-to-right reading**: the count of backslashes before the final dot, taken from the right,
    agrees with reading the escapes from the left, for every text -/
theorem eud_eq_isFqdn (s : Bytes) (d : Bool) : s ≠ [] → eud s d = isFqdn s := by
  fun_induction eud s d
  · intro h; exact absurd rfl h
  · intro _
    obtain ⟨d1, d2, d3, r, hr, hc⟩ := isDDD_shape rest h
    subst hr
    obtain ⟨hc92, hc46⟩ := digit_ne_bs d3 hc
    simp only [List.drop_succ_cons, List.drop_zero] at ih1 ⊢
    by_cases hrn : r = []
    · subst hrn
      have := isFqdn_last_ne [92, d1, d2] d3 hc46
      simp only [List.cons_append, List.nil_append] at this
      rw [this, eud]
    · rw [ih1 hrn]
      have := isFqdn_prefix [92, d1, d2] d3 r hc92 hrn
      simp only [List.cons_append, List.nil_append, List.append_assoc] at this
      exact this.symm
  · intro _; decide
  · intro _
    by_cases hrn : r = []
    · subst hrn; rw [isFqdn_bs_one, eud]
    · rw [ih1 hrn]
      by_cases hh : head = 92
      · subst hh; exact (isFqdn_bsbs r hrn).symm
      · have := isFqdn_prefix [92] head r hh hrn
        simp only [List.cons_append, List.nil_append] at this
        exact this.symm
  · intro _
    by_cases hrn : rest = []
    · subst hrn; rw [eud]; decide
    · rw [ih1 hrn]
      have := isFqdn_prefix [] 46 rest (by decide) hrn
      simp only [List.nil_append, List.cons_append] at this
      exact this.symm
  · intro _
    by_cases hrn : rest = []
    · subst hrn; rw [eud, isFqdn_single]; simp [h_1]
    · rw [ih1 hrn]
      have := isFqdn_prefix [] c rest h hrn
      simp only [List.nil_append, List.cons_append] at this
      exact this.symm

/-! ### the tokeniser, one step at a time -/

theorem tok_nil (f : Nat) (cur : Bytes) (acc : List Bytes) :
    tokensAux (f + 1) [] cur acc = if cur.isEmpty then some acc.reverse else none := by
  simp [tokensAux]

theorem tok_dot (f : Nat) (rest cur : Bytes) (acc : List Bytes) :
    tokensAux (f + 1) (46 :: rest) cur acc = if cur.isEmpty then none else tokensAux f rest [] (cur :: acc) := by
  simp [tokensAux]

theorem tok_plain (f : Nat) (c : Byte) (rest cur : Bytes) (acc : List Bytes) (h1 : c ≠ 92) (h2 : c ≠ 46) :
    tokensAux (f + 1) (c :: rest) cur acc = tokensAux f rest (cur ++ [c]) acc := by
  conv => lhs; unfold tokensAux
  split <;> simp_all

theorem tok_ddd (f : Nat) (rest cur : Bytes) (acc : List Bytes) (h : isDDD rest = true) :
    tokensAux (f + 1) (92 :: rest) cur acc = tokensAux f (rest.drop 3) (cur ++ [dddToByte rest]) acc := by
  match rest, h with
  | a :: b :: c :: r, h =>
    simp only [isDDD, Bool.and_eq_true] at h
    simp [tokensAux, h.1.1, h.1.2, h.2, dddToByte]

theorem tok_esc (f : Nat) (d : Byte) (rest cur : Bytes) (acc : List Bytes) (h : isDDD (d :: rest) = false) :
    tokensAux (f + 1) (92 :: d :: rest) cur acc = tokensAux f rest (cur ++ [d]) acc := by
  match rest with
  | [] => simp [tokensAux]
  | [b] => simp [tokensAux]
  | b :: c :: r =>
    simp only [isDDD] at h
    simp [tokensAux, h]

/-- what the specification does with the labels once the text is consumed -/
def specFinish (ls : List Bytes) : Outcome Bytes := if WireNameOK ls then .ok (wireOf ls) else .err

def specRun (fuel : Nat) (s cur : Bytes) (acc : List Bytes) : Outcome Bytes :=
  match tokensAux fuel s cur acc with
  | some ls => specFinish ls
  | none => .err

/-- the tokeniser only ever extends the list of finished labels -/
theorem tok_extends (fuel : Nat) (s cur : Bytes) (acc ls : List Bytes) (h : tokensAux fuel s cur acc = some ls) :
    ∃ more, ls = acc.reverse ++ more := by
  induction fuel generalizing s cur acc with
  | zero => simp [tokensAux] at h
  | succ f ih =>
    match s with
    | [] =>
      rw [tok_nil] at h
      split at h
      · simp at h; exact ⟨[], by simp [h]⟩
      · simp at h
    | c :: rest =>
      by_cases h92 : c = 92
      · subst h92
        by_cases hd : isDDD rest = true
        · rw [tok_ddd f rest cur acc hd] at h; exact ih _ _ _ h
        · match rest with
          | [] => simp [tokensAux] at h
          | d :: r =>
            rw [tok_esc f d r cur acc (by simpa using hd)] at h; exact ih _ _ _ h
      · by_cases h46 : c = 46
        · subst h46
          rw [tok_dot] at h
          split at h
          · simp at h
          · obtain ⟨more, hm⟩ := ih _ _ _ h
            exact ⟨cur :: more, by simp [hm]⟩
        · rw [tok_plain f c rest cur acc h92 h46] at h; exact ih _ _ _ h

theorem wireOf_length (ls : List Bytes) : (wireOf ls).length = (wireLabels ls).length + 1 := by
  simp [wireOf, wireLabels]

theorem wireLabels_append' (a b : List Bytes) : wireLabels (a ++ b) = wireLabels a ++ wireLabels b := by
  simp [wireLabels]

/-- a finished label outside 1..63 octets dooms the name -/
theorem specRun_bad (fuel : Nat) (s cur : Bytes) (acc : List Bytes) (l : Bytes) (hl : l ∈ acc)
    (hbad : ¬ (1 ≤ l.length ∧ l.length ≤ 63)) : specRun fuel s cur acc = .err := by
  unfold specRun
  cases h : tokensAux fuel s cur acc with
  | none => rfl
  | some ls =>
    obtain ⟨more, hm⟩ := tok_extends fuel s cur acc ls h
    simp only [specFinish]
    have : ¬ WireNameOK ls := by
      intro hok
      exact hbad (hok.1 l (by rw [hm]; simp [hl]))
    simp [this]

/-- finished labels that already fill more than 255 octets doom the name -/
theorem specRun_long (fuel : Nat) (s cur : Bytes) (acc : List Bytes)
    (hlong : (wireLabels acc.reverse).length + 1 > 255) : specRun fuel s cur acc = .err := by
  unfold specRun
  cases h : tokensAux fuel s cur acc with
  | none => rfl
  | some ls =>
    obtain ⟨more, hm⟩ := tok_extends fuel s cur acc ls h
    simp only [specFinish]
    have : ¬ WireNameOK ls := by
      intro hok
      have := hok.2
      rw [wireOf_length, hm, wireLabels_append', List.length_append] at this
      omega
    simp [this]

def AccOK (acc : List Bytes) (out : Bytes) : Prop :=
  out = wireLabels acc.reverse ∧ (∀ l ∈ acc, 1 ≤ l.length ∧ l.length ≤ 63) ∧ out.length + 1 ≤ 255

set_option tactic.hygienic false in
/-- **packer = specification**, step for step: from any state the two are in agreement about, on any text that ends
    in an unescaped dot -/
theorem packLoop_eq_spec (s : Bytes) (first multi : Bool) (label : Bytes) (wasDot : Bool) (out : Bytes) :
    ∀ (fuel : Nat) (acc : List Bytes), s.length < fuel → AccOK acc out → (first || wasDot) = label.isEmpty →
      (first = true → multi = true) → eud s wasDot = true →
      packLoop s first multi label wasDot out = specRun fuel s label acc := by
  fun_induction packLoop s first multi label wasDot out
  all_goals intro fuel acc hfuel hacc hI3 hfm heud
  all_goals (cases fuel with | zero => (simp at hfuel) | succ f => ?_)
  · -- 1 end of text
    rw [eud.eq_def] at heud
    simp only at heud
    subst heud
    have hl : label_1.isEmpty = true := by rw [← hI3]; simp
    unfold specRun
    rw [tok_nil, if_pos hl]
    obtain ⟨h1, h2, h3⟩ := hacc
    have hok : WireNameOK acc.reverse := by
      refine ⟨fun l hl => h2 l (by simpa using hl), ?_⟩
      rw [wireOf_length, ← h1]; exact h3
    simp [specFinish, hok, wireOf, h1, wireLabels]
  · -- 2 \DDD
    rw [eud.eq_def] at heud
    simp only [h, ↓reduceIte] at heud
    unfold specRun
    rw [tok_ddd f rest label_1 acc h]
    have := ih1 f acc (by simp at hfuel ⊢; omega) hacc (by simp) (by simp) heud
    unfold specRun at this
    exact this
  · -- 3 dangling backslash
    rw [eud.eq_def] at heud
    simp [h] at heud
  · -- 4 \c
    rw [eud.eq_def] at heud
    simp only [h, Bool.false_eq_true, ↓reduceIte] at heud
    unfold specRun
    rw [tok_esc f d rest' label_1 acc (by simpa using h)]
    have := ih1 f acc (by simp at hfuel ⊢; omega) hacc (by simp) (by simp) heud
    unfold specRun at this
    exact this
  · -- 5 leading dot
    have hfirst : first_1 = true := by simp at h; exact h.1
    have hl : label_1.isEmpty = true := by rw [← hI3, hfirst]; rfl
    unfold specRun
    rw [tok_dot, if_pos hl]
  · -- 6 doubled dot
    have hl : label_1.isEmpty = true := by rw [← hI3]; simp
    unfold specRun
    rw [tok_dot, if_pos hl]
  · -- 7 label too long
    have hne : label_1.isEmpty = false := by
      rw [← hI3]
      have hf : first_1 = false := by
        cases hfv : first_1 with
        | false => rfl
        | true => exact absurd (by simp [hfv, hfm hfv]) h
      simp [hf]; simpa using h_1
    unfold specRun
    rw [tok_dot, if_neg (by simp [hne])]
    have := specRun_bad f rest [] (label_1 :: acc) label_1 (by simp) (by simp [Gen.labelLimit] at h_2; omega)
    unfold specRun at this
    exact this.symm
  · -- 8 name too long
    have hne : label_1.isEmpty = false := by
      rw [← hI3]
      have hf : first_1 = false := by
        cases hfv : first_1 with
        | false => rfl
        | true => exact absurd (by simp [hfv, hfm hfv]) h
      simp [hf]; simpa using h_1
    unfold specRun
    rw [tok_dot, if_neg (by simp [hne])]
    have := specRun_long f rest [] (label_1 :: acc) (by
      obtain ⟨h1, _, _⟩ := hacc
      simp only [List.reverse_cons, wireLabels_append', List.length_append]
      rw [← h1]
      simp [wireLabels, Gen.maxDomainNameWireOctets] at h_3 ⊢; omega)
    unfold specRun at this
    exact this.symm
  · -- 9 label closed
    have hne : label_1.isEmpty = false := by
      rw [← hI3]
      have hf : first_1 = false := by
        cases hfv : first_1 with
        | false => rfl
        | true => exact absurd (by simp [hfv, hfm hfv]) h
      simp [hf]; simpa using h_1
    rw [eud.eq_def] at heud
    simp only [h_4, ↓reduceIte] at heud
    unfold specRun
    rw [tok_dot, if_neg (by simp [hne])]
    have hacc' : AccOK (label_1 :: acc) (out_1 ++ UInt8.ofNat label_1.length :: label_1) := by
      obtain ⟨h1, h2, h3⟩ := hacc
      refine ⟨?_, ?_, ?_⟩
      · simp only [List.reverse_cons, wireLabels_append', ← h1]; simp [wireLabels]
      · intro l hl
        rcases List.mem_cons.mp hl with rfl | hl
        · constructor
          · cases hlab : l with
            | nil => rw [hlab] at hne; simp at hne
            | cons _ _ => simp
          · simp [Gen.labelLimit] at h_2; omega
        · exact h2 l hl
      · simp [Gen.maxDomainNameWireOctets] at h_3 ⊢; omega
    have := ih1 f (label_1 :: acc) (by simp at hfuel ⊢; omega) hacc' (by simp) (by simp) heud
    unfold specRun at this
    exact this
  · -- 10 plain octet
    rw [eud.eq_def] at heud
    simp only [h, h_1, ↓reduceIte] at heud
    unfold specRun
    rw [tok_plain f c rest label_1 acc h h_1]
    have := ih1 f acc (by simp at hfuel ⊢; omega) hacc (by simp) (by simp) heud
    unfold specRun at this
    exact this


theorem fqdn_len_gt_one (s : Bytes) (hfq : isFqdn s = true) (h46 : s ≠ [46]) : s.length > 1 := by
  match s with
  | [] => simp [isFqdn] at hfq
  | [c] =>
    rw [isFqdn_single] at hfq
    have : c = 46 := by simpa using hfq
    subst this; exact absurd rfl h46
  | _ :: _ :: _ => simp

/-- **pack_eq_spec**: for every fully-qualified text, in any escape spelling, `PackDomainName` accepts it exactly
    when the independent tokeniser finds non-empty labels within the RFC 1035 limits, and then writes the RFC wire
    form of those labels -/
theorem packName_eq_specPack (s : Bytes) (hfq : isFqdn s = true) : packName s = specPack s := by
  have hne : s ≠ [] := by intro e; subst e; simp [isFqdn] at hfq
  have hemp : s.isEmpty = false := by cases s with | nil => exact absurd rfl hne | cons _ _ => rfl
  by_cases h46 : s = [46]
  · subst h46; decide
  · unfold packName specPack labelsOfText
    simp only [hemp, hfq, h46, Bool.false_eq_true, ↓reduceIte, Bool.not_true]
    have hlen := fqdn_len_gt_one s hfq h46
    have := packLoop_eq_spec s true (decide (s.length > 1)) [] false [] (s.length + 1) [] (by omega)
      ⟨by simp [wireLabels], by simp, by simp⟩ (by simp) (by simp [hlen]) (by rw [eud_eq_isFqdn s false hne]; exact hfq)
    rw [this]
    unfold specRun specFinish
    cases tokensAux (s.length + 1) s [] [] <;> rfl

/-- names that are not fully qualified are refused by the packer (model statement) -/
theorem packName_not_fqdn (s : Bytes) (hne : s ≠ []) (hfq : isFqdn s = false) : packName s = .err := by
  unfold packName
  have hemp : s.isEmpty = false := by cases s with | nil => exact absurd rfl hne | cons _ _ => rfl
  simp [hemp, hfq]

/-! ### IsDomainName -/

def valRun (fuel : Nat) (s cur : Bytes) (acc : List Bytes) : Bool :=
  match tokensAux fuel s cur acc with
  | some ls => decide (WireNameOK ls)
  | none => false

theorem valRun_of_specRun_err (fuel : Nat) (s cur : Bytes) (acc : List Bytes) (h : specRun fuel s cur acc = .err) :
    valRun fuel s cur acc = false := by
  unfold specRun specFinish at h
  unfold valRun
  cases ht : tokensAux fuel s cur acc with
  | none => rfl
  | some ls =>
    rw [ht] at h
    simp only at h ⊢
    by_cases hok : WireNameOK ls
    · simp [hok] at h
    · simp [hok]

theorem tok_extends_cur (fuel : Nat) (s cur : Bytes) (acc ls : List Bytes) (h : tokensAux fuel s cur acc = some ls)
    (hc : cur ≠ []) : ∃ l more, ls = acc.reverse ++ l :: more ∧ cur.length ≤ l.length := by
  induction fuel generalizing s cur acc with
  | zero => simp [tokensAux] at h
  | succ f ih =>
    match s with
    | [] =>
      rw [tok_nil] at h
      have : cur.isEmpty = false := by cases cur with | nil => exact absurd rfl hc | cons _ _ => rfl
      simp [this] at h
    | c :: rest =>
      by_cases h92 : c = 92
      · subst h92
        by_cases hd : isDDD rest = true
        · rw [tok_ddd f rest cur acc hd] at h
          obtain ⟨l, more, h1, h2⟩ := ih _ _ _ h (by simp)
          exact ⟨l, more, h1, by simp at h2; omega⟩
        · match rest with
          | [] => simp [tokensAux] at h
          | d :: r =>
            rw [tok_esc f d r cur acc (by simpa using hd)] at h
            obtain ⟨l, more, h1, h2⟩ := ih _ _ _ h (by simp)
            exact ⟨l, more, h1, by simp at h2; omega⟩
      · by_cases h46 : c = 46
        · subst h46
          rw [tok_dot] at h
          have : cur.isEmpty = false := by cases cur with | nil => exact absurd rfl hc | cons _ _ => rfl
          simp only [this, Bool.false_eq_true, ↓reduceIte] at h
          obtain ⟨more, hm⟩ := tok_extends f rest [] (cur :: acc) ls h
          exact ⟨cur, more, by simp [hm], Nat.le_refl _⟩
        · rw [tok_plain f c rest cur acc h92 h46] at h
          obtain ⟨l, more, h1, h2⟩ := ih _ _ _ h (by simp)
          exact ⟨l, more, h1, by simp at h2; omega⟩

/-- a current label that cannot fit any more dooms the name -/
theorem valRun_long_cur (fuel : Nat) (s cur : Bytes) (acc : List Bytes) (hc : cur ≠ [])
    (hlong : (wireLabels acc.reverse).length + 1 + cur.length + 1 > 255) : valRun fuel s cur acc = false := by
  unfold valRun
  cases h : tokensAux fuel s cur acc with
  | none => rfl
  | some ls =>
    obtain ⟨l, more, hm, hl⟩ := tok_extends_cur fuel s cur acc ls h hc
    have : ¬ WireNameOK ls := by
      intro hok
      have := hok.2
      rw [wireOf_length, hm, wireLabels_append', List.length_append, wireLabels_length_cons] at this
      omega
    simp [this]

/-- the invariant of the finished labels as IsDomainName tracks them -/
def AccOK' (acc : List Bytes) (off labels : Nat) : Prop :=
  off = (wireLabels acc.reverse).length ∧ (∀ l ∈ acc, 1 ≤ l.length ∧ l.length ≤ 63) ∧ off ≤ 254 ∧ labels = acc.length

set_option tactic.hygienic false in
theorem isDomainLoop_eq_spec (s : Bytes) (first multi : Bool) (blen off labels : Nat) (wasDot escape : Bool) :
    ∀ (fuel : Nat) (cur : Bytes) (acc : List Bytes), s.length < fuel → AccOK' acc off labels → blen = cur.length →
      (first || wasDot) = cur.isEmpty → (first = true → multi = true) → (wasDot = true → escape = false) →
      eud s wasDot = true →
      (isDomainLoop s first multi blen off labels wasDot escape).2 = valRun fuel s cur acc := by
  fun_induction isDomainLoop s first multi blen off labels wasDot escape
  all_goals intro fuel cur acc hfuel hacc hblen hI3 hfm hesc heud
  all_goals (cases fuel with | zero => (simp at hfuel) | succ f => ?_)
  · -- 1 end of text
    rw [eud.eq_def] at heud
    simp only at heud
    have he := hesc heud
    subst he
    have hl : cur.isEmpty = true := by rw [← hI3, heud]; simp
    unfold valRun
    rw [tok_nil, if_pos hl]
    obtain ⟨h1, h2, h3, h4⟩ := hacc
    have hok : WireNameOK acc.reverse := by
      refine ⟨fun l hl => h2 l (by simpa using hl), ?_⟩
      rw [wireOf_length, ← h1]; omega
    simp [hok]
  · -- 2 backslash with no room left
    rw [eud.eq_def] at heud
    simp only [↓reduceIte] at heud
    obtain ⟨h1, h2, h3, h4⟩ := hacc
    simp only [Gen.isDomainNameLenmsg] at h
    by_cases hd : isDDD rest = true
    · simp only [hd, ↓reduceIte] at heud
      unfold valRun
      rw [tok_ddd f rest cur acc hd]
      have := valRun_long_cur f (rest.drop 3) (cur ++ [dddToByte rest]) acc (by simp) (by simp; omega)
      unfold valRun at this
      exact this.symm
    · simp only [hd, Bool.false_eq_true, ↓reduceIte] at heud
      match rest, heud with
      | d :: r, heud =>
        unfold valRun
        rw [tok_esc f d r cur acc (by simpa using hd)]
        have := valRun_long_cur f r (cur ++ [d]) acc (by simp) (by simp; omega)
        unfold valRun at this
        exact this.symm
  · -- 3 \DDD
    rw [eud.eq_def] at heud
    simp only [h_1, ↓reduceIte] at heud
    unfold valRun
    rw [tok_ddd f rest cur acc h_1]
    have := ih1 f (cur ++ [dddToByte rest]) acc (by simp at hfuel ⊢; omega) hacc (by simp [hblen]) (by simp) (by simp) (by simp) heud
    unfold valRun at this
    exact this
  · -- 4 \c
    rw [eud.eq_def] at heud
    simp only [h_1, Bool.false_eq_true, ↓reduceIte] at heud
    match rest, heud, h_1, ih1, hfuel with
    | d :: r, heud, h_1, ih1, hfuel =>
      unfold valRun
      rw [tok_esc f d r cur acc (by simpa using h_1)]
      simp only [List.drop_succ_cons, List.drop_zero] at ih1 ⊢
      have := ih1 f (cur ++ [d]) acc (by simp at hfuel ⊢; omega) hacc (by simp [hblen]) (by simp) (by simp) (by simp) heud
      unfold valRun at this
      exact this
  · -- 5 leading dot
    have hfirst : first_1 = true := by simp at h; exact h.1
    have hl : cur.isEmpty = true := by rw [← hI3, hfirst]; rfl
    unfold valRun
    rw [tok_dot, if_pos hl]
  · -- 6 doubled dot
    have hl : cur.isEmpty = true := by rw [← hI3]; simp
    unfold valRun
    rw [tok_dot, if_pos hl]
  · -- 7 label too long
    have hne : cur.isEmpty = false := by
      rw [← hI3]
      have hf : first_1 = false := by
        cases hfv : first_1 with
        | false => rfl
        | true => exact absurd (by simp [hfv, hfm hfv]) h
      simp [hf]; simpa using h_1
    unfold valRun
    rw [tok_dot, if_neg (by simp [hne])]
    have := valRun_of_specRun_err f rest [] (cur :: acc)
      (specRun_bad f rest [] (cur :: acc) cur (by simp) (by simp [Gen.labelLimitIsDomainName] at h_2; omega))
    unfold valRun at this
    exact this.symm
  · -- 8 name too long
    have hne : cur.isEmpty = false := by
      rw [← hI3]
      have hf : first_1 = false := by
        cases hfv : first_1 with
        | false => rfl
        | true => exact absurd (by simp [hfv, hfm hfv]) h
      simp [hf]; simpa using h_1
    unfold valRun
    rw [tok_dot, if_neg (by simp [hne])]
    have := valRun_of_specRun_err f rest [] (cur :: acc) (specRun_long f rest [] (cur :: acc) (by
      obtain ⟨h1, _, _, _⟩ := hacc
      simp only [List.reverse_cons, wireLabels_append', List.length_append]
      rw [← h1]
      simp [wireLabels, Gen.isDomainNameLenmsg] at h_3 ⊢; omega))
    unfold valRun at this
    exact this.symm
  · -- 9 label closed
    have hne : cur.isEmpty = false := by
      rw [← hI3]
      have hf : first_1 = false := by
        cases hfv : first_1 with
        | false => rfl
        | true => exact absurd (by simp [hfv, hfm hfv]) h
      simp [hf]; simpa using h_1
    rw [eud.eq_def] at heud
    simp only [h_4, ↓reduceIte] at heud
    unfold valRun
    rw [tok_dot, if_neg (by simp [hne])]
    have hacc' : AccOK' (cur :: acc) (off_1 + 1 + blen_1) (labels_1 + 1) := by
      obtain ⟨h1, h2, h3, h4⟩ := hacc
      refine ⟨?_, ?_, ?_, ?_⟩
      · simp only [List.reverse_cons, wireLabels_append', List.length_append, ← h1]; simp [wireLabels, hblen]; omega
      · intro l hl
        rcases List.mem_cons.mp hl with rfl | hl
        · constructor
          · cases hlab : l with
            | nil => rw [hlab] at hne; simp at hne
            | cons _ _ => simp
          · simp [Gen.labelLimitIsDomainName] at h_2; omega
        · exact h2 l hl
      · simp [Gen.isDomainNameLenmsg] at h_3; omega
      · simp [h4]
    have := ih1 f [] (cur :: acc) (by simp at hfuel ⊢; omega) hacc' (by simp) (by simp) (by simp) (by simp) heud
    unfold valRun at this
    exact this
  · -- 10 plain octet
    rw [eud.eq_def] at heud
    simp only [h, h_1, ↓reduceIte] at heud
    unfold valRun
    rw [tok_plain f c rest cur acc h h_1]
    have := ih1 f (cur ++ [c]) acc (by simp at hfuel ⊢; omega) hacc (by simp [hblen]) (by simp) (by simp) (by simp) heud
    unfold valRun at this
    exact this

/-- **isDomain_eq_spec**: for every fully-qualified text `IsDomainName` says valid exactly when the specification does -/
theorem isDomainName_eq_specValid (s : Bytes) (hfq : isFqdn s = true) : (isDomainName s).2 = specValid s := by
  have hne : s ≠ [] := by intro e; subst e; simp [isFqdn] at hfq
  have hemp : s.isEmpty = false := by cases s with | nil => exact absurd rfl hne | cons _ _ => rfl
  by_cases h46 : s = [46]
  · subst h46
    have e1 : specValid [46] = true := by decide
    have e2 : fqdn [46] = [46] := by decide
    rw [e1]
    unfold isDomainName
    simp only [List.isEmpty_cons, Bool.false_eq_true, ↓reduceIte, e2]
    rw [isDomainLoop.eq_def]
    simp only [Gen.isDomainNameLenmsg, Gen.labelLimitIsDomainName]
    simp
    rw [isDomainLoop.eq_def]
    simp
  · unfold isDomainName specValid labelsOfText fqdn
    simp only [hemp, hfq, h46, Bool.false_eq_true, ↓reduceIte]
    have hlen := fqdn_len_gt_one s hfq h46
    have := isDomainLoop_eq_spec s true (decide (s.length > 1)) 0 0 0 false false (s.length + 1) [] [] (by omega)
      ⟨by simp [wireLabels], by simp, by simp, by simp⟩ (by simp) (by simp) (by simp [hlen]) (by simp)
      (by rw [eud_eq_isFqdn s false hne]; exact hfq)
    rw [this]
    unfold valRun
    cases tokensAux (s.length + 1) s [] [] <;> rfl

/-- **valid ⇔ packs**: the corollary the property states — for fully-qualified names IsDomainName and
    PackDomainName take the same decision -/
theorem valid_iff_packs (s : Bytes) (hfq : isFqdn s = true) :
    (isDomainName s).2 = true ↔ ∃ w, packName s = .ok w := by
  rw [isDomainName_eq_specValid s hfq, packName_eq_specPack s hfq]
  have hne : s ≠ [] := by intro e; subst e; simp [isFqdn] at hfq
  have hemp : s.isEmpty = false := by cases s with | nil => exact absurd rfl hne | cons _ _ => rfl
  unfold specValid specPack
  simp only [hemp, Bool.false_eq_true, ↓reduceIte]
  cases labelsOfText s with
  | none => simp
  | some ls =>
    simp only
    by_cases hok : WireNameOK ls
    · simp [hok]
    · simp [hok]

end Dns.C03
