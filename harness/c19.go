package main

import (
	"fmt"
	"strings"

	"github.com/miekg/dns"
	"github.com/miekg/dns/dnsutil"
)

func init() { props["C19"] = runC19 }

func splitDNHex(s string) string {
	l := dns.SplitDomainName(s)
	if len(l) == 0 {
		return "nil"
	}
	hs := make([]string, len(l))
	for i, x := range l {
		hs[i] = hxs(x)
	}
	return strings.Join(hs, ",")
}

// c19Name: single-name helpers against the model, and against the wire label list `ls` (spec).
func c19Name(c *Ctx, stream, s string, ls [][]byte) {
	h := hxs(s)
	nt := nontrivialName(s)
	c.Op(stream, "lab.count "+h, guard(func() string { return fmt.Sprint(dns.CountLabel(s)) }), nt)
	c.Op(stream, "lab.split "+h, guard(func() string { return ints(dns.Split(s)) }), nt)
	c.Op(stream, "lab.splitdn "+h, guard(func() string { return splitDNHex(s) }), nt)
	c.Op(stream, "lab.fqdn "+h, guard(func() string { return hxs(dns.Fqdn(s)) }), nt)
	c.Op(stream, "lab.canon "+h, guard(func() string { return hxs(dns.CanonicalName(s)) }), nt)
	c.Op(stream, "name.isfqdn "+h, guard(func() string { return b01(dns.IsFqdn(s)) }), nt)
	for off := 0; off <= len(s); off++ {
		off := off
		c.Op(stream, fmt.Sprintf("lab.next %s %d", h, off), guard(func() string {
			i, e := dns.NextLabel(s, off)
			return fmt.Sprintf("%d %s", i, b01(e))
		}), nt)
	}
	for n := 0; n <= len(ls)+2; n++ {
		n := n
		c.Op(stream, fmt.Sprintf("lab.prev %s %d", h, n), guard(func() string {
			i, e := dns.PrevLabel(s, n)
			return fmt.Sprintf("%d %s", i, b01(e))
		}), nt)
	}
	if ls == nil {
		return
	}
	// spec predicates against the wire label sequence
	c.Pred(stream, "count-vs-wire", h, dns.CountLabel(s) == len(ls), fmt.Sprint(dns.CountLabel(s)), fmt.Sprint(len(ls)), nt)
	idx := dns.Split(s)
	// label i must start at idx[i] and its presentation must decode to ls[i]
	okSplit := len(idx) == len(ls)
	if okSplit {
		for i := range idx {
			end := len(s)
			if i+1 < len(idx) {
				end = idx[i+1]
			}
			if idx[i] > end || end > len(s) {
				okSplit = false
				break
			}
			lab := s[idx[i]:end]
			if !strings.HasSuffix(lab, ".") || string(unescape(lab[:len(lab)-1])) != string(ls[i]) {
				okSplit = false
				break
			}
		}
	}
	c.Pred(stream, "split-vs-wire", h, okSplit, ints(idx), "label starts of the wire labels", nt)
	sd := dns.SplitDomainName(s)
	okSD := len(sd) == len(ls)
	if okSD {
		for i := range sd {
			if string(unescape(sd[i])) != string(ls[i]) {
				okSD = false
			}
		}
	}
	c.Pred(stream, "splitdn-vs-wire", h, okSD, splitDNHex(s), "the wire labels", nt)
	// next-label stepping visits exactly the label starts
	var starts []int
	if s != "." {
		starts = append(starts, 0)
		off, end := 0, false
		for k := 0; k < len(s)+2; k++ {
			off, end = dns.NextLabel(s, off)
			if end {
				break
			}
			starts = append(starts, off)
		}
	}
	c.Pred(stream, "next-vs-wire", h, ints(starts) == ints(idx), ints(starts), ints(idx), nt)
	// prev-label stepping: n labels from the right is the start of label len-n
	okPrev := true
	for n := 1; n <= len(ls); n++ {
		i, st := dns.PrevLabel(s, n)
		if st || len(idx) != len(ls) || i != idx[len(ls)-n] {
			okPrev = false
		}
	}
	if len(ls) > 0 {
		_, st := dns.PrevLabel(s, len(ls)+2)
		okPrev = okPrev && st
	}
	c.Pred(stream, "prev-vs-wire", h, okPrev, "", "label starts from the right", nt)
	// canonical: only ASCII letters lower-cased
	cn := dns.CanonicalName(s)
	c.Pred(stream, "canon-vs-spec", h, cn == asciiLower(s), hxs(cn), hxs(asciiLower(s)), nt)
}

func asciiLower(s string) string {
	b := []byte(s)
	for i, x := range b {
		if x >= 'A' && x <= 'Z' {
			b[i] = x + 32
		}
	}
	return string(b)
}

// unescape: independent decoder of the presentation escapes (\DDD, \c)
func unescape(s string) []byte {
	var out []byte
	for i := 0; i < len(s); i++ {
		if s[i] != '\\' {
			out = append(out, s[i])
			continue
		}
		if i+3 < len(s)+0 && i+3 <= len(s)-1+0 || i+3 == len(s)-0 {
		}
		if i+3 < len(s)+1 && isDig(s, i+1) && isDig(s, i+2) && isDig(s, i+3) {
			out = append(out, byte((int(s[i+1]-'0')*100+int(s[i+2]-'0')*10+int(s[i+3]-'0'))&0xFF))
			i += 3
		} else if i+1 < len(s) {
			out = append(out, s[i+1])
			i++
		}
	}
	return out
}
func isDig(s string, i int) bool { return i < len(s) && s[i] >= '0' && s[i] <= '9' }

func foldEq(a, b []byte) bool { return asciiLower(string(a)) == asciiLower(string(b)) }

func commonSuffix(a, b [][]byte) int {
	n := 0
	for i, j := len(a)-1, len(b)-1; i >= 0 && j >= 0; i, j = i-1, j-1 {
		if !foldEq(a[i], b[j]) {
			break
		}
		n++
	}
	return n
}

func c19Pair(c *Ctx, stream, a, b string, la, lb [][]byte) {
	ha, hb := hxs(a), hxs(b)
	nt := nontrivialName(a) || nontrivialName(b)
	c.Op(stream, fmt.Sprintf("lab.compare %s %s", ha, hb), guard(func() string { return fmt.Sprint(dns.CompareDomainName(a, b)) }), nt)
	c.Op(stream, fmt.Sprintf("lab.issub %s %s", ha, hb), guard(func() string { return b01(dns.IsSubDomain(a, b)) }), nt)
	if la != nil && lb != nil {
		want := commonSuffix(la, lb)
		got := dns.CompareDomainName(a, b)
		c.Pred(stream, "compare-vs-wire", ha+" "+hb, got == want, fmt.Sprint(got), fmt.Sprint(want), nt)
		sub := dns.IsSubDomain(a, b)
		c.Pred(stream, "issub-vs-wire", ha+" "+hb, sub == (want == len(la)), b01(sub), b01(want == len(la)), nt)
	}
}

func c19Origin(c *Ctx, stream, s, origin string, rel, org [][]byte) {
	hs, ho := hxs(s), hxs(origin)
	nt := true
	add := guard(func() string { return hxs(dnsutil.AddOrigin(s, origin)) })
	c.Op(stream, fmt.Sprintf("lab.addorigin %s %s", hs, ho), add, nt)
	c.Op(stream, fmt.Sprintf("lab.trim %s %s", hs, ho), guard(func() string { return hxs(dnsutil.TrimDomainName(s, origin)) }), nt)
	if rel != nil && org != nil && len(rel) > 0 && len(org) > 0 && add != "panic" {
		// s relative (non-empty), origin fully qualified, non-root: inverse laws
		full := dnsutil.AddOrigin(s, origin)
		want := spell(append(append([][]byte{}, rel...), org...), nil, 0)
		c.Pred(stream, "addorigin-vs-spec", hs+" "+ho, full == want, hxs(full), hxs(want), nt)
		back := dnsutil.TrimDomainName(full, origin)
		c.Pred(stream, "trim-add-inverse", hs+" "+ho, back == s, hxs(back), hs, nt)
		again := dnsutil.AddOrigin(back, origin)
		c.Pred(stream, "add-trim-inverse", hs+" "+ho, again == full, hxs(again), hxs(full), nt)
	}
}

func relSpell(ls [][]byte) string {
	s := spell(ls, nil, 0)
	return strings.TrimSuffix(s, ".")
}

func runC19(c *Ctx) {
	r := c.R
	c.Res.Rule = "valid presentation names obtained from label lists (library canonical spelling), bounded-exhaustive small-alphabet names, pairs related by shared suffixes and case changes; non-trivial = at least two labels or an escape; distinct by op line"
	// 1. bounded-exhaustive: label lists over a token alphabet
	toks := [][]byte{{'a'}, {'A'}, {'0'}, {'.'}, {'\\'}, {0}, {'b'}}
	maxTok := c.Scale(4, 5)
	var names []string
	var nameLs [][][]byte
	var rec func(cur [][]byte, used int)
	rec = func(cur [][]byte, used int) {
		// cur: labels; last label may be extended
		if len(cur) > 0 && len(cur[len(cur)-1]) > 0 {
			ls := make([][]byte, len(cur))
			for i := range cur {
				ls[i] = append([]byte{}, cur[i]...)
			}
			names = append(names, spell(ls, nil, 0))
			nameLs = append(nameLs, ls)
		}
		if used == maxTok {
			return
		}
		for _, t := range toks {
			// extend last label
			if len(cur) > 0 {
				cur[len(cur)-1] = append(cur[len(cur)-1], t[0])
				rec(cur, used+1)
				cur[len(cur)-1] = cur[len(cur)-1][:len(cur[len(cur)-1])-1]
			}
			// start new label
			if len(cur) == 0 || len(cur[len(cur)-1]) > 0 {
				cur = append(cur, []byte{t[0]})
				rec(cur, used+1)
				cur = cur[:len(cur)-1]
			}
		}
	}
	rec(nil, 0)
	names = append(names, ".")
	nameLs = append(nameLs, [][]byte{})
	for i, s := range names {
		c19Name(c, "exhaustive", s, nameLs[i])
	}
	c.Res.Notes = append(c.Res.Notes, fmt.Sprintf("exhaustive: %d names of up to %d octets over %d octet classes", len(names), maxTok, len(toks)))
	// pairs: all pairs of the names up to 3 tokens (quick) / sample
	np := c.Scale(60000, 1500000)
	for i := 0; i < np; i++ {
		a, b := r.Intn(len(names)), r.Intn(len(names))
		c19Pair(c, "exhaustive-pairs", names[a], names[b], nameLs[a], nameLs[b])
	}
	// 2. random long names and related pairs
	n := c.Scale(4000, 80000)
	for i := 0; i < n; i++ {
		ls := genLabels(r, r.Intn(3))
		s := spell(ls, r, 0)
		c19Name(c, "random", s, ls)
		// the same labels in another legal spelling (letters and digits escaped, \\DDD for anything): the canonical name
		// is that text with its ASCII letters in lower case, escaped or not
		// (octets from 0x80 up stay in \\DDD form: written raw, CanonicalName's strings.Map turns those that are not valid
		// UTF-8 into U+FFFD — outside this property, which speaks of the library's presentation form; noted in DESIGN)
		if s1 := spell(ls, r, 3); s1 != s {
			cn := dns.CanonicalName(s1)
			c.Pred("random-spellings", "canon-vs-spec", hxs(s1), cn == asciiLower(s1), hxs(cn), hxs(asciiLower(s1)), true)
			c.Op("random-spellings", "lab.canon "+hxs(s1), guard(func() string { return hxs(dns.CanonicalName(s1)) }), true)
		}
		// the same name written without its final dot (what users type), in random case and with the last letter the only
		// capital: making it canonical appends the root and lower-cases every ASCII letter, the last one too
		if u := strings.TrimSuffix(s, "."); u != "" && u != s && !strings.HasSuffix(u, "\\") {
			for _, v := range []string{randCase(r, u), asciiLower(u[:len(u)-1]) + strings.ToUpper(u[len(u)-1:]), strings.ToUpper(u)} {
				cn := dns.CanonicalName(v)
				c.Pred("unqualified", "canon-vs-spec", hxs(v), cn == asciiLower(v)+".", hxs(cn), hxs(asciiLower(v)+"."), true)
				c.Op("unqualified", "lab.canon "+hxs(v), guard(func() string { return hxs(dns.CanonicalName(v)) }), true)
			}
		}
		// related name: share a suffix, change case, maybe differ in one label
		k := 0
		if len(ls) > 0 {
			k = r.Intn(len(ls) + 1)
		}
		other := genLabels(r, 1)
		if len(other) > 3 {
			other = other[:3]
		}
		rel := append(append([][]byte{}, other...), ls[len(ls)-k:]...)
		if len(wireOf(rel)) > 255 {
			rel = ls
		}
		rel2 := make([][]byte, len(rel))
		for j := range rel {
			rel2[j] = append([]byte{}, rel[j]...)
			if r.Chance(30) {
				for x := range rel2[j] {
					if rel2[j][x] >= 'a' && rel2[j][x] <= 'z' && r.Bool() {
						rel2[j][x] -= 32
					}
				}
			}
		}
		t := spell(rel2, r, 0)
		c19Pair(c, "random-pairs", s, t, ls, rel2)
		c19Pair(c, "random-pairs", t, s, rel2, ls)
		// origin handling: relative part + origin
		if len(ls) > 0 && len(other) > 0 && len(wireOf(append(append([][]byte{}, other...), ls...))) <= 255 {
			c19Origin(c, "origin", relSpell(other), s, other, ls)
		}
		// correspondence only: arbitrary arguments
		if r.Chance(20) {
			c19Origin(c, "origin-any", mutateText(relSpell(other), r), mutateText(s, r), nil, nil)
		}
	}
	// 2b. pairs whose labels differ only where a careless comparison folds too much: octets that differ in bit 0x20
	//     without being letters ('[' and '{', '@' and '`', …) and raw UTF-8 letters that Unicode folding identifies
	//     (names as users type them); the comparison is ASCII-case-insensitive and nothing else
	{
		tail := [][]byte{[]byte("example"), []byte("org")}
		var alts [][2][]byte
		for b := 0; b < 256; b++ {
			x := byte(b)
			alts = append(alts, [2][]byte{{'a', x, 'b'}, {'a', x ^ 0x20, 'b'}})
		}
		for _, p := range [][2]string{{"\u00c9", "\u00e9"}, {"\u212a", "k"}, {"\u017f", "S"}, {"\u0130", "i"}, {"\u0394", "\u03b4"}, {"\xff", "\xfe"}} {
			alts = append(alts, [2][]byte{[]byte(p[0]), []byte(p[1])})
		}
		for _, al := range alts {
			la := append([][]byte{al[0]}, tail...)
			lb := append([][]byte{al[1]}, tail...)
			for _, style := range []int{0, 2} {
				a, b := spell(la, r, 0), spell(lb, r, 0)
				if style == 2 {
					// the same labels with octets >= 0x80 written raw
					a, b = string(al[0])+".example.org.", string(al[1])+".example.org."
					if strings.ContainsAny(a+b, ".\\ \"()@;$") && (len(al[0]) != 3 || al[0][1] < 0x80) {
						continue
					}
					if len(al[0]) == 3 && al[0][1] < 0x80 {
						continue
					}
				}
				c19Pair(c, "fold-pairs", a, b, la, lb)
				c19Pair(c, "fold-pairs", b, a, lb, la)
			}
		}
	}
	// 3. non-fqdn spellings of valid names and a few odd strings: correspondence only
	for _, s := range []string{"", "@", "a", "a.b", "a\\.b", "a\\\\.b", "\\.", "a\\.", "a\\\\.", "\\\\\\.", "www.example.org", "*.x."} {
		c19Name(c, "misc", s, nil)
		for _, t := range []string{"", ".", "a.", "b.a.", "A.", "a"} {
			c19Pair(c, "misc", s, t, nil, nil)
			c19Origin(c, "misc", s, t, nil, nil)
		}
	}
}
