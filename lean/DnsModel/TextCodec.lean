/-
  DnsModel.TextCodec — the idioms the simple RDATA parsers and printers are made of (scan_rr.go, types.go) as total
  functions on the lexer's token list, and the per-type plans translated from the source on every run
  (DnsModel/Generated/TextPlans.lean) interpreted over them.

  Field values are what the parser stores: integers, strings (names in presentation form, hex / base64 text), lists of
  character-strings in their escaped in-memory form.
-/
import DnsModel.TextCodecBase
import DnsModel.TxtParse
import DnsModel.Zone
namespace Dns.TextCodec
open Dns Dns.Lex Dns.TxtParse

inductive TVal where
  | n (v : Nat)
  | s (text : Bytes)
  | ss (strs : List Bytes)
  | nl (codes : List Nat)
deriving Repr, DecidableEq

/-! ### printing -/

/-- `strconv.Itoa` of a non-negative integer -/
def itoaAux : (fuel : Nat) → Nat → Bytes → Bytes
  | 0, _, acc => acc
  | f + 1, n, acc => if n < 10 then UInt8.ofNat (48 + n) :: acc else itoaAux f (n / 10) (UInt8.ofNat (48 + n % 10) :: acc)

def itoa (n : Nat) : Bytes := itoaAux (n + 1) n []

/-- `nextByte(s, i)` on the rest of the string: the octet and how many characters it took (0 = dangling backslash) -/
def nextByte (s : Bytes) : Byte × Nat :=
  match s with
  | [] => (0, 0)
  | c :: rest =>
    if c != 92 then (c, 1)
    else match rest with
      | [] => (0, 0)
      | d :: _ => if isDDD rest then (dddToByte rest, 4) else (d, 2)

/-- the loop of `sprintName`: `pre` is `s[:i]` (what has been read), `dst` the builder (its length doubles as the
    "started copying" flag, as in the Go code) -/
def sprintNameLoop : (fuel : Nat) → (pre rest dst : Bytes) → Bytes
  | 0, _, _, dst => dst
  | f + 1, pre, rest, dst =>
    match rest with
    | [] => if dst.isEmpty then pre else dst
    | c :: tl =>
      if c == 46 then sprintNameLoop f (pre ++ [c]) tl (if dst.isEmpty then dst else dst ++ [46])
      else
        let (b, n) := nextByte rest
        if n == 0 then (if dst.isEmpty then pre else dst)
        else
          let dst0 := if dst.isEmpty then pre else dst
          let dst' :=
            if isSpecial b then dst0 ++ [92, b]
            else if b < 32 || b > 126 then dst0 ++ escapeByte b
            else if dst.isEmpty then dst else dst ++ [b]
          sprintNameLoop f (pre ++ rest.take n) (rest.drop n) dst'

/-- `sprintName` (types.go) -/
def sprintName (s : Bytes) : Bytes := sprintNameLoop (s.length + 1) [] s []

def upperAscii (s : Bytes) : Bytes := s.map (fun b => if 97 ≤ b.toNat ∧ b.toNat ≤ 122 then b - 32 else b)

/-- the body of `sprintTxtOctet`: every escape decoded and the octet spelled again as in a character-string, except that
    `\.` stays as it is; a dangling backslash is dropped -/
def octetRe (s : Bytes) : Bytes :=
  match s with
  | [] => []
  | c :: rest =>
    if c = 92 then
      if isDDD rest then txtEscapeByte (dddToByte rest) ++ octetRe (rest.drop 3)
      else match rest with
        | [] => []
        | d :: rest' => if d = 46 then 92 :: 46 :: octetRe rest' else txtEscapeByte d ++ octetRe rest'
    else txtEscapeByte c ++ octetRe rest
termination_by s.length
decreasing_by all_goals simp_wf <;> omega

/-- `sprintTxtOctet` (types.go) -/
def sprintTxtOctet (s : Bytes) : Bytes := [34] ++ octetRe s ++ [34]

/-! #### numbers in groups of hex digits -/

def hexChar (upper : Bool) (n : Nat) : Byte :=
  if n < 10 then UInt8.ofNat (48 + n) else UInt8.ofNat ((if upper then 55 else 87) + n)

/-- `fmt.Sprintf("%0<n>x", v)` for a value of at most `n` hex digits: exactly `n` digits, most significant first -/
def hexFixed (upper : Bool) : (n : Nat) → Nat → Bytes
  | 0, _ => []
  | n + 1, v => hexChar upper (v / 16 ^ n % 16) :: hexFixed upper n v

def groupsOf (g : Nat) : (fuel : Nat) → Bytes → List Bytes
  | 0, _ => []
  | f + 1, s => if s.length ≤ g ∨ g = 0 then [s] else s.take g :: groupsOf g f (s.drop g)

def joinWith (sep : Byte) : List Bytes → Bytes
  | [] => []
  | [w] => w
  | w :: rest => w ++ sep :: joinWith sep rest

/-- `splitN` (types.go): pieces of `n` octets; the loop stops at the first piece that is shorter — an empty one when the
    length is a multiple of `n` -/
def splitLoop (n : Nat) : (fuel : Nat) → Bytes → List Bytes
  | 0, s => [s]
  | f + 1, s => if n ≤ s.length then s.take n :: splitLoop n f (s.drop n) else [s]

def splitN (s : Bytes) (n : Nat) : List Bytes := if s.length < n then [s] else splitLoop n (s.length + 1) s

def printHexGroups (digits group sep : Nat) (upper : Bool) (v : Nat) : Bytes :=
  joinWith (UInt8.ofNat sep) (groupsOf group (digits + 1) (hexFixed upper digits v))

def hexDigitVal (c : Byte) : Option Nat :=
  if 48 ≤ c.toNat ∧ c.toNat ≤ 57 then some (c.toNat - 48)
  else if 97 ≤ c.toNat ∧ c.toNat ≤ 102 then some (c.toNat - 87)
  else if 65 ≤ c.toNat ∧ c.toNat ≤ 70 then some (c.toNat - 55)
  else none

def hexStep (acc : Option Nat) (c : Byte) : Option Nat :=
  match acc, hexDigitVal c with
  | some a, some d => some (a * 16 + d)
  | _, _ => none

/-- `strconv.ParseUint(s, 16, bits)`: hex digits only, at least one, the value below 2^bits -/
def parseHexN (bits : Nat) (s : Bytes) : Option Nat :=
  if s.isEmpty then none
  else match s.foldl hexStep (some 0) with
    | some v => if v < 2 ^ bits then some v else none
    | none => none

/-- `(*EUI48).parse` (6 groups) / `(*EUI64).parse` (8 groups) on the token: the length, the dashes behind all groups but
    the last, the digits as one hexadecimal number -/
def euiParse (groups : Nat) (tok : Bytes) : Option Nat :=
  if tok.length ≠ 3 * groups - 1 then none
  else if !((List.range (groups - 1)).all (fun i => tok[3 * i + 2]? == some 45)) then none
  else parseHexN (8 * groups) ((List.range groups).flatMap (fun i => (tok.drop (3 * i)).take 2))

/-- `stringToNodeID` -/
def nodeIdParse (tok : Bytes) : Option Nat :=
  if tok.length < 19 then none
  else if tok[4]? != some 58 && tok[9]? != some 58 && tok[14]? != some 58 then none
  else parseHexN 64 ((tok.drop 0).take 4 ++ (tok.drop 5).take 4 ++ (tok.drop 10).take 4 ++ (tok.drop 15).take 4)

/-! #### IPv4 addresses in dotted decimal -/

/-- `net.IP.String()` of an IPv4 address (four octets) -/
def printIPv4 : Bytes → Bytes
  | [a, b, c, d] => itoa a.toNat ++ [46] ++ itoa b.toNat ++ [46] ++ itoa c.toNat ++ [46] ++ itoa d.toNat
  | _ => []

def isDigitB (b : Byte) : Bool := 48 ≤ b.toNat && b.toNat ≤ 57

/-- one field of `net.ParseIP`'s dotted-decimal reader: at least one digit, no leading zero in front of another digit,
    at most 255; the value and what follows -/
def ipv4Field (s : Bytes) : Option (Nat × Bytes) :=
  let ds := s.takeWhile isDigitB
  if ds.isEmpty then none
  else if ds.length > 1 ∧ ds.head? = some 48 then none
  else
    let v := ds.foldl (fun a b => a * 10 + (b.toNat - 48)) 0
    if v > 255 then none else some (v, s.drop ds.length)

/-- `net.ParseIP` on a token without a colon: four fields with dots between them and nothing behind -/
def parseIPv4 (s : Bytes) : Option Bytes :=
  match ipv4Field s with
  | some (a, 46 :: s1) =>
    match ipv4Field s1 with
    | some (b, 46 :: s2) =>
      match ipv4Field s2 with
      | some (c, 46 :: s3) =>
        match ipv4Field s3 with
        | some (d, []) => some [UInt8.ofNat a, UInt8.ofNat b, UInt8.ofNat c, UInt8.ofNat d]
        | _ => none
      | _ => none
    | _ => none
  | _ => none

/-! ### type and class mnemonics (defaults.go `Type.String`, `Class.String`) -/

/-- `Type(n).String()`: `TypeToString[n]`, else `"TYPE" + strconv.Itoa(n)` -/
def printType (n : Nat) : Bytes :=
  match Gen.stringToType.find? (fun p => p.2 == n) with
  | some p =>
    -- only a mnemonic that the lexer, which looks tokens up in upper case, reads back as this type
    if lookup Gen.stringToType (goUpper (ascii p.1)) == some n then ascii p.1 else ascii "TYPE" ++ itoa n
  | none => ascii "TYPE" ++ itoa n

/-- `Class(n).String()` -/
def printClass (n : Nat) : Bytes :=
  match Gen.stringToClass.find? (fun p => p.2 == n) with
  | some p =>
    -- only a mnemonic that is not also the name of a type (`ANY` is both)
    if lookup Gen.stringToType (ascii p.1) == none then ascii p.1 else ascii "CLASS" ++ itoa n
  | none => ascii "CLASS" ++ itoa n

/-- a type mnemonic inside RDATA (the loops of `(*NSEC).parse`, `(*CSYNC).parse`): `StringToType[strings.ToUpper(token)]`,
    else `typeToInt(token)` -/
def rdType (tok : Bytes) : Option Nat :=
  match lookup Gen.stringToType (goUpper tok) with
  | some k => some k
  | none => numericCode 4 tok

/-- `" " + Type(t).String()` for every type of the list -/
def typesText (ts : List Nat) : Bytes := (ts.map (fun t => 32 :: printType t)).flatten

/-- the type-bitmap loop: tokens up to the end of the entry; blanks are skipped, a string must name a type, anything
    else is an error (a lexer error too: ZoneParser.Next tests the lexer's error flag behind the type's parser) -/
def typeListParse : List Tok → List Nat → Option (List Nat)
  | [], acc => some acc
  | t :: ts, acc =>
    if t.err then none
    else if t.value = zNewline ∨ t.value = zEOF then some acc
    else if t.value = zBlank then typeListParse ts acc
    else if t.value = zString then
      match rdType t.token with
      | some k => typeListParse ts (acc ++ [k])
      | none => none
    else none

/-- the tables of step `mnem` -/
def mnemTable : Nat → List (String × Nat)
  | 0 => Gen.stringToCertType
  | _ => Gen.stringToAlgorithm

/-- `XToString[v]`, else `strconv.Itoa(v)` -/
def printMnem (tbl v : Nat) : Bytes :=
  match (mnemTable tbl).find? (fun p => p.2 == v) with
  | some p => ascii p.1
  | none => itoa v

/-- one leaf of a `String()` expression -/
def printStep : TStep → List TVal → Option (Bytes × List TVal)
  | .uint _, .n v :: vs => some (itoa v, vs)
  | .name, .s t :: vs => some (sprintName t, vs)
  | .endStr up, .s t :: vs => some (if up then upperAscii t else t, vs)
  | .txt, .ss strs :: vs => some (sprintTxt strs, vs)
  | .txtPair, .s a :: .s b :: vs => some (sprintTxt [a, b], vs)
  | .txtFirst, .s a :: vs => some (sprintTxt [a], vs)
  | .endStrSplit n, .s t :: vs => some (joinWith 32 (splitN t n), vs)
  | .mnem tbl _, .n v :: vs => some (printMnem tbl v, vs)
  | .typeList, .nl ts :: vs => some (typesText ts, vs)
  | .ipv4, .s a :: vs => if a.length = 4 then some (printIPv4 a, vs) else none
  | .salt, .s t :: vs => some (if t.isEmpty then [45] else upperAscii t, vs)
  | .hexGroups d g sep up, .n v :: vs => some (printHexGroups d g sep up v, vs)
  | .octet, .s a :: vs => some (sprintTxtOctet a, vs)
  | .blank, vs => some ([32], vs)
  | .slurp, vs => some ([], vs)
  | _, _ => none

/-- the RDATA text a `String()` method prints for the field values -/
def printPlan : List TStep → List TVal → Option Bytes
  | [], [] => some []
  | [], _ :: _ => none
  | st :: rest, vals =>
    match printStep st vals with
    | some (txt, vals') => (printPlan rest vals').map (fun r => txt ++ r)
    | none => none

/-! ### parsing -/

/-- `strconv.ParseUint(s, 10, bits)` -/
def parseUintN (bits : Nat) (s : Bytes) : Option Nat :=
  if s.isEmpty ∨ !(s.all (fun b => 48 ≤ b.toNat ∧ b.toNat ≤ 57)) then none
  else
    let v := s.foldl (fun a b => a * 10 + (b.toNat - 48)) 0
    if v < 2 ^ bits then some v else none

/-- `endingToString`: the string tokens up to the end of the entry, concatenated; blanks are skipped -/
def endingToString : List Tok → Bytes → Option Bytes
  | [], acc => some acc
  | t :: ts, acc =>
    if t.value = zNewline then some acc
    else if t.err then none
    else if t.value = zString then endingToString ts (acc ++ t.token)
    else if t.value = zBlank then endingToString ts acc
    else none

/-- `slurpRemainder` -/
def slurpRemainder : List Tok → Bool
  | [] => true
  | t :: ts =>
    if t.value = zBlank then (match ts with | [] => true | u :: _ => u.value = zNewline)
    else t.value = zNewline

/-- `strings.Fields` as far as ASCII goes: maximal runs of octets other than blank, tab, line feed, vertical tab, form feed
    and carriage return (the other white space of Unicode is outside this model) -/
def fieldsAux : Bytes → Bytes → List Bytes → List Bytes
  | [], cur, acc => if cur.isEmpty then acc else acc ++ [cur]
  | b :: r, cur, acc =>
    if b == 32 || (9 ≤ b.toNat && b.toNat ≤ 13) then fieldsAux r [] (if cur.isEmpty then acc else acc ++ [cur])
    else fieldsAux r (cur ++ [b]) acc

def asciiFields (s : Bytes) : List Bytes := fieldsAux s [] []

def joinBlank : List Bytes → Bytes
  | [] => []
  | [w] => w
  | w :: rest => w ++ [32] ++ joinBlank rest

/-- how HINFO and ISDN share the chunks out: none — both fields stay empty; one — split at white space when that gives more
    than one word, else the second field is empty; the first chunk, and the others joined by blanks -/
def pairOfChunks (chunks : List Bytes) : Bytes × Bytes :=
  match chunks with
  | [] => ([], [])
  | [c] =>
    let out := asciiFields c
    if out.length > 1 then (out.headD [], joinBlank out.tail) else (c, [])
  | c :: rest => (c, joinBlank rest)

/-- the loop of `endingToOctetString`: at most one string token, blanks only outside quotes, quotes in pairs -/
def octetTokens : List Tok → (s : Bytes) → (seen quote : Bool) → Option Bytes
  | [], s, seen, quote =>
    if quote || !seen then none else if (escOffset s (s.length + 1)).isSome then some s else none
  | t :: ts, s, seen, quote =>
    if t.value = zNewline then
      (if quote || !seen then none else if (escOffset s (s.length + 1)).isSome then some s else none)
    else if t.err then none
    else if t.value = zString then (if seen then none else octetTokens ts t.token true quote)
    else if t.value = zBlank then (if quote then none else octetTokens ts s seen quote)
    else if t.value = zQuote then octetTokens ts s (seen || quote) (!quote)
    else none

/-- `endingToOctetString` -/
def endingToOctet (ts : List Tok) : Option Bytes := octetTokens ts [] false false

/-- the token a `c.Next()` delivers: the head of the list, or the end-of-input token -/
def headTok : List Tok → Tok
  | [] => { value := zEOF }
  | t :: _ => t

/-- a parser body over the tokens behind the type and its blank -/
def parsePlan (origin : Bytes) : List TStep → List Tok → List TVal → Option (List TVal)
  | [], _, acc => some acc
  | .uint bits :: rest, ts, acc =>
    let l := headTok ts
    match parseUintN bits l.token with
    | some v => if l.err then none else parsePlan origin rest ts.tail (acc ++ [.n v])
    | none => none
  | .uintLax bits :: rest, ts, acc =>
    let l := headTok ts
    match parseUintN bits l.token with
    | some v => parsePlan origin rest ts.tail (acc ++ [.n v])
    | none => none
  | .mnem tbl bits :: rest, ts, acc =>
    let l := headTok ts
    match lookup (mnemTable tbl) l.token with
    | some v => parsePlan origin rest ts.tail (acc ++ [.n v])
    | none =>
      match parseUintN bits l.token with
      | some v => parsePlan origin rest ts.tail (acc ++ [.n v])
      | none => none
  | .uintAlg :: rest, ts, acc =>
    let l := headTok ts
    match parseUintN 8 l.token with
    | some v => parsePlan origin rest ts.tail (acc ++ [.n v])
    | none =>
      match lookup Gen.stringToAlgorithm (goUpper l.token) with
      | some v => if l.err then none else parsePlan origin rest ts.tail (acc ++ [.n v])
      | none => none
  | .uintTtl strict :: rest, ts, acc =>
    let l := headTok ts
    if l.err then none
    else match parseUintN 32 l.token with
      | some v => parsePlan origin rest ts.tail (acc ++ [.n v])
      | none =>
        if strict then none
        else match stringToTTL l.token with
          | some v => parsePlan origin rest ts.tail (acc ++ [.n v])
          | none => none
  | .tok :: rest, ts, acc =>
    let l := headTok ts
    if l.err then none else parsePlan origin rest ts.tail (acc ++ [.s l.token])
  | .name :: rest, ts, acc =>
    let l := headTok ts
    match toAbsoluteName l.token origin with
    | some a => if l.err then none else parsePlan origin rest ts.tail (acc ++ [.s a])
    | none => none
  | .blank :: rest, ts, acc => parsePlan origin rest ts.tail acc
  | .endStr _ :: _, ts, acc => (endingToString ts []).map (fun s => acc ++ [.s s])
  | .txt :: _, ts, acc => (TxtParse.endingToTxtSlice ts).map (fun ss => acc ++ [.ss ss])
  | .txtPair :: _, ts, acc => (TxtParse.endingToTxtSlice ts).map (fun ss => acc ++ [.s (pairOfChunks ss).1, .s (pairOfChunks ss).2])
  | .txtFirst :: _, ts, acc => (TxtParse.endingToTxtSlice ts).map (fun ss => acc ++ [.s (ss.headD [])])
  | .octet :: _, ts, acc => (endingToOctet ts).map (fun s => acc ++ [.s s])
  | .typeList :: _, ts, acc => (typeListParse ts []).map (fun ks => acc ++ [.nl ks])
  | .ipv4 :: rest, ts, acc =>
    let l := headTok ts
    if l.err ∨ l.token.contains 58 then none
    else match parseIPv4 l.token with
      | some a => parsePlan origin rest ts.tail (acc ++ [.s a])
      | none => none
  | .saltNE :: rest, ts, acc =>
    let l := headTok ts
    if l.token = [] ∨ l.err then none
    else parsePlan origin rest ts.tail (acc ++ [.s (if l.token = [45] then [] else l.token)])
  | .tokNE :: rest, ts, acc =>
    let l := headTok ts
    if l.token = [] ∨ l.err then none
    else parsePlan origin rest ts.tail (acc ++ [.s l.token])
  | .salt :: rest, ts, acc =>
    let l := headTok ts
    if l.err then none
    else parsePlan origin rest ts.tail (acc ++ [.s (if l.token = [45] then [] else l.token)])
  | .euiTok groups :: rest, ts, acc =>
    let l := headTok ts
    if l.err then none
    else match euiParse groups l.token with
      | some v => parsePlan origin rest ts.tail (acc ++ [.n v])
      | none => none
  | .nodeId :: rest, ts, acc =>
    let l := headTok ts
    if l.err then none
    else match nodeIdParse l.token with
      | some v => parsePlan origin rest ts.tail (acc ++ [.n v])
      | none => none
  | .tokStr :: rest, ts, acc =>
    let l := headTok ts
    if l.err ∨ l.value ≠ zString then none else parsePlan origin rest ts.tail (acc ++ [.s l.token])
  | .slurp :: _, ts, acc => if slurpRemainder ts then some acc else none
  | .other :: _, _, _ => none
  | .hexGroups _ _ _ _ :: _, _, _ => none      -- a printer's step
  | .endStrSplit _ :: _, _, _ => none           -- a printer's step

end Dns.TextCodec
