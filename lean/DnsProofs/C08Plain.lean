/-
  C08 (whole messages, no compression) — `Msg.Len()` without a compression map (Compress = false, or a message with
  nothing to compress) against the plain packer model: record by record the translated `len()` body counts at least
  what the `pack()` body writes; names are counted exactly.
-/
import DnsProofs.C08Msg
namespace Dns.C08M
open Dns Dns.C03 Dns.C04 Dns.C08 Dns.MU Dns.Len Dns.C02M

/-- a name without a map: counted exactly (the empty text of a zero value counts one octet and packs none) -/
theorem name_plain (text : Bytes) (h : text = [] ∨ NameOK text) (off : Nat) (cp : Bool) (w : Bytes)
    (hp : packName text = .ok w) :
    (domainNameLen text off none cp).2 = none ∧ w.length ≤ (domainNameLen text off none cp).1 := by
  rcases h with rfl | ⟨ls, hok, rfl⟩
  · simp only [packName, List.isEmpty_nil, ↓reduceIte, Outcome.ok.injEq] at hp
    subst hp
    simp [domainNameLen]
  · obtain ⟨h1, h2⟩ := domainNameLen_exact ls off cp hok
    rw [h2] at hp
    simp only [Outcome.ok.injEq] at hp
    subst hp
    refine ⟨?_, by omega⟩
    unfold domainNameLen
    split <;> rfl

theorem names_plain (texts : List Bytes) (h : ∀ t ∈ texts, NameOK t) (off : Nat) (a0 : Nat) (w : Bytes)
    (hp : packNames texts = some w) :
    (texts.foldl (fun (a : Nat × Option (List Bytes)) x =>
        (a.1 + (domainNameLen x (off + a.1) a.2 false).1, (domainNameLen x (off + a.1) a.2 false).2)) (a0, none)).2 = none ∧
      w.length + a0 ≤ (texts.foldl (fun (a : Nat × Option (List Bytes)) x =>
        (a.1 + (domainNameLen x (off + a.1) a.2 false).1, (domainNameLen x (off + a.1) a.2 false).2)) (a0, none)).1 := by
  induction texts generalizing a0 w with
  | nil => simp [packNames] at hp; subst hp; simp
  | cons t rest ih =>
    simp only [packNames] at hp
    cases ht : packName t with
    | ok w1 =>
      cases hr : packNames rest with
      | none => simp [ht, hr] at hp
      | some w2 =>
        simp only [ht, hr, Option.some.injEq] at hp
        subst hp
        obtain ⟨e1, e2⟩ := name_plain t (Or.inr (h t (by simp))) (off + a0) false w1 ht
        simp only [List.foldl_cons, e1]
        obtain ⟨i1, i2⟩ := ih (fun t ht => h t (by simp [ht])) (a0 + (domainNameLen t (off + a0) none false).1) w2 hr
        refine ⟨i1, ?_⟩
        simp only [List.length_append]
        omega
    | err => simp [ht] at hp
    | panic => simp [ht] at hp

/-- a step other than a name does not look at the map -/
theorem stepLenC_nomap (fs : Fields) (off : Nat) (l : LStep) (hn : ∀ f c, l ≠ .name f c) (hns : ∀ f c, l ≠ .names f c)
    (k : Nat) (c1 : Option (List Bytes)) (h : stepLenC fs off none l = some (k, c1)) :
    c1 = none ∧ stepLenC fs off (some []) l = some (k, some []) := by
  cases l with
  | name f c => exact absurd rfl (hn f c)
  | names f c => exact absurd rfl (hns f c)
  | apl f =>
    simp only [stepLenC, Option.some.injEq, Prod.mk.injEq] at h
    obtain ⟨rfl, rfl⟩ := h
    exact ⟨rfl, rfl⟩
  | svcb f =>
    simp only [stepLenC, Option.some.injEq, Prod.mk.injEq] at h
    obtain ⟨rfl, rfl⟩ := h
    exact ⟨rfl, rfl⟩
  | _ =>
    simp only [stepLenC, Option.map_eq_some_iff, Prod.mk.injEq] at h
    obtain ⟨a, ha, rfl, rfl⟩ := h
    refine ⟨rfl, ?_⟩
    simp only [stepLenC, ha, Option.map_some]

theorem inv_zero (off : Nat) : Inv 0 off [] [] :=
  ⟨Nat.zero_le _, by simp, by simp, by intro l more p _ _ h; simp [CMap.find] at h⟩

/-- the gateway as a host name: only for gateway type 3, and then it is the plain name packer -/
theorem gateway_t_size (acc : List Val) (i : Nat) (mk : Bool) (text w : Bytes)
    (h : packStep acc (.gateway i mk) (.t text) = some w) : gatewayType acc i mk = 3 ∧ packName text = .ok w := by
  simp only [packStep] at h
  generalize gatewayType acc i mk = t at h ⊢
  match t, h with
  | 0, h => simp at h
  | 1, h => simp at h
  | 2, h => simp at h
  | 3, h =>
    simp only at h
    cases hp : packName text with
    | ok w0 => simp only [hp, Option.some.injEq] at h; subst h; exact ⟨rfl, rfl⟩
    | err => simp [hp] at h
    | panic => simp [hp] at h
  | n + 4, h => simp at h

theorem packName_le (text : Bytes) (h : text = [] ∨ NameOK text) (w : Bytes) (hp : packName text = .ok w) :
    w.length ≤ text.length + 1 := by
  rcases h with rfl | ⟨ls, hok, rfl⟩
  · simp [packName] at hp; subst hp; simp
  · have h2 := (domainNameLen_exact ls 0 false hok).2
    rw [h2] at hp
    simp only [Outcome.ok.injEq] at hp
    subst hp
    cases ls with
    | nil => simp [wireOf, presentOf]
    | cons l0 rest =>
      rw [presentOf_eq, wireOf_eq]
      have := wireLabels_le_present (l0 :: rest)
      simp only [List.length_append, List.length_cons, List.length_nil]
      omega

/-- **one variable-length field, no map** -/
theorem var_step_plain (kind : String) (fs : Fields) (all : List PPS) (idx : Nat) (l : LStep) (pu : PStep) (cs : CStep)
    (flag : Bool)
    (hacc : accountsC kind all idx l (pu, cs, flag) = true) (v v' : Val) (hrec : recode kind v = some v')
    (hn : ValNamesOK v) (hfa : FieldsAgree fs kind pu v) (acc : List Val)
    (htype : ∀ tf mk hf i, l = .gateway tf mk hf → cs = .gateway i mk →
      gatewayType acc i mk = (if mk then fnat fs tf % 128 else fnat fs tf))
    (w : Bytes) (hp : packStep acc cs v' = some w)
    (off k : Nat) (c1 : Option (List Bytes)) (hl : stepLenC fs off none l = some (k, c1)) :
    c1 = none ∧ w.length ≤ k := by
  by_cases hgw : ∃ tf mk hf, l = .gateway tf mk hf
  · obtain ⟨tf, mk, hf, rfl⟩ := hgw
    obtain ⟨codec, field, e1, e2⟩ := pu
    obtain ⟨g, hg, hlook⟩ := hfa
    simp only [accountsC, Bool.and_eq_true, decide_eq_true_eq] at hacc
    obtain ⟨⟨rfl, rfl⟩, hcs⟩ := hacc
    cases cs <;> simp only [Bool.and_eq_true, decide_eq_true_eq, Bool.false_eq_true] at hcs
    rename_i i mk'
    obtain ⟨⟨rfl, _⟩, _⟩ := hcs
    have ht := htype tf mk' "GatewayHost" i rfl rfl
    simp only [stepLenC, stepLen, Option.map_some, Option.some.injEq, Prod.mk.injEq] at hl
    obtain ⟨rfl, rfl⟩ := hl
    refine ⟨rfl, ?_⟩
    rw [← ht]
    rcases recode_shape kind v v' hrec with rfl | ⟨items, items', rfl, rfl, _⟩
    · cases v' with
      | b bs =>
        simp [fieldsOfStep] at hg
        subst hg
        have hhost := fstr_of fs "GatewayHost" [] (hlook _ (by simp))
        have := gateway_b_size acc i mk' bs w hp
        simpa [hhost] using this
      | t text =>
        simp [fieldsOfStep] at hg
        subst hg
        have hhost := fstr_of fs "GatewayHost" text (hlook _ (by simp))
        obtain ⟨h3, hpn⟩ := gateway_t_size acc i mk' text w hp
        rw [h3]
        simp only [hhost]
        have := packName_le text hn w hpn
        simpa using this
      | _ => simp [fieldsOfStep] at hg
    · simp [fieldsOfStep] at hg
  · by_cases hname : ∃ f c, l = .name f c
    · obtain ⟨f, cp, rfl⟩ := hname
      obtain ⟨codec, field, e1, e2⟩ := pu
      obtain ⟨g, hg, hlook⟩ := hfa
      simp only [accountsC, Bool.and_eq_true, decide_eq_true_eq] at hacc
      obtain ⟨rfl, rfl, rfl, rfl⟩ := hacc
      rcases recode_shape kind v v' hrec with rfl | ⟨items, items', rfl, rfl, _⟩
      · cases v' <;> (try (simp [packStep] at hp; done))
        rename_i text
        simp [fieldsOfStep] at hg
        subst hg
        have hf := fstr_of fs field text (by simpa using hlook (field, FVal.s text) (by simp))
        simp only [stepLenC, hf, Option.some.injEq, Prod.mk.injEq] at hl
        obtain ⟨rfl, rfl⟩ := hl
        simp only [packStep] at hp
        cases hpn : packName text with
        | ok w0 =>
          simp only [hpn, Option.some.injEq] at hp
          subst hp
          exact name_plain text hn off flag w0 hpn
        | err => simp [hpn] at hp
        | panic => simp [hpn] at hp
      · simp [packStep] at hp
    · by_cases hnames : ∃ f c, l = .names f c
      · obtain ⟨f, cp, rfl⟩ := hnames
        obtain ⟨codec, field, e1, e2⟩ := pu
        obtain ⟨g, hg, hlook⟩ := hfa
        simp only [accountsC, Bool.and_eq_true, decide_eq_true_eq] at hacc
        obtain ⟨rfl, rfl, rfl, rfl⟩ := hacc
        rcases recode_shape kind v v' hrec with rfl | ⟨items, items', rfl, rfl, _⟩
        · cases v' <;> (try (simp [packStep] at hp; done))
          rename_i texts
          simp [fieldsOfStep] at hg
          subst hg
          have hf := fstrs_of fs field _ (by simpa using hlook (field, FVal.ss texts) (by simp))
          simp only [stepLenC, hf, Option.some.injEq] at hl
          simp only [packStep] at hp
          obtain ⟨h1, h2⟩ := names_plain texts hn off 0 w hp
          simp only [hl] at h1 h2
          exact ⟨h1, by simpa using h2⟩
        · simp [packStep] at hp
      · have hn1 : ∀ f c, l ≠ .name f c := fun f c e => hname ⟨f, c, e⟩
        have hn2 : ∀ f c, l ≠ .names f c := fun f c e => hnames ⟨f, c, e⟩
        obtain ⟨rfl, hl'⟩ := stepLenC_nomap fs off l hn1 hn2 k c1 hl
        have hcs : cs ≠ .name ∧ cs ≠ .names ∧ ∀ i mk, cs ≠ .gateway i mk := by
          cases l <;> (try (exact absurd ⟨_, _, _, rfl⟩ hgw)) <;>
            simp only [accountsC, Bool.and_eq_true, Bool.or_eq_true, decide_eq_true_eq] at hacc <;>
            (try (exact Bool.noConfusion hacc)) <;> (try (exact absurd rfl (hn1 _ _))) <;>
            (try (exact absurd rfl (hn2 _ _))) <;>
            (refine ⟨?_, ?_, ?_⟩ <;> (try intro i mk) <;> intro e <;> subst e <;> simp at hacc)
        have hpc : packStepC acc 0 [] flag cs v' = some (w, []) := by
          rw [C04M.packStepC_plain acc 0 [] flag cs v' hcs.1 hcs.2.1 (fun i mk t h => hcs.2.2 i mk h.1), hp]; rfl
        obtain ⟨c', _, _, hle⟩ := var_step kind fs all idx l pu cs flag hacc v v' hrec hn hfa acc htype 0 off [] [] (inv_zero off) w [] hpc
          k (some []) hl'
        exact ⟨rfl, hle⟩

/-! ### bodies, records, messages -/

theorem packPlanAcc_cons (acc : List Val) (s : CStep) (steps : List CStep) (v : Val) (vals : List Val) (hs : s ≠ .early) :
    packPlanAcc acc (s :: steps) (v :: vals) =
      (match packStep acc s v, packPlanAcc (acc ++ [v]) steps vals with
       | some a, some r => some (a ++ r)
       | _, _ => none) := by
  cases s <;> first | exact absurd rfl hs | rfl

theorem plan_plain (kind : String) (fs : Fields) (all : List PPS) (fuel : Nat) :
    ∀ (cr idx : Nat) (ls : List LStep) (ps : List PPS) (vals vals' acc : List Val) (off l : Nat),
    alignedF kind all fuel cr idx ls ps = true →
    acc.length = idx → all.drop idx = ps → TypeFact fs all acc →
    Rel2 (fun v v' => recode kind v = some v') vals vals' →
    (∀ v ∈ vals, ValNamesOK v) →
    Rel2 (fun (p : PPS) v => FieldsAgree fs kind p.1 v) ps vals →
    ∀ (w : Bytes), packPlanAcc acc (ps.map (·.2.1)) vals' = some w →
    ∀ (l' : Nat) (c1 : Option (List Bytes)), planLenC fs off l none ls = some (l', c1) →
    c1 = none ∧ w.length + l ≤ l' + cr := by
  induction fuel with
  | zero => intro cr idx ls ps vals vals' acc off l hal; simp [alignedF] at hal
  | succ fuel ih =>
    intro cr idx ls ps vals vals' acc off l hal hidx hdrop htf hrec hn hfa w hp l' c1 hl
    simp only [alignedF] at hal
    split at hal
    · rename_i k hk
      cases ls with
      | nil => simp at hk
      | cons l0 ls' =>
        simp only [List.head?_cons, Option.bind_some] at hk
        cases l0 <;> simp only [constK, Option.some.injEq, reduceCtorEq] at hk
        subst hk
        simp only [List.tail_cons] at hal
        simp only [planLenC, stepLenC, stepLen, Option.map_some, Option.bind_some] at hl
        have := ih (cr + _) idx ls' ps vals vals' acc off (l + _) hal hidx hdrop htf hrec hn hfa w hp l' c1 hl
        exact ⟨this.1, by omega⟩
    · rename_i hk
      split at hal
      · rename_i wd hw
        cases ps with
        | nil => simp at hw
        | cons p ps' =>
          have hhead : all[acc.length]? = some p := by
            rw [hidx, ← List.head?_drop, hdrop]; rfl
          have hdrop' : all.drop (idx + 1) = ps' := by
            rw [← List.drop_drop, hdrop]; rfl
          obtain ⟨pu, cs, fl⟩ := p
          simp only [List.head?_cons, Option.bind_some] at hw
          cases cs <;> simp only [uintW, Option.some.injEq, reduceCtorEq] at hw
          rename_i w0
          subst hw
          simp only [List.tail_cons, Bool.and_eq_true, decide_eq_true_eq] at hal
          obtain ⟨hle, hal⟩ := hal
          cases vals with
          | nil => simp [Rel2] at hfa
          | cons v vs =>
            cases vals' with
            | nil => simp [Rel2] at hrec
            | cons v' vs' =>
              simp only [Rel2] at hrec hfa
              simp only [List.map_cons] at hp
              rw [packPlanAcc_cons _ _ _ _ _ (by simp)] at hp
              rcases recode_shape kind v v' hrec.1 with rfl | ⟨items, items', rfl, rfl, _⟩
              · cases v' <;> (try (simp [packStep] at hp; done))
                rename_i x
                have hst : packStep acc (.uint w0) (.n x) = if x < 256 ^ w0 then some (beBytes w0 x) else none := rfl
                rw [hst] at hp
                by_cases hx : x < 256 ^ w0
                · simp only [hx, ↓reduceIte] at hp
                  cases hq : packPlanAcc (acc ++ [Val.n x]) (ps'.map (·.2.1)) vs' with
                  | none => simp [hq] at hp
                  | some q =>
                    simp only [hq, Option.some.injEq] at hp
                    subst hp
                    have htf' := typeFact_snoc fs kind all acc (pu, CStep.uint w0, fl) (Val.n x) (Val.n x) htf hhead hrec.1 hfa.1
                      (fun _ => ⟨x, rfl⟩)
                    have := ih (cr - w0) (idx + 1) ls ps' vs vs' _ off l hal (by simp [hidx]) hdrop' htf' hrec.2
                      (fun v hv => hn v (by simp [hv])) hfa.2 q hq l' c1 hl
                    refine ⟨this.1, ?_⟩
                    simp only [List.length_append, C11.beBytes_length]
                    omega
                · simp [hx] at hp
              · simp [packStep] at hp
      · rename_i hw
        split at hal
        · simp only [List.map_nil] at hp
          cases vals' with
          | nil =>
            simp only [packPlanAcc, Option.some.injEq] at hp
            subst hp
            simp only [planLenC, Option.some.injEq, Prod.mk.injEq] at hl
            obtain ⟨rfl, rfl⟩ := hl
            exact ⟨rfl, by simp⟩
          | cons v' vs' => simp [packPlanAcc] at hp
        · rename_i l0 ls' p ps'
          have hhead : all[acc.length]? = some p := by
            rw [hidx, ← List.head?_drop, hdrop]; rfl
          have hdrop' : all.drop (idx + 1) = ps' := by
            rw [← List.drop_drop, hdrop]; rfl
          have hnu : uintW p.2.1 = none := by simpa using hw
          obtain ⟨pu, cs, fl⟩ := p
          simp only [Bool.and_eq_true] at hal
          obtain ⟨hacc, hal⟩ := hal
          obtain ⟨hne, _⟩ := accountsC_var kind all idx l0 pu cs fl hacc
          cases vals with
          | nil => simp [Rel2] at hfa
          | cons v vs =>
            cases vals' with
            | nil => simp [Rel2] at hrec
            | cons v' vs' =>
              simp only [Rel2] at hrec hfa
              simp only [List.map_cons] at hp
              rw [packPlanAcc_cons _ _ _ _ _ hne] at hp
              cases ha : packStep acc cs v' with
              | none => simp [ha] at hp
              | some a =>
                cases hq : packPlanAcc (acc ++ [v']) (ps'.map (·.2.1)) vs' with
                | none => simp [ha, hq] at hp
                | some q =>
                  simp only [ha, hq, Option.some.injEq] at hp
                  subst hp
                  simp only [planLenC] at hl
                  cases hs1 : stepLenC fs (off + l) none l0 with
                  | none => simp [hs1] at hl
                  | some r =>
                    obtain ⟨k, c2⟩ := r
                    simp only [hs1, Option.bind_some] at hl
                    have htype : ∀ tf mk hf i, l0 = .gateway tf mk hf → cs = .gateway i mk →
                        gatewayType acc i mk = (if mk then fnat fs tf % 128 else fnat fs tf) := by
                      intro tf mk hf i e1 e2
                      subst e1 e2
                      simp only [accountsC, Bool.and_eq_true, decide_eq_true_eq] at hacc
                      obtain ⟨_, ⟨_, hi⟩, hq⟩ := hacc
                      cases hai : all[i]? with
                      | none => simp [hai] at hq
                      | some q0 =>
                        simp only [hai, Bool.and_eq_true, decide_eq_true_eq] at hq
                        exact gatewayType_of fs all acc htf i mk tf (by omega) q0 hai hq.1.1 hq.1.2 hq.2
                    obtain ⟨rfl, hak⟩ := var_step_plain kind fs all idx l0 pu cs fl hacc v v' hrec.1 (hn v (by simp)) hfa.1 acc htype a ha
                      (off + l) k c2 hs1
                    have htf' := typeFact_snoc fs kind all acc (pu, cs, fl) v v' htf hhead hrec.1 hfa.1
                      (fun h => by simp [hnu] at h)
                    have := ih cr (idx + 1) ls' ps' vs vs' _ off (l + k) hal (by simp [hidx]) hdrop' htf' hrec.2
                      (fun v hv => hn v (by simp [hv])) hfa.2 q hq l' c1 hl
                    refine ⟨this.1, ?_⟩
                    simp only [List.length_append]
                    omega
        · simp at hal

/-- **one record, no map** -/
theorem rr_plain (r : RRm) (hk : alignedKind r.kind = true) (hz : zeroFieldsOK r.kind = true) (hn : RRNamesOK r)
    (w : Bytes) (hp : repackRR r = some w) (off k : Nat) (c1 : Option (List Bytes))
    (hl : lenRRC off none r = some (k, c1)) : c1 = none ∧ w.length ≤ k := by
  cases hfs : fieldsOfRR r with
  | none => simp [lenRRC, hfs] at hl
  | some fs =>
    obtain ⟨ls, ps, pu, cu, hls, hpu, hcu, hlens, hps, hal, hnv, hfa⟩ := rr_setup r hk hz hn fs hfs
    have hplan : (if r.kind = "OPT" then some [LStep.svcb "Option"] else planOf r.kind) = some ls := hls
    simp only [lenRRC, hplan, hfs] at hl
    unfold repackRR at hp
    rw [hcu] at hp
    cases hown : packName r.name with
    | ok owner =>
      rw [hown] at hp
      have hp' : (((valsOf r cu).mapM (recode r.kind)).bind (packPlan (stripPlan cu))).bind (fun rd =>
          if rd.length < 65536 then some (encodeRR owner r.typ r.cls r.ttl rd) else none) = some w := hp
      cases hvs : (valsOf r cu).mapM (recode r.kind) with
      | none => simp [hvs] at hp'
      | some vs =>
        cases hrd : packPlan (stripPlan cu) vs with
        | none => simp [hvs, hrd] at hp'
        | some rd =>
          simp only [hvs, hrd, Option.bind_some] at hp'
          split at hp'
          · simp only [Option.some.injEq] at hp'
            subst hp'
            obtain ⟨e1, e2⟩ := name_plain r.name hn.1 off true owner hown
            rw [e1] at hl
            have hps1 : ps.map (·.1) = pu.filter (fun s => s.1 != "earlyexit") := by
              subst hps; exact zip3_fst _ _ _ hlens.1 hlens.2
            have hps2 : ps.map (·.2.1) = stripPlan cu := by
              subst hps; exact zip3_snd1 _ _ _ hlens.1 hlens.2
            rw [← hps1] at hfa
            rw [rel2_map] at hfa
            unfold packPlan at hrd
            rw [← hps2] at hrd
            obtain ⟨h1, h2⟩ := plan_plain r.kind fs ps (ls.length + ps.length + 1) 0 0 ls ps (valsOf r cu) vs [] off
              ((domainNameLen r.name off none true).1 + 10) hal rfl rfl (by intro i p _ hi; simp at hi)
              (mapM_rel2 _ _ _ hvs) hnv hfa rd hrd k c1 hl
            refine ⟨h1, ?_⟩
            simp only [encodeRR, List.length_append, C11.beBytes_length]
            omega
          · cases hp'
    | err => simp [hown] at hp
    | panic => simp [hown] at hp

theorem concatAll_append (a b : List (Option Bytes)) (x : Bytes) (h : concatAll (a ++ b) = some x) :
    ∃ xa xb, concatAll a = some xa ∧ concatAll b = some xb ∧ x = xa ++ xb := by
  induction a generalizing x with
  | nil => exact ⟨[], x, rfl, h, rfl⟩
  | cons y a ih =>
    simp only [List.cons_append, concatAll] at h
    cases y with
    | none => simp at h
    | some y0 =>
      cases hr : concatAll (a ++ b) with
      | none => simp [hr] at h
      | some r =>
        simp only [hr, Option.some.injEq] at h
        subst h
        obtain ⟨xa, xb, h1, h2, rfl⟩ := ih r hr
        exact ⟨y0 ++ xa, xb, by simp [concatAll, h1], h2, by simp⟩

theorem questions_plain (qs : List Qm) (hq : ∀ q ∈ qs, NameOK q.name) (l : Nat) (x : Bytes)
    (h : concatAll (qs.map encodeQ) = some x) :
    (qs.foldl (fun (a : Nat × Option (List Bytes)) q =>
        ((a.1 + (domainNameLen q.name a.1 a.2 true).1 + 4, (domainNameLen q.name a.1 a.2 true).2))) (l, none)).2 = none ∧
      x.length + l ≤ (qs.foldl (fun (a : Nat × Option (List Bytes)) q =>
        ((a.1 + (domainNameLen q.name a.1 a.2 true).1 + 4, (domainNameLen q.name a.1 a.2 true).2))) (l, none)).1 := by
  induction qs generalizing l x with
  | nil => simp [concatAll] at h; subst h; simp
  | cons q qs ih =>
    simp only [List.map_cons, concatAll] at h
    cases hq1 : encodeQ q with
    | none => simp [hq1] at h
    | some y =>
      cases hr : concatAll (qs.map encodeQ) with
      | none => simp [hq1, hr] at h
      | some r =>
        simp only [hq1, hr, Option.some.injEq] at h
        subst h
        simp only [encodeQ] at hq1
        cases hpn : packName q.name with
        | ok w0 =>
          simp only [hpn, Option.some.injEq] at hq1
          subst hq1
          obtain ⟨e1, e2⟩ := name_plain q.name (Or.inr (hq q (by simp))) l true w0 hpn
          simp only [List.foldl_cons, e1]
          obtain ⟨i1, i2⟩ := ih (fun q hq' => hq q (by simp [hq'])) (l + (domainNameLen q.name l none true).1 + 4) r hr
          refine ⟨i1, ?_⟩
          simp only [List.length_append, C11.beBytes_length]
          omega
        | err => simp [hpn] at hq1
        | panic => simp [hpn] at hq1

theorem section_plain (rs : List RRm) (hcov : ∀ r ∈ rs, Covered r) (l : Nat) (x : Bytes)
    (h : concatAll (rs.map repackRR) = some x) (l' : Nat) (c1 : Option (List Bytes))
    (hl : lenSection l none rs = some (l', c1)) : c1 = none ∧ x.length + l ≤ l' := by
  induction rs generalizing l x with
  | nil =>
    simp [concatAll] at h; subst h
    simp only [lenSection, Option.some.injEq, Prod.mk.injEq] at hl
    obtain ⟨rfl, rfl⟩ := hl
    exact ⟨rfl, by simp⟩
  | cons r rs ih =>
    simp only [List.map_cons, concatAll] at h
    cases hr1 : repackRR r with
    | none => simp [hr1] at h
    | some y =>
      cases hr : concatAll (rs.map repackRR) with
      | none => simp [hr1, hr] at h
      | some rest =>
        simp only [hr1, hr, Option.some.injEq] at h
        subst h
        simp only [lenSection] at hl
        cases hk : lenRRC l none r with
        | none => simp [hk] at hl
        | some kc =>
          obtain ⟨k, c2⟩ := kc
          simp only [hk, Option.bind_some] at hl
          obtain ⟨ha, hz, hn⟩ := hcov r (by simp)
          obtain ⟨rfl, hle⟩ := rr_plain r ha hz hn y hr1 l k c2 hk
          obtain ⟨i1, i2⟩ := ih (fun r hr' => hcov r (by simp [hr'])) (l + k) rest hr hl
          refine ⟨i1, ?_⟩
          simp only [List.length_append]
          omega

/-- **Len never under-estimates, without compression**: whenever `Msg.Len()` runs without a map — `Compress` off, or
    nothing to compress — its model predicts at least what the plain packer model writes -/
theorem lenMsg_ge_packMsgPlain (m : MsgM) (compress : Bool) (hq : ∀ q ∈ m.question, NameOK q.name)
    (hcov : ∀ r ∈ m.answer ++ m.ns ++ m.extra, Covered r)
    (hnomap : compress = false ∨ (m.question.length ≤ 1 ∧ m.answer.isEmpty ∧ m.ns.isEmpty ∧ m.extra.isEmpty))
    (w : Bytes) (hp : packMsgPlain m = some w) (n : Nat) (hl : lenMsg m compress = some n) : w.length ≤ n := by
  have hc0 : (if (compress && (decide (m.question.length > 1) || !m.answer.isEmpty || !m.ns.isEmpty || !m.extra.isEmpty)) = true
      then some ([] : List Bytes) else none) = none := by
    rcases hnomap with rfl | ⟨h1, h2, h3, h4⟩
    · simp
    · have : ¬ m.question.length > 1 := by omega
      simp [this, h2, h3, h4]
  simp only [lenMsg, hc0] at hl
  unfold packMsgPlain at hp
  split at hp
  · cases hp
  · split at hp
    · cases hp
    · simp only at hp
      cases hb : concatAll (m.question.map encodeQ ++ (m.answer.map repackRR ++ (m.ns.map repackRR ++ m.extra.map repackRR))) with
      | none => simp [hb] at hp
      | some body =>
        simp only [hb, Option.map_some, Option.some.injEq] at hp
        subst hp
        obtain ⟨xq, x1, hxq, hx1, rfl⟩ := concatAll_append _ _ body hb
        obtain ⟨xa, x2, hxa, hx2, rfl⟩ := concatAll_append _ _ x1 hx1
        obtain ⟨xn, xe, hxn, hxe, rfl⟩ := concatAll_append _ _ x2 hx2
        obtain ⟨q1, q2⟩ := questions_plain m.question hq 12 xq hxq
        rw [q1] at hl
        cases hla : lenSection (m.question.foldl (fun (a : Nat × Option (List Bytes)) q =>
            ((a.1 + (domainNameLen q.name a.1 a.2 true).1 + 4, (domainNameLen q.name a.1 a.2 true).2))) (12, none)).1
            none m.answer with
        | none => simp [hla] at hl
        | some a =>
          simp only [hla, Option.bind_some] at hl
          obtain ⟨a1, a2⟩ := section_plain m.answer (fun r hr => hcov r (by simp [hr])) _ xa hxa a.1 a.2 hla
          rw [a1] at hl
          cases hln : lenSection a.1 none m.ns with
          | none => simp [hln] at hl
          | some b =>
            simp only [hln, Option.bind_some] at hl
            obtain ⟨b1, b2⟩ := section_plain m.ns (fun r hr => hcov r (by simp [hr])) _ xn hxn b.1 b.2 hln
            rw [b1] at hl
            cases hle : lenSection b.1 none m.extra with
            | none => simp [hle] at hl
            | some e =>
              simp only [hle, Option.map_some, Option.some.injEq] at hl
              obtain ⟨_, e2⟩ := section_plain m.extra (fun r hr => hcov r (by simp [hr])) _ xe hxe e.1 e.2 hle
              subst hl
              simp only [List.length_append, C11.beBytes_length]
              omega

/-- **Len ≥ Pack, both settings, every message of covered record types**: `Msg.Len()` as the message is configured
    against `Msg.Pack()` as the message is configured -/
theorem lenMsg_ge_pack (m : MsgM) (hq : ∀ q ∈ m.question, NameOK q.name)
    (hcov : ∀ r ∈ m.answer ++ m.ns ++ m.extra, Covered r) :
    (∀ w n, packMsgCOf m = some w → lenMsg m true = some n → w.length ≤ n) ∧
    (∀ w n, packMsgPlain m = some w → lenMsg m false = some n → w.length ≤ n) := by
  refine ⟨fun w n hp hl => ?_, fun w n hp hl => lenMsg_ge_packMsgPlain m false hq hcov (Or.inl rfl) w hp n hl⟩
  by_cases hcomp : m.question.length ≤ 1 ∧ m.answer.isEmpty ∧ m.ns.isEmpty ∧ m.extra.isEmpty
  · have : packMsgCOf m = packMsgPlain m := by unfold packMsgCOf; rw [if_pos hcomp]
    rw [this] at hp
    exact lenMsg_ge_packMsgPlain m true hq hcov (Or.inr hcomp) w hp n hl
  · exact lenMsg_ge_packMsgC m hq hcov hcomp w hp n hl

end Dns.C08M
