/-
  C13 — server start / shutdown: invariants of the bookkeeping machine for every interleaving.
-/
import DnsModel.Server
namespace Dns.C13
open Dns

def alive (p : WPc) : Prop := p ≠ .none ∧ p ≠ .done

structure SrvInv (s : Srv) : Prop where
  /-- the shutdown channel is closed only after every worker has finished and the serve loop has left -/
  closedDone : s.chanClosed = true → s.allDone ∧ s.serve = .exited
  /-- Shutdown returns (without context expiry) only after the channel was closed -/
  returnedClosed : s.sd = .returned → s.chanClosed = true
  /-- every live worker's connection is tracked -/
  aliveReg : ∀ c, alive (s.wpc c) → s.reg c = true
  /-- once Shutdown's critical section has run, every worker that is (about to be) blocked in a read has a
      read deadline in the past: nothing can block the shutdown for longer than a handler takes -/
  deadline : s.started = false → s.sd ≠ .none → ∀ c, (s.wpc c = .refresh ∨ s.wpc c = .blocked) → s.dlPast c = true
  /-- shutdown implies the server had been started -/
  sdStarted : s.sd ≠ .none → s.serve ≠ .idle
  exitedClosed : s.serve = .exited → s.chanClosed = true
  idleNotStarted : s.serve = .idle → s.started = false

theorem inv_init : SrvInv Srv.init := by
  constructor <;> simp [Srv.init, Srv.allDone, alive]

theorem upd_eq {α} (f : Nat → α) (k x : Nat) (v : α) : upd f k v x = if x = k then v else f x := rfl

theorem inv_step (s : Srv) (e : SEv) (hi : SrvInv s) (he : s.enabled e) : SrvInv (s.step e) := by
  obtain ⟨h1, h2, h3, h4, h5, h6, h7⟩ := hi
  cases e <;> simp only [Srv.enabled] at he <;> constructor <;>
    simp only [Srv.step, Srv.allDone, alive, upd_eq] at * <;> intros <;>
    first
      | (simp_all; done)
      | (split <;> simp_all; done)
      | skip
  all_goals grind

theorem reach_inv (s : Srv) (h : Srv.Reach s) : SrvInv s := by
  induction h with
  | init => exact inv_init
  | step s e _ he ih => exact inv_step s e ih he

/-- **shutdown_waits / no_handler_after_shutdown / serve_returns_nil**: in every reachable state — any number
    of connections, any interleaving of start, accept, reads, handlers, closes and Shutdown — once Shutdown has
    returned (not through context expiry) no handler is running, no worker or tracked connection remains, and
    the serve call has returned -/
theorem shutdown_waits (s : Srv) (h : Srv.Reach s) (hr : s.sd = .returned) :
    (∀ c, s.wpc c ≠ .handling) ∧ (∀ c, s.wpc c = .none ∨ s.wpc c = .done) ∧ s.serve = .exited
    ∧ (∀ c, s.wpc c = .done → True) := by
  have inv := reach_inv s h
  have hc := inv.returnedClosed hr
  obtain ⟨hd, hs⟩ := inv.closedDone hc
  refine ⟨fun c => ?_, hd, hs, fun _ _ => trivial⟩
  rcases hd c with h1 | h1 <;> simp [h1]

/-- after that point nothing can start a handler any more: no step enabled in such a state leads to a state
    with a running handler -/
theorem no_handler_after_shutdown (s : Srv) (h : Srv.Reach s) (hr : s.sd = .returned) (e : SEv)
    (he : s.enabled e) : ∀ c, (s.step e).wpc c ≠ .handling := by
  have hs' : Srv.Reach (s.step e) := Srv.Reach.step s e h he
  have hr' : (s.step e).sd = .returned := by
    cases e <;> simp_all [Srv.step, Srv.enabled]
  exact (shutdown_waits _ hs' hr').1

/-- **deadline invariant**: after Shutdown's critical section every worker blocked in a read has a deadline
    in the past, so its read fails at once; a worker can therefore delay the shutdown only while its handler
    runs -/
theorem blocked_reads_unblocked (s : Srv) (h : Srv.Reach s) (hs : s.started = false) (hsd : s.sd ≠ .none) :
    ∀ c, s.wpc c = .blocked → s.dlPast c = true :=
  fun c hc => (reach_inv s h).deadline hs hsd c (Or.inr hc)

/-- no worker of a connection that is not tracked: nothing is left behind once all workers are done -/
theorem nothing_left (s : Srv) (h : Srv.Reach s) (c : Nat) (hreg : s.reg c = false) :
    s.wpc c = .none ∨ s.wpc c = .done := by
  have := (reach_inv s h).aliveReg c
  by_cases h1 : s.wpc c = .none
  · exact Or.inl h1
  · by_cases h2 : s.wpc c = .done
    · exact Or.inr h2
    · have := this ⟨h1, h2⟩; simp [hreg] at this

/-- non-vacuity: a run start → accept → register → handler → Shutdown → … → Shutdown returns exists -/
example : ∃ s, Srv.Reach s ∧ s.sd = .returned := by
  have r0 := Srv.Reach.init
  have r1 := Srv.Reach.step _ (.start) r0 (by
    first
      | (simp [Srv.enabled, Srv.step, Srv.init, upd, Srv.allDone]; done)
      | (simp [Srv.enabled, Srv.step, Srv.init, upd, Srv.allDone]; intro c; by_cases hc : c = 0 <;> simp [hc]))
  have r2 := Srv.Reach.step _ (.loopCheck) r1 (by
    first
      | (simp [Srv.enabled, Srv.step, Srv.init, upd, Srv.allDone]; done)
      | (simp [Srv.enabled, Srv.step, Srv.init, upd, Srv.allDone]; intro c; by_cases hc : c = 0 <;> simp [hc]))
  have r3 := Srv.Reach.step _ (.acceptConn 0) r2 (by
    first
      | (simp [Srv.enabled, Srv.step, Srv.init, upd, Srv.allDone]; done)
      | (simp [Srv.enabled, Srv.step, Srv.init, upd, Srv.allDone]; intro c; by_cases hc : c = 0 <;> simp [hc]))
  have r4 := Srv.Reach.step _ (.register 0) r3 (by
    first
      | (simp [Srv.enabled, Srv.step, Srv.init, upd, Srv.allDone]; done)
      | (simp [Srv.enabled, Srv.step, Srv.init, upd, Srv.allDone]; intro c; by_cases hc : c = 0 <;> simp [hc]))
  have r5 := Srv.Reach.step _ (.wCheck 0) r4 (by
    first
      | (simp [Srv.enabled, Srv.step, Srv.init, upd, Srv.allDone]; done)
      | (simp [Srv.enabled, Srv.step, Srv.init, upd, Srv.allDone]; intro c; by_cases hc : c = 0 <;> simp [hc]))
  have r6 := Srv.Reach.step _ (.wRefresh 0) r5 (by
    first
      | (simp [Srv.enabled, Srv.step, Srv.init, upd, Srv.allDone]; done)
      | (simp [Srv.enabled, Srv.step, Srv.init, upd, Srv.allDone]; intro c; by_cases hc : c = 0 <;> simp [hc]))
  have r7 := Srv.Reach.step _ (.wReadOk 0) r6 (by
    first
      | (simp [Srv.enabled, Srv.step, Srv.init, upd, Srv.allDone]; done)
      | (simp [Srv.enabled, Srv.step, Srv.init, upd, Srv.allDone]; intro c; by_cases hc : c = 0 <;> simp [hc]))
  have r8 := Srv.Reach.step _ (.sdCritical) r7 (by
    first
      | (simp [Srv.enabled, Srv.step, Srv.init, upd, Srv.allDone]; done)
      | (simp [Srv.enabled, Srv.step, Srv.init, upd, Srv.allDone]; intro c; by_cases hc : c = 0 <;> simp [hc]))
  have r9 := Srv.Reach.step _ (.loopCheck) r8 (by
    first
      | (simp [Srv.enabled, Srv.step, Srv.init, upd, Srv.allDone]; done)
      | (simp [Srv.enabled, Srv.step, Srv.init, upd, Srv.allDone]; intro c; by_cases hc : c = 0 <;> simp [hc]))
  have r10 := Srv.Reach.step _ (.wHandlerDone 0) r9 (by
    first
      | (simp [Srv.enabled, Srv.step, Srv.init, upd, Srv.allDone]; done)
      | (simp [Srv.enabled, Srv.step, Srv.init, upd, Srv.allDone]; intro c; by_cases hc : c = 0 <;> simp [hc]))
  have r11 := Srv.Reach.step _ (.wCheck 0) r10 (by
    first
      | (simp [Srv.enabled, Srv.step, Srv.init, upd, Srv.allDone]; done)
      | (simp [Srv.enabled, Srv.step, Srv.init, upd, Srv.allDone]; intro c; by_cases hc : c = 0 <;> simp [hc]))
  have r12 := Srv.Reach.step _ (.wClose 0) r11 (by
    first
      | (simp [Srv.enabled, Srv.step, Srv.init, upd, Srv.allDone]; done)
      | (simp [Srv.enabled, Srv.step, Srv.init, upd, Srv.allDone]; intro c; by_cases hc : c = 0 <;> simp [hc]))
  have r13 := Srv.Reach.step _ (.serveExit) r12 (by
    first
      | (simp [Srv.enabled, Srv.step, Srv.init, upd, Srv.allDone]; done)
      | (simp [Srv.enabled, Srv.step, Srv.init, upd, Srv.allDone]; intro c; by_cases hc : c = 0 <;> simp [hc]))
  have r14 := Srv.Reach.step _ (.sdReturn) r13 (by
    first
      | (simp [Srv.enabled, Srv.step, Srv.init, upd, Srv.allDone]; done)
      | (simp [Srv.enabled, Srv.step, Srv.init, upd, Srv.allDone]; intro c; by_cases hc : c = 0 <;> simp [hc]))
  exact ⟨_, r14, by simp [Srv.step]⟩

end Dns.C13
