/-
  DnsModel.LenModel — `Len(rr)` for a single record: the header part and the per-type RDATA part, the latter evaluated
  from the generated translation of the type's `len()` method (DnsModel/Generated/LenPlans.lean) over the record's
  fields as Go holds them (strings in presentation form); and the check that a type's `len()` accounts for every
  field its `pack()` writes (`lenCovers`).
-/
import DnsModel.LenBase
import DnsModel.Compress
import DnsModel.Generated.LenPlans
import DnsModel.Generated.Layouts
namespace Dns.Len
open Dns

/-- a field of a record as the Go struct holds it -/
inductive FVal where
  | n (v : Nat)
  | s (text : Bytes)           -- a Go string: presentation text, hex, base64 …
  | ss (texts : List Bytes)    -- []string
  | ip (addr : Bytes)          -- net.IP
  | ts (types : List Nat)      -- []uint16
deriving Repr, DecidableEq

abbrev Fields := List (String × FVal)

def fstr (fs : Fields) (f : String) : Bytes := match fs.lookup f with | some (.s t) => t | _ => []
def fstrs (fs : Fields) (f : String) : List Bytes := match fs.lookup f with | some (.ss t) => t | _ => []
def fnat (fs : Fields) (f : String) : Nat := match fs.lookup f with | some (.n v) => v | _ => 0
def fip (fs : Fields) (f : String) : Bytes := match fs.lookup f with | some (.ip a) => a | _ => []
def ftypes (fs : Fields) (f : String) : List Nat := match fs.lookup f with | some (.ts t) => t | _ => []

/-- `typeBitMapLen` -/
def typeBitMapLen (bitmap : List Nat) : Nat :=
  let r := bitmap.foldl (fun (st : Nat × Nat × Nat) t =>
    let window := t / 256
    let length := (t - window * 256) / 8 + 1
    let st1 : Nat × Nat × Nat := if window > st.2.1 ∧ st.2.2 ≠ 0 then (st.1 + st.2.2 + 2, st.2.1, 0) else st
    if window < st1.2.1 ∨ length < st1.2.2 then st1 else (st1.1, window, length)) (0, 0, 0)
  r.1 + r.2.2 + 2

/-- `base64.StdEncoding.DecodedLen(n)` (padded) and `base32HexNoPadEncoding.DecodedLen(n)` (unpadded) -/
def b64DecodedLen (n : Nat) : Nat := n / 4 * 3
def b32DecodedLen (n : Nat) : Nat := n * 5 / 8

/-- what one step adds; `none` for steps whose helper methods are not part of this model -/
def stepLen (fs : Fields) (off : Nat) : LStep → Option Nat
  | .const k => some k
  | .name f c => some (domainNameLen (fstr fs f) off none c).1
  | .str1 f => some ((fstr fs f).length + 1)
  | .strLen f => some (fstr fs f).length
  | .hexHalf f => some ((fstr fs f).length / 2)
  | .b64 f => some (b64DecodedLen (fstr fs f).length)
  | .b32 f => some (b32DecodedLen (fstr fs f).length)
  | .txt f => some ((fstrs fs f).foldl (fun a x => a + x.length + 1) 0)
  | .names f c => some ((fstrs fs f).foldl (fun a x => a + (domainNameLen x off none c).1) 0)
  | .ipIf f n => some (if (fip fs f).length ≠ 0 then n else 0)
  | .gateway tf m hf =>
    let t := if m then fnat fs tf % 128 else fnat fs tf
    some (if t = 1 then 4 else if t = 2 then 16 else if t = 3 then (fstr fs hf).length + 1 else 0)
  | .bitmap f => some (typeBitMapLen (ftypes fs f))
  | .apl _ | .svcb _ | .other _ => none

def planLen (fs : Fields) : Nat → List LStep → Option Nat
  | l, [] => some l
  | l, s :: rest => (stepLen fs l s).bind (fun k => planLen fs (l + k) rest)

/-- the plan of a type: its own, or that of the type it embeds -/
def planOf (t : String) : Option (List LStep) :=
  match Gen.lenPlans.lookup t with
  | some p => some p
  | none => (Gen.lenAlias.lookup t).bind (fun a => Gen.lenPlans.lookup a)

/-- `Len(rr)` = `rr.len(0, nil)`: owner, the ten fixed header octets, the RDATA part -/
def lenRR (t : String) (owner : Bytes) (fs : Fields) : Option Nat :=
  (planOf t).bind (fun p => planLen fs ((domainNameLen owner 0 none true).1 + 10) p)

/-! ### `len()` against `pack()` -/

def uintWidth (codec : String) : Option Nat :=
  if codec = "packUint8" then some 1 else if codec = "packUint16" then some 2 else if codec = "packUint32" then some 4
  else if codec = "packUint48" then some 6 else if codec = "packUint64" then some 8 else none

abbrev PStep := String × String × String × String   -- codec, field, extra, condition (Generated/Layouts.lean)

def constOf : LStep → Nat
  | .const k => k
  | _ => 0

def constTotal (ls : List LStep) : Nat := (ls.map constOf).sum
def uintTotal (ps : List PStep) : Nat := (ps.map (fun p => (uintWidth p.1).getD 0)).sum

def isConst : LStep → Bool | .const _ => true | _ => false

/-- a step of `len()` that accounts for a variable-length step of `pack()`: same field, a kind whose value is at
    least what the packer writes; a name that the packer never compresses must not be counted as compressible -/
def accounts (l : LStep) (p : PStep) : Bool :=
  match l with
  | .name f c => p.1 = "packDomainName" ∧ p.2.1 = f ∧ (p.2.2.1 = "compress" ∨ c = false)
  | .str1 f => (p.1 = "packString" ∨ p.1 = "packStringOctet" ∨ p.1 = "packStringAny") ∧ p.2.1 = f
  | .strLen f => (p.1 = "packStringOctet" ∨ p.1 = "packStringAny" ∨ p.1 = "packStringBase32") ∧ p.2.1 = f
  | .hexHalf f => p.1 = "packStringHex" ∧ p.2.1 = f
  | .b64 f => p.1 = "packStringBase64" ∧ p.2.1 = f
  | .b32 f => p.1 = "packStringBase32" ∧ p.2.1 = f
  | .txt f => p.1 = "packStringTxt" ∧ p.2.1 = f
  | .names f c => p.1 = "packDataDomainNames" ∧ p.2.1 = f ∧ c = false
  | .ipIf f n => (p.1 = "packDataA" ∧ n = 4 ∨ p.1 = "packDataAAAA" ∧ n = 16) ∧ p.2.1 = f
  | .gateway _ _ hf => p.1 = "packIPSECGateway" ∧ p.2.1 = "GatewayAddr+" ++ hf
  | .apl f => p.1 = "packDataApl" ∧ p.2.1 = f
  | .svcb f => p.1 = "packDataSVCB" ∧ p.2.1 = f
  | .bitmap f => p.1 = "packDataNsec" ∧ p.2.1 = f
  | .const _ | .other _ => false

def zipAccounts : List LStep → List PStep → Bool
  | [], [] => true
  | l :: ls, p :: ps => accounts l p && zipAccounts ls ps
  | _, _ => false

/-- `len()` covers `pack()`: the fixed-width fields are counted in full, and the variable-length fields one by one, in
    the order in which they are packed -/
def lenCovers (ls : List LStep) (ps : List PStep) : Bool :=
  decide (uintTotal ps ≤ constTotal ls) &&
    zipAccounts (ls.filter (fun s => !isConst s)) (ps.filter (fun p => (uintWidth p.1).isNone))

/-- and exactly: nothing is counted that is not packed -/
def lenExactConsts (ls : List LStep) (ps : List PStep) : Bool := decide (uintTotal ps = constTotal ls)

end Dns.Len
