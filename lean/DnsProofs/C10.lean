/-
  C10 — the octets an RRSIG signs are invariant under record order, repeated records, current TTLs and
  letter case of the owner.
-/
import DnsModel.Canon
namespace Dns.C10
open Dns

/-! ### `bytes.Compare` is a total order -/

theorem bytesLE_total (a b : Bytes) : bytesLE a b = true ∨ bytesLE b a = true := by
  induction a generalizing b with
  | nil => simp [bytesLE]
  | cons x xs ih =>
    cases b with
    | nil => simp [bytesLE]
    | cons y ys =>
      simp only [bytesLE]
      by_cases h1 : x.toNat < y.toNat
      · simp [h1]
      · by_cases h2 : y.toNat < x.toNat
        · simp [h2]
        · simp only [h1, h2, ↓reduceIte]; exact ih ys

theorem bytesLE_trans (a b c : Bytes) (h1 : bytesLE a b = true) (h2 : bytesLE b c = true) : bytesLE a c = true := by
  induction a generalizing b c with
  | nil => simp [bytesLE]
  | cons x xs ih =>
    cases b with
    | nil => simp [bytesLE] at h1
    | cons y ys =>
      cases c with
      | nil => simp [bytesLE] at h2
      | cons z zs =>
        simp only [bytesLE] at h1 h2 ⊢
        by_cases a1 : x.toNat < y.toNat
        · by_cases b1 : y.toNat < z.toNat
          · have : x.toNat < z.toNat := by omega
            simp [this]
          · by_cases b2 : z.toNat < y.toNat
            · simp [b1, b2] at h2
            · have : x.toNat < z.toNat := by omega
              simp [this]
        · by_cases a2 : y.toNat < x.toNat
          · simp [a1, a2] at h1
          · simp only [a1, a2, ↓reduceIte] at h1
            have exy : x.toNat = y.toNat := by omega
            by_cases b1 : y.toNat < z.toNat
            · have : x.toNat < z.toNat := by omega
              simp [this]
            · by_cases b2 : z.toNat < y.toNat
              · simp [b1, b2] at h2
              · simp only [b1, b2, ↓reduceIte] at h2
                have c1 : ¬ x.toNat < z.toNat := by omega
                have c2 : ¬ z.toNat < x.toNat := by omega
                simp only [c1, c2, ↓reduceIte]
                exact ih ys zs h1 h2

theorem bytesLE_antisymm (a b : Bytes) (h1 : bytesLE a b = true) (h2 : bytesLE b a = true) : a = b := by
  induction a generalizing b with
  | nil =>
    cases b with
    | nil => rfl
    | cons y ys => simp [bytesLE] at h2
  | cons x xs ih =>
    cases b with
    | nil => simp [bytesLE] at h1
    | cons y ys =>
      simp only [bytesLE] at h1 h2
      by_cases a1 : x.toNat < y.toNat
      · have : ¬ y.toNat < x.toNat := by omega
        simp [a1, this] at h2
      · by_cases a2 : y.toNat < x.toNat
        · simp [a1, a2] at h1
        · simp only [a1, a2, ↓reduceIte] at h1 h2
          have : x = y := UInt8.toNat_inj.mp (by omega)
          rw [this, ih ys h1 h2]

/-! ### the canonical RRset octets -/

/-- the sorted list of (RDATA, wire) pairs of an RRset is independent of the order of the records, when the
    wire of a record is determined by its RDATA (same owner, type and class — an RRset) -/
theorem sorted_perm_invariant (ws₁ ws₂ : List (Bytes × Bytes)) (hp : ws₁.Perm ws₂)
    (hdet : ∀ a ∈ ws₁, ∀ b ∈ ws₁, a.1 = b.1 → a = b) :
    ws₁.mergeSort (fun a b => bytesLE a.1 b.1) = ws₂.mergeSort (fun a b => bytesLE a.1 b.1) := by
  have tot : ∀ (a b : Bytes × Bytes), (bytesLE a.1 b.1 || bytesLE b.1 a.1) = true := by
    intro a b; rcases bytesLE_total a.1 b.1 with h | h <;> simp [h]
  have tr : ∀ (a b c : Bytes × Bytes), bytesLE a.1 b.1 = true → bytesLE b.1 c.1 = true → bytesLE a.1 c.1 = true :=
    fun a b c => bytesLE_trans a.1 b.1 c.1
  have s1 := List.pairwise_mergeSort tr tot ws₁
  have s2 := List.pairwise_mergeSort tr tot ws₂
  have p1 := List.mergeSort_perm ws₁ (fun a b => bytesLE a.1 b.1)
  have p2 := List.mergeSort_perm ws₂ (fun a b => bytesLE a.1 b.1)
  have pp : (ws₁.mergeSort (fun a b => bytesLE a.1 b.1)).Perm (ws₂.mergeSort (fun a b => bytesLE a.1 b.1)) :=
    p1.trans (hp.trans p2.symm)
  apply List.Perm.eq_of_pairwise _ s1 s2 pp
  intro a b ha hb h1 h2
  have ha' : a ∈ ws₁ := p1.subset ha
  have hb' : b ∈ ws₁ := hp.symm.subset (p2.subset hb)
  exact hdet a ha' b hb' (bytesLE_antisymm a.1 b.1 h1 h2)

/-- **canon_perm_invariant**: for records of one RRset (same owner, type, class) the signed octets do not
    depend on the order in which the records are given -/
theorem canon_perm_invariant (origTtl labels : Nat) (rs₁ rs₂ : List CRec) (hp : rs₁.Perm rs₂)
    (hset : ∀ a ∈ rs₁, ∀ b ∈ rs₁, a.owner = b.owner ∧ a.typ = b.typ ∧ a.cls = b.cls) :
    rawSignatureData origTtl labels rs₁ = rawSignatureData origTtl labels rs₂ := by
  unfold rawSignatureData
  simp only
  rw [sorted_perm_invariant _ _ (hp.map _)]
  intro a ha b hb hab
  simp only [List.mem_map] at ha hb
  obtain ⟨ra, hra, rfl⟩ := ha
  obtain ⟨rb, hrb, rfl⟩ := hb
  obtain ⟨ho, ht, hc⟩ := hset ra hra rb hrb
  simp only at hab
  simp [rrCanonWire, ho, ht, hc, hab]

/-- **canon_ttl_invariant**: the current TTLs of the records do not enter the signed octets -/
theorem canon_ttl_invariant (origTtl labels : Nat) (rs : List CRec) (f : CRec → Nat) :
    rawSignatureData origTtl labels (rs.map fun r => { r with ttl := f r }) = rawSignatureData origTtl labels rs := by
  unfold rawSignatureData
  simp [List.map_map, Function.comp_def, rrCanonWire]

theorem lowerAll_idem (l : Bytes) : lowerAll (lowerAll l) = lowerAll l := by
  simp only [lowerAll, List.map_map]
  congr 1
  funext b
  have : ∀ n : Fin 256, lower (lower (UInt8.ofNat n.val)) = lower (UInt8.ofNat n.val) := by decide +kernel
  have := this ⟨b.toNat, b.toNat_lt⟩
  simpa using this

/-- **canon_owner_case**: the letter case of the owner does not enter the signed octets -/
theorem canon_owner_case (labels : Nat) (o : List Bytes) :
    canonOwner labels (o.map lowerAll) = canonOwner labels o := by
  unfold canonOwner
  simp only [List.length_map]
  have hm : (o.map lowerAll).map lowerAll = o.map lowerAll := by
    simp [List.map_map, Function.comp_def, lowerAll_idem]
  split
  · simp only [List.map_cons, ← List.map_drop]
    congr 1
    simp [List.map_map, Function.comp_def, lowerAll_idem]
  · exact hm

/-- **canon_wildcard**: an owner with more labels than `Labels` is signed as `*.` followed by its rightmost
    `Labels` labels; with `Labels = 0` that is `*.` itself -/
theorem canon_wildcard (labels : Nat) (o : List Bytes) (h : o.length > labels) :
    canonOwner labels o = [42] :: (o.drop (o.length - labels)).map lowerAll := by
  unfold canonOwner
  simp [h]
  decide

example : canonOwner 0 [[97]] = [[42]] := by decide

end Dns.C10
