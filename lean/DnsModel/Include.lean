/-
  DnsModel.Include — `$INCLUDE` (scan.go, ZoneParser.Next states zExpectDirIncludeBl / zExpectDirInclude, subNext): the
  header-level reading of a zone text (DnsModel/ZoneText.lean) extended by the directive, over an abstract file system.

  An included file is read by a parser of its own: it starts with the origin given on the directive line (else the
  includer's), with the includer's default TTL as it stands, with no previous owner; what it changes stays inside it.
  Its records are delivered where the directive stands; an error inside it is the includer's error.  A parser at depth
  `maxIncludeDepth` refuses the directive without opening anything; a parser on which includes were not enabled refuses
  it at once.  Every `Open` is recorded with the depth of the parser that asked for it.
-/
import DnsModel.ZoneText
import DnsModel.Generated.Consts
namespace Dns.Inc
open Dns Dns.Lex Dns.ZoneText

/-- one transition of the header machine (`zrun` is its iteration: `Dns.C06I.zrun_eq`): next state, parser fields, and
    the record that is complete, if one is -/
def zstep (t : ZTok) (st : ZSt) (zp : ZP) : Option (ZSt × ZP × Option ZHdr) :=
  match st with
  | .ownerDir =>
    let zp := { zp with h := { zp.h with ttl := (match zp.defttl with | some (v, _) => v | none => zp.h.ttl), cls := 1 } }
    match t with
    | .nl => some (.ownerDir, zp, none)
    | .owner n => match toAbsoluteName n zp.origin with
      | some a => some (.ownerBl, { zp with h := { zp.h with name := a } }, none)
      | none => none
    | .dirTTL v => match v with
      | some ttl => some (.ownerDir, { zp with defttl := some (ttl, true) }, none)
      | none => none
    | .dirOrigin n => match toAbsoluteName n zp.origin with
      | some a => some (.ownerDir, { zp with origin := a }, none)
      | none => none
    | .typ ty => some (.rdata, { zp with h := { zp.h with typ := ty } }, none)
    | .cls c => some (.anyNoClassBl, { zp with h := { zp.h with cls := c } }, none)
    | .blank => some (.ownerDir, zp, none)
    | .str v => match v with
      | some ttl => some (.anyNoTTLBl, noteTTL zp ttl, none)
      | none => none
    | .rdata => none
  | .ownerBl => if t = .blank then some (.any, zp, none) else none
  | .any =>
    match t with
    | .typ ty => if zp.defttl.isNone then none else some (.rdata, { zp with h := { zp.h with typ := ty } }, none)
    | .cls c => some (.anyNoClassBl, { zp with h := { zp.h with cls := c } }, none)
    | .str (some ttl) => some (.anyNoTTLBl, noteTTL zp ttl, none)
    | _ => none
  | .anyNoClassBl => if t = .blank then some (.anyNoClass, zp, none) else none
  | .anyNoTTLBl => if t = .blank then some (.anyNoTTL, zp, none) else none
  | .anyNoTTL =>
    match t with
    | .cls c => some (.rrtypeBl, { zp with h := { zp.h with cls := c } }, none)
    | .typ ty => some (.rdata, { zp with h := { zp.h with typ := ty } }, none)
    | _ => none
  | .anyNoClass =>
    match t with
    | .str (some ttl) => some (.rrtypeBl, noteTTL zp ttl, none)
    | .typ ty => some (.rdata, { zp with h := { zp.h with typ := ty } }, none)
    | _ => none
  | .rrtypeBl => if t = .blank then some (.rrtype, zp, none) else none
  | .rrtype =>
    match t with
    | .typ ty => some (.rdata, { zp with h := { zp.h with typ := ty } }, none)
    | _ => none
  | .rdata =>
    match t with
    | .rdata => some (.ownerDir, zp, some zp.h)
    | .blank => some (.rdata, zp, none)
    | _ => none

/-- abstract tokens with the directive -/
inductive ITok where
  | plain (t : ZTok)
  | incl (file : Bytes) (origin : Option Bytes)     -- `$INCLUDE file [origin]`
deriving Repr, DecidableEq

inductive IMode where
  | z (m : Mode)
  | inc (step : Nat) (file : Bytes)   -- 0: blank expected, 1: file name expected, 2: behind the file name, 3: behind the blank after it
deriving Repr, DecidableEq

def ibad : ITok := .plain bad

/-- `absTokens` of DnsModel/ZoneText.lean with the `$INCLUDE` line: directive, blank, file name, then end of line, end of
    input, or a blank and possibly an origin; whatever follows on the line is left for the parser that carries on -/
def absTokensI : IMode → List Tok → List ITok
  | .z .hdr, [] => []
  | .z .afterTyp, [] => [.plain .rdata]
  | .z .rdata, [] => [.plain .rdata]
  | .z (.dir ttl step val), [] => if step = 2 then [.plain (dirTok ttl val)] else [ibad]
  | .inc step file, [] => if step = 2 ∨ step = 3 then [.incl file none] else []   -- end of input behind the file name
  | m, t :: ts =>
    if t.err then [ibad]
    else match m with
    | .z .hdr =>
      if t.value = zOwner then .plain (.owner t.token) :: absTokensI (.z .hdr) ts
      else if t.value = zBlank then .plain .blank :: absTokensI (.z .hdr) ts
      else if t.value = zString then .plain (.str (stringToTTL t.token)) :: absTokensI (.z .hdr) ts
      else if t.value = zClass then .plain (.cls t.torc) :: absTokensI (.z .hdr) ts
      else if t.value = zRrtpe then .plain (.typ t.torc) :: absTokensI (.z .afterTyp) ts
      else if t.value = zNewline then .plain .nl :: absTokensI (.z .hdr) ts
      else if t.value = zDirTTL then absTokensI (.z (.dir true 0 [])) ts
      else if t.value = zDirOrigin then absTokensI (.z (.dir false 0 [])) ts
      else if t.value = zDirInclude then absTokensI (.inc 0 []) ts
      else [ibad]
    | .z .afterTyp =>
      if t.value = zBlank then .plain .blank :: absTokensI (.z .rdata) ts
      else [ibad]
    | .z .rdata =>
      if t.value = zNewline then .plain .rdata :: absTokensI (.z .hdr) ts else absTokensI (.z .rdata) ts
    | .z (.dir ttl step val) =>
      if step = 0 then (if t.value = zBlank then absTokensI (.z (.dir ttl 1 [])) ts else [ibad])
      else if step = 1 then (if t.value = zString then absTokensI (.z (.dir ttl 2 t.token)) ts else [ibad])
      else if t.value = zBlank then absTokensI (.z (.dir ttl 2 val)) ts
      else if t.value = zNewline then .plain (dirTok ttl val) :: absTokensI (.z .hdr) ts
      else [ibad]
    | .inc step file =>
      if step = 0 then (if t.value = zBlank then absTokensI (.inc 1 []) ts else [ibad])
      else if step = 1 then (if t.value = zString then absTokensI (.inc 2 t.token) ts else [ibad])
      else if step = 2 then
        (if t.value = zBlank then absTokensI (.inc 3 file) ts
         else if t.value = zNewline then .incl file none :: absTokensI (.z .hdr) ts
         else [ibad])                                              -- "garbage after $INCLUDE"
      else
        (if t.value = zString then .incl file (some t.token) :: absTokensI (.z .hdr) ts
         else .incl file none :: absTokensI (.z .hdr) ts)          -- the token is consumed either way

structure IRes where
  hdrs : List ZHdr
  err : Bool
  opens : List (Nat × Bytes)     -- every `Open`: depth of the asking parser, path
deriving Repr, DecidableEq

/-- the origin an included file starts with: the one on the directive line, made absolute, else the current one -/
def newOrigin (org : Option Bytes) (zp : ZP) : Option Bytes :=
  match org with
  | none => some zp.origin
  | some o => toAbsoluteName o zp.origin

/-- one parser: `sub file origin defttl` reads an included file and reports its records, whether it failed, and what was
    opened -/
def runLevel (allowed : Bool) (sub : Bytes → Bytes → Option (Nat × Bool) → IRes) :
    List ITok → ZSt → ZP → List ZHdr → List (Nat × Bytes) → IRes
  | [], _, _, acc, ops => ⟨acc.reverse, false, ops⟩
  | .plain t :: ts, st, zp, acc, ops =>
    match zstep t st zp with
    | none => ⟨acc.reverse, true, ops⟩
    | some (st', zp', out) => runLevel allowed sub ts st' zp' (out.toList ++ acc) ops
  | .incl file org :: ts, st, zp, acc, ops =>
    if st ≠ .ownerDir then ⟨acc.reverse, true, ops⟩
    else
      match newOrigin org zp with
      | none => ⟨acc.reverse, true, ops⟩                         -- "bad origin name"
      | some no =>
        if !allowed then ⟨acc.reverse, true, ops⟩                -- "$INCLUDE directive not allowed"
        else
          let r := sub file no zp.defttl
          if r.err then ⟨acc.reverse ++ r.hdrs, true, ops ++ r.opens⟩
          else runLevel allowed sub ts .ownerDir zp (r.hdrs.reverse ++ acc) (ops ++ r.opens)

/-- the state a parser starts in (`NewZoneParser`, then the fields `$INCLUDE` hands over) -/
def startZP (origin : Bytes) (defttl : Option (Nat × Bool)) : ZP := ⟨origin, ⟨[], 0, 1, 0⟩, defttl⟩

/-- the parser at `depth` reading `text`; `fuel` bounds the nesting (`Gen.maxIncludeDepth + 1 - depth` is enough:
    `Dns.C07I.fuel_irrelevant`) -/
def readI (fs : Bytes → Option Bytes) : (fuel : Nat) → (allowed : Bool) → (depth : Nat) → (text origin : Bytes) →
    Option (Nat × Bool) → IRes
  | 0, _, _, _, _, _ => ⟨[], true, []⟩
  | f + 1, allowed, depth, text, origin, defttl =>
    runLevel allowed
      (fun file org dt =>
        if depth ≥ Gen.maxIncludeDepth then ⟨[], true, []⟩        -- "too deeply nested $INCLUDE": nothing is opened
        else match fs file with
          | none => ⟨[], true, [(depth, file)]⟩                    -- Open failed
          | some content =>
            let r := readI fs f true (depth + 1) content org dt
            ⟨r.hdrs, r.err, (depth, file) :: r.opens⟩)
      (absTokensI (.z .hdr) ((lexAll text).map (·.1))) .ownerDir (startZP origin defttl) [] []

/-- the reading of a zone text with includes -/
def readZoneI (fs : Bytes → Option Bytes) (allowed : Bool) (origin : Bytes) (defttl : Option Nat) (text : Bytes) : IRes :=
  readI fs (Gen.maxIncludeDepth + 1) allowed 0 text origin (defttl.map (fun v => (v, false)))

end Dns.Inc
