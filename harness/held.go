package main

import (
	"fmt"
	"net"
	"strings"
	"sync"
	"time"

	"github.com/miekg/dns"
)

// heldDatagrams: a forced interleaving on a UDP / generic PacketConn server.  A datagram that the accept policy lets
// through but that does not decode is answered FORMERR; then one query is held between "read from the socket" and
// "decoded" (a blocking MsgAcceptFunc) while another is received and answered; then it is released.  Each query must
// reach its handler whole — the receive buffers of requests in flight are distinct — and get its own reply.
func heldDatagrams(c *Ctx, r *Rng, kind string) {
	var mu sync.Mutex
	gate := map[uint16]chan struct{}{}
	entered := make(chan uint16, 64)
	h := dns.HandlerFunc(func(w dns.ResponseWriter, req *dns.Msg) {
		m := new(dns.Msg)
		m.SetReply(req)
		name := "-"
		if len(req.Question) > 0 {
			name = req.Question[0].Name
		}
		m.Answer = []dns.RR{&dns.TXT{Hdr: dns.RR_Header{Name: "seen.example.", Rrtype: dns.TypeTXT, Class: 1}, Txt: []string{fmt.Sprintf("%d %s", req.Id, name)}}}
		w.WriteMsg(m)
	})
	pc, err := net.ListenPacket("udp", "127.0.0.1:0")
	if err != nil {
		c.Res.Notes = append(c.Res.Notes, "loopback udp not available: "+err.Error())
		return
	}
	srv := &dns.Server{Handler: h, UDPSize: 1232, ReadTimeout: 2 * time.Second}
	srv.MsgAcceptFunc = func(dh dns.Header) dns.MsgAcceptAction {
		mu.Lock()
		ch := gate[dh.Id]
		mu.Unlock()
		if ch != nil {
			entered <- dh.Id
			<-ch
		}
		return dns.DefaultMsgAcceptFunc(dh)
	}
	if kind == "pc" {
		srv.PacketConn = &wrapPC{PacketConn: pc}
	} else {
		srv.PacketConn = pc
	}
	started := make(chan struct{})
	srv.NotifyStartedFunc = func() { close(started) }
	go srv.ActivateAndServe()
	<-started
	defer srv.Shutdown()
	conn, err := net.Dial("udp", pc.LocalAddr().String())
	if err != nil {
		return
	}
	defer conn.Close()
	buf := make([]byte, 4096)
	rounds := c.Scale(25, 400)
	bad, total, silent := 0, 0, 0
	first := ""
	for i := 0; i < rounds && silent < 2; i++ { // a server that has stopped answering is reported, not waited for
		// accepted by the policy, undecodable: a query header announcing one question, then half a name
		poison := append(buildMsgWire(uint16(40000+i), 0, nil, nil, nil, nil), 5, 'a', 'b')
		poison[5] = 1
		conn.Write(poison)
		conn.SetReadDeadline(time.Now().Add(300 * time.Millisecond))
		conn.Read(buf) // its FORMERR reply
		idA, idB := uint16(2*i+1), uint16(2*i+2)
		ch := make(chan struct{})
		mu.Lock()
		gate[idA] = ch
		mu.Unlock()
		mk := func(id uint16, tag string) (*dns.Msg, []byte) {
			q := new(dns.Msg)
			q.SetQuestion(fmt.Sprintf("%s%d.%s.example.", tag, i, strings.Repeat("y", 1+r.Intn(30))), dns.TypeTXT)
			q.Id = id
			b, _ := q.Pack()
			return q, b
		}
		qa, ba := mk(idA, "held")
		qb, bb := mk(idB, "free")
		conn.Write(ba)
		select {
		case <-entered:
		case <-time.After(2 * time.Second):
		}
		conn.Write(bb)
		got := map[uint16]string{}
		// read until the reply with the wanted ID is there (late replies to earlier datagrams are skipped)
		readFor := func(id uint16) {
			deadline := time.Now().Add(3 * time.Second)
			for time.Now().Before(deadline) {
				if _, ok := got[id]; ok {
					return
				}
				conn.SetReadDeadline(deadline)
				n, err := conn.Read(buf)
				if err != nil {
					return
				}
				var rm dns.Msg
				if rm.Unpack(buf[:n]) != nil || len(rm.Answer) != 1 {
					if rm.Id == idA || rm.Id == idB {
						got[rm.Id] = fmt.Sprintf("rcode=%d answers=%d", rm.Rcode, len(rm.Answer))
					}
					continue
				}
				got[rm.Id] = strings.Join(rm.Answer[0].(*dns.TXT).Txt, "")
			}
		}
		readFor(idB)
		close(ch)
		mu.Lock()
		delete(gate, idA)
		mu.Unlock()
		readFor(idA)
		for _, q := range []*dns.Msg{qa, qb} {
			total++
			want := fmt.Sprintf("%d %s", q.Id, q.Question[0].Name)
			if _, ok := got[q.Id]; !ok {
				silent++
			} else {
				silent = 0
			}
			if got[q.Id] != want {
				bad++
				if first == "" {
					first = fmt.Sprintf("query id=%d name=%s: handler saw %q", q.Id, q.Question[0].Name, got[q.Id])
				}
			}
		}
	}
	c.Pred("udp-held-datagrams:"+kind, "requests-in-flight-have-their-own-buffers", fmt.Sprintf("%d queries, one held undecoded while the next arrives, after an undecodable datagram", total),
		bad == 0, fmt.Sprintf("%d of %d mangled; %s", bad, total, first), "each handler sees its own request, each query its own reply", true)
	c.Res.Evaluations += total
}
