package main

// Per-type pack / unpack plans read from the *bodies* of the generated functions in zmsg.go,
// and the type registry (TypeToRR) from ztypes.go.

import (
	"bytes"
	"fmt"
	"go/ast"
	"go/printer"
	"go/token"
	"sort"
	"strings"
)

type step struct {
	Codec string `json:"codec"` // packUint16, packDomainName, ...
	Field string `json:"field"` // struct field (first rr.X argument / assignment target)
	Extra string `json:"extra"` // remaining distinguishing arguments, e.g. "compress", "false", "off+int(rr.SaltLength)"
	Cond  string `json:"cond"`  // enclosing if-condition, "" when unconditional
}

type plan struct {
	Type  string `json:"type"`
	Steps []step `json:"steps"`
}

func (p *pkgInfo) src(n ast.Node) string {
	var b bytes.Buffer
	printer.Fprint(&b, p.fset, n)
	return strings.Join(strings.Fields(b.String()), "")
}

func selField(e ast.Expr) (string, bool) {
	if se, ok := e.(*ast.SelectorExpr); ok {
		if id, ok := se.X.(*ast.Ident); ok && id.Name == "rr" {
			return se.Sel.Name, true
		}
	}
	return "", false
}

// planOf walks the body of rr.pack / rr.unpack.
func (p *pkgInfo) planOf(fd *ast.FuncDecl, unpack bool) ([]step, error) {
	var steps []step
	var walk func(stmts []ast.Stmt, cond string) error
	walk = func(stmts []ast.Stmt, cond string) error {
		for _, st := range stmts {
			switch s := st.(type) {
			case *ast.AssignStmt:
				if len(s.Rhs) != 1 {
					return fmt.Errorf("unexpected assignment %s", p.src(s))
				}
				call, ok := s.Rhs[0].(*ast.CallExpr)
				if !ok {
					// rdStart := off ; _ = rdStart
					src := p.src(s)
					if src == "rdStart:=off" || src == "_=rdStart" {
						continue
					}
					return fmt.Errorf("unexpected assignment %s", src)
				}
				fn := p.src(call.Fun)
				var st step
				st.Codec = fn
				st.Cond = cond
				if unpack {
					// rr.F, off, err = unpackX(msg, off, extra...)
					if len(s.Lhs) != 3 {
						return fmt.Errorf("unexpected unpack assignment %s", p.src(s))
					}
					f, ok := selField(s.Lhs[0])
					if !ok {
						// rr.GatewayAddr, rr.GatewayHost, off, err = … (4 lhs) handled below
						return fmt.Errorf("unexpected unpack target %s", p.src(s))
					}
					st.Field = f
					var ex []string
					for _, a := range call.Args[2:] {
						ex = append(ex, p.src(a))
					}
					st.Extra = strings.Join(ex, ",")
				} else {
					// off, err = packX(rr.F, msg, off, extra...)
					var fields, ex []string
					seenMsg := false
					for _, a := range call.Args {
						if f, ok := selField(a); ok && !seenMsg {
							fields = append(fields, f)
							continue
						}
						src := p.src(a)
						if src == "msg" {
							seenMsg = true
						}
						if src == "msg" || src == "off" || src == "compression" {
							continue
						}
						ex = append(ex, src)
					}
					st.Field = strings.Join(fields, "+")
					st.Extra = strings.Join(ex, ",")
				}
				steps = append(steps, st)
			case *ast.IfStmt:
				c := p.src(s.Cond)
				if c == "err!=nil" {
					continue // error propagation
				}
				if c == "off==len(msg)" {
					// early exit of the unpacker at a field boundary
					steps = append(steps, step{Codec: "earlyexit", Cond: cond})
					continue
				}
				if s.Else != nil {
					return fmt.Errorf("unexpected else in %s", fd.Name.Name)
				}
				nc := c
				if cond != "" {
					nc = cond + "&&" + c
				}
				if err := walk(s.Body.List, nc); err != nil {
					return err
				}
			case *ast.ReturnStmt:
				continue
			case *ast.ExprStmt, *ast.DeclStmt:
				return fmt.Errorf("unexpected statement %s", p.src(s))
			default:
				return fmt.Errorf("unexpected statement %s", p.src(s))
			}
		}
		return nil
	}
	// unpack with 4 lhs (gateway): handle by pre-pass
	if unpack {
		for i, st := range fd.Body.List {
			if as, ok := st.(*ast.AssignStmt); ok && len(as.Lhs) == 4 {
				call, ok := as.Rhs[0].(*ast.CallExpr)
				if !ok {
					continue
				}
				f1, _ := selField(as.Lhs[0])
				f2, _ := selField(as.Lhs[1])
				var ex []string
				for _, a := range call.Args[2:] {
					ex = append(ex, p.src(a))
				}
				_ = i
				// replace by a synthetic 3-lhs marker: record directly
				fd.Body.List[i] = &ast.EmptyStmt{}
				defer func(idx int, s step) {}(i, step{})
				steps = append(steps, step{Codec: "@" + p.src(call.Fun), Field: f1 + "+" + f2, Extra: strings.Join(ex, ",")})
			}
		}
	}
	pre := steps
	steps = nil
	var body []ast.Stmt
	for _, st := range fd.Body.List {
		if _, ok := st.(*ast.EmptyStmt); ok {
			// position marker for the gateway step
			if len(pre) > 0 {
				body = append(body, &ast.EmptyStmt{})
			}
			continue
		}
		body = append(body, st)
	}
	// walk, splicing the pre-recorded gateway step at the marker position
	var out []step
	seg := []ast.Stmt{}
	flush := func() error {
		steps = nil
		if err := walk(seg, ""); err != nil {
			return err
		}
		out = append(out, steps...)
		seg = seg[:0]
		return nil
	}
	for _, st := range body {
		if _, ok := st.(*ast.EmptyStmt); ok {
			if err := flush(); err != nil {
				return nil, err
			}
			g := pre[0]
			g.Codec = strings.TrimPrefix(g.Codec, "@")
			out = append(out, g)
			pre = pre[1:]
			continue
		}
		seg = append(seg, st)
	}
	if err := flush(); err != nil {
		return nil, err
	}
	return out, nil
}

func (p *pkgInfo) plans() (pack, unpack []plan) {
	f := p.files["zmsg.go"]
	if f == nil {
		fail("zmsg.go not found")
		return
	}
	for _, d := range f.Decls {
		fd, ok := d.(*ast.FuncDecl)
		if !ok || fd.Recv == nil {
			continue
		}
		t := recvName(fd.Recv.List[0].Type)
		switch fd.Name.Name {
		case "pack":
			st, err := p.planOf(fd, false)
			if err != nil {
				fail("zmsg.go %s.pack: %v", t, err)
			}
			pack = append(pack, plan{t, st})
		case "unpack":
			st, err := p.planOf(fd, true)
			if err != nil {
				fail("zmsg.go %s.unpack: %v", t, err)
			}
			unpack = append(unpack, plan{t, st})
		}
	}
	sort.Slice(pack, func(i, j int) bool { return pack[i].Type < pack[j].Type })
	sort.Slice(unpack, func(i, j int) bool { return unpack[i].Type < unpack[j].Type })
	return
}

// typeRegistry: TypeX -> struct name from the TypeToRR composite literal, with the numeric code.
func (p *pkgInfo) typeRegistry() map[string]int64 {
	out := map[string]int64{}
	f := p.files["ztypes.go"]
	if f == nil {
		fail("ztypes.go not found")
		return out
	}
	ast.Inspect(f, func(n ast.Node) bool {
		vs, ok := n.(*ast.ValueSpec)
		if !ok || len(vs.Names) != 1 || vs.Names[0].Name != "TypeToRR" || len(vs.Values) != 1 {
			return true
		}
		cl, ok := vs.Values[0].(*ast.CompositeLit)
		if !ok {
			return true
		}
		for _, e := range cl.Elts {
			kv := e.(*ast.KeyValueExpr)
			code, ok := p.eval(kv.Key, nil, 0, 0)
			if !ok {
				fail("TypeToRR key %s not evaluable", p.src(kv.Key))
				continue
			}
			// func() RR { return new(T) }
			name := ""
			ast.Inspect(kv.Value, func(m ast.Node) bool {
				if c, ok := m.(*ast.CallExpr); ok {
					if id, ok := c.Fun.(*ast.Ident); ok && id.Name == "new" && len(c.Args) == 1 {
						name = p.src(c.Args[0])
					}
				}
				return true
			})
			if name == "" {
				fail("TypeToRR value for %d not recognised", code)
			}
			out[name] = code
		}
		return false
	})
	return out
}

func leanStr(s string) string {
	return "\"" + strings.ReplaceAll(strings.ReplaceAll(s, "\\", "\\\\"), "\"", "\\\"") + "\""
}

func leanPlans(name string, ps []plan) string {
	var b strings.Builder
	fmt.Fprintf(&b, "def %s : List (String × List (String × String × String × String)) := [\n", name)
	for i, pl := range ps {
		fmt.Fprintf(&b, "  (%s, [", leanStr(pl.Type))
		for j, s := range pl.Steps {
			if j > 0 {
				b.WriteString(", ")
			}
			fmt.Fprintf(&b, "(%s, %s, %s, %s)", leanStr(s.Codec), leanStr(s.Field), leanStr(s.Extra), leanStr(s.Cond))
		}
		b.WriteString("])")
		if i < len(ps)-1 {
			b.WriteString(",")
		}
		b.WriteString("\n")
	}
	b.WriteString("]\n")
	return b.String()
}

var _ = token.ADD
