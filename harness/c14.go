package main

import (
	"fmt"
	"net"
	"strings"
	"sync"
	"sync/atomic"
	"time"

	"github.com/miekg/dns"
)

func init() { props["C14"] = runC14 }

type capWriter struct{ out [][]byte }

func (w *capWriter) Write(p []byte) (int, error) {
	w.out = append(w.out, append([]byte{}, p...))
	return len(p), nil
}

type served struct {
	handlerCalls int
	req          *dns.Msg
	invalidCalls int
	writes       [][]byte
	panicked     bool
}

// serveOnce: the server's decision on one inbound message, observed through the verif hook.
func serveOnce(m []byte, reply bool) served {
	var s served
	srv := &dns.Server{}
	srv.Handler = dns.HandlerFunc(func(w dns.ResponseWriter, r *dns.Msg) {
		s.handlerCalls++
		s.req = r
		if reply {
			x := new(dns.Msg)
			x.SetReply(r)
			w.WriteMsg(x)
		}
	})
	srv.MsgInvalidFunc = func(m []byte, err error) { s.invalidCalls++ }
	cw := &capWriter{}
	func() {
		defer func() {
			if r := recover(); r != nil {
				s.panicked = true
			}
		}()
		dns.VerifServeDNS(srv, append([]byte{}, m...), cw)
	}()
	s.writes = cw.out
	return s
}

func actionName(a dns.MsgAcceptAction) string {
	switch a {
	case dns.MsgAccept:
		return "accept"
	case dns.MsgReject:
		return "reject"
	case dns.MsgIgnore:
		return "ignore"
	case dns.MsgRejectNotImplemented:
		return "notimp"
	}
	return "?"
}

// c14Packet: every clause of the admission part on one inbound packet.
func c14Packet(c *Ctx, stream string, p []byte) {
	in := "pkt=" + hx(p)
	s := serveOnce(p, false)
	c.Pred(stream, "server-no-panic", in, !s.panicked, "panic", "no panic", len(p) >= 12)
	if s.panicked {
		return
	}
	var m dns.Msg
	decodeOk := len(p) >= 12 && m.Unpack(p) == nil
	hdrOk := len(p) >= 12
	var bits, qd, an, ns, ar int
	if hdrOk {
		bits, qd, an, ns, ar = be16(p, 2), be16(p, 4), be16(p, 6), be16(p, 8), be16(p, 10)
	}
	// observed outcome in the model's vocabulary
	var got string
	switch {
	case s.handlerCalls == 1 && len(s.writes) == 0 && s.invalidCalls == 0:
		got = "handler"
	case s.handlerCalls == 0 && len(s.writes) == 0 && s.invalidCalls == 1:
		got = "invalid"
	case s.handlerCalls == 0 && len(s.writes) == 0 && s.invalidCalls == 0:
		got = "ignored"
	case s.handlerCalls == 0 && len(s.writes) == 1 && len(s.writes[0]) >= 12:
		got = fmt.Sprintf("reply %d %s", be16(s.writes[0], 2), b01(s.invalidCalls == 1))
	default:
		got = fmt.Sprintf("other handler=%d writes=%d invalid=%d", s.handlerCalls, len(s.writes), s.invalidCalls)
	}
	c.Hit("served:" + strings.Fields(got)[0])
	c.Op(stream, fmt.Sprintf("serve %s %d %d %d %d %d %s", b01(hdrOk), bits, qd, an, ns, ar, b01(decodeOk)), got, hdrOk)
	// the same decision with the model's own decoder deciding whether the message decodes
	if len(p) <= 2048 {
		c.OpK(stream, "serve.packet "+strOrDash(hx(p)), got, hdrOk, "serve-packet")
	}
	// exactly once / never both
	c.Pred(stream, "exactly-once", in, s.handlerCalls <= 1 && !(s.handlerCalls == 1 && (len(s.writes) > 0 || s.invalidCalls > 0)), got, "handler xor (reply|ignore|invalid)", hdrOk)
	if s.handlerCalls == 1 {
		var want dns.Msg
		ok := want.Unpack(p) == nil && want.String() == s.req.String()
		c.Pred(stream, "handler-gets-decoded-request", in, ok, "different request", "the decoded message", true)
	}
	// library replies: request ID, QR, no answer/authority/additional, expected RCODE
	if len(s.writes) == 1 {
		var r dns.Msg
		err := r.Unpack(s.writes[0])
		okShape := err == nil && r.Id == uint16(be16(p, 0)) && r.Response && len(r.Answer) == 0 && len(r.Ns) == 0 && len(r.Extra) == 0 &&
			(r.Rcode == dns.RcodeFormatError || r.Rcode == dns.RcodeNotImplemented)
		if okShape && r.Rcode == dns.RcodeNotImplemented {
			okShape = r.Opcode == (bits>>11)&0xF
		}
		c.Pred(stream, "reject-reply-shape", in, okShape, hx(s.writes[0]), "ID echoed, QR, FORMERR/NOTIMP, empty sections", true)
	}
}

func runC14(c *Ctx) {
	r := c.R
	c.Res.Rule = "all 2^16 header flag words x count patterns through the server decision, arbitrary packets (valid, truncated, mutated, header-only), pattern sets x question names x types through the multiplexer, and whole servers over in-memory TCP and loopback UDP; non-trivial = at least a header; distinct by content"
	// 1. all flag words x count patterns (policy table), impl vs Lean
	counts := [][4]int{{1, 0, 0, 0}, {0, 0, 0, 0}, {2, 0, 0, 0}, {1, 1, 0, 0}, {1, 2, 0, 0}, {1, 0, 1, 0}, {1, 0, 2, 0}, {1, 0, 0, 2}, {1, 0, 0, 3}, {1, 1, 1, 2}, {65535, 65535, 65535, 65535}}
	for w := 0; w < 65536; w++ {
		cs := counts[w%len(counts)]
		if w%7 == 0 {
			cs = [4]int{r.Intn(3), r.Intn(3), r.Intn(3), r.Intn(4)}
		}
		a := dns.VerifDefaultAccept(uint16(w), uint16(cs[0]), uint16(cs[1]), uint16(cs[2]), uint16(cs[3]))
		c.Op("policy", fmt.Sprintf("accept %d %d %d %d %d", w, cs[0], cs[1], cs[2], cs[3]), actionName(a), true)
	}
	// 2. all flag words through serveDNS with a well-formed one-question body
	q := putUint(putUint(wireOf([][]byte{[]byte("example"), []byte("org")}), 2, 1), 2, 1)
	for w := 0; w < 65536; w += c.Scale(5, 1) {
		p := buildMsgWire(uint16(w*3), uint16(w), nil, nil, nil, nil)
		p[5] = 1
		p = append(p, q...)
		c14Packet(c, "flagwords", p)
	}
	// 3. arbitrary packets
	n := c.Scale(4000, 100000)
	for i := 0; i < n; i++ {
		g := genMsg(r, msgOpts{mode: r.Intn(2), maxAn: 2, maxNs: 2, maxEx: 3, optPct: 30})
		p := g.Wire
		switch r.Intn(6) {
		case 0:
			p = p[:r.Intn(len(p)+1)]
		case 1, 2:
			p = mutateBytes(r, p)
		case 3:
			p = p[:12]
		case 4:
			p = r.Bytes(r.Intn(40))
		}
		c14Packet(c, "packets", p)
	}
	// 4. multiplexer: pattern sets x names x types
	alpha := [][]byte{[]byte("a"), []byte("b"), []byte("A"), []byte("a.b"), []byte("c")}
	nm := c.Scale(6000, 150000)
	for i := 0; i < nm; i++ {
		var pats [][][]byte
		np := r.Intn(5)
		for k := 0; k < np; k++ {
			var ls [][]byte
			for j := 0; j < r.Intn(4); j++ {
				ls = append(ls, alpha[r.Intn(len(alpha))])
			}
			pats = append(pats, ls)
		}
		var ql [][]byte
		for j := 0; j < r.Intn(5); j++ {
			ql = append(ql, alpha[r.Intn(len(alpha))])
		}
		if r.Chance(10) {
			ql = genLabels(r, 1)
			if r.Bool() {
				pats = append(pats, ql[r.Intn(len(ql)+1):])
			}
		}
		mux := dns.NewServeMux()
		hs := map[dns.Handler]string{}
		var patHex []string
		byCanon := map[string]bool{}
		for _, pl := range pats {
			ps := presentLabels(pl)
			if !r.Bool() && len(pl) > 0 {
				ps = strings.TrimSuffix(ps, ".") // registered without the trailing dot
			}
			canon := asciiLower(presentLabels(pl))
			h := dns.HandlerFunc(func(dns.ResponseWriter, *dns.Msg) {})
			_ = h
			tag := canon
			hh := &tagHandler{tag}
			mux.Handle(ps, hh)
			hs[hh] = tag
			if !byCanon[canon] {
				byCanon[canon] = true
				patHex = append(patHex, hxs(canon))
			}
		}
		qs := randCase(r, presentLabels(ql))
		for _, typ := range []uint16{dns.TypeA, dns.TypeDS} {
			got := "none"
			if h := dns.VerifMuxMatch(mux, qs, typ); h != nil {
				if th, ok := h.(*tagHandler); ok {
					got = hxs(th.tag)
				}
			}
			c.Op("mux", fmt.Sprintf("mux %s %s %s", b01(typ == dns.TypeDS), hxs(qs), strings.Join(patHex, " ")), got, len(pats) > 0)
			// specification on label lists
			want := "none"
			best := -1
			for _, pl := range pats {
				if len(pl) <= len(ql) && commonSuffix(pl, ql) == len(pl) {
					if typ != dns.TypeDS && len(pl) > best {
						best = len(pl)
						want = hxs(asciiLower(presentLabels(pl)))
					}
					if typ == dns.TypeDS && (best == -1 || len(pl) < best) {
						best = len(pl)
						want = hxs(asciiLower(presentLabels(pl)))
					}
				}
			}
			key := "mux-longest-suffix"
			if typ == dns.TypeDS {
				key = "mux-ds-ancestor"
			}
			c.Pred("mux", key, fmt.Sprintf("q=%s type=%d patterns=%v", qs, typ, patHex), got == want, got, want, len(pats) > 0)
		}
		// HandleRemove: after a pattern is taken out (in any spelling), routing is that of the remaining set
		if len(pats) > 0 && i%3 == 0 {
			k := r.Intn(len(pats))
			rm := presentLabels(pats[k])
			if r.Bool() && len(pats[k]) > 0 {
				rm = strings.TrimSuffix(rm, ".")
			}
			mux.HandleRemove(randCase(r, rm))
			removed := asciiLower(presentLabels(pats[k]))
			var restHex []string
			seen := map[string]bool{}
			for _, pl := range pats {
				canon := asciiLower(presentLabels(pl))
				if canon != removed && !seen[canon] {
					seen[canon] = true
					restHex = append(restHex, hxs(canon))
				}
			}
			for _, typ := range []uint16{dns.TypeA, dns.TypeDS} {
				got := "none"
				if h := dns.VerifMuxMatch(mux, qs, typ); h != nil {
					if th, ok := h.(*tagHandler); ok {
						got = hxs(th.tag)
					}
				}
				c.OpK("mux", strings.TrimSpace(fmt.Sprintf("mux %s %s %s", b01(typ == dns.TypeDS), hxs(qs), strings.Join(restHex, " "))), got, true, "mux-after-remove")
			}
		}
		// REFUSED when nothing matches: ID, QR, opcode, RD, CD of a query, first question
		if i%10 == 0 {
			req := new(dns.Msg)
			req.SetQuestion(presentLabels(ql), dns.TypeA)
			req.Id = uint16(r.U64())
			req.RecursionDesired = r.Bool()
			req.CheckingDisabled = r.Bool()
			req.Opcode = []int{dns.OpcodeQuery, dns.OpcodeNotify}[r.Intn(2)]
			empty := dns.NewServeMux()
			rw := &recWriter{}
			empty.ServeDNS(rw, req)
			ok := rw.msg != nil && rw.msg.Id == req.Id && rw.msg.Response && rw.msg.Rcode == dns.RcodeRefused && rw.msg.Opcode == req.Opcode &&
				len(rw.msg.Question) == 1 && rw.msg.Question[0] == req.Question[0]
			if ok && req.Opcode == dns.OpcodeQuery {
				ok = rw.msg.RecursionDesired == req.RecursionDesired && rw.msg.CheckingDisabled == req.CheckingDisabled
			}
			c.Pred("refused", "refused-reply", req.String(), ok, fmt.Sprint(rw.msg), "REFUSED echoing ID, opcode, RD, CD, question", true)
		}
	}
	// 5. whole servers: TCP over an in-memory pipe (sequential per connection) and UDP on loopback
	c14Transport(c, r)
	c14GlobalInvalidFunc(c)
	// forced interleaving on real UDP servers: an accepted-but-undecodable datagram, then two requests in flight
	heldDatagrams(c, r, "udp")
	heldDatagrams(c, r, "pc")
	// datagrams that never reach a handler must not keep later, well-formed queries from theirs
	c12IgnoredThenQueries(c, r, "udp")
	c12IgnoredThenQueries(c, r, "pc")
}

type tagHandler struct{ tag string }

func (t *tagHandler) ServeDNS(dns.ResponseWriter, *dns.Msg) {}

type recWriter struct {
	msg *dns.Msg
}

func (w *recWriter) LocalAddr() net.Addr         { return &net.UDPAddr{} }
func (w *recWriter) RemoteAddr() net.Addr        { return &net.UDPAddr{} }
func (w *recWriter) WriteMsg(m *dns.Msg) error   { w.msg = m; return nil }
func (w *recWriter) Write(b []byte) (int, error) { return len(b), nil }
func (w *recWriter) Close() error                { return nil }
func (w *recWriter) TsigStatus() error           { return nil }
func (w *recWriter) TsigTimersOnly(bool)         {}
func (w *recWriter) Hijack()                     {}

// pipeListener hands out one side of net.Pipe per Accept.
type pipeListener struct {
	ch     chan net.Conn
	closed chan struct{}
	once   sync.Once
}

func newPipeListener() *pipeListener {
	return &pipeListener{ch: make(chan net.Conn), closed: make(chan struct{})}
}
func (l *pipeListener) Accept() (net.Conn, error) {
	select {
	case c := <-l.ch:
		return c, nil
	case <-l.closed:
		return nil, net.ErrClosed
	}
}
func (l *pipeListener) Close() error   { l.once.Do(func() { close(l.closed) }); return nil }
func (l *pipeListener) Addr() net.Addr { return &net.TCPAddr{IP: net.IPv4(127, 0, 0, 1), Port: 53} }
func (l *pipeListener) dial() net.Conn {
	a, b := net.Pipe()
	l.ch <- b
	return a
}

// c14GlobalInvalidFunc: a server whose MsgInvalidFunc is left nil reports to the package-level DefaultMsgInvalidFunc as it
// stands when the server starts — a callback installed there sees every message that neither reached the handler nor
// was refused or ignored by the policy (runt datagrams, accepted queries that do not decode), over UDP and TCP.
func c14GlobalInvalidFunc(c *Ctx) {
	var mu sync.Mutex
	var seen [][]byte
	old := dns.DefaultMsgInvalidFunc
	dns.DefaultMsgInvalidFunc = func(m []byte, err error) {
		mu.Lock()
		seen = append(seen, append([]byte{}, m...))
		mu.Unlock()
	}
	defer func() { dns.DefaultMsgInvalidFunc = old }()
	handled := int64(0)
	h := dns.HandlerFunc(func(w dns.ResponseWriter, req *dns.Msg) {
		atomic.AddInt64(&handled, 1)
		m := new(dns.Msg)
		m.SetReply(req)
		w.WriteMsg(m)
	})
	undecodable := []byte{0x12, 0x34, 0x01, 0x00, 0, 1, 0, 0, 0, 0, 0, 0, 3, 'a', 'b'} // QDCOUNT 1, the question cut short
	runt := []byte{1, 2, 3, 4, 5}
	waitFor := func(n int) int {
		for k := 0; k < 100; k++ {
			mu.Lock()
			l := len(seen)
			mu.Unlock()
			if l >= n {
				return l
			}
			time.Sleep(10 * time.Millisecond)
		}
		mu.Lock()
		defer mu.Unlock()
		return len(seen)
	}
	// UDP
	if pc, err := net.ListenPacket("udp", "127.0.0.1:0"); err == nil {
		srv := &dns.Server{PacketConn: pc, Handler: h, ReadTimeout: 2 * time.Second}
		started := make(chan struct{})
		srv.NotifyStartedFunc = func() { close(started) }
		go srv.ActivateAndServe()
		<-started
		if conn, err := net.Dial("udp", pc.LocalAddr().String()); err == nil {
			conn.Write(runt)
			conn.Write(undecodable)
			got := waitFor(2)
			c.Pred("invalid-callback", "global-invalid-callback-used:udp", "runt datagram, undecodable accepted query", got == 2 && atomic.LoadInt64(&handled) == 0,
				fmt.Sprint(got, " reports, ", atomic.LoadInt64(&handled), " handler calls"), "2 reports, 0 handler calls", true)
			conn.Close()
		}
		srv.Shutdown()
	}
	mu.Lock()
	seen = nil
	mu.Unlock()
	// TCP
	if l, err := net.Listen("tcp", "127.0.0.1:0"); err == nil {
		srv := &dns.Server{Listener: l, Handler: h, ReadTimeout: 2 * time.Second}
		started := make(chan struct{})
		srv.NotifyStartedFunc = func() { close(started) }
		go srv.ActivateAndServe()
		<-started
		if conn, err := net.Dial("tcp", l.Addr().String()); err == nil {
			for _, b := range [][]byte{undecodable, runt} {
				conn.Write(append(putUint(nil, 2, uint64(len(b))), b...))
			}
			got := waitFor(2)
			c.Pred("invalid-callback", "global-invalid-callback-used:tcp", "undecodable accepted query, runt message", got == 2 && atomic.LoadInt64(&handled) == 0,
				fmt.Sprint(got, " reports, ", atomic.LoadInt64(&handled), " handler calls"), "2 reports, 0 handler calls", true)
			conn.Close()
		}
		srv.Shutdown()
	}
}

func c14Transport(c *Ctx, r *Rng) {
	var mu sync.Mutex
	handled := map[uint16]int{}
	invalid := 0
	srv := &dns.Server{Listener: newPipeListener(), ReadTimeout: 2 * time.Second, WriteTimeout: 2 * time.Second}
	srv.Handler = dns.HandlerFunc(func(w dns.ResponseWriter, req *dns.Msg) {
		mu.Lock()
		handled[req.Id]++
		mu.Unlock()
		m := new(dns.Msg)
		m.SetReply(req)
		w.WriteMsg(m)
	})
	srv.MsgInvalidFunc = func(m []byte, err error) { mu.Lock(); invalid++; mu.Unlock() }
	started := make(chan struct{})
	srv.NotifyStartedFunc = func() { close(started) }
	go srv.ActivateAndServe()
	<-started
	defer srv.Shutdown()
	ln := srv.Listener.(*pipeListener)
	n := c.Scale(150, 3000)
	for i := 0; i < n; i++ {
		conn := ln.dial()
		conn.SetDeadline(time.Now().Add(3 * time.Second))
		// hostile packet followed by a marker query on the same connection
		g := genMsg(r, msgOpts{mode: 0, maxAn: 1, maxNs: 1, maxEx: 2, optPct: 30})
		p := g.Wire
		if r.Bool() {
			p = mutateBytes(r, p)
		}
		if len(p) >= 2 {
			p[0], p[1] = byte(i>>8)|0x40, byte(i)
		}
		marker := new(dns.Msg)
		marker.SetQuestion("marker.example.", dns.TypeA)
		marker.Id = 0x3FFF
		mb, _ := marker.Pack()
		send := func(b []byte) {
			frame := append(putUint(nil, 2, uint64(len(b))), b...)
			switch i % 4 {
			case 1: // the two octets of the length in separate segments
				conn.Write(frame[:1])
				conn.Write(frame[1:])
			case 2: // the length alone, then the message
				conn.Write(frame[:2])
				conn.Write(frame[2:])
			case 3: // one octet at a time up to the fourth
				for k := 0; k < 3 && k < len(frame); k++ {
					conn.Write(frame[k : k+1])
				}
				if len(frame) > 3 {
					conn.Write(frame[3:])
				}
			default:
				conn.Write(frame)
			}
		}
		go func() { send(p); send(mb) }()
		var replies [][]byte
		co := &dns.Conn{Conn: conn}
		for k := 0; k < 3; k++ {
			rb := make([]byte, 65536)
			nr, err := co.Read(rb)
			if err != nil {
				break
			}
			replies = append(replies, rb[:nr])
			if nr >= 2 && be16(rb, 0) == 0x3FFF {
				break
			}
		}
		conn.Close()
		// expectation from the decision model via the hook-free route: compare with serveOnce
		exp := serveOnce(p, true)
		in := "tcp pkt=" + hx(p)
		gotN := 0
		sawMarker := false
		for _, rb := range replies {
			if len(rb) >= 2 && be16(rb, 0) == 0x3FFF {
				sawMarker = true
			} else {
				gotN++
			}
		}
		c.Pred("tcp-server", "tcp-reply-count", in, sawMarker && gotN == len(exp.writes), fmt.Sprint(gotN, sawMarker), fmt.Sprint(len(exp.writes)), true)
		mu.Lock()
		hc := 0
		if len(p) >= 2 {
			hc = handled[uint16(be16(p, 0))]
			delete(handled, uint16(be16(p, 0)))
		}
		mu.Unlock()
		c.Pred("tcp-server", "tcp-handler-count", in, hc == exp.handlerCalls, fmt.Sprint(hc), fmt.Sprint(exp.handlerCalls), true)
	}
}
