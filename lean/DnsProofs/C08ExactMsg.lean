/-
  C08 (exactness, whole messages) — `Msg.Len()` is exactly the packed length for messages made of integer, address,
  name and character-string fields none of which needs an escape: the two-sided simulation of C08Exact (`InvEq`,
  `inveq_name`) carried through the whole-message models.
-/
import DnsProofs.C08Exact
import DnsProofs.C08Msg
namespace Dns.C08X
open Dns Dns.C03 Dns.C04 Dns.C08 Dns.MU Dns.Len Dns.C02M Dns.C08M

/-- the kinds of variable-length step an "exact" type may have: names, single character-strings, TXT lists, addresses -/
def accountsX (l : LStep) (p : PPS) : Bool :=
  let codec := p.1.1
  let field := p.1.2.1
  let cs := p.2.1
  let flag := p.2.2
  match l with
  | .name f c => codec = "UnpackDomainName" ∧ cs = .name ∧ field = f ∧ flag = c
  | .str1 f => field = f ∧ codec = "unpackString" ∧ cs = .str
  | .txt f => field = f ∧ codec = "unpackStringTxt" ∧ cs = .txt
  | .ipIf f n => field = f ∧ ((codec = "unpackDataA" ∧ cs = .a ∧ n = 4) ∨ (codec = "unpackDataAAAA" ∧ cs = .aaaa ∧ n = 16))
  | _ => false

/-- the line-up of `alignedF`, with nothing counted ahead when a variable-length field starts or the body ends -/
def alignedX : Nat → Nat → List LStep → List PPS → Bool
  | 0, _, _, _ => false
  | f + 1, cr, ls, ps =>
    match ls.head?.bind constK with
    | some k => alignedX f (cr + k) ls.tail ps
    | none =>
      match ps.head?.bind (fun p => uintW p.2.1) with
      | some w => decide (w ≤ cr) && alignedX f (cr - w) ls ps.tail
      | none =>
        match ls, ps with
        | [], [] => decide (cr = 0)
        | l :: ls', p :: ps' => decide (cr = 0) && accountsX l p && alignedX f 0 ls' ps'
        | _, _ => false

def exactKind (kind : String) : Bool :=
  kind != "OPT" &&
  match planOfC kind, pplOf kind with
  | some ls, some ps => alignedX (ls.length + ps.length + 1) 0 ls ps && keysDistinct ps
  | _, _ => false

/-! ### values that need no escape -/

/-- a name in the library's spelling none of whose octets needs an escape -/
def PlainName (text : Bytes) : Prop := ∃ ls, WireNameOK ls ∧ (∀ l ∈ ls, Plain l) ∧ text = presentOf ls

/-- a character-string that is printed as it is -/
def PlainStr (bs : Bytes) : Prop := ∀ b ∈ bs, txtEscapeByte b = [b]

theorem txtEscape_plain (bs : Bytes) (h : PlainStr bs) : txtEscape bs = bs := by
  induction bs with
  | nil => rfl
  | cons b bs ih =>
    have e : txtEscape (b :: bs) = txtEscapeByte b ++ txtEscape bs := by simp [txtEscape]
    rw [e, h b (by simp), ih (fun x hx => h x (by simp [hx]))]; rfl

/-- what a field of an "exact" type must hold -/
def PlainAt : CStep → Val → Prop
  | .name, .t text => PlainName text
  | .str, .b bs => PlainStr bs
  | .txt, .ss strs => ∀ s ∈ strs, PlainStr s
  | .a, .b bs => bs.length = 4
  | .aaaa, .b bs => bs.length = 16
  | _, _ => True

theorem inveq_gap (pos off : Nat) (m : CMap) (c : List Bytes) (g : Nat) (h : InvEq pos off m c) :
    InvEq (pos + g) (off + g) m c :=
  ⟨by have := h.pos; omega, h.keys, h.keys', fun e he => by have := h.back e he; omega, h.closed⟩

theorem plainName_ok (text : Bytes) (h : PlainName text) : NameOK text := by
  obtain ⟨ls, hok, _, rfl⟩ := h; exact ⟨ls, hok, rfl⟩

/-- **one name, exactly** -/
theorem name_step_eq (text : Bytes) (h : PlainName text) (pos off : Nat) (m : CMap) (c : List Bytes) (cp : Bool)
    (hinv : InvEq pos off m c) (w : Bytes) (m' : CMap) (hp : nameC text pos m cp = some (w, m')) :
    InvEq (pos + w.length) (off + (domainNameLen text off (some c) cp).1) m'
      ((domainNameLen text off (some c) cp).2.getD c) := by
  obtain ⟨ls, hok, hpl, rfl⟩ := h
  cases ls with
  | nil =>
    have : nameC (presentOf []) pos m cp = some ([0], m) := by
      simp [nameC, presentOf, packNameC, isFqdn, trailingBackslashes]
    rw [this] at hp
    simp only [Option.some.injEq, Prod.mk.injEq] at hp
    obtain ⟨rfl, rfl⟩ := hp
    have hd : domainNameLen (presentOf []) off (some c) cp = (1, some c) := by
      simp [domainNameLen, presentOf]
    rw [hd]
    exact inveq_gap pos off m c 1 hinv
  | cons l rest =>
    rw [presentOf_eq] at hp ⊢
    have hv := C04M.wireNameOK_valid (l :: rest) hok
    obtain ⟨ptr, hspec⟩ := packNameC_spec pos m cp (l :: rest) (by simp) hv
    simp only [nameC, hspec, Option.some.injEq, Prod.mk.injEq] at hp
    obtain ⟨rfl, rfl⟩ := hp
    have hinv' : InvEq (List.replicate pos (0 : UInt8)).length off m c := by simpa using hinv
    have := inveq_name (List.replicate pos 0) off m c cp (l :: rest) (by simp) hv hpl hinv'
    simpa [List.length_append] using this

theorem txt_size_eq (strs : List Bytes) (h : ∀ s ∈ strs, PlainStr s) (w : Bytes) (hp : packTxtStrings strs = some w) :
    w.length = (strs.map txtEscape).foldl (fun a x => a + x.length + 1) 0 := by
  rw [foldl_txt, Nat.zero_add]
  induction strs generalizing w with
  | nil => simp [packTxtStrings] at hp; subst hp; simp
  | cons x xs ih =>
    simp only [packTxtStrings] at hp
    split at hp
    · cases hr : packTxtStrings xs with
      | none => simp [hr] at hp
      | some r =>
        simp only [hr, Option.map_some, Option.some.injEq] at hp
        subst hp
        have := ih (fun s hs => h s (by simp [hs])) r hr
        rw [List.map_cons, List.map_cons, List.sum_cons, txtEscape_plain x (h x (by simp))]
        simp only [List.length_cons, List.length_append]
        omega
    · cases hp

/-- **one variable-length field, exactly** -/
theorem var_step_eq (kind : String) (fs : Fields) (l : LStep) (pu : PStep) (cs : CStep) (flag : Bool)
    (hacc : accountsX l (pu, cs, flag) = true) (v : Val) (hpl : PlainAt cs v) (hfa : FieldsAgree fs kind pu v)
    (acc : List Val) (pos off : Nat) (m : CMap) (c : List Bytes) (hinv : InvEq pos off m c)
    (w : Bytes) (m' : CMap) (hp : packStepC acc pos m flag cs v = some (w, m'))
    (k : Nat) (c1 : Option (List Bytes)) (hl : stepLenC fs off (some c) l = some (k, c1)) :
    ∃ c', c1 = some c' ∧ InvEq (pos + w.length) (off + k) m' c' := by
  obtain ⟨codec, field, e1, e2⟩ := pu
  obtain ⟨g, hg, hlook⟩ := hfa
  cases l <;> simp only [accountsX, Bool.and_eq_true, Bool.or_eq_true, decide_eq_true_eq, Bool.false_eq_true] at hacc
  case name f cp =>
    obtain ⟨rfl, rfl, rfl, rfl⟩ := hacc
    cases v <;> (try (simp [packStepC, packStep] at hp; done))
    rename_i text
    simp only [packStepC] at hp
    simp [fieldsOfStep] at hg
    subst hg
    have hf := fstr_of fs field text (by simpa using hlook (field, FVal.s text) (by simp))
    simp only [stepLenC, hf, Option.some.injEq, Prod.mk.injEq] at hl
    obtain ⟨rfl, rfl⟩ := hl
    exact ⟨_, dnl_some text off c flag, name_step_eq text hpl pos off m c flag hinv w m' hp⟩
  case str1 f =>
    obtain ⟨rfl, rfl, rfl⟩ := hacc
    cases v <;> (try (simp [packStepC, packStep] at hp; done))
    rename_i bs
    simp [fieldsOfStep] at hg
    subst hg
    have hf := fstr_of fs field _ (by simpa using hlook (field, FVal.s (txtEscape bs)) (by simp))
    simp only [stepLenC, stepLen, hf, Option.map_some, Option.some.injEq, Prod.mk.injEq] at hl
    obtain ⟨rfl, rfl⟩ := hl
    simp only [packStepC, packStep] at hp
    split at hp
    · simp only [Option.map_some, Option.some.injEq, Prod.mk.injEq] at hp
      obtain ⟨rfl, rfl⟩ := hp
      rw [txtEscape_plain bs hpl]
      refine ⟨c, rfl, ?_⟩
      have := inveq_gap pos off m c (bs.length + 1) hinv
      simpa using this
    · simp at hp
  case txt f =>
    obtain ⟨rfl, rfl, rfl⟩ := hacc
    cases v <;> (try (simp [packStepC, packStep] at hp; done))
    rename_i strs
    simp [fieldsOfStep] at hg
    subst hg
    have hf := fstrs_of fs field _ (by simpa using hlook (field, FVal.ss (strs.map txtEscape)) (by simp))
    simp only [stepLenC, stepLen, hf, Option.map_some, Option.some.injEq, Prod.mk.injEq] at hl
    obtain ⟨rfl, rfl⟩ := hl
    simp only [packStepC, packStep] at hp
    cases hw : packTxtStrings strs with
    | none => simp [hw] at hp
    | some w0 =>
      simp only [hw, Option.map_some, Option.some.injEq, Prod.mk.injEq] at hp
      obtain ⟨rfl, rfl⟩ := hp
      rw [← txt_size_eq strs hpl w0 hw]
      exact ⟨c, rfl, inveq_gap pos off m c _ hinv⟩
  case ipIf f n =>
    obtain ⟨rfl, hc⟩ := hacc
    rcases hc with ⟨rfl, rfl, rfl⟩ | ⟨rfl, rfl, rfl⟩ <;> cases v <;> (try (simp [packStepC, packStep] at hp; done))
    all_goals
      rename_i bs
      simp [fieldsOfStep] at hg
      subst hg
      have hf := fip_of fs field _ (by simpa using hlook (field, FVal.ip bs) (by simp))
      simp only [stepLenC, stepLen, hf, Option.map_some, Option.some.injEq, Prod.mk.injEq] at hl
      obtain ⟨rfl, rfl⟩ := hl
      simp only [packStepC, packStep] at hp
      simp only [PlainAt] at hpl
      split at hp
      · simp only [Option.map_some, Option.some.injEq, Prod.mk.injEq] at hp
        obtain ⟨rfl, rfl⟩ := hp
        refine ⟨c, rfl, ?_⟩
        have := inveq_gap pos off m c bs.length hinv
        simpa [hpl] using this
      · simp at hp

/-! ### bodies, records, sections, the message — exactly -/

theorem accountsX_var (l : LStep) (pu : PStep) (cs : CStep) (flag : Bool) (h : accountsX l (pu, cs, flag) = true) :
    cs ≠ .early := by
  cases l <;> simp only [accountsX, Bool.and_eq_true, Bool.or_eq_true, decide_eq_true_eq, Bool.false_eq_true] at h
  all_goals (intro e; subst e; simp at h)

theorem plan_sim_eq (kind : String) (fs : Fields) (fuel : Nat) :
    ∀ (cr : Nat) (ls : List LStep) (ps : List PPS) (vals acc : List Val) (pos off l : Nat) (m : CMap) (c : List Bytes),
    alignedX fuel cr ls ps = true →
    Rel2 (fun (p : PPS) v => PlainAt p.2.1 v) ps vals →
    Rel2 (fun (p : PPS) v => FieldsAgree fs kind p.1 v) ps vals →
    InvEq pos pos m c → pos + cr = off + l →
    ∀ (w : Bytes) (m' : CMap), packPlanC acc pos m (ps.map (·.2.1)) vals (ps.map (·.2.2)) = some (w, m') →
    ∀ (l' : Nat) (c1 : Option (List Bytes)), planLenC fs off l (some c) ls = some (l', c1) →
    ∃ c', c1 = some c' ∧ InvEq (pos + w.length) (pos + w.length) m' c' ∧ pos + w.length = off + l' := by
  induction fuel with
  | zero => intro cr ls ps vals acc pos off l m c hal; simp [alignedX] at hal
  | succ fuel ih =>
    intro cr ls ps vals acc pos off l m c hal hpl hfa hinv hcr w m' hp l' c1 hl
    simp only [alignedX] at hal
    split at hal
    · rename_i k hk
      cases ls with
      | nil => simp at hk
      | cons l0 ls' =>
        simp only [List.head?_cons, Option.bind_some] at hk
        cases l0 <;> simp only [constK, Option.some.injEq, reduceCtorEq] at hk
        subst hk
        simp only [List.tail_cons] at hal
        simp only [planLenC, stepLenC, stepLen, Option.map_some, Option.bind_some] at hl
        exact ih (cr + _) ls' ps vals acc pos off (l + _) m c hal hpl hfa hinv (by omega) w m' hp l' c1 hl
    · rename_i hk
      split at hal
      · rename_i wd hw
        cases ps with
        | nil => simp at hw
        | cons p ps' =>
          obtain ⟨pu, cs, fl⟩ := p
          simp only [List.head?_cons, Option.bind_some] at hw
          cases cs <;> simp only [uintW, Option.some.injEq, reduceCtorEq] at hw
          rename_i w0
          subst hw
          simp only [List.tail_cons, Bool.and_eq_true, decide_eq_true_eq] at hal
          obtain ⟨hle, hal⟩ := hal
          cases vals with
          | nil => simp [Rel2] at hfa
          | cons v vs =>
            simp only [Rel2] at hpl hfa
            simp only [List.map_cons] at hp
            rw [C04M.packPlanC_cons _ _ _ _ _ _ _ _ (by simp)] at hp
            cases v <;> (try (simp [packStepC, packStep] at hp; done))
            rename_i x
            have hst : packStepC acc pos m fl (.uint w0) (.n x) =
                if x < 256 ^ w0 then some (beBytes w0 x, m) else none := by
              simp only [packStepC, packStep]; split <;> rfl
            simp only [List.headD_cons, List.tail_cons, hst] at hp
            by_cases hx : x < 256 ^ w0
            · simp only [hx, ↓reduceIte] at hp
              cases hq : packPlanC (acc ++ [Val.n x]) (pos + (beBytes w0 x).length) m (ps'.map (·.2.1)) vs
                  (List.map (·.2.2) ps') with
              | none => simp [hq] at hp
              | some q =>
                simp only [hq, Option.map_some, Option.some.injEq, Prod.mk.injEq] at hp
                obtain ⟨rfl, rfl⟩ := hp
                rw [C11.beBytes_length] at hq
                obtain ⟨c', e1, e2, e3⟩ := ih (cr - w0) ls ps' vs _ (pos + w0) off l m c hal hpl.2 hfa.2
                  (inveq_gap pos pos m c w0 hinv) (by omega) q.1 q.2 hq l' c1 hl
                refine ⟨c', e1, ?_, ?_⟩
                · simpa [List.length_append, C11.beBytes_length, Nat.add_assoc] using e2
                · simp only [List.length_append, C11.beBytes_length]; omega
            · simp [hx] at hp
      · rename_i hw
        split at hal
        · simp only [decide_eq_true_eq] at hal
          subst hal
          simp only [List.map_nil] at hp
          cases vals with
          | nil =>
            simp only [packPlanC, Option.some.injEq, Prod.mk.injEq] at hp
            obtain ⟨rfl, rfl⟩ := hp
            simp only [planLenC, Option.some.injEq, Prod.mk.injEq] at hl
            obtain ⟨rfl, rfl⟩ := hl
            exact ⟨c, rfl, by simpa using hinv, by simpa using hcr⟩
          | cons v' vs' => simp [packPlanC] at hp
        · rename_i l0 ls' p ps'
          obtain ⟨pu, cs, fl⟩ := p
          simp only [Bool.and_eq_true, decide_eq_true_eq] at hal
          obtain ⟨⟨hcr0, hacc⟩, hal⟩ := hal
          subst hcr0
          have hne := accountsX_var l0 pu cs fl hacc
          cases vals with
          | nil => simp [Rel2] at hfa
          | cons v vs =>
            simp only [Rel2] at hpl hfa
            simp only [List.map_cons] at hp
            rw [C04M.packPlanC_cons _ _ _ _ _ _ _ _ hne] at hp
            simp only [List.headD_cons, List.tail_cons] at hp
            split at hp
            · rename_i a m1 hs
              cases hq : packPlanC (acc ++ [v]) (pos + a.length) m1 (ps'.map (·.2.1)) vs (List.map (·.2.2) ps') with
              | none => simp [hq] at hp
              | some q =>
                simp only [hq, Option.map_some, Option.some.injEq, Prod.mk.injEq] at hp
                obtain ⟨rfl, rfl⟩ := hp
                simp only [planLenC] at hl
                cases hs1 : stepLenC fs (off + l) (some c) l0 with
                | none => simp [hs1] at hl
                | some r =>
                  obtain ⟨k, c2⟩ := r
                  simp only [hs1, Option.bind_some] at hl
                  have hinv0 : InvEq pos (off + l) m c := by
                    have : pos = off + l := by omega
                    rw [← this]; exact hinv
                  obtain ⟨c', rfl, hinv'⟩ := var_step_eq kind fs l0 pu cs fl hacc v hpl.1 hfa.1 acc pos (off + l) m c hinv0
                    a m1 hs k c2 hs1
                  have hpos := hinv'.pos
                  have hinv1 : InvEq (pos + a.length) (pos + a.length) m1 c' := by
                    rw [← hpos] at hinv'; exact hinv'
                  obtain ⟨c'', e1, e2, e3⟩ := ih 0 ls' ps' vs _ (pos + a.length) off (l + k) m1 c' hal hpl.2 hfa.2 hinv1
                    (by omega) q.1 q.2 hq l' c1 hl
                  refine ⟨c'', e1, ?_, ?_⟩
                  · simpa [List.length_append, Nat.add_assoc] using e2
                  · simp only [List.length_append]; omega
            · simp at hp
        · simp at hal

/-- a record of an "exact" type whose fields need no escape -/
def ExactRR (r : RRm) : Prop :=
  Covered r ∧ exactKind r.kind = true ∧ PlainName r.name ∧
    ∃ vals cu, r.body = some vals ∧ Gen.unpackCodecs.lookup r.kind = some cu ∧
      Rel2 (fun cs v => PlainAt cs v) (stripPlan cu) vals ∧ (∀ v ∈ vals, ∀ items, v ≠ Val.kv items)

theorem rel2_zip3 {β : Type} (R : CStep → β → Prop) (a : List PStep) (b : List CStep) (c : List Bool) (vals : List β)
    (h1 : a.length = b.length) (h2 : b.length = c.length) (h : Rel2 R b vals) :
    Rel2 (fun (p : PPS) v => R p.2.1 v) (a.zip (b.zip c)) vals := by
  induction a generalizing b c vals with
  | nil =>
    cases b with
    | nil => cases vals <;> simp_all [Rel2]
    | cons _ _ => simp at h1
  | cons x a ih =>
    cases b with
    | nil => simp at h1
    | cons y b =>
      cases c with
      | nil => simp at h2
      | cons z c =>
        cases vals with
        | nil => simp [Rel2] at h
        | cons v vals =>
          simp only [Rel2] at h
          exact ⟨h.1, ih b c vals (by simpa using h1) (by simpa using h2) h.2⟩

theorem recode_id (kind : String) (hk : kind ≠ "OPT") (cu : List CStep) (vals : List Val)
    (h : Rel2 (fun cs v => PlainAt cs v) cu vals) (hnokv : ∀ v ∈ vals, ∀ items, v ≠ Val.kv items) :
    vals.mapM (recode kind) = some vals := by
  clear h hk
  induction vals with
  | nil => rfl
  | cons v vs ih =>
    rw [List.mapM_cons]
    have hv : recode kind v = some v := by
      cases v with
      | kv items => exact absurd rfl (hnokv (Val.kv items) (List.mem_cons_self ..) items)
      | _ => rfl
    rw [hv, ih (fun v hv => hnokv v (by simp [hv]))]
    rfl

/-- **one record, exactly** -/
theorem rr_eq (r : RRm) (h : ExactRR r) (rc : RRc) (htp : toPack r = some rc) (pos off : Nat) (m : CMap) (c : List Bytes)
    (hinv : InvEq pos off m c) (w : Bytes) (m' : CMap)
    (hp : packRRC pos m true rc.owner rc.typ rc.cls rc.ttl rc.plan rc.vals rc.flags = some (w, m'))
    (k : Nat) (c1 : Option (List Bytes)) (hl : lenRRC off (some c) r = some (k, c1)) :
    ∃ c', c1 = some c' ∧ InvEq (pos + w.length) (off + k) m' c' := by
  obtain ⟨⟨hk, hz, hn⟩, hx, hown, vals, cu0, hb, hcu0, hplain, hnokv⟩ := h
  cases hfs : fieldsOfRR r with
  | none => simp [lenRRC, hfs] at hl
  | some fs =>
    obtain ⟨ls, ps, pu, cu, hls, hpu, hcu, hlens, hps, _, _, hfa⟩ := rr_setup r hk hz hn fs hfs
    have hcu' : cu = cu0 := by rw [hcu] at hcu0; exact Option.some.inj hcu0
    subst hcu'
    have hppl : pplOf r.kind = some ps := by
      unfold pplOf; simp only [hpu, hcu]; rw [if_pos hlens, hps]
    have hkopt : r.kind ≠ "OPT" := by
      intro e; simp [exactKind, e] at hx
    simp only [exactKind, hls, hppl, Bool.and_eq_true] at hx
    obtain ⟨_, halx, _⟩ := hx
    have hv : valsOf r cu = vals := by simp [valsOf, hb]
    rw [hv] at hfa
    have htp' : ((valsOf r cu).mapM (recode r.kind)).map
        (fun vs => (⟨r.name, r.typ, r.cls, r.ttl, stripPlan cu, vs, flagsOf r.kind⟩ : RRc)) = some rc := by
      unfold toPack at htp; rw [hcu] at htp; exact htp
    rw [hv, recode_id r.kind hkopt (stripPlan cu) vals hplain hnokv] at htp'
    simp only [Option.map_some, Option.some.injEq] at htp'
    subst htp'
    simp only at hp
    have hplan : (if r.kind = "OPT" then some [LStep.svcb "Option"] else planOf r.kind) = some ls := hls
    simp only [lenRRC, hplan, hfs] at hl
    simp only [packRRC] at hp
    split at hp
    · rename_i o m1 ho
      have hown' := name_step_eq r.name hown pos off m c true hinv o m1 ho
      have hdn := dnl_some r.name off c true
      rw [hdn] at hl
      cases hq : packPlanC [] (pos + o.length + 10) m1 (stripPlan cu) vals (flagsOf r.kind) with
      | none => simp [hq] at hp
      | some q =>
        simp only [hq, Option.bind_some] at hp
        split at hp
        · simp only [Option.some.injEq, Prod.mk.injEq] at hp
          obtain ⟨rfl, rfl⟩ := hp
          have hps1 : ps.map (·.1) = pu.filter (fun s => s.1 != "earlyexit") := by
            subst hps; exact zip3_fst _ _ _ hlens.1 hlens.2
          have hps2 : ps.map (·.2.1) = stripPlan cu := by
            subst hps; exact zip3_snd1 _ _ _ hlens.1 hlens.2
          have hps3 : ps.map (·.2.2) = flagsOf r.kind := by
            subst hps; exact zip3_snd2 _ _ _ hlens.1 hlens.2
          rw [← hps1] at hfa
          rw [rel2_map] at hfa
          rw [← hps2, ← hps3] at hq
          have hplain' : Rel2 (fun (p : PPS) v => PlainAt p.2.1 v) ps vals := by
            subst hps; exact rel2_zip3 PlainAt _ _ _ vals hlens.1 hlens.2 hplain
          have h10 := inveq_gap _ _ _ _ 10 hown'
          have hP := h10.pos
          have hinvP : InvEq (pos + o.length + 10) (pos + o.length + 10) m1
              ((domainNameLen r.name off (some c) true).2.getD c) := by
            rw [← hP] at h10; exact h10
          obtain ⟨c', e1, e2, e3⟩ := plan_sim_eq r.kind fs (ls.length + ps.length + 1) 0 ls ps vals []
            (pos + o.length + 10) off ((domainNameLen r.name off (some c) true).1 + 10) m1 _ halx hplain' hfa hinvP
            (by omega) q.1 q.2 hq k c1 hl
          refine ⟨c', e1, ?_⟩
          simp only [List.length_append, C11.beBytes_length]
          have e4 : pos + (o.length + (2 + (2 + (4 + (2 + q.1.length))))) = pos + o.length + 10 + q.1.length := by omega
          rw [e4]
          have : off + k = pos + o.length + 10 + q.1.length := by omega
          rw [this]; exact e2
        · simp at hp
    · simp at hp

theorem section_eq (rs : List RRm) (rcs : List RRc) (hrel : Rel2 (fun r rc => toPack r = some rc) rs rcs)
    (hex : ∀ r ∈ rs, ExactRR r) (pos l : Nat) (m : CMap) (c : List Bytes) (hinv : InvEq pos l m c)
    (w : Bytes) (m' : CMap) (hp : packRRcs pos m true rcs = some (w, m'))
    (l' : Nat) (c1 : Option (List Bytes)) (hl : lenSection l (some c) rs = some (l', c1)) :
    ∃ c', c1 = some c' ∧ InvEq (pos + w.length) l' m' c' := by
  induction rs generalizing rcs pos l m c w m' with
  | nil =>
    cases rcs with
    | nil =>
      simp only [packRRcs, Option.some.injEq, Prod.mk.injEq] at hp
      obtain ⟨rfl, rfl⟩ := hp
      simp only [lenSection, Option.some.injEq, Prod.mk.injEq] at hl
      obtain ⟨rfl, rfl⟩ := hl
      exact ⟨c, rfl, by simpa using hinv⟩
    | cons _ _ => simp [Rel2] at hrel
  | cons r rs ih =>
    cases rcs with
    | nil => simp [Rel2] at hrel
    | cons rc rcs =>
      simp only [Rel2] at hrel
      simp only [packRRcs] at hp
      split at hp
      · rename_i w1 m1 h1
        cases hq : packRRcs (pos + w1.length) m1 true rcs with
        | none => simp [hq] at hp
        | some q =>
          simp only [hq, Option.map_some, Option.some.injEq, Prod.mk.injEq] at hp
          obtain ⟨rfl, rfl⟩ := hp
          simp only [lenSection] at hl
          cases hr : lenRRC l (some c) r with
          | none => simp [hr] at hl
          | some kc =>
            obtain ⟨k, c2⟩ := kc
            simp only [hr, Option.bind_some] at hl
            obtain ⟨c', rfl, hinv'⟩ := rr_eq r (hex r (by simp)) rc hrel.1 pos l m c hinv w1 m1 h1 k c2 hr
            obtain ⟨c'', e1, e2⟩ := ih rcs hrel.2 (fun r hr => hex r (by simp [hr])) (pos + w1.length) (l + k) m1 c' hinv'
              q.1 q.2 hq hl
            exact ⟨c'', e1, by simpa [List.length_append, Nat.add_assoc] using e2⟩
      · simp at hp

theorem questions_eq (qs : List Qm) (hq : ∀ q ∈ qs, PlainName q.name) (pos l : Nat) (m : CMap) (c : List Bytes)
    (hinv : InvEq pos l m c) (w : Bytes) (m' : CMap) (hp : packQCs pos m true qs = some (w, m')) :
    ∃ c', (qs.foldl (fun (a : Nat × Option (List Bytes)) q =>
        ((a.1 + (domainNameLen q.name a.1 a.2 true).1 + 4, (domainNameLen q.name a.1 a.2 true).2))) (l, some c)).2 = some c' ∧
      InvEq (pos + w.length) (qs.foldl (fun (a : Nat × Option (List Bytes)) q =>
        ((a.1 + (domainNameLen q.name a.1 a.2 true).1 + 4, (domainNameLen q.name a.1 a.2 true).2))) (l, some c)).1 m' c' := by
  induction qs generalizing pos l m c w m' with
  | nil =>
    simp only [packQCs, Option.some.injEq, Prod.mk.injEq] at hp
    obtain ⟨rfl, rfl⟩ := hp
    exact ⟨c, rfl, by simpa using hinv⟩
  | cons q qs ih =>
    simp only [packQCs] at hp
    split at hp
    · rename_i w1 m1 h1
      cases hr : packQCs (pos + w1.length) m1 true qs with
      | none => simp [hr] at hp
      | some r =>
        simp only [hr, Option.map_some, Option.some.injEq, Prod.mk.injEq] at hp
        obtain ⟨rfl, rfl⟩ := hp
        simp only [packQC] at h1
        cases hn : nameC q.name pos m true with
        | none => simp [hn] at h1
        | some nm =>
          obtain ⟨o, m2⟩ := nm
          simp only [hn, Option.map_some, Option.some.injEq, Prod.mk.injEq] at h1
          obtain ⟨rfl, rfl⟩ := h1
          have h2 := name_step_eq q.name (hq q (by simp)) pos l m c true hinv o m2 hn
          have h3 := inveq_gap _ _ _ _ 4 h2
          simp only [List.foldl_cons]
          rw [dnl_some q.name l c true]
          obtain ⟨c', e1, e2⟩ := ih (fun q hq' => hq q (by simp [hq'])) (pos + (o ++ (beBytes 2 q.typ ++ beBytes 2 q.cls)).length)
            (l + (domainNameLen q.name l (some c) true).1 + 4) m2 _
            (by simpa [List.length_append, C11.beBytes_length, Nat.add_assoc] using h3) r.1 r.2 hr
          exact ⟨c', e1, by simpa [List.length_append, Nat.add_assoc] using e2⟩
    · simp at hp

/-- **Len is exact for plain messages**: a decoded message with something to compress whose records are of the
    "exact" types (integer, address, name and character-string fields) and whose names and strings need no escape: the
    model of `Msg.Len()` with `Compress` predicts exactly the number of octets the compressing packer model writes -/
theorem lenMsg_eq_packMsgC (m : MsgM) (hq : ∀ q ∈ m.question, PlainName q.name)
    (hex : ∀ r ∈ m.answer ++ m.ns ++ m.extra, ExactRR r)
    (hcomp : ¬ (m.question.length ≤ 1 ∧ m.answer.isEmpty ∧ m.ns.isEmpty ∧ m.extra.isEmpty))
    (w : Bytes) (hp : packMsgCOf m = some w) (n : Nat) (hl : lenMsg m true = some n) : w.length = n := by
  unfold packMsgCOf at hp
  rw [if_neg hcomp] at hp
  split at hp
  · cases hp
  · split at hp
    · cases hp
    · cases han : m.answer.mapM toPack with
      | none => simp [han] at hp
      | some an =>
        cases hns : m.ns.mapM toPack with
        | none => simp [han, hns] at hp
        | some ns =>
          cases hexx : m.extra.mapM toPack with
          | none => simp [han, hns, hexx] at hp
          | some ex =>
            simp only [han, hns, hexx] at hp
            unfold packMsgC at hp
            simp only at hp
            have hc0 : (decide (m.question.length > 1) || !m.answer.isEmpty || !m.ns.isEmpty || !m.extra.isEmpty) = true := by
              by_cases h1 : m.question.length > 1
              · simp [h1]
              · have : m.question.length ≤ 1 := by omega
                cases ha : m.answer.isEmpty <;> cases hn : m.ns.isEmpty <;> cases he : m.extra.isEmpty <;> simp_all
            simp only [lenMsg, hc0, Bool.and_self, ↓reduceIte] at hl
            have hinv0 : InvEq 12 12 [] [] :=
              ⟨rfl, by simp, by intro k ⟨p, hp⟩; simp at hp, by simp, by intro l more p _ _ h; simp [CMap.find] at h⟩
            split at hp
            · cases hp
            · rename_i wq m1 hwq
              obtain ⟨cq, eq1, eq2⟩ := questions_eq m.question hq 12 12 [] [] hinv0 wq m1 hwq
              split at hp
              · cases hp
              · rename_i wa m2 hwa
                split at hp
                · cases hp
                · rename_i wn m3 hwn
                  split at hp
                  · cases hp
                  · rename_i we m4 hwe
                    simp only [Option.some.injEq] at hp
                    subst hp
                    rw [eq1] at hl
                    cases hla : lenSection (m.question.foldl (fun (a : Nat × Option (List Bytes)) q =>
                        ((a.1 + (domainNameLen q.name a.1 a.2 true).1 + 4, (domainNameLen q.name a.1 a.2 true).2))) (12, some [])).1
                        (some cq) m.answer with
                    | none => simp [hla] at hl
                    | some a =>
                      simp only [hla, Option.bind_some] at hl
                      obtain ⟨ca, ea1, ea2⟩ := section_eq m.answer an (mapM_rel2 _ _ _ han)
                        (fun r hr => hex r (by simp [hr])) _ _ _ _ eq2 wa m2 hwa a.1 a.2 hla
                      rw [ea1] at hl
                      cases hln : lenSection a.1 (some ca) m.ns with
                      | none => simp [hln] at hl
                      | some b =>
                        simp only [hln, Option.bind_some] at hl
                        obtain ⟨cn, en1, en2⟩ := section_eq m.ns ns (mapM_rel2 _ _ _ hns)
                          (fun r hr => hex r (by simp [hr])) _ _ _ _ ea2 wn m3 hwn b.1 b.2 hln
                        rw [en1] at hl
                        cases hle : lenSection b.1 (some cn) m.extra with
                        | none => simp [hle] at hl
                        | some e =>
                          simp only [hle, Option.map_some, Option.some.injEq] at hl
                          obtain ⟨ce, ee1, ee2⟩ := section_eq m.extra ex (mapM_rel2 _ _ _ hexx)
                            (fun r hr => hex r (by simp [hr])) _ _ _ _ en2 we m4 hwe e.1 e.2 hle
                          have := ee2.pos
                          subst hl
                          simp only [List.length_append, C11.beBytes_length]
                          omega

end Dns.C08X
