/-
  C13 (termination) — once Shutdown's critical section has run, the server's bookkeeping cannot keep going:
  a ranking function decreases with every step of the serve loop and of every worker, no state short of
  "channel closed" is stuck (handlers are assumed to return), so Shutdown's wait ends within `rank` steps.
-/
import DnsModel.Server
import DnsProofs.C13
namespace Dns.C13
open Dns

def rankW : WPc → Nat
  | .none => 0 | .done => 0 | .closing => 1 | .blocked => 2 | .refresh => 3 | .check => 4 | .handling => 5

def rankS : ServePc → Nat
  | .idle => 0 | .exited => 0 | .exiting => 1 | .inAccept => 2 | .loopTop => 3 | .accepted _ => 8

def sumW (f : Nat → WPc) : Nat → Nat
  | 0 => 0
  | n + 1 => sumW f n + rankW (f n)

/-- the rank of a state with all workers among the connections `< N` -/
def rank (N : Nat) (s : Srv) : Nat := rankS s.serve + sumW s.wpc N

theorem sumW_upd_ge (f : Nat → WPc) (c N : Nat) (v : WPc) (h : N ≤ c) : sumW (upd f c v) N = sumW f N := by
  induction N with
  | zero => rfl
  | succ n ih =>
    simp only [sumW]
    rw [ih (by omega)]
    have : upd f c v n = f n := by simp [upd]; omega
    rw [this]

theorem sumW_upd_lt (f : Nat → WPc) (c N : Nat) (v : WPc) (h : c < N) :
    sumW (upd f c v) N + rankW (f c) = sumW f N + rankW v := by
  induction N with
  | zero => omega
  | succ n ih =>
    simp only [sumW]
    by_cases hc : c = n
    · subst hc
      rw [sumW_upd_ge f c c v (Nat.le_refl _)]
      have : upd f c v c = v := by simp [upd]
      rw [this]; omega
    · have := ih (by omega)
      have e : upd f c v n = f n := by simp [upd]; omega
      rw [e]; omega

/-- what holds from Shutdown's critical section on -/
structure Post (N : Nat) (s : Srv) : Prop where
  stopped : s.started = false
  lst : s.lstClosed = true
  dl : ∀ c, (s.wpc c = .refresh ∨ s.wpc c = .blocked) → s.dlPast c = true
  supp : ∀ c, N ≤ c → s.wpc c = .none
  accSupp : ∀ c, s.serve = .accepted c → c < N ∧ s.wpc c = .none
  notIdle : s.serve ≠ .idle

/-- the steps of the serve loop and of the workers (everything but start and the three Shutdown steps) -/
def internal : SEv → Bool
  | .start | .sdCritical | .sdReturn | .sdCtx => false
  | _ => true

theorem worker_rank (N : Nat) (f : Nat → WPc) (c : Nat) (v : WPc) (k : Nat) (hc : c < N) (hlt : rankW v < rankW (f c)) :
    k + sumW (upd f c v) N < k + sumW f N := by
  have := sumW_upd_lt f c N v hc; omega

theorem lt_of_supp (N : Nat) (s : Srv) (c : Nat) (supp : ∀ c, N ≤ c → s.wpc c = .none) (h : s.wpc c ≠ .none) : c < N := by
  by_cases hc : c < N
  · exact hc
  · exact absurd (supp c (by omega)) h

/-- **rank_decreases**: after the critical section every internal step strictly lowers the rank and keeps `Post` -/
theorem rank_decreases (N : Nat) (s : Srv) (e : SEv) (hp : Post N s) (hi : internal e = true) (he : s.enabled e) :
    rank N (s.step e) < rank N s ∧ Post N (s.step e) := by
  obtain ⟨h1, h2, h3, h4, h5, h6⟩ := hp
  cases e <;> simp only [internal, Bool.false_eq_true] at hi <;> simp only [Srv.enabled] at he
  case loopCheck =>
    refine ⟨by simp [rank, Srv.step, he, h1, rankS], ⟨h1, h2, h3, h4, ?_, ?_⟩⟩ <;> simp [Srv.step, h1]
  case acceptConn c => rw [h2] at he; simp at he
  case acceptErr =>
    refine ⟨by simp [rank, Srv.step, he.1, rankS], ⟨h1, h2, h3, h4, ?_, ?_⟩⟩ <;> simp [Srv.step]
  case register c =>
    obtain ⟨hcN, hnone⟩ := h5 c he
    refine ⟨?_, ⟨h1, h2, ?_, ?_, ?_, ?_⟩⟩
    · have := sumW_upd_lt s.wpc c N .check hcN
      simp only [rank, Srv.step, he, rankS, hnone, rankW] at this ⊢; omega
    · intro c' hc'
      simp only [Srv.step, upd] at hc' ⊢
      by_cases e : c' = c
      · simp [e] at hc'
      · simp only [e, ↓reduceIte] at hc'; exact h3 c' hc'
    · intro c' hc'
      simp only [Srv.step, upd]
      have : c' ≠ c := by omega
      simp [this, h4 c' hc']
    · simp [Srv.step]
    · simp [Srv.step]
  case wCheck c =>
    have hcN := lt_of_supp N s c h4 (by rw [he]; simp)
    refine ⟨?_, ⟨h1, h2, ?_, ?_, ?_, h6⟩⟩
    · simp only [rank, Srv.step, h1, Bool.false_eq_true, ↓reduceIte]
      exact worker_rank N s.wpc c .closing _ hcN (by rw [he]; decide)
    · intro c' hc'
      simp only [Srv.step, upd, h1, Bool.false_eq_true, ↓reduceIte] at hc' ⊢
      by_cases e : c' = c
      · simp [e] at hc'
      · simp only [e, ↓reduceIte] at hc'; exact h3 c' hc'
    · intro c' hc'
      simp only [Srv.step, upd]
      have : c' ≠ c := by omega
      simp [this, h4 c' hc']
    · intro c' hs
      simp only [Srv.step] at hs
      obtain ⟨a, b⟩ := h5 c' hs
      have : c' ≠ c := by intro e; rw [e, he] at b; cases b
      simp [Srv.step, upd, this, a, b]
  case wRefresh c =>
    have hcN := lt_of_supp N s c h4 (by rw [he]; simp)
    refine ⟨?_, ⟨h1, h2, ?_, ?_, ?_, h6⟩⟩
    · simp only [rank, Srv.step]
      exact worker_rank N s.wpc c .blocked _ hcN (by rw [he]; decide)
    · intro c' hc'
      simp only [Srv.step, upd, h1, Bool.false_eq_true, ↓reduceIte] at hc' ⊢
      by_cases e : c' = c
      · subst e; exact h3 c' (Or.inl he)
      · simp only [e, ↓reduceIte] at hc'; exact h3 c' hc'
    · intro c' hc'
      simp only [Srv.step, upd]
      have : c' ≠ c := by omega
      simp [this, h4 c' hc']
    · intro c' hs
      simp only [Srv.step] at hs
      obtain ⟨a, b⟩ := h5 c' hs
      have : c' ≠ c := by intro e; rw [e, he] at b; cases b
      simp [Srv.step, upd, this, a, b]
  case wReadOk c =>
    have := h3 c (Or.inr he.1)
    rw [this] at he; simp at he
  case wReadErr c =>
    have hcN := lt_of_supp N s c h4 (by rw [he]; simp)
    refine ⟨?_, ⟨h1, h2, ?_, ?_, ?_, h6⟩⟩
    · simp only [rank, Srv.step]
      exact worker_rank N s.wpc c .closing _ hcN (by rw [he]; decide)
    · intro c' hc'
      simp only [Srv.step, upd] at hc' ⊢
      by_cases e : c' = c
      · simp [e] at hc'
      · simp only [e, ↓reduceIte] at hc'; exact h3 c' hc'
    · intro c' hc'
      simp only [Srv.step, upd]
      have : c' ≠ c := by omega
      simp [this, h4 c' hc']
    · intro c' hs
      simp only [Srv.step] at hs
      obtain ⟨a, b⟩ := h5 c' hs
      have : c' ≠ c := by intro e; rw [e, he] at b; cases b
      simp [Srv.step, upd, this, a, b]
  case wHandlerDone c =>
    have hcN := lt_of_supp N s c h4 (by rw [he]; simp)
    refine ⟨?_, ⟨h1, h2, ?_, ?_, ?_, h6⟩⟩
    · simp only [rank, Srv.step]
      exact worker_rank N s.wpc c .check _ hcN (by rw [he]; decide)
    · intro c' hc'
      simp only [Srv.step, upd] at hc' ⊢
      by_cases e : c' = c
      · simp [e] at hc'
      · simp only [e, ↓reduceIte] at hc'; exact h3 c' hc'
    · intro c' hc'
      simp only [Srv.step, upd]
      have : c' ≠ c := by omega
      simp [this, h4 c' hc']
    · intro c' hs
      simp only [Srv.step] at hs
      obtain ⟨a, b⟩ := h5 c' hs
      have : c' ≠ c := by intro e; rw [e, he] at b; cases b
      simp [Srv.step, upd, this, a, b]
  case wClose c =>
    have hcN := lt_of_supp N s c h4 (by rw [he]; simp)
    refine ⟨?_, ⟨h1, h2, ?_, ?_, ?_, h6⟩⟩
    · simp only [rank, Srv.step]
      exact worker_rank N s.wpc c .done _ hcN (by rw [he]; decide)
    · intro c' hc'
      simp only [Srv.step, upd] at hc' ⊢
      by_cases e : c' = c
      · simp [e] at hc'
      · simp only [e, ↓reduceIte] at hc'; exact h3 c' hc'
    · intro c' hc'
      simp only [Srv.step, upd]
      have : c' ≠ c := by omega
      simp [this, h4 c' hc']
    · intro c' hs
      simp only [Srv.step] at hs
      obtain ⟨a, b⟩ := h5 c' hs
      have : c' ≠ c := by intro e; rw [e, he] at b; cases b
      simp [Srv.step, upd, this, a, b]
  case serveExit =>
    refine ⟨by simp [rank, Srv.step, he.1, rankS], ⟨h1, h2, h3, h4, ?_, ?_⟩⟩ <;> simp [Srv.step]

/-- runs of internal steps -/
inductive IntRun : Srv → Nat → Srv → Prop
  | nil (s : Srv) : IntRun s 0 s
  | cons (s : Srv) (e : SEv) (n : Nat) (t : Srv) : internal e = true → s.enabled e → IntRun (s.step e) n t →
      IntRun s (n + 1) t

/-- **bounded**: after the critical section no run of the serve loop and the workers is longer than the rank -/
theorem runs_bounded (N : Nat) (s t : Srv) (n : Nat) (hp : Post N s) (hr : IntRun s n t) :
    n + rank N t ≤ rank N s ∧ Post N t := by
  induction hr with
  | nil s => exact ⟨by omega, hp⟩
  | cons s e n t hi he _ ih =>
    obtain ⟨hlt, hp'⟩ := rank_decreases N s e hp hi he
    obtain ⟨h1, h2⟩ := ih hp'
    exact ⟨by omega, h2⟩

/-- **no_stuck_state**: after the critical section, as long as the channel is not closed some internal step is
    enabled (a running handler is assumed to return: `wHandlerDone` is always enabled for it) -/
theorem progress (N : Nat) (s : Srv) (hp : Post N s) (hinv : SrvInv s) (hopen : s.chanClosed = false) :
    ∃ e, internal e = true ∧ s.enabled e := by
  obtain ⟨h1, h2, h3, h4, h5, h6⟩ := hp
  cases hs : s.serve with
  | idle => exact absurd hs h6
  | loopTop => exact ⟨.loopCheck, rfl, by simp [Srv.enabled, hs]⟩
  | inAccept => exact ⟨.acceptErr, rfl, by simp [Srv.enabled, hs, h2]⟩
  | accepted c => exact ⟨.register c, rfl, by simp [Srv.enabled, hs]⟩
  | exited => have := hinv.exitedClosed hs; rw [hopen] at this; cases this
  | exiting =>
    by_cases hall : s.allDone
    · exact ⟨.serveExit, rfl, by simp [Srv.enabled, hs, hall]⟩
    · unfold Srv.allDone at hall
      have : ∃ c, ¬ (s.wpc c = .none ∨ s.wpc c = .done) := Classical.not_forall.mp hall
      obtain ⟨c, hc⟩ := this
      cases hw : s.wpc c with
      | none => exact absurd (Or.inl hw) hc
      | done => exact absurd (Or.inr hw) hc
      | check => exact ⟨.wCheck c, rfl, by simp [Srv.enabled, hw]⟩
      | refresh => exact ⟨.wRefresh c, rfl, by simp [Srv.enabled, hw]⟩
      | blocked => exact ⟨.wReadErr c, rfl, by simp [Srv.enabled, hw]⟩
      | handling => exact ⟨.wHandlerDone c, rfl, by simp [Srv.enabled, hw]⟩
      | closing => exact ⟨.wClose c, rfl, by simp [Srv.enabled, hw]⟩

/-! ### every reachable state after the critical section satisfies `Post` for some `N` -/

structure Aux (s : Srv) : Prop where
  fin : ∃ N, (∀ c, N ≤ c → s.wpc c = .none) ∧ (∀ c, s.serve = .accepted c → c < N)
  accNone : ∀ c, s.serve = .accepted c → s.wpc c = .none
  sdStop : s.sd ≠ .none → s.started = false ∧ s.lstClosed = true

theorem aux_init : Aux Srv.init :=
  ⟨⟨0, by simp [Srv.init], by simp [Srv.init]⟩, by simp [Srv.init], by simp [Srv.init]⟩

theorem aux_step (s : Srv) (e : SEv) (ha : Aux s) (hinv : SrvInv s) (he : s.enabled e) : Aux (s.step e) := by
  obtain ⟨⟨N, hN1, hN2⟩, h2, h3⟩ := ha
  cases e <;> simp only [Srv.enabled] at he
  case start =>
    refine ⟨⟨N, hN1, by simp [Srv.step]⟩, by simp [Srv.step], ?_⟩
    intro hsd
    have := hinv.sdStarted hsd
    exact absurd he.2 this
  case loopCheck =>
    refine ⟨⟨N, hN1, ?_⟩, ?_, h3⟩ <;> (simp only [Srv.step]; intro c hc; split at hc <;> cases hc)
  case acceptConn c =>
    refine ⟨⟨max N (c + 1), ?_, ?_⟩, ?_, h3⟩
    · intro c' hc'; exact hN1 c' (by omega)
    · intro c' hc'; simp only [Srv.step, ServePc.accepted.injEq] at hc'; omega
    · intro c' hc'; simp only [Srv.step, ServePc.accepted.injEq] at hc'; subst hc'; exact he.2.2
  case acceptErr =>
    refine ⟨⟨N, hN1, ?_⟩, ?_, h3⟩ <;> simp [Srv.step]
  case register c =>
    have hcN := hN2 c he
    refine ⟨⟨N, ?_, by simp [Srv.step]⟩, by simp [Srv.step], h3⟩
    intro c' hc'
    have : c' ≠ c := by omega
    simp [Srv.step, upd, this, hN1 c' hc']
  case sdCritical =>
    refine ⟨⟨N, hN1, hN2⟩, h2, ?_⟩
    intro _; simp [Srv.step]
  case sdReturn => exact ⟨⟨N, hN1, hN2⟩, h2, fun _ => h3 (by rw [he.1]; simp)⟩
  case sdCtx => exact ⟨⟨N, hN1, hN2⟩, h2, fun _ => h3 (by rw [he]; simp)⟩
  case serveExit =>
    refine ⟨⟨N, hN1, ?_⟩, ?_, h3⟩ <;> simp [Srv.step]
  all_goals
    -- worker steps on connection c: its pc is not `none`, so c < N and c is not the accepted one
    rename_i c
    have hne : s.wpc c ≠ .none := by
      first
        | (rw [he]; simp)
        | (rw [he.1]; simp)
    have hcN : c < N := by
      by_cases hc : c < N
      · exact hc
      · exact absurd (hN1 c (by omega)) hne
    refine ⟨⟨N, ?_, ?_⟩, ?_, h3⟩
    · intro c' hc'
      have : c' ≠ c := by omega
      simp [Srv.step, upd, this, hN1 c' hc']
    · intro c' hs; simp only [Srv.step] at hs; exact hN2 c' hs
    · intro c' hs
      simp only [Srv.step] at hs
      have hb := h2 c' hs
      have : c' ≠ c := by intro e; rw [e] at hb; exact hne hb
      simp [Srv.step, upd, this, hb]

theorem reach_aux (s : Srv) (h : Srv.Reach s) : Aux s := by
  induction h with
  | init => exact aux_init
  | step s e hr he ih => exact aux_step s e ih (reach_inv s hr) he

/-- **shutdown_terminates**: in every reachable state in which Shutdown's critical section has run there is a bound
    `rank` such that the serve loop and the workers can take at most that many further steps, every one of them
    is enabled until the channel is closed — so Shutdown's wait ends (handlers are assumed to return) -/
theorem shutdown_terminates (s : Srv) (h : Srv.Reach s) (hsd : s.sd ≠ .none) :
    ∃ N, Post N s ∧
      (∀ t n, IntRun s n t → n ≤ rank N s) ∧
      (∀ t n, IntRun s n t → t.chanClosed = false → SrvInv t → ∃ e, internal e = true ∧ t.enabled e) := by
  have hinv := reach_inv s h
  obtain ⟨⟨N, hN1, hN2⟩, h2, h3⟩ := reach_aux s h
  obtain ⟨hst, hl⟩ := h3 hsd
  have hp : Post N s := ⟨hst, hl, fun c hc => hinv.deadline hst hsd c hc, hN1,
    fun c hc => ⟨hN2 c hc, h2 c hc⟩, hinv.sdStarted hsd⟩
  refine ⟨N, hp, ?_, ?_⟩
  · intro t n hr
    have := (runs_bounded N s t n hp hr).1
    omega
  · intro t n hr hopen hinvt
    exact progress N t (runs_bounded N s t n hp hr).2 hinvt hopen

end Dns.C13
