/-
  DnsModel.Dedup — sanitize.go (Dedup, normalizedString) and duplicate.go (`equal` via Labels).
  Records are abstracted to (key, ttl): the key is `normalizedString(r)`.
-/
import DnsModel.Basic
namespace Dns

/-- `normalizedString` on the octets of `r.String()`: lower-case unescaped ASCII letters up to the second
    unescaped tab, then cut the TTL column. Returns the text without `[ttlStart, ttlEnd)`. -/
def normLoop : (s : Bytes) → (i : Nat) → (esc : Bool) → (ttlStart ttlEnd : Nat) → (acc : Bytes) → Bytes × Nat × Nat
  | [], _, _, ts, te, acc => (acc.reverse, ts, te)
  | b :: rest, i, esc, ts, te, acc =>
    if te ≠ 0 then ((acc.reverse ++ b :: rest), ts, te)   -- loop stops once ttlEnd is set
    else if b = 92 then normLoop rest (i + 1) (!esc) ts te (b :: acc)
    else if b = 9 && !esc then
      if ts = 0 then normLoop rest (i + 1) esc i te (b :: acc)
      else normLoop rest (i + 1) esc ts i (b :: acc)
    else if 65 ≤ b && b ≤ 90 && !esc then normLoop rest (i + 1) esc ts te ((b + 32) :: acc)
    else normLoop rest (i + 1) false ts te (b :: acc)

def normalizedString (s : Bytes) : Bytes :=
  let (b, ts, te) := normLoop s 0 false 0 0 []
  -- copy(b[ttlStart:], b[ttlEnd:]); b[:len(b)-(ttlEnd-ttlStart)]
  b.take ts ++ b.drop te

/-! ### Dedup -/

abbrev Rec := Nat × Nat      -- (key, ttl)

/-- first pass: association list key ↦ (minimum TTL so far), in insertion order -/
def dedupPass1 : List Rec → List (Nat × Nat) → List (Nat × Nat)
  | [], m => m
  | (k, t) :: rs, m =>
    match m.lookup k with
    | some t0 => dedupPass1 rs (if t0 > t then m.map (fun e => if e.1 = k then (k, t) else e) else m)
    | none => dedupPass1 rs (m ++ [(k, t)])

/-- second pass: keep a record iff its key is still in the map; the record kept is the first occurrence,
    whose TTL the first pass lowered in place -/
def dedupPass2 : List Rec → List (Nat × Nat) → List Rec
  | [], _ => []
  | (k, _) :: rs, m =>
    if m.isEmpty then []
    else match m.lookup k with
      | some t0 => (k, t0) :: dedupPass2 rs (m.filter (·.1 != k))
      | none => dedupPass2 rs m

def dedup (rs : List Rec) : List Rec :=
  let m := dedupPass1 rs []
  if m.length = rs.length then rs else dedupPass2 rs m

/-! ### specification -/

/-- minimum TTL of the records with key `k` -/
def groupMin (k : Nat) (all : List Rec) : Nat :=
  match (all.filter (·.1 == k)).map (·.2) with
  | [] => 0
  | t :: ts => ts.foldl min t

/-- one representative per key, at the position of its first occurrence, carrying the group's minimum TTL -/
def dedupSpecAux (all : List Rec) : List Rec → List Nat → List Rec
  | [], _ => []
  | (k, _) :: rs, seen =>
    if seen.contains k then dedupSpecAux all rs seen
    else (k, groupMin k all) :: dedupSpecAux all rs (k :: seen)

def dedupSpec (rs : List Rec) : List Rec := dedupSpecAux rs rs []

end Dns
