/-
  C09 (whole messages) — what `Truncate` keeps packs within its budget, on the whole-message models: the generic
  truncation machine (DnsModel/Truncate.lean) run with the model of `r.len(off, compression)` (DnsModel/MsgLen.lean:
  `lenItem`, the translated `len()` bodies with Len's simulated compression), the kept message packed by the model of
  `Msg.Pack()` with compression (DnsModel/MsgPackC.lean).  Composition of `kept_len_le` (C09) with
  `lenMsg_ge_packMsgC` (C08).
-/
import DnsProofs.C09
import DnsProofs.C08Plain
namespace Dns.C09M
open Dns Dns.MU Dns.Len Dns.C08M Dns.C02M Dns.C09

/-- the questions and records of a message in the order `Len` walks them -/
def items (qs : List Qm) (an ns ex : List RRm) : List (Sum Qm RRm) :=
  qs.map Sum.inl ++ an.map Sum.inr ++ ns.map Sum.inr ++ ex.map Sum.inr

theorem lenFold_questions (qs : List Qm) (l : Nat) (c : Option (List Bytes)) :
    lenFold lenItem (qs.map Sum.inl) l c =
      qs.foldl (fun (a : Nat × Option (List Bytes)) q =>
        let r := domainNameLen q.name a.1 a.2 true; (a.1 + r.1 + 4, r.2)) (l, c) := by
  induction qs generalizing l c with
  | nil => rfl
  | cons q qs ih =>
    simp only [List.map_cons, lenFold, lenItem, List.foldl_cons]
    rw [ih]
    simp only [Nat.add_assoc]

theorem lenFold_section (rs : List RRm) (l : Nat) (c : Option (List Bytes)) (r : Nat × Option (List Bytes))
    (h : lenSection l c rs = some r) : lenFold lenItem (rs.map Sum.inr) l c = r := by
  induction rs generalizing l c with
  | nil => simp only [lenSection, Option.some.injEq] at h; subst h; rfl
  | cons x rs ih =>
    simp only [lenSection] at h
    cases hx : lenRRC l c x with
    | none => simp [hx] at h
    | some q =>
      simp only [hx, Option.bind_some] at h
      simp only [List.map_cons, lenFold, lenItem, hx, Option.getD_some]
      exact ih _ _ h

/-- `Msg.Len()` with `Compress` is the fold of `r.len` over questions and sections -/
theorem lenMsg_eq_fold (m : MsgM) (n : Nat) (h : lenMsg m true = some n)
    (hcomp : ¬ (m.question.length ≤ 1 ∧ m.answer.isEmpty ∧ m.ns.isEmpty ∧ m.extra.isEmpty)) :
    n = (lenFold lenItem (items m.question m.answer m.ns m.extra) 12 (some [])).1 := by
  have hc0 : (decide (m.question.length > 1) || !m.answer.isEmpty || !m.ns.isEmpty || !m.extra.isEmpty) = true := by
    by_cases h1 : m.question.length > 1
    · simp [h1]
    · have : m.question.length ≤ 1 := by omega
      cases ha : m.answer.isEmpty <;> cases hn : m.ns.isEmpty <;> cases he : m.extra.isEmpty <;> simp_all
  simp only [lenMsg, hc0, Bool.and_self, ↓reduceIte] at h
  simp only [items, lenFold_append, lenFold_questions]
  generalize m.question.foldl (fun (a : Nat × Option (List Bytes)) q =>
    let r := domainNameLen q.name a.1 a.2 true; (a.1 + r.1 + 4, r.2)) (12, some []) = q at h ⊢
  cases ha : lenSection q.1 q.2 m.answer with
  | none => simp [ha] at h
  | some a =>
    simp only [ha, Option.bind_some] at h
    rw [lenFold_section m.answer q.1 q.2 a ha]
    cases hn : lenSection a.1 a.2 m.ns with
    | none => simp [hn] at h
    | some b =>
      simp only [hn, Option.bind_some] at h
      rw [lenFold_section m.ns a.1 a.2 b hn]
      cases he : lenSection b.1 b.2 m.extra with
      | none => simp [he] at h
      | some e =>
        simp only [he, Option.map_some, Option.some.injEq] at h
        rw [lenFold_section m.extra b.1 b.2 e he]
        exact h.symm

/-- the message as the truncation machine sees it (the OPT record, if any, set aside by the caller) -/
def toT (m : MsgM) : TMsg (Sum Qm RRm) :=
  ⟨m.question.map Sum.inl, m.answer.map Sum.inr, m.ns.map Sum.inr, m.extra.map Sum.inr, none, m.hdr.truncated, false⟩

/-- **what Truncate keeps packs within the budget — whole messages**: for every decoded message with records of the
    covered types and every budget that leaves room for the questions, the message made of the questions and the
    prefixes of the three sections that the truncation machine keeps (run with the model of `r.len`), packed by the
    model of `Msg.Pack()` with compression, is no longer than the budget -/
theorem truncated_message_within_budget (m : MsgM) (size : Int) (hq : ∀ q ∈ m.question, NameOK q.name)
    (hcov : ∀ r ∈ m.answer ++ m.ns ++ m.extra, Covered r)
    (hfit : ((lenFold lenItem (m.question.map Sum.inl) 12 (some [])).1 : Int) ≤ size) :
    let c := truncCounts lenItem (some []) size (toT m)
    let kept : MsgM := { m with answer := m.answer.take c.a.2.1, ns := m.ns.take c.n.2.1, extra := m.extra.take c.e.2.1 }
    ¬ (kept.question.length ≤ 1 ∧ kept.answer.isEmpty ∧ kept.ns.isEmpty ∧ kept.extra.isEmpty) →
    ∀ (w : Bytes), packMsgCOf kept = some w → ∀ (n : Nat), lenMsg kept true = some n → (w.length : Int) ≤ size := by
  intro c kept hcomp w hp n hl
  have hcov' : ∀ r ∈ kept.answer ++ kept.ns ++ kept.extra, Covered r := by
    intro r hr
    simp only [kept, List.mem_append] at hr
    apply hcov r
    simp only [List.mem_append]
    rcases hr with (h | h) | h
    · exact Or.inl (Or.inl (List.mem_of_mem_take h))
    · exact Or.inl (Or.inr (List.mem_of_mem_take h))
    · exact Or.inr (List.mem_of_mem_take h)
  have h1 := lenMsg_ge_packMsgC kept hq hcov' hcomp w hp n hl
  have h2 := lenMsg_eq_fold kept n hl hcomp
  have h3 := kept_len_le lenItem (some []) size (toT m) hfit
  simp only [toT] at h3
  have h4 : items kept.question kept.answer kept.ns kept.extra =
      m.question.map Sum.inl ++ (m.answer.map Sum.inr).take c.a.2.1 ++ (m.ns.map Sum.inr).take c.n.2.1 ++
        (m.extra.map Sum.inr).take c.e.2.1 := by
    simp only [items, kept, List.map_take]
  rw [h4] at h2
  have : (n : Int) ≤ size := by rw [h2]; exact h3
  omega

end Dns.C09M

namespace Dns.C09M
open Dns Dns.MU Dns.Len Dns.C08M Dns.C02M Dns.C09

/-- the OPT record (owner: the root) measures the same wherever it stands and whatever has been seen before:
    `Len(edns0)`, which `Truncate` takes off its budget, is what `Msg.Len()` adds for it at the end -/
theorem lenRRC_opt_indep (opt : RRm) (hname : opt.name = [46]) (hkind : opt.kind = "OPT") (off : Nat)
    (c : Option (List Bytes)) : lenRRC off c opt = (lenRRC 0 none opt).map (fun q => (q.1, c)) := by
  unfold lenRRC
  have hd : ∀ o (c' : Option (List Bytes)), domainNameLen opt.name o c' true = (1, c') := by
    intro o c'; rw [hname]; simp [domainNameLen]
  simp only [hd, hkind, ↓reduceIte]
  cases fieldsOfRR opt with
  | none => rfl
  | some fs => simp [planLenC, stepLenC]

/-- the fold over a list with one more record at the end -/
theorem lenFold_snoc (xs : List (Sum Qm RRm)) (r : RRm) (l : Nat) (c : Option (List Bytes)) :
    lenFold lenItem (xs ++ [Sum.inr r]) l c =
      ((lenFold lenItem xs l c).1 + (lenItem (lenFold lenItem xs l c).2 (lenFold lenItem xs l c).1 (Sum.inr r)).1,
       (lenItem (lenFold lenItem xs l c).2 (lenFold lenItem xs l c).1 (Sum.inr r)).2) := by
  rw [lenFold_append]
  simp [lenFold]

theorem lenSection_snoc (rs : List RRm) (o : RRm) (l : Nat) (c : Option (List Bytes)) (r : Nat × Option (List Bytes))
    (h : lenSection l c (rs ++ [o]) = some r) :
    ∃ q k, lenSection l c rs = some q ∧ lenRRC q.1 q.2 o = some k := by
  induction rs generalizing l c with
  | nil =>
    simp only [List.nil_append, lenSection] at h
    cases hk : lenRRC l c o with
    | none => simp [hk] at h
    | some k => exact ⟨(l, c), k, rfl, hk⟩
  | cons x rs ih =>
    simp only [List.cons_append, lenSection] at h
    cases hx : lenRRC l c x with
    | none => simp [hx] at h
    | some q0 =>
      simp only [hx, Option.bind_some] at h
      obtain ⟨q, k, h1, h2⟩ := ih _ _ h
      exact ⟨q, k, by simp [lenSection, hx, h1], h2⟩

/-- **Truncate with an OPT record, whole messages**: the machine is run on the message without its OPT record and with
    the budget `size − Len(opt)`; the kept message with the OPT record appended again packs into at most `size` -/
theorem truncated_with_opt_within_size (m : MsgM) (opt : RRm) (hname : opt.name = [46]) (hkind : opt.kind = "OPT")
    (hoptcov : Covered opt) (size : Int) (optLen : Nat) (hol : lenRRC 0 none opt = some (optLen, none))
    (hq : ∀ q ∈ m.question, NameOK q.name) (hcov : ∀ r ∈ m.answer ++ m.ns ++ m.extra, Covered r)
    (hfit : ((lenFold lenItem (m.question.map Sum.inl) 12 (some [])).1 : Int) ≤ size - optLen) :
    let c := truncCounts lenItem (some []) (size - optLen) (toT m)
    let kept : MsgM := { m with answer := m.answer.take c.a.2.1, ns := m.ns.take c.n.2.1,
                                 extra := m.extra.take c.e.2.1 ++ [opt] }
    ∀ (w : Bytes), packMsgCOf kept = some w → ∀ (n : Nat), lenMsg kept true = some n → (w.length : Int) ≤ size := by
  intro c kept w hp n hl
  have hcomp : ¬ (kept.question.length ≤ 1 ∧ kept.answer.isEmpty ∧ kept.ns.isEmpty ∧ kept.extra.isEmpty) := by
    intro h; simp [kept] at h
  have hcov' : ∀ r ∈ kept.answer ++ kept.ns ++ kept.extra, Covered r := by
    intro r hr
    simp only [kept, List.mem_append, List.mem_singleton] at hr
    rcases hr with (h | h) | (h | h)
    · exact hcov r (by simp [List.mem_of_mem_take h])
    · exact hcov r (by simp [List.mem_of_mem_take h])
    · exact hcov r (by simp [List.mem_of_mem_take h])
    · rw [h]; exact hoptcov
  have h1 := lenMsg_ge_packMsgC kept hq hcov' hcomp w hp n hl
  have h2 := lenMsg_eq_fold kept n hl hcomp
  have h3 := kept_len_le lenItem (some []) (size - optLen) (toT m) hfit
  simp only [toT] at h3
  have h4 : items kept.question kept.answer kept.ns kept.extra =
      (m.question.map Sum.inl ++ (m.answer.map Sum.inr).take c.a.2.1 ++ (m.ns.map Sum.inr).take c.n.2.1 ++
        (m.extra.map Sum.inr).take c.e.2.1) ++ [Sum.inr opt] := by
    simp only [items, kept, List.map_take, List.map_append, List.map_cons, List.map_nil, List.append_assoc]
  rw [h4, lenFold_snoc] at h2
  simp only [lenItem] at h2
  rw [lenRRC_opt_indep opt hname hkind, hol] at h2
  simp only [Option.map_some, Option.getD_some] at h2
  generalize hF : (lenFold lenItem (m.question.map Sum.inl ++ (m.answer.map Sum.inr).take c.a.2.1 ++
    (m.ns.map Sum.inr).take c.n.2.1 ++ (m.extra.map Sum.inr).take c.e.2.1) 12 (some [])).1 = F at h2
  have h5 : (F : Int) ≤ size - optLen := by rw [← hF]; exact h3
  subst h2
  push_cast
  omega

end Dns.C09M

namespace Dns.C09M
open Dns Dns.MU Dns.Len Dns.C08M Dns.C02M Dns.C09

/-- **a reply that fits is left alone, and then it does fit**: when the uncompressed `Len()` is within the (effective)
    size, `Truncate` only clears `Compress` (`truncate_fits`), and the plain packing is within that size -/
theorem fits_packs_within (m : MsgM) (size : Int) (hq : ∀ q ∈ m.question, NameOK q.name)
    (hcov : ∀ r ∈ m.answer ++ m.ns ++ m.extra, Covered r) (ulen : Nat) (hl : lenMsg m false = some ulen)
    (hfit : (ulen : Int) ≤ effSize size) (w : Bytes) (hp : packMsgPlain m = some w) :
    (w.length : Int) ≤ effSize size := by
  have := lenMsg_ge_packMsgPlain m false hq hcov (Or.inl rfl) w hp ulen hl
  omega

end Dns.C09M
