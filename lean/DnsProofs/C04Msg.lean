/-
  C04 (whole messages) — what the compressing packer model writes (DnsModel/MsgPackC.lean: every name through the model
  of `packDomainName` with its compression map, compressed or not as the field's flag says; everything else through
  the codec algebra) is read back by the decoder model of `Msg.Unpack` as the same questions and records: compression is
  transparent for whole messages, for every record type of the generated table.
-/
import DnsModel.MsgPackC
import DnsProofs.C04End
import DnsProofs.C01Msg
namespace Dns.C04M
open Dns Dns.MU Dns.C01 Dns.C03 Dns.C04 Dns.C01M

theorem wireNameOK_valid (ls : List Bytes) (h : WireNameOK ls) : Valid ls := by
  obtain ⟨h1, h2⟩ := h
  refine ⟨h1, ?_⟩
  rw [wireOf_eq] at h2; simpa using h2

/-- the packer with its map, with the end offset: as `packNameC_transparent`, and the decoder ends exactly behind what
    was written -/
theorem packNameC_end (msg : Bytes) (m : CMap) (cp : Bool) (ls : List Bytes) (hne : ls ≠ []) (hv : Valid ls)
    (hm : MapOK msg m) :
    ∃ r, packNameC (presentLabels ls) msg.length m cp = .ok r ∧
      (∀ tail, unpackName (msg ++ r.out ++ tail) msg.length = .ok (presentLabels ls, msg.length + r.out.length)) ∧
      MapOK (msg ++ r.out) r.map ∧ 0 < r.out.length := by
  have hnn := presentLabels_ne_nil ls hne
  have hroot := C19.presentLabels_ne_root ls (valid_nonempty_labels ls hv)
  have hfq : isFqdn (presentLabels ls) = true := by
    rcases List.eq_nil_or_concat ls with h | ⟨i, x, h⟩
    · exact absurd h hne
    · rw [h, List.concat_eq_append]; exact isFqdn_presentLabels i x
  obtain ⟨ptr, hp⟩ := packLoopC_labels ls true ((presentLabels ls).length > 1) false msg.length [] m [] cp
    hv.1 (by have := hv.2; simp; omega) (by simp)
  have hemp : (presentLabels ls).isEmpty = false := by
    cases hpl : presentLabels ls with
    | nil => exact absurd hpl hnn
    | cons _ _ => rfl
  refine ⟨⟨(specTail msg.length m cp ls 0).1, m ++ (specTail msg.length m cp ls 0).2, ptr⟩, ?_, ?_, ?_, ?_⟩
  · unfold packNameC
    simp only [hemp, hfq, hroot, Bool.false_eq_true, ↓reduceIte, Bool.not_true]
    simp only [List.append_nil, List.length_nil, List.nil_append] at hp
    exact hp
  · intro tail
    exact name_transparent_end msg m cp ls hne hv hm tail
  · exact (name_transparent msg m cp ls hne hv hm).2
  · cases ls with
    | nil => exact absurd rfl hne
    | cons l rest =>
      simp only [specTail]
      split
      · split <;> simp [ptrBytes, wl]
      · simp [wl]

/-- **one name**: any valid name (the root included), compressed or not, at the end of a message with a sound map -/
theorem nameC_sound (msg : Bytes) (m : CMap) (cp : Bool) (ls : List Bytes) (hok : WireNameOK ls) (hm : MapOK msg m) :
    ∃ w m', nameC (presentOf ls) msg.length m cp = some (w, m') ∧
      (∀ tail, unpackName (msg ++ w ++ tail) msg.length = .ok (presentOf ls, msg.length + w.length)) ∧
      MapOK (msg ++ w) m' ∧ 0 < w.length := by
  cases ls with
  | nil =>
    refine ⟨[0], m, by simp [nameC, presentOf, packNameC, isFqdn, trailingBackslashes], ?_, hm.mono _, by simp⟩
    intro tail
    have := unpackName_ctx [] msg tail hok
    simpa [wireOf] using this
  | cons l rest =>
    obtain ⟨r, h1, h2, h3, h4⟩ := packNameC_end msg m cp (l :: rest) (by simp) (wireNameOK_valid _ hok) hm
    rw [presentOf_eq]
    exact ⟨r.out, r.map, by simp [nameC, h1], h2, h3, h4⟩

/-! ### steps -/

theorem packStepC_plain (acc : List Val) (pos : Nat) (m : CMap) (cp : Bool) (s : CStep) (v : Val)
    (h1 : s ≠ .name) (h2 : s ≠ .names) (h3 : ∀ i mk t, ¬ (s = .gateway i mk ∧ v = .t t)) :
    packStepC acc pos m cp s v = (packStep acc s v).map (fun w => (w, m)) := by
  cases s <;> cases v <;> first
    | exact absurd rfl h1
    | exact absurd rfl h2
    | exact absurd ⟨rfl, rfl⟩ (h3 _ _ _)
    | rfl

/-- a list of names, each entered in the map, none compressed -/
theorem namesC_sound (texts : List Bytes) (h : ∀ t ∈ texts, ∃ ls, WireNameOK ls ∧ t = presentOf ls) (msg : Bytes) (m : CMap)
    (hm : MapOK msg m) (w : Bytes) (m' : CMap) (hp : packNamesC msg.length m texts = some (w, m')) :
    (∀ fuel, w.length < fuel → unpackNamesM fuel (msg ++ w) msg.length = some texts) ∧ MapOK (msg ++ w) m' ∧
      (w = [] → texts = []) := by
  induction texts generalizing msg m w m' with
  | nil =>
    simp only [packNamesC, Option.some.injEq, Prod.mk.injEq] at hp
    obtain ⟨rfl, rfl⟩ := hp
    refine ⟨fun fuel hf => ?_, by simpa using hm, fun _ => rfl⟩
    cases fuel with
    | zero => omega
    | succ f => simp [unpackNamesM]
  | cons t rest ih =>
    obtain ⟨ls, hok, rfl⟩ := h t (by simp)
    obtain ⟨w1, m1, h1, h2, h3, h4⟩ := nameC_sound msg m false ls hok hm
    simp only [packNamesC, h1] at hp
    cases hr : packNamesC (msg.length + w1.length) m1 rest with
    | none => simp [hr] at hp
    | some q =>
      obtain ⟨w2, m2⟩ := q
      simp only [hr, Option.map_some, Option.some.injEq, Prod.mk.injEq] at hp
      obtain ⟨rfl, rfl⟩ := hp
      have hr' : packNamesC (msg ++ w1).length m1 rest = some (w2, m2) := by rw [List.length_append]; exact hr
      obtain ⟨i1, i2, _⟩ := ih (fun x hx => h x (by simp [hx])) (msg ++ w1) m1 h3 w2 m2 hr'
      refine ⟨fun fuel hf => ?_, by rw [← List.append_assoc]; exact i2, fun he => ?_⟩
      · cases fuel with
        | zero => omega
        | succ f =>
          simp only [unpackNamesM]
          have hnot : ¬ (msg ++ (w1 ++ w2)).length ≤ msg.length := by simp; omega
          rw [if_neg hnot]
          have e := h2 w2
          rw [List.append_assoc] at e
          rw [e]
          simp only
          have := i1 f (by simp at hf; omega)
          simp only [List.length_append, List.append_assoc] at this
          rw [this]; rfl
      · have : w1 = [] := by
          cases w1 with
          | nil => rfl
          | cons _ _ => simp at he
        rw [this] at h4; simp at h4

/-- self-delimiting steps at the end of a message with a sound map -/
theorem stepC_self (acc : List Val) (s : CStep) (v : Val) (hs : selfDelim s = true) (hw : WFStep acc s v)
    (msg : Bytes) (m : CMap) (hm : MapOK msg m) (cp : Bool) (w : Bytes) (m' : CMap)
    (hp : packStepC acc msg.length m cp s v = some (w, m')) :
    (∀ rest, unpackStepM acc s (msg ++ w ++ rest) msg.length = some (v, msg.length + w.length)) ∧
      MapOK (msg ++ w) m' ∧ (w = [] → packStep acc s v = some []) := by
  by_cases hn : s = .name
  · subst hn
    cases v <;> simp only [WFStep] at hw
    rename_i text
    obtain ⟨ls, hok, rfl⟩ := hw
    obtain ⟨w1, m1, h1, h2, h3, h4⟩ := nameC_sound msg m cp ls hok hm
    simp only [packStepC, h1, Option.some.injEq, Prod.mk.injEq] at hp
    obtain ⟨rfl, rfl⟩ := hp
    refine ⟨fun rest => by simp only [unpackStepM, h2 rest], h3, fun he => ?_⟩
    rw [he] at h4; simp at h4
  · by_cases hg : ∃ i mk t, s = .gateway i mk ∧ v = .t t
    · obtain ⟨i, mk, t, rfl, rfl⟩ := hg
      by_cases h3 : gatewayType acc i mk = 3
      · simp only [WFStep, h3] at hw
        obtain ⟨ls, hok, rfl⟩ := hw
        obtain ⟨w1, m1, h1, h2, h4, h5⟩ := nameC_sound msg m false ls hok hm
        simp only [packStepC, h3, ↓reduceIte, h1, Option.some.injEq, Prod.mk.injEq] at hp
        obtain ⟨rfl, rfl⟩ := hp
        refine ⟨fun rest => by simp only [unpackStepM, h3, ↓reduceIte, h2 rest], h4, fun he => ?_⟩
        rw [he] at h5; simp at h5
      · simp only [packStepC, h3, ↓reduceIte] at hp
        cases hp
    · have hplain := packStepC_plain acc msg.length m cp s v hn (by intro h; subst h; simp [selfDelim] at hs)
        (fun i mk t h => hg ⟨i, mk, t, h.1, h.2⟩)
      rw [hplain] at hp
      obtain ⟨w0, p0, u0⟩ := stepM_roundtrip acc s v hs hw
      rw [p0] at hp
      simp only [Option.map_some, Option.some.injEq, Prod.mk.injEq] at hp
      obtain ⟨rfl, rfl⟩ := hp
      exact ⟨fun rest => u0 msg rest, hm.mono _, fun he => by rw [← he]; exact p0⟩

/-- rest-consuming steps -/
theorem stepC_last (acc : List Val) (s : CStep) (v : Val) (hs : restStep s = true) (hw : WFStep acc s v)
    (msg : Bytes) (m : CMap) (hm : MapOK msg m) (cp : Bool) (w : Bytes) (m' : CMap)
    (hp : packStepC acc msg.length m cp s v = some (w, m')) :
    unpackStepM acc s (msg ++ w) msg.length = some (v, (msg ++ w).length) ∧ MapOK (msg ++ w) m' ∧
      (w = [] → packStep acc s v = some []) := by
  by_cases hn : s = .names
  · subst hn
    cases v <;> simp only [WFStep] at hw
    rename_i texts
    simp only [packStepC] at hp
    obtain ⟨h1, h2, h3⟩ := namesC_sound texts hw msg m hm w m' hp
    refine ⟨?_, h2, fun he => ?_⟩
    · simp only [unpackStepM]
      rw [h1 ((msg ++ w).length + 1) (by simp; omega)]
      simp
    · rw [h3 he]; rfl
  · have hplain := packStepC_plain acc msg.length m cp s v (by intro h; subst h; simp [restStep] at hs) hn
      (fun i mk t h => by rw [h.1] at hs; simp [restStep] at hs)
    rw [hplain] at hp
    obtain ⟨w0, p0, u0⟩ := lastM_roundtrip acc s v hs hw
    rw [p0] at hp
    simp only [Option.map_some, Option.some.injEq, Prod.mk.injEq] at hp
    obtain ⟨rfl, rfl⟩ := hp
    exact ⟨u0 msg, hm.mono _, fun he => by rw [← he]; exact p0⟩

/-! ### bodies -/

theorem packStepC_blobSized (acc : List Val) (pos : Nat) (m : CMap) (cp : Bool) (i : Nat) (v : Val) :
    packStepC acc pos m cp .blobRest v = packStepC acc pos m cp (.blobSized i) v := by
  cases v <;> rfl

/-- the pack side of an unpack step: a sized blob is packed as the octets it holds -/
def stripStep : CStep → CStep
  | .blobSized _ => .blobRest
  | x => x

theorem strip_cons' (s : CStep) (U : List CStep) (hs : s ≠ .early) : stripPlan (s :: U) = stripStep s :: stripPlan U := by
  cases s <;> first | exact absurd rfl hs | rfl

theorem stripStep_ne_early (s : CStep) (hs : s ≠ .early) : stripStep s ≠ .early := by
  cases s <;> first | exact absurd rfl hs | simp [stripStep]

theorem packStepC_strip (acc : List Val) (pos : Nat) (m : CMap) (cp : Bool) (s : CStep) (v : Val) :
    packStepC acc pos m cp (stripStep s) v = packStepC acc pos m cp s v := by
  cases s <;> first | rfl | exact packStepC_blobSized acc pos m cp _ v

theorem packPlanC_cons (acc : List Val) (pos : Nat) (m : CMap) (s : CStep) (steps : List CStep) (v : Val) (vals : List Val)
    (flags : List Bool) (hs : s ≠ .early) :
    packPlanC acc pos m (s :: steps) (v :: vals) flags =
      (match packStepC acc pos m (flags.headD false) s v with
       | some (a, m1) => (packPlanC (acc ++ [v]) (pos + a.length) m1 steps vals flags.tail).map (fun q => (a ++ q.1, q.2))
       | none => none) := by
  cases s <;> first | exact absurd rfl hs | rfl

/-- **bodies with compression**: whatever the compressing packer writes for the body of a covered type is read back as
    the field values, and the map stays sound -/
theorem planC_roundtrip (U : List CStep) :
    ∀ (acc vals : List Val) (flags : List Bool), GoodPlan U = true → WFPlan acc U vals →
    ∀ (msg : Bytes) (m : CMap), MapOK msg m → ∀ (w : Bytes) (m' : CMap),
      packPlanC acc msg.length m (stripPlan U) vals flags = some (w, m') →
      unpackPlanM U (msg ++ w) msg.length acc = some (acc ++ vals, (msg ++ w).length) ∧ MapOK (msg ++ w) m' ∧
        (w = [] → packPlanAcc acc (stripPlan U) vals = some []) := by
  induction U with
  | nil =>
    intro acc vals flags _ hw msg m hm w m' hp
    cases vals with
    | nil =>
      simp only [stripPlan, packPlanC, Option.some.injEq, Prod.mk.injEq] at hp
      obtain ⟨rfl, rfl⟩ := hp
      exact ⟨by simp [unpackPlanM], by simpa using hm, fun _ => rfl⟩
    | cons _ _ => simp [WFPlan] at hw
  | cons s U ih =>
    intro acc vals flags hg hw msg m hm w m' hp
    by_cases hse : s = .early
    · subst hse
      have hw' : WFPlan acc U vals := by simpa [WFPlan] using hw
      have hp' : packPlanC acc msg.length m (stripPlan U) vals flags = some (w, m') := by simpa [stripPlan] using hp
      obtain ⟨i1, i2, i3⟩ := ih acc vals flags hg hw' msg m hm w m' hp'
      refine ⟨?_, i2, fun he => by simpa [stripPlan] using i3 he⟩
      simp only [unpackPlanM]
      by_cases he : w = []
      · subst he
        simp only [List.append_nil, ↓reduceIte]
        rw [zeros_of_empty acc U vals hg hw' (i3 rfl)]
      · have : ¬ msg.length = (msg ++ w).length := by
          have := List.length_pos_iff.mpr he
          simp; omega
        rw [if_neg this]; exact i1
    · cases vals with
      | nil => exact (wf_cons_nil acc s U hse hw).elim
      | cons v vals =>
        obtain ⟨hw1, hw2⟩ := wf_cons acc s U v vals hse hw
        rw [strip_cons' s U hse, packPlanC_cons _ _ _ _ _ _ _ _ (stripStep_ne_early s hse), packStepC_strip] at hp
        cases hps : packStepC acc msg.length m (flags.headD false) s v with
        | none => rw [hps] at hp; cases hp
        | some q0 =>
          obtain ⟨a, m1⟩ := q0
          rw [hps] at hp
          simp only at hp
          cases hpr : packPlanC (acc ++ [v]) (msg.length + a.length) m1 (stripPlan U) vals flags.tail with
          | none => rw [hpr] at hp; cases hp
          | some q1 =>
            obtain ⟨r, m2⟩ := q1
            rw [hpr] at hp
            simp only [Option.map_some, Option.some.injEq, Prod.mk.injEq] at hp
            obtain ⟨rfl, rfl⟩ := hp
            have hpr' : packPlanC (acc ++ [v]) (msg ++ a).length m1 (stripPlan U) vals flags.tail = some (r, m2) := by
              rw [List.length_append]; exact hpr
            have hpackAcc : ∀ x y, packStep acc s v = some x → packPlanAcc (acc ++ [v]) (stripPlan U) vals = some y →
                packPlanAcc acc (stripPlan (s :: U)) (v :: vals) = some (x ++ y) := by
              intro x y hx hy
              rw [strip_cons s U hse]
              cases s <;> first
                | exact absurd rfl hse
                | (simp [packPlanAcc, hx, hy]; done)
                | (simp only [packPlanAcc]; rw [← packStep_blobSized, hx, hy])
            by_cases hsd : selfDelim s = true
            · have hg' : GoodPlan U = true := by rw [← good_cons_self s U hse hsd]; exact hg
              obtain ⟨s1, s2, s3⟩ := stepC_self acc s v hsd hw1 msg m hm _ a m1 hps
              obtain ⟨i1, i2, i3⟩ := ih (acc ++ [v]) vals flags.tail hg' hw2 (msg ++ a) m1 s2 r m2 hpr'
              refine ⟨?_, by rw [← List.append_assoc]; exact i2, fun he => ?_⟩
              · have hstepM := s1 r
                have : unpackPlanM (s :: U) (msg ++ (a ++ r)) msg.length acc =
                    unpackPlanM U (msg ++ a ++ r) (msg.length + a.length) (acc ++ [v]) := by
                  rw [← List.append_assoc]
                  cases s <;> first | exact absurd rfl hse | simp only [unpackPlanM, hstepM]
                rw [this]
                simp only [List.length_append] at i1
                rw [i1]
                simp [List.append_assoc]; omega
              · have ha : a = [] := by
                  cases a with
                  | nil => rfl
                  | cons _ _ => simp at he
                have hr : r = [] := by subst ha; simpa using he
                have := hpackAcc [] [] (s3 ha) (i3 hr)
                simpa using this
            · obtain ⟨hlast, hall⟩ := good_cons_last s U hse hsd hg
              have hv := wf_all_early (acc ++ [v]) U vals hall hw2
              subst hv
              rw [(strip_all_early U hall).1] at hpr
              simp only [packPlanC, Option.some.injEq, Prod.mk.injEq] at hpr
              obtain ⟨rfl, rfl⟩ := hpr
              obtain ⟨s1, s2, s3⟩ := stepC_last acc s v hlast hw1 msg m hm _ a m1 hps
              have hrest : ∀ (V : List CStep) (acc' : List Val) (M : Bytes), V.all (· == .early) = true →
                  unpackPlanM V M M.length acc' = some (acc', M.length) := by
                intro V
                induction V with
                | nil => intro acc' M _; simp [unpackPlanM]
                | cons x V ihV =>
                  intro acc' M hV
                  simp only [List.all_cons, Bool.and_eq_true, beq_iff_eq] at hV
                  obtain ⟨rfl, hV2⟩ := hV
                  simp [unpackPlanM, (strip_all_early V hV2).2]
              refine ⟨?_, by simpa using s2, fun he => ?_⟩
              · have : unpackPlanM (s :: U) (msg ++ (a ++ [])) msg.length acc =
                    unpackPlanM U (msg ++ a) (msg ++ a).length (acc ++ [v]) := by
                  rw [List.append_nil]
                  cases s <;> first | exact absurd rfl hse | (simp [restStep] at hlast; done) | simp only [unpackPlanM, s1]
                rw [this, hrest U _ _ hall]
                simp
              · have ha : a = [] := by simpa using he
                have hr : packPlanAcc (acc ++ [v]) (stripPlan U) [] = some [] := by rw [(strip_all_early U hall).1]; rfl
                have := hpackAcc [] [] (s3 ha) hr
                simpa using this

/-! ### records -/

/-- the decoded record, the RDLENGTH left open (it is the length of the body as packed, pointers included) -/
def eraseLen (r : RRm) : RRm := { r with rdlen := 0 }

/-- **one record with compression**: whatever the compressing packer writes for a well-formed record of a covered
    type — owner and embedded names compressed or not — is read back as the record -/
theorem rrC_roundtrip (r : RRSpec) (U : List CStep) (rd : Bytes) (h : r.WF U rd) (flags : List Bool) (cp : Bool)
    (msg : Bytes) (m : CMap) (hm : MapOK msg m) (w : Bytes) (m' : CMap)
    (hp : packRRC msg.length m cp (presentOf r.labels) r.typ r.cls r.ttl (stripPlan U) r.vals flags = some (w, m'))
    (tail : Bytes) :
    (∃ n, unpackRR (msg ++ w ++ tail) msg.length = some (r.decoded n, msg.length + w.length)) ∧ MapOK (msg ++ w) m' ∧
      0 < w.length := by
  obtain ⟨o, m1, ho, hdec, hmo, hopos⟩ := nameC_sound msg m cp r.labels h.owner hm
  unfold packRRC at hp
  rw [ho] at hp
  simp only at hp
  cases hb : packPlanC [] (msg.length + o.length + 10) m1 (stripPlan U) r.vals flags with
  | none => rw [hb] at hp; simp at hp
  | some q =>
    obtain ⟨rdc, m2⟩ := q
    rw [hb] at hp
    simp only [Option.bind_some] at hp
    split at hp
    · rename_i hshort
      simp only [Option.some.injEq, Prod.mk.injEq] at hp
      obtain ⟨rfl, rfl⟩ := hp
      -- the message up to the body, and its map
      have hlenP : (msg ++ o ++ (beBytes 2 r.typ ++ (beBytes 2 r.cls ++ (beBytes 4 r.ttl ++ beBytes 2 rdc.length)))).length =
          msg.length + o.length + 10 := by simp [beBytes_len]; omega
      have hmP : MapOK (msg ++ o ++ (beBytes 2 r.typ ++ (beBytes 2 r.cls ++ (beBytes 4 r.ttl ++ beBytes 2 rdc.length)))) m1 :=
        hmo.mono _
      have hb' : packPlanC [] (msg ++ o ++ (beBytes 2 r.typ ++ (beBytes 2 r.cls ++ (beBytes 4 r.ttl ++ beBytes 2 rdc.length)))).length
          m1 (stripPlan U) r.vals flags = some (rdc, m2) := by rw [hlenP]; exact hb
      obtain ⟨b1, b2, b3⟩ := planC_roundtrip U [] r.vals flags h.good h.fits _ m1 hmP rdc m2 hb'
      -- the compressed body is not empty, since the plain one is not
      have hne : rdc ≠ [] := by
        intro he
        have := b3 he
        have hp2 := h.packs
        unfold packPlan at hp2
        rw [this] at hp2
        have := h.nonempty
        simp only [Option.some.injEq] at hp2
        rw [← hp2] at this; simp at this
      have hrpos : 0 < rdc.length := List.length_pos_iff.mpr hne
      refine ⟨⟨rdc.length, ?_⟩, ?_, by simp [beBytes_len]; omega⟩
      · -- decoding, field by field as in the plain case
        unfold unpackRR
        have hnotend : ¬ msg.length = (msg ++ (o ++ (beBytes 2 r.typ ++ (beBytes 2 r.cls ++ (beBytes 4 r.ttl ++
            (beBytes 2 rdc.length ++ rdc))))) ++ tail).length := by
          simp only [List.length_append, beBytes_len]; omega
        rw [if_neg hnotend]
        have e0 : msg ++ (o ++ (beBytes 2 r.typ ++ (beBytes 2 r.cls ++ (beBytes 4 r.ttl ++ (beBytes 2 rdc.length ++ rdc))))) ++ tail =
            msg ++ o ++ ((beBytes 2 r.typ ++ (beBytes 2 r.cls ++ (beBytes 4 r.ttl ++ (beBytes 2 rdc.length ++ rdc)))) ++ tail) := by
          simp [List.append_assoc]
        have hn := hdec ((beBytes 2 r.typ ++ (beBytes 2 r.cls ++ (beBytes 4 r.ttl ++ (beBytes 2 rdc.length ++ rdc)))) ++ tail)
        rw [← e0] at hn
        rw [hn]
        simp only
        have e1 : msg ++ (o ++ (beBytes 2 r.typ ++ (beBytes 2 r.cls ++ (beBytes 4 r.ttl ++ (beBytes 2 rdc.length ++ rdc))))) ++ tail =
            (msg ++ o) ++ beBytes 2 r.typ ++ (beBytes 2 r.cls ++ (beBytes 4 r.ttl ++ (beBytes 2 rdc.length ++ rdc)) ++ tail) := by
          simp [List.append_assoc]
        have u1 := uintAt_ctx 2 r.typ (msg ++ o) (beBytes 2 r.cls ++ (beBytes 4 r.ttl ++ (beBytes 2 rdc.length ++ rdc)) ++ tail)
          (by have := h.typ; omega)
        rw [← e1, List.length_append] at u1
        rw [u1]
        simp only
        have e2 : msg ++ (o ++ (beBytes 2 r.typ ++ (beBytes 2 r.cls ++ (beBytes 4 r.ttl ++ (beBytes 2 rdc.length ++ rdc))))) ++ tail =
            (msg ++ o ++ beBytes 2 r.typ) ++ beBytes 2 r.cls ++ (beBytes 4 r.ttl ++ (beBytes 2 rdc.length ++ rdc) ++ tail) := by
          simp [List.append_assoc]
        have u2 := uintAt_ctx 2 r.cls (msg ++ o ++ beBytes 2 r.typ) (beBytes 4 r.ttl ++ (beBytes 2 rdc.length ++ rdc) ++ tail)
          (by have := h.cls; omega)
        rw [← e2] at u2
        simp only [List.length_append, beBytes_len] at u2
        rw [u2]
        simp only
        have e3 : msg ++ (o ++ (beBytes 2 r.typ ++ (beBytes 2 r.cls ++ (beBytes 4 r.ttl ++ (beBytes 2 rdc.length ++ rdc))))) ++ tail =
            (msg ++ o ++ beBytes 2 r.typ ++ beBytes 2 r.cls) ++ beBytes 4 r.ttl ++ (beBytes 2 rdc.length ++ rdc ++ tail) := by
          simp [List.append_assoc]
        have u3 := uintAt_ctx 4 r.ttl (msg ++ o ++ beBytes 2 r.typ ++ beBytes 2 r.cls) (beBytes 2 rdc.length ++ rdc ++ tail)
          (by have := h.ttl; omega)
        rw [← e3] at u3
        simp only [List.length_append, beBytes_len] at u3
        rw [u3]
        simp only
        have e4 : msg ++ (o ++ (beBytes 2 r.typ ++ (beBytes 2 r.cls ++ (beBytes 4 r.ttl ++ (beBytes 2 rdc.length ++ rdc))))) ++ tail =
            (msg ++ o ++ beBytes 2 r.typ ++ beBytes 2 r.cls ++ beBytes 4 r.ttl) ++ beBytes 2 rdc.length ++ (rdc ++ tail) := by
          simp [List.append_assoc]
        have u4 := uintAt_ctx 2 rdc.length (msg ++ o ++ beBytes 2 r.typ ++ beBytes 2 r.cls ++ beBytes 4 r.ttl) (rdc ++ tail)
          (by omega)
        rw [← e4] at u4
        simp only [List.length_append, beBytes_len] at u4
        rw [u4]
        simp only
        have hfit : ¬ (msg ++ (o ++ (beBytes 2 r.typ ++ (beBytes 2 r.cls ++ (beBytes 4 r.ttl ++ (beBytes 2 rdc.length ++ rdc))))) ++
            tail).length < msg.length + o.length + 2 + 2 + 4 + 2 + rdc.length := by
          simp only [List.length_append, beBytes_len]; omega
        rw [if_neg hfit]
        have hnz : ¬ rdc.length = 0 := by omega
        rw [if_neg hnz, h.kind, h.plan]
        simp only
        have ecut : (msg ++ (o ++ (beBytes 2 r.typ ++ (beBytes 2 r.cls ++ (beBytes 4 r.ttl ++ (beBytes 2 rdc.length ++ rdc))))) ++
            tail).take (msg.length + o.length + 2 + 2 + 4 + 2 + rdc.length) =
            (msg ++ o ++ (beBytes 2 r.typ ++ (beBytes 2 r.cls ++ (beBytes 4 r.ttl ++ beBytes 2 rdc.length)))) ++ rdc := by
          have : msg ++ (o ++ (beBytes 2 r.typ ++ (beBytes 2 r.cls ++ (beBytes 4 r.ttl ++ (beBytes 2 rdc.length ++ rdc))))) ++ tail =
              ((msg ++ o ++ (beBytes 2 r.typ ++ (beBytes 2 r.cls ++ (beBytes 4 r.ttl ++ beBytes 2 rdc.length)))) ++ rdc) ++ tail := by
            simp [List.append_assoc]
          rw [this, List.take_left']
          simp [beBytes_len]; omega
        rw [ecut]
        rw [hlenP] at b1
        have hoff : msg.length + o.length + 2 + 2 + 4 + 2 = msg.length + o.length + 10 := by omega
        rw [hoff, b1]
        simp only [List.nil_append, h.values, and_true]
        have hend : (msg ++ o ++ (beBytes 2 r.typ ++ (beBytes 2 r.cls ++ (beBytes 4 r.ttl ++ beBytes 2 rdc.length))) ++ rdc).length =
            msg.length + o.length + 10 + rdc.length := by simp [beBytes_len]; omega
        rw [hend]
        simp only [↓reduceIte, RRSpec.decoded, Option.some.injEq, Prod.mk.injEq, true_and]
        simp [beBytes_len]; omega
      · have : msg ++ (o ++ (beBytes 2 r.typ ++ (beBytes 2 r.cls ++ (beBytes 4 r.ttl ++ (beBytes 2 rdc.length ++ rdc))))) =
            (msg ++ o ++ (beBytes 2 r.typ ++ (beBytes 2 r.cls ++ (beBytes 4 r.ttl ++ beBytes 2 rdc.length)))) ++ rdc := by
          simp [List.append_assoc]
        rw [this]; exact b2
    · simp at hp

/-! ### sections, questions, messages -/

/-- the record to pack that belongs to a specification item -/
def toRRc (x : RRItem) (flags : List Bool) : RRc :=
  ⟨presentOf x.spec.labels, x.spec.typ, x.spec.cls, x.spec.ttl, stripPlan x.plan, x.spec.vals, flags⟩

def dec0 (x : RRItem) : RRm := x.spec.decoded 0

theorem eraseLen_decoded (r : RRSpec) (n : Nat) : eraseLen (r.decoded n) = r.decoded 0 := rfl

/-- **a section with compression** -/
theorem sectionC_roundtrip (xs : List (RRItem × List Bool)) (hwf : ∀ x ∈ xs, x.1.spec.WF x.1.plan x.1.rd) (cp : Bool)
    (msg : Bytes) (m : CMap) (hm : MapOK msg m) (w : Bytes) (m' : CMap)
    (hp : packRRcs msg.length m cp (xs.map (fun x => toRRc x.1 x.2)) = some (w, m')) (tail : Bytes) (acc : List RRm) :
    (∃ rs, unpackSection xs.length (msg ++ w ++ tail) msg.length acc = some (acc.reverse ++ rs, msg.length + w.length) ∧
      rs.map eraseLen = xs.map (fun x => dec0 x.1)) ∧ MapOK (msg ++ w) m' := by
  induction xs generalizing msg m w m' acc with
  | nil =>
    simp only [List.map_nil, packRRcs, Option.some.injEq, Prod.mk.injEq] at hp
    obtain ⟨rfl, rfl⟩ := hp
    exact ⟨⟨[], by simp [unpackSection], rfl⟩, by simpa using hm⟩
  | cons x xs ih =>
    simp only [List.map_cons, packRRcs] at hp
    cases h1 : packRRC msg.length m cp (toRRc x.1 x.2).owner (toRRc x.1 x.2).typ (toRRc x.1 x.2).cls (toRRc x.1 x.2).ttl
        (toRRc x.1 x.2).plan (toRRc x.1 x.2).vals (toRRc x.1 x.2).flags with
    | none => rw [h1] at hp; cases hp
    | some q =>
      obtain ⟨w1, m1⟩ := q
      rw [h1] at hp
      simp only at hp
      cases h2 : packRRcs (msg.length + w1.length) m1 cp (xs.map (fun x => toRRc x.1 x.2)) with
      | none => rw [h2] at hp; cases hp
      | some q2 =>
        obtain ⟨w2, m2⟩ := q2
        rw [h2] at hp
        simp only [Option.map_some, Option.some.injEq, Prod.mk.injEq] at hp
        obtain ⟨rfl, rfl⟩ := hp
        obtain ⟨⟨n, hr⟩, hm1, hpos⟩ := rrC_roundtrip x.1.spec x.1.plan x.1.rd (hwf x (by simp)) x.2 cp msg m hm w1 m1
          (by simpa [toRRc] using h1) (w2 ++ tail)
        have h2' : packRRcs (msg ++ w1).length m1 cp (xs.map (fun x => toRRc x.1 x.2)) = some (w2, m2) := by
          rw [List.length_append]; exact h2
        obtain ⟨⟨rs, hs, hrs⟩, hm2⟩ := ih (fun y hy => hwf y (by simp [hy])) (msg ++ w1) m1 hm1 w2 m2 h2' (x.1.spec.decoded n :: acc)
        refine ⟨⟨x.1.spec.decoded n :: rs, ?_, ?_⟩, by rw [← List.append_assoc]; exact hm2⟩
        · simp only [List.length_cons, unpackSection]
          have e : msg ++ (w1 ++ w2) ++ tail = msg ++ w1 ++ (w2 ++ tail) := by simp [List.append_assoc]
          rw [e, hr]
          simp only
          rw [if_neg (by omega)]
          have e2 : msg ++ w1 ++ (w2 ++ tail) = msg ++ w1 ++ w2 ++ tail := by simp [List.append_assoc]
          rw [e2]
          simp only [List.length_append] at hs
          rw [hs]
          simp [List.append_assoc]; omega
        · simp only [List.map_cons, eraseLen_decoded, hrs, dec0]

theorem questionC_roundtrip (q : QSpec) (h : q.WF) (cp : Bool) (msg : Bytes) (m : CMap) (hm : MapOK msg m) (w : Bytes) (m' : CMap)
    (hp : packQC msg.length m cp (presentOf q.labels) q.typ q.cls = some (w, m')) (tail : Bytes) :
    unpackQuestion (msg ++ w ++ tail) msg.length = some (q.dec, msg.length + w.length) ∧ MapOK (msg ++ w) m' ∧ 0 < w.length := by
  obtain ⟨h1, h2, h3⟩ := h
  obtain ⟨o, m1, ho, hdec, hmo, hopos⟩ := nameC_sound msg m cp q.labels h1 hm
  unfold packQC at hp
  rw [ho] at hp
  simp only [Option.map_some, Option.some.injEq, Prod.mk.injEq] at hp
  obtain ⟨rfl, rfl⟩ := hp
  refine ⟨?_, ?_, by simp only [List.length_append, beBytes_len]; omega⟩
  · unfold unpackQuestion
    have e0 : msg ++ (o ++ (beBytes 2 q.typ ++ beBytes 2 q.cls)) ++ tail = msg ++ o ++ (beBytes 2 q.typ ++ beBytes 2 q.cls ++ tail) := by
      simp [List.append_assoc]
    have hn := hdec (beBytes 2 q.typ ++ beBytes 2 q.cls ++ tail)
    rw [← e0] at hn
    rw [hn]
    simp only
    have hl : (msg ++ (o ++ (beBytes 2 q.typ ++ beBytes 2 q.cls)) ++ tail).length = msg.length + o.length + 4 + tail.length := by
      simp [beBytes_len]; omega
    rw [if_neg (by rw [hl]; omega)]
    have e1 : msg ++ (o ++ (beBytes 2 q.typ ++ beBytes 2 q.cls)) ++ tail = (msg ++ o) ++ beBytes 2 q.typ ++ (beBytes 2 q.cls ++ tail) := by
      simp [List.append_assoc]
    have u1 := uintAt_ctx 2 q.typ (msg ++ o) (beBytes 2 q.cls ++ tail) (by omega)
    rw [← e1, List.length_append] at u1
    rw [u1]
    simp only
    rw [if_neg (by rw [hl]; omega)]
    have e2 : msg ++ (o ++ (beBytes 2 q.typ ++ beBytes 2 q.cls)) ++ tail = (msg ++ o ++ beBytes 2 q.typ) ++ beBytes 2 q.cls ++ tail := by
      simp [List.append_assoc]
    have u2 := uintAt_ctx 2 q.cls (msg ++ o ++ beBytes 2 q.typ) tail (by omega)
    rw [← e2] at u2
    simp only [List.length_append, beBytes_len] at u2
    rw [u2]
    simp [QSpec.dec, beBytes_len]
    omega
  · have : msg ++ (o ++ (beBytes 2 q.typ ++ beBytes 2 q.cls)) = (msg ++ o) ++ (beBytes 2 q.typ ++ beBytes 2 q.cls) := by
      simp [List.append_assoc]
    rw [this]; exact hmo.mono _

theorem questionsC_roundtrip (qs : List QSpec) (hwf : ∀ q ∈ qs, q.WF) (cp : Bool) (msg : Bytes) (m : CMap) (hm : MapOK msg m)
    (w : Bytes) (m' : CMap) (hp : packQCs msg.length m cp (qs.map QSpec.dec) = some (w, m')) (tail : Bytes) (acc : List Qm) :
    unpackQuestions qs.length (msg ++ w ++ tail) msg.length acc =
      (acc.reverse ++ qs.map QSpec.dec, msg.length + w.length, false) ∧ MapOK (msg ++ w) m' := by
  induction qs generalizing msg m w m' acc with
  | nil =>
    simp only [List.map_nil, packQCs, Option.some.injEq, Prod.mk.injEq] at hp
    obtain ⟨rfl, rfl⟩ := hp
    exact ⟨by simp [unpackQuestions], by simpa using hm⟩
  | cons q qs ih =>
    simp only [List.map_cons, packQCs] at hp
    cases h1 : packQC msg.length m cp q.dec.name q.dec.typ q.dec.cls with
    | none => rw [h1] at hp; cases hp
    | some r =>
      obtain ⟨w1, m1⟩ := r
      rw [h1] at hp
      simp only at hp
      cases h2 : packQCs (msg.length + w1.length) m1 cp (qs.map QSpec.dec) with
      | none => rw [h2] at hp; cases hp
      | some r2 =>
        obtain ⟨w2, m2⟩ := r2
        rw [h2] at hp
        simp only [Option.map_some, Option.some.injEq, Prod.mk.injEq] at hp
        obtain ⟨rfl, rfl⟩ := hp
        obtain ⟨hq, hm1, hpos⟩ := questionC_roundtrip q (hwf q (by simp)) cp msg m hm w1 m1 (by simpa [QSpec.dec] using h1) (w2 ++ tail)
        have h2' : packQCs (msg ++ w1).length m1 cp (qs.map QSpec.dec) = some (w2, m2) := by rw [List.length_append]; exact h2
        obtain ⟨hs, hm2⟩ := ih (fun y hy => hwf y (by simp [hy])) (msg ++ w1) m1 hm1 w2 m2 h2' (q.dec :: acc)
        refine ⟨?_, by rw [← List.append_assoc]; exact hm2⟩
        simp only [List.length_cons, unpackQuestions]
        have e : msg ++ (w1 ++ w2) ++ tail = msg ++ w1 ++ (w2 ++ tail) := by simp [List.append_assoc]
        rw [e, hq]
        simp only
        rw [if_neg (by omega)]
        have e2 : msg ++ w1 ++ (w2 ++ tail) = msg ++ w1 ++ w2 ++ tail := by simp [List.append_assoc]
        rw [e2]
        simp only [List.length_append] at hs
        rw [hs]
        simp [List.append_assoc]; omega

theorem extRcode_erase (rs : List RRm) : extRcode (rs.map eraseLen) = extRcode rs := by
  have key : ∀ l : List RRm, List.find? (fun r => r.typ == 41) (l.map eraseLen) =
      (List.find? (fun r => r.typ == 41) l).map eraseLen := by
    intro l
    induction l with
    | nil => rfl
    | cons r l ih =>
      simp only [List.map_cons, List.find?_cons]
      have : (eraseLen r).typ = r.typ := rfl
      rw [this]
      cases r.typ == 41 <;> simp [ih]
  unfold extRcode
  rw [← List.map_reverse, key]
  cases List.find? (fun r => r.typ == 41) rs.reverse <;> rfl

/-- a packed list of questions is empty only if there are none -/
theorem packQCs_empty (qs : List QSpec) (hwf : ∀ q ∈ qs, q.WF) (msg : Bytes) (m m' : CMap) (hm : MapOK msg m)
    (hp : packQCs msg.length m true (qs.map QSpec.dec) = some ([], m')) : qs = [] := by
  cases qs with
  | nil => rfl
  | cons q qs' =>
    exfalso
    simp only [List.map_cons, packQCs] at hp
    cases h1 : packQC msg.length m true q.dec.name q.dec.typ q.dec.cls with
    | none => rw [h1] at hp; cases hp
    | some r =>
      obtain ⟨w1, m1⟩ := r
      rw [h1] at hp
      simp only at hp
      have hpos := (questionC_roundtrip q (hwf q (by simp)) true msg m hm w1 m1 (by simpa [QSpec.dec] using h1) []).2.2
      cases hr : packQCs (msg.length + w1.length) m1 true (qs'.map QSpec.dec) with
      | none => rw [hr] at hp; cases hp
      | some r2 =>
        rw [hr] at hp
        simp only [Option.map_some, Option.some.injEq, Prod.mk.injEq] at hp
        have := List.append_eq_nil_iff.mp hp.1
        rw [this.1] at hpos; simp at hpos

/-- a packed section is empty only if it has no records -/
theorem packRRcs_empty (xs : List (RRItem × List Bool)) (hwf : ∀ x ∈ xs, x.1.spec.WF x.1.plan x.1.rd) (msg : Bytes)
    (m m' : CMap) (hm : MapOK msg m) (hp : packRRcs msg.length m true (xs.map (fun x => toRRc x.1 x.2)) = some ([], m')) :
    xs = [] := by
  cases xs with
  | nil => rfl
  | cons x xs' =>
    exfalso
    simp only [List.map_cons, packRRcs] at hp
    cases h1 : packRRC msg.length m true (toRRc x.1 x.2).owner (toRRc x.1 x.2).typ (toRRc x.1 x.2).cls (toRRc x.1 x.2).ttl
        (toRRc x.1 x.2).plan (toRRc x.1 x.2).vals (toRRc x.1 x.2).flags with
    | none => rw [h1] at hp; cases hp
    | some r =>
      obtain ⟨w1, m1⟩ := r
      rw [h1] at hp
      simp only at hp
      have hpos := (rrC_roundtrip x.1.spec x.1.plan x.1.rd (hwf x (by simp)) x.2 true msg m hm w1 m1
        (by simpa [toRRc] using h1) []).2.2
      cases hr : packRRcs (msg.length + w1.length) m1 true (xs'.map (fun x => toRRc x.1 x.2)) with
      | none => rw [hr] at hp; cases hp
      | some r2 =>
        rw [hr] at hp
        simp only [Option.map_some, Option.some.injEq, Prod.mk.injEq] at hp
        have := List.append_eq_nil_iff.mp hp.1
        rw [this.1] at hpos; simp at hpos

/-- **whole messages with compression**: whatever the compressing packer model writes for a message — every owner,
    question name and compressible embedded name possibly replaced by a pointer to an earlier occurrence, one map
    threaded through questions and all three sections — the decoder model of `Msg.Unpack` reads back as exactly the
    questions and records that were packed (RDLENGTH aside: it is the length of the body as packed) -/
theorem messageC_roundtrip (id bits : Nat) (qs : List QSpec) (an ns ex : List (RRItem × List Bool))
    (hid : id < 65536) (hbits : bits < 65536)
    (hq : ∀ q ∈ qs, q.WF) (han : ∀ x ∈ an, x.1.spec.WF x.1.plan x.1.rd) (hns : ∀ x ∈ ns, x.1.spec.WF x.1.plan x.1.rd)
    (hex : ∀ x ∈ ex, x.1.spec.WF x.1.plan x.1.rd)
    (cq : qs.length < 65536) (ca : an.length < 65536) (cn : ns.length < 65536) (ce : ex.length < 65536)
    (B : Bytes)
    (hp : packMsgC id bits (qs.map QSpec.dec) (an.map (fun x => toRRc x.1 x.2)) (ns.map (fun x => toRRc x.1 x.2))
      (ex.map (fun x => toRRc x.1 x.2)) = some B) :
    ∃ an' ns' ex', unpackMsg B = some ⟨id, unpackBits (BitVec.ofNat 16 bits),
          joinRcode (unpackBits (BitVec.ofNat 16 bits)).rcode (extRcode ex'), qs.map QSpec.dec, an', ns', ex', false⟩ ∧
      an'.map eraseLen = an.map (fun x => dec0 x.1) ∧ ns'.map eraseLen = ns.map (fun x => dec0 x.1) ∧
      ex'.map eraseLen = ex.map (fun x => dec0 x.1) := by
  unfold packMsgC at hp
  simp only [List.length_map] at hp
  generalize hHd : beBytes 2 id ++ (beBytes 2 bits ++ (beBytes 2 qs.length ++ (beBytes 2 an.length ++ (beBytes 2 ns.length ++
      beBytes 2 ex.length)))) = H at hp
  have hH : H.length = 12 := by rw [← hHd]; simp [beBytes_len]
  have hm0 : MapOK H [] := mapOK_nil H
  cases h1 : packQCs 12 [] true (qs.map QSpec.dec) with
  | none => rw [h1] at hp; cases hp
  | some r1 =>
    obtain ⟨wq, m1⟩ := r1
    rw [h1] at hp; simp only at hp
    cases h2 : packRRcs (12 + wq.length) m1 true (an.map (fun x => toRRc x.1 x.2)) with
    | none => rw [h2] at hp; cases hp
    | some r2 =>
      obtain ⟨wa, m2⟩ := r2
      rw [h2] at hp; simp only at hp
      cases h3 : packRRcs (12 + wq.length + wa.length) m2 true (ns.map (fun x => toRRc x.1 x.2)) with
      | none => rw [h3] at hp; cases hp
      | some r3 =>
        obtain ⟨wn, m3⟩ := r3
        rw [h3] at hp; simp only at hp
        cases h4 : packRRcs (12 + wq.length + wa.length + wn.length) m3 true (ex.map (fun x => toRRc x.1 x.2)) with
        | none => rw [h4] at hp; cases hp
        | some r4 =>
          obtain ⟨we, m4⟩ := r4
          rw [h4] at hp
          simp only [Option.some.injEq] at hp
          subst hp
          -- decode each part in turn
          have h1' : packQCs H.length [] true (qs.map QSpec.dec) = some (wq, m1) := by rw [hH]; exact h1
          obtain ⟨dq, mq⟩ := questionsC_roundtrip qs hq true H [] hm0 wq m1 h1' (wa ++ (wn ++ we)) []
          have h2' : packRRcs (H ++ wq).length m1 true (an.map (fun x => toRRc x.1 x.2)) = some (wa, m2) := by
            rw [List.length_append, hH]; exact h2
          obtain ⟨⟨an', da, ea⟩, ma⟩ := sectionC_roundtrip an han true (H ++ wq) m1 mq wa m2 h2' (wn ++ we) []
          have h3' : packRRcs (H ++ wq ++ wa).length m2 true (ns.map (fun x => toRRc x.1 x.2)) = some (wn, m3) := by
            simp only [List.length_append, hH]; exact h3
          obtain ⟨⟨ns', dn, en⟩, mn⟩ := sectionC_roundtrip ns hns true (H ++ wq ++ wa) m2 ma wn m3 h3' we []
          have h4' : packRRcs (H ++ wq ++ wa ++ wn).length m3 true (ex.map (fun x => toRRc x.1 x.2)) = some (we, m4) := by
            simp only [List.length_append, hH]; exact h4
          obtain ⟨⟨ex', de, ee⟩, _⟩ := sectionC_roundtrip ex hex true (H ++ wq ++ wa ++ wn) m3 mn we m4 h4' [] []
          refine ⟨an', ns', ex', ?_, ea, en, ee⟩
          -- the six header words
          have hw : ∀ (pre rest : Bytes) (v : Nat), v < 65536 → beVal (((pre ++ beBytes 2 v ++ rest).drop pre.length).take 2) = v :=
            fun pre rest v hv => word_at pre rest v hv
          have w0 : beVal ((H ++ (wq ++ (wa ++ (wn ++ we)))).take 2) = id := by
            have := hw [] (beBytes 2 bits ++ (beBytes 2 qs.length ++ (beBytes 2 an.length ++ (beBytes 2 ns.length ++
              (beBytes 2 ex.length ++ (wq ++ (wa ++ (wn ++ we)))))))) id hid
            rw [← hHd]; simpa [List.append_assoc] using this
          have w1 : beVal (((H ++ (wq ++ (wa ++ (wn ++ we)))).drop 2).take 2) = bits := by
            have := hw (beBytes 2 id) (beBytes 2 qs.length ++ (beBytes 2 an.length ++ (beBytes 2 ns.length ++
              (beBytes 2 ex.length ++ (wq ++ (wa ++ (wn ++ we))))))) bits hbits
            rw [← hHd]; simpa [beBytes_len, List.append_assoc] using this
          have w2 : beVal (((H ++ (wq ++ (wa ++ (wn ++ we)))).drop 4).take 2) = qs.length := by
            have := hw (beBytes 2 id ++ beBytes 2 bits) (beBytes 2 an.length ++ (beBytes 2 ns.length ++
              (beBytes 2 ex.length ++ (wq ++ (wa ++ (wn ++ we)))))) qs.length cq
            rw [← hHd]; simpa [beBytes_len, List.append_assoc] using this
          have w3 : beVal (((H ++ (wq ++ (wa ++ (wn ++ we)))).drop 6).take 2) = an.length := by
            have := hw (beBytes 2 id ++ beBytes 2 bits ++ beBytes 2 qs.length) (beBytes 2 ns.length ++
              (beBytes 2 ex.length ++ (wq ++ (wa ++ (wn ++ we))))) an.length ca
            rw [← hHd]; simpa [beBytes_len, List.append_assoc] using this
          have w4 : beVal (((H ++ (wq ++ (wa ++ (wn ++ we)))).drop 8).take 2) = ns.length := by
            have := hw (beBytes 2 id ++ beBytes 2 bits ++ beBytes 2 qs.length ++ beBytes 2 an.length)
              (beBytes 2 ex.length ++ (wq ++ (wa ++ (wn ++ we)))) ns.length cn
            rw [← hHd]; simpa [beBytes_len, List.append_assoc] using this
          have w5 : beVal (((H ++ (wq ++ (wa ++ (wn ++ we)))).drop 10).take 2) = ex.length := by
            have := hw (beBytes 2 id ++ beBytes 2 bits ++ beBytes 2 qs.length ++ beBytes 2 an.length ++ beBytes 2 ns.length)
              (wq ++ (wa ++ (wn ++ we))) ex.length ce
            rw [← hHd]; simpa [beBytes_len, List.append_assoc] using this
          have hlen : (H ++ (wq ++ (wa ++ (wn ++ we)))).length = 12 + (wq.length + (wa.length + (wn.length + we.length))) := by
            simp [hH]
          unfold unpackMsg
          rw [if_neg (by omega)]
          simp only [Nat.reduceMul, List.drop_zero, w0, w1, w2, w3, w4, w5]
          by_cases hempty : wq.length + (wa.length + (wn.length + we.length)) = 0
          · -- nothing behind the header: every list is empty
            have q0 : wq = [] := List.length_eq_zero_iff.mp (by omega)
            have a0 : wa = [] := List.length_eq_zero_iff.mp (by omega)
            have n0 : wn = [] := List.length_eq_zero_iff.mp (by omega)
            have e0 : we = [] := List.length_eq_zero_iff.mp (by omega)
            subst q0 a0 n0 e0
            rw [if_pos (by omega)]
            -- the decoded lists are empty as well
            simp only [List.append_nil, List.length_append, hH, Nat.add_zero] at dq da dn de
            have hqs : qs = [] := packQCs_empty qs hq H [] m1 hm0 (by rw [hH]; exact h1)
            subst hqs
            have han0 := packRRcs_empty an han H m1 m2 (by simpa using mq) (by rw [hH]; simpa using h2)
            have hns0 := packRRcs_empty ns hns H m2 m3 (by simpa using ma) (by rw [hH]; simpa using h3)
            have hex0 := packRRcs_empty ex hex H m3 m4 (by simpa using mn) (by rw [hH]; simpa using h4)
            subst han0 hns0 hex0
            simp only [unpackSection, List.reverse_nil, List.nil_append, Option.some.injEq, Prod.mk.injEq] at da dn de
            obtain ⟨rfl, _⟩ := da
            obtain ⟨rfl, _⟩ := dn
            obtain ⟨rfl, _⟩ := de
            simp [extRcode, joinRcode]
          · rw [if_neg (by omega)]
            have eq1 : H ++ (wq ++ (wa ++ (wn ++ we))) = H ++ wq ++ (wa ++ (wn ++ we)) := by simp [List.append_assoc]
            rw [eq1]
            rw [hH] at dq
            rw [dq]
            simp only [List.reverse_nil, List.nil_append, Bool.false_eq_true, ↓reduceIte]
            have eq2 : H ++ wq ++ (wa ++ (wn ++ we)) = H ++ wq ++ wa ++ (wn ++ we) := by simp [List.append_assoc]
            simp only [List.length_append, hH] at da
            rw [eq2, da]
            simp only [List.reverse_nil, List.nil_append]
            have eq3 : H ++ wq ++ wa ++ (wn ++ we) = H ++ wq ++ wa ++ wn ++ we := by simp [List.append_assoc]
            simp only [List.length_append, hH] at dn
            rw [eq3, dn]
            simp only [List.reverse_nil, List.nil_append]
            simp only [List.length_append, hH, List.append_nil] at de
            rw [de]
            simp

end Dns.C04M
