package main

import (
	"context"
	"fmt"
	"io"
	"net"
	"runtime"
	"strings"
	"sync"
	"sync/atomic"
	"time"

	"github.com/miekg/dns"
)

func init() { props["C13"] = runC13 }

type srvProbe struct {
	enter, exit   int64
	afterShutdown int64
	shutdownDone  int32
	hold          chan struct{} // handlers wait on this when non-nil
	delay         time.Duration
}

func (p *srvProbe) handler() dns.Handler {
	return dns.HandlerFunc(func(w dns.ResponseWriter, req *dns.Msg) {
		atomic.AddInt64(&p.enter, 1)
		if atomic.LoadInt32(&p.shutdownDone) == 1 {
			atomic.AddInt64(&p.afterShutdown, 1)
		}
		if p.hold != nil {
			<-p.hold
		}
		if p.delay > 0 {
			time.Sleep(p.delay)
		}
		m := new(dns.Msg)
		m.SetReply(req)
		w.WriteMsg(m)
		atomic.AddInt64(&p.exit, 1)
	})
}

type liveServer struct {
	srv     *dns.Server
	addr    string
	net     string
	serveCh chan error
	probe   *srvProbe
}

// startServer: kind = udp | tcp | pc (generic PacketConn) | pipe (in-memory listener)
func startServer(kind string, p *srvProbe, configure ...func(*dns.Server)) (*liveServer, error) {
	ls := &liveServer{probe: p, serveCh: make(chan error, 1)}
	srv := &dns.Server{Handler: p.handler(), ReadTimeout: 5 * time.Second}
	for _, f := range configure {
		f(srv) // before the server runs: its fields are read without a lock by the serving goroutines
	}
	started := make(chan struct{})
	srv.NotifyStartedFunc = func() { close(started) }
	switch kind {
	case "udp":
		pc, err := net.ListenPacket("udp", "127.0.0.1:0")
		if err != nil {
			return nil, err
		}
		srv.PacketConn = pc
		ls.addr, ls.net = pc.LocalAddr().String(), "udp"
	case "pc":
		pc, err := net.ListenPacket("udp", "127.0.0.1:0")
		if err != nil {
			return nil, err
		}
		srv.PacketConn = &wrapPC{PacketConn: pc} // not a *net.UDPConn: generic PacketConn path
		ls.addr, ls.net = pc.LocalAddr().String(), "udp"
	case "tcp":
		l, err := net.Listen("tcp", "127.0.0.1:0")
		if err != nil {
			return nil, err
		}
		srv.Listener = l
		ls.addr, ls.net = l.Addr().String(), "tcp"
	}
	ls.srv = srv
	go func() { ls.serveCh <- srv.ActivateAndServe() }()
	select {
	case <-started:
	case <-time.After(3 * time.Second):
		return nil, fmt.Errorf("server did not start")
	}
	return ls, nil
}

type wrapPC struct {
	net.PacketConn
	onDeadline func(t time.Time) // hook for the forced interleaving
}

func (w *wrapPC) SetReadDeadline(t time.Time) error {
	if w.onDeadline != nil {
		w.onDeadline(t)
	}
	return w.PacketConn.SetReadDeadline(t)
}

func query(netw, addr string, id uint16, timeout time.Duration) error {
	cl := &dns.Client{Net: netw, Timeout: timeout}
	m := new(dns.Msg)
	m.SetQuestion("q.example.", dns.TypeA)
	m.Id = id
	r, _, err := cl.Exchange(m, addr)
	if err != nil {
		return err
	}
	if r.Id != id {
		return fmt.Errorf("foreign reply")
	}
	return nil
}

// shutdownWithin runs Shutdown and reports how it ended.
func shutdownWithin(srv *dns.Server, ctxTimeout, guardTimeout time.Duration) (string, time.Duration) {
	t0 := time.Now()
	ch := make(chan error, 1)
	go func() {
		ctx := context.Background()
		if ctxTimeout > 0 {
			var cancel context.CancelFunc
			ctx, cancel = context.WithTimeout(ctx, ctxTimeout)
			defer cancel()
		}
		ch <- srv.ShutdownContext(ctx)
	}()
	select {
	case err := <-ch:
		if err == nil {
			return "nil", time.Since(t0)
		}
		if err == context.DeadlineExceeded {
			return "ctx", time.Since(t0)
		}
		return "err:" + err.Error(), time.Since(t0)
	case <-time.After(guardTimeout):
		return "blocked", time.Since(t0)
	}
}

func runC13(c *Ctx) {
	r := c.R
	c.Res.Rule = "real servers (UDP, generic PacketConn, TCP) with 0..k in-flight requests; Shutdown at random and at forced points (inside a handler, between the started check and the deadline refresh), context expiry, double start, shutdown before start, failed start then shutdown / restart; goroutine count before and after; distinct by scenario and seed"
	base := runtime.NumGoroutine()
	kinds := []string{"udp", "pc", "tcp"}
	rounds := c.Scale(6, 400)
	for round := 0; round < rounds; round++ {
		for _, kind := range kinds {
			in := fmt.Sprintf("kind=%s round=%d", kind, round)
			// --- S1: requests in flight while Shutdown runs
			p := &srvProbe{hold: make(chan struct{})}
			ls, err := startServer(kind, p)
			if err != nil {
				c.Res.Notes = append(c.Res.Notes, "cannot start "+kind+": "+err.Error())
				continue
			}
			// datagrams shorter than a header are dropped without a handler; they must not be counted as work in flight
			runts := 0
			if kind != "tcp" && round%2 == 1 {
				if conn, derr := net.Dial("udp", ls.addr); derr == nil {
					runts = 1 + r.Intn(3)
					for i := 0; i < runts; i++ {
						conn.Write(r.Bytes(1 + r.Intn(11)))
					}
					conn.Close()
					time.Sleep(20 * time.Millisecond)
				}
			}
			in += fmt.Sprintf(" runts=%d", runts)
			k := r.Intn(4)
			var wg sync.WaitGroup
			var replied int64
			for i := 0; i < k; i++ {
				wg.Add(1)
				go func(i int) {
					defer wg.Done()
					if query(ls.net, ls.addr, uint16(100+i), 4*time.Second) == nil {
						atomic.AddInt64(&replied, 1)
					}
				}(i)
			}
			// wait until the handlers have been entered
			for t := 0; t < 400 && atomic.LoadInt64(&p.enter) < int64(k); t++ {
				time.Sleep(time.Millisecond)
			}
			entered := atomic.LoadInt64(&p.enter)
			sdDone := make(chan string, 1)
			go func() {
				res, _ := shutdownWithin(ls.srv, 0, 6*time.Second)
				atomic.StoreInt32(&p.shutdownDone, 1)
				sdDone <- res
			}()
			// Shutdown must not return while handlers are held
			early := ""
			if entered > 0 {
				select {
				case early = <-sdDone:
				case <-time.After(time.Duration(20+r.Intn(40)) * time.Millisecond):
				}
			}
			c.Pred("inflight", "shutdown-waits-for-handlers", in+fmt.Sprintf(" inflight=%d", entered), early == "", early, "still waiting", entered > 0)
			exitedAtRelease := atomic.LoadInt64(&p.exit)
			close(p.hold)
			res := early
			if res == "" {
				res = <-sdDone
			}
			c.Pred("inflight", "shutdown-returns-nil", in, res == "nil", res, "nil", true)
			c.Pred("inflight", "all-handlers-returned", in, atomic.LoadInt64(&p.exit) == atomic.LoadInt64(&p.enter), fmt.Sprint(p.exit, "/", p.enter), "equal", entered > 0)
			_ = exitedAtRelease
			wg.Wait()
			c.Pred("inflight", "replies-delivered", in+fmt.Sprintf(" inflight=%d", entered), atomic.LoadInt64(&replied) == entered, fmt.Sprint(replied), fmt.Sprint(entered), entered > 0)
			// serve returns nil
			select {
			case e := <-ls.serveCh:
				c.Pred("inflight", "serve-returns-nil", in, e == nil, fmt.Sprint(e), "nil", true)
			case <-time.After(3 * time.Second):
				c.Pred("inflight", "serve-returns-nil", in, false, "still blocked", "nil", true)
			}
			// no handler after shutdown: further queries fail and never reach the handler
			before := atomic.LoadInt64(&p.enter)
			query(ls.net, ls.addr, 999, 150*time.Millisecond)
			c.Pred("inflight", "no-handler-after-shutdown", in, atomic.LoadInt64(&p.enter) == before && atomic.LoadInt64(&p.afterShutdown) == 0, fmt.Sprint(p.afterShutdown), "0", true)
			// second shutdown: error, not blocking
			res2, _ := shutdownWithin(ls.srv, 0, 2*time.Second)
			c.Pred("lifecycle", "shutdown-not-started-errors", in, res2 != "nil" && res2 != "blocked" && res2 != "ctx", res2, "error", true)
		}
		// --- S2: double start
		{
			p := &srvProbe{}
			ls, err := startServer("udp", p)
			if err == nil {
				ch := make(chan error, 1)
				go func() { ch <- ls.srv.ActivateAndServe() }()
				select {
				case e := <-ch:
					c.Pred("lifecycle", "double-start-errors", "udp", e != nil, "nil", "error", true)
				case <-time.After(2 * time.Second):
					c.Pred("lifecycle", "double-start-errors", "udp", false, "blocked", "error", true)
				}
				shutdownWithin(ls.srv, 0, 3*time.Second)
			}
		}
		// --- S2b: a rejected second start leaves the running server intact: an idle TCP connection opened before it is
		//          still unblocked and closed by Shutdown
		{
			p := &srvProbe{}
			if ls, err := startServer("tcp", p, func(s *dns.Server) {
				s.ReadTimeout = time.Hour
				s.IdleTimeout = func() time.Duration { return time.Hour }
			}); err == nil {
				client, derr := net.Dial("tcp", ls.addr)
				if derr == nil {
					// one exchange makes sure the connection has been accepted and is being served
					co := &dns.Conn{Conn: client}
					q := new(dns.Msg)
					q.SetQuestion("idle.example.", dns.TypeA)
					co.SetDeadline(time.Now().Add(2 * time.Second))
					co.WriteMsg(q)
					co.ReadMsg()
					e2 := make(chan error, 1)
					go func() { e2 <- ls.srv.ActivateAndServe() }()
					var second error
					select {
					case second = <-e2:
					case <-time.After(2 * time.Second):
					}
					c.Pred("lifecycle", "double-start-errors", "tcp with an idle connection", second != nil, fmt.Sprint(second), "error", true)
					res, took := shutdownWithin(ls.srv, 0, 4*time.Second)
					c.Pred("lifecycle", "shutdown-after-rejected-start", "tcp with an idle connection", res == "nil" && took < 3*time.Second,
						fmt.Sprint(res, " after ", took), "nil, promptly", true)
					client.SetReadDeadline(time.Now().Add(2 * time.Second))
					_, rerr := client.Read(make([]byte, 1))
					c.Pred("lifecycle", "idle-conn-closed-after-shutdown", "tcp with an idle connection", rerr == io.EOF, fmt.Sprint(rerr), "EOF", true)
					client.Close()
				} else {
					shutdownWithin(ls.srv, 0, 3*time.Second)
				}
			}
		}
		// --- S2c: Shutdown with a context that has already expired: it may report the context's error, but the server is
		//          shut down all the same — the serve call returns, no handler runs afterwards
		for _, kind := range []string{"udp", "tcp"} {
			p := &srvProbe{}
			ls, err := startServer(kind, p)
			if err != nil {
				continue
			}
			query(ls.net, ls.addr, 7, time.Second)
			ctx, cancel := context.WithCancel(context.Background())
			cancel()
			ch := make(chan error, 1)
			go func() { ch <- ls.srv.ShutdownContext(ctx) }()
			var serr error
			returned := true
			select {
			case serr = <-ch:
			case <-time.After(3 * time.Second):
				returned = false
			}
			atomic.StoreInt32(&p.shutdownDone, 1)
			c.Pred("lifecycle", "expired-context-shutdown-returns", kind, returned && (serr == nil || serr == context.Canceled), fmt.Sprint(returned, serr), "nil or the context's error", true)
			served := false
			select {
			case e := <-ls.serveCh:
				served = e == nil
			case <-time.After(3 * time.Second):
			}
			c.Pred("lifecycle", "expired-context-serve-returns", kind, served, "serve call still blocked (or returned an error)", "serve call returns nil", true)
			before := atomic.LoadInt64(&p.enter)
			query(ls.net, ls.addr, 8, 150*time.Millisecond)
			c.Pred("lifecycle", "expired-context-no-handler-after", kind, atomic.LoadInt64(&p.enter) == before, fmt.Sprint(atomic.LoadInt64(&p.enter)-before, " handlers"), "0", true)
			if !served {
				shutdownWithin(ls.srv, 0, 3*time.Second)
			}
		}
		// --- S3: shutdown of a server that was never started
		{
			srv := &dns.Server{Addr: "127.0.0.1:0", Net: "udp"}
			res, _ := shutdownWithin(srv, 0, 2*time.Second)
			c.Pred("lifecycle", "shutdown-before-start-errors", "never started", res != "nil" && res != "blocked", res, "error", true)
		}
		// --- S4: failed start, then Shutdown and a fresh start on the same Server
		{
			busy, err := net.Listen("tcp", "127.0.0.1:0")
			if err == nil {
				srv := &dns.Server{Addr: busy.Addr().String(), Net: "tcp", Handler: (&srvProbe{}).handler()}
				e1 := srv.ListenAndServe() // address in use
				res, _ := shutdownWithin(srv, 0, 2*time.Second)
				c.Pred("lifecycle", "failed-start-then-shutdown", "tcp address in use", e1 != nil && res != "nil" && res != "blocked", fmt.Sprint(e1, " / ", res), "start error, then 'not started' error", true)
				busy.Close()
				// now the address is free: the same Server must be startable
				st := make(chan struct{})
				srv.NotifyStartedFunc = func() { close(st) }
				ch := make(chan error, 1)
				go func() { ch <- srv.ListenAndServe() }()
				select {
				case <-st:
					r2, _ := shutdownWithin(srv, 0, 3*time.Second)
					c.Pred("lifecycle", "restart-after-failed-start", "tcp", r2 == "nil", r2, "nil", true)
				case e := <-ch:
					c.Pred("lifecycle", "restart-after-failed-start", "tcp", false, fmt.Sprint(e), "starts", true)
				case <-time.After(3 * time.Second):
					c.Pred("lifecycle", "restart-after-failed-start", "tcp", false, "blocked", "starts", true)
				}
			}
			// a UDP socket that is already closed: the start fails while preparing the socket
			if dead, err := net.ListenPacket("udp", "127.0.0.1:0"); err == nil {
				dead.Close()
				srv := &dns.Server{PacketConn: dead, Handler: (&srvProbe{}).handler()}
				ch := make(chan error, 1)
				go func() { ch <- srv.ActivateAndServe() }()
				var e1 error
				select {
				case e1 = <-ch:
				case <-time.After(2 * time.Second):
					e1 = nil
				}
				res, _ := shutdownWithin(srv, 0, 2*time.Second)
				c.Pred("lifecycle", "failed-start-then-shutdown", "closed udp socket", e1 != nil && res != "nil" && res != "blocked", fmt.Sprint(e1, " / ", res), "start error, then 'not started' error", true)
				// the same Server with a usable socket must start
				if fresh, err := net.ListenPacket("udp", "127.0.0.1:0"); err == nil {
					srv.PacketConn = fresh
					st := make(chan struct{})
					srv.NotifyStartedFunc = func() { close(st) }
					ch2 := make(chan error, 1)
					go func() { ch2 <- srv.ActivateAndServe() }()
					select {
					case <-st:
						r2, _ := shutdownWithin(srv, 0, 3*time.Second)
						c.Pred("lifecycle", "restart-after-failed-start", "udp", r2 == "nil", r2, "nil", true)
					case e := <-ch2:
						c.Pred("lifecycle", "restart-after-failed-start", "udp", false, fmt.Sprint(e), "starts", true)
						fresh.Close()
					case <-time.After(3 * time.Second):
						c.Pred("lifecycle", "restart-after-failed-start", "udp", false, "blocked", "starts", true)
						fresh.Close()
					}
				}
			}
			// bad network name
			srv := &dns.Server{Addr: "127.0.0.1:0", Net: "bogus"}
			e := srv.ListenAndServe()
			res, _ := shutdownWithin(srv, 0, 2*time.Second)
			c.Pred("lifecycle", "failed-start-then-shutdown", "bad network", e != nil && res != "nil" && res != "blocked", fmt.Sprint(e, " / ", res), "errors", true)
			// a generic PacketConn with a decorated reader that cannot read from one: the serve call refuses; the server
			// is not running, so Shutdown reports that instead of waiting for a serve loop that does not exist
			if pc, err := net.ListenPacket("udp", "127.0.0.1:0"); err == nil {
				srv := &dns.Server{PacketConn: onlyPacketConn{pc}, Handler: dns.HandlerFunc(func(w dns.ResponseWriter, r *dns.Msg) {}),
					DecorateReader: func(rd dns.Reader) dns.Reader { return plainReader{rd} }}
				served := make(chan error, 1)
				go func() { served <- srv.ActivateAndServe() }()
				var e1 error
				select {
				case e1 = <-served:
				case <-time.After(2 * time.Second):
				}
				res, _ := shutdownWithin(srv, 0, 2*time.Second)
				c.Pred("lifecycle", "failed-start-then-shutdown", "packet conn, reader without ReadPacketConn", e1 != nil && res != "nil" && res != "blocked", fmt.Sprint(e1, " / ", res), "start error, then 'not started' error", true)
				pc.Close()
			}
		}
		// --- S5: context expiry with a stuck handler: ShutdownContext returns with the context's error, and the socket is
		//         closed all the same (its address can be bound again)
		for _, kind := range []string{"udp", "pc"} {
			p := &srvProbe{hold: make(chan struct{})}
			ls, err := startServer(kind, p)
			if err == nil {
				go query(ls.net, ls.addr, 7, 2*time.Second)
				for t := 0; t < 300 && atomic.LoadInt64(&p.enter) < 1; t++ {
					time.Sleep(time.Millisecond)
				}
				res, _ := shutdownWithin(ls.srv, 60*time.Millisecond, 3*time.Second)
				c.Pred("lifecycle", "context-expiry-returns", "stuck handler, "+kind, res == "ctx", res, "ctx", true)
				again, e2 := net.ListenPacket("udp", ls.addr)
				if e2 == nil {
					again.Close()
				}
				c.Pred("lifecycle", "socket-closed-after-context-expiry", "stuck handler, "+kind, e2 == nil, fmt.Sprint(e2), "the address can be bound again", true)
				close(p.hold)
				<-ls.serveCh
			}
		}
		// --- S6: forced interleaving — Shutdown between the started check and the deadline refresh
		c13Forced(c, round)
		c13AcceptRace(c, round)
	}
	// goroutines: everything the servers started has gone
	time.Sleep(300 * time.Millisecond)
	buf := make([]byte, 1<<20)
	buf = buf[:runtime.Stack(buf, true)]
	left := 0
	for _, g := range strings.Split(string(buf), "\n\n") {
		if strings.Contains(g, "miekg/dns.(*Server)") {
			left++
		}
	}
	_ = base
	c.Pred("leaks", "no-server-goroutine-left", fmt.Sprintf("%d rounds", rounds), left == 0, fmt.Sprint(left, " goroutines still inside dns.(*Server)"), "0", true)
	// TLS-style listener with pipelined queries
	c13TLSPipelined(c, c.R)
	c13OwnErrorListener(c)
}

// c13Forced: a PacketConn whose SetReadDeadline parks the reader at the refresh point; Shutdown is started
// while it is parked. With the refresh inside the RLock section Shutdown simply waits for the reader and then
// unblocks it; if the check and the refresh were separable the refreshed (future) deadline would survive and
// Shutdown would hang until the read timeout.
// sdAcceptListener: the first Accept starts Shutdown on another goroutine and hands the connection to the server
// only after Shutdown has closed the listener — the connection is accepted but was not tracked when Shutdown ran.
type sdAcceptListener struct {
	net.Listener
	srv      *dns.Server
	once     sync.Once
	cOnce    sync.Once
	closed   chan struct{}
	shutdown chan string
}

func (l *sdAcceptListener) Accept() (net.Conn, error) {
	c, err := l.Listener.Accept()
	if err != nil {
		return c, err
	}
	l.once.Do(func() {
		go func() { res, _ := shutdownWithin(l.srv, 0, 4*time.Second); l.shutdown <- res }()
		select {
		case <-l.closed:
		case <-time.After(3 * time.Second):
		}
	})
	return c, nil
}

func (l *sdAcceptListener) Close() error {
	l.cOnce.Do(func() { close(l.closed) })
	return l.Listener.Close()
}

// c13AcceptRace: an idle client's connection is accepted exactly while Shutdown runs; Shutdown and the serve call must
// still return and the connection must be closed by the server.
func c13AcceptRace(c *Ctx, round int) {
	inner, err := net.Listen("tcp", "127.0.0.1:0")
	if err != nil {
		return
	}
	p := &srvProbe{}
	srv := &dns.Server{Handler: p.handler(), ReadTimeout: time.Hour, WriteTimeout: time.Hour}
	l := &sdAcceptListener{Listener: inner, srv: srv, closed: make(chan struct{}), shutdown: make(chan string, 1)}
	srv.Listener = l
	st := make(chan struct{})
	srv.NotifyStartedFunc = func() { close(st) }
	done := make(chan error, 1)
	go func() { done <- srv.ActivateAndServe() }()
	<-st
	client, err := net.Dial("tcp", inner.Addr().String())
	if err != nil {
		shutdownWithin(srv, 0, 3*time.Second)
		return
	}
	defer client.Close()
	in := fmt.Sprintf("round=%d", round)
	res := "shutdown did not return"
	select {
	case res = <-l.shutdown:
	case <-time.After(5 * time.Second):
	}
	c.Pred("forced", "shutdown-returns-with-conn-accepted-meanwhile", in, res == "nil", res, "nil", true)
	serveRes := "serve did not return"
	select {
	case e := <-done:
		serveRes = fmt.Sprint(e)
	case <-time.After(3 * time.Second):
	}
	c.Pred("forced", "serve-returns-nil-after-accept-race", in, serveRes == "<nil>", serveRes, "<nil>", true)
	client.SetReadDeadline(time.Now().Add(2 * time.Second))
	_, rerr := client.Read(make([]byte, 1))
	c.Pred("forced", "accepted-conn-closed-after-shutdown", in, rerr == io.EOF, fmt.Sprint(rerr), "EOF", true)
}

func c13Forced(c *Ctx, round int) {
	pc, err := net.ListenPacket("udp", "127.0.0.1:0")
	if err != nil {
		return
	}
	var armed int32
	parked := make(chan struct{}, 1)
	release := make(chan struct{})
	w := &wrapPC{PacketConn: pc}
	w.onDeadline = func(t time.Time) {
		if t.After(time.Now()) && atomic.CompareAndSwapInt32(&armed, 1, 2) {
			parked <- struct{}{}
			<-release
		}
	}
	p := &srvProbe{}
	srv := &dns.Server{PacketConn: w, Handler: p.handler(), ReadTimeout: 4 * time.Second}
	st := make(chan struct{})
	srv.NotifyStartedFunc = func() { close(st) }
	done := make(chan error, 1)
	go func() { done <- srv.ActivateAndServe() }()
	<-st
	// one query makes the loop come round to the refresh point again, now armed
	atomic.StoreInt32(&armed, 1)
	query("udp", pc.LocalAddr().String(), 5, time.Second)
	select {
	case <-parked:
	case <-time.After(2 * time.Second):
		close(release)
		shutdownWithin(srv, 0, 5*time.Second)
		return
	}
	sd := make(chan string, 1)
	go func() { res, _ := shutdownWithin(srv, 1500*time.Millisecond, 6*time.Second); sd <- res }()
	time.Sleep(40 * time.Millisecond)
	close(release)
	res := <-sd
	c.Pred("forced", "shutdown-not-delayed-by-deadline-refresh", fmt.Sprintf("round=%d", round), res == "nil", res, "nil (prompt)", true)
	select {
	case <-done:
	case <-time.After(5 * time.Second):
	}
}


// ownErrListener: a listener that reports an error of its own from Accept once it is closed (as TLS-style wrappers and
// in-memory listeners do), not net.ErrClosed.
type ownErrListener struct {
	net.Listener
	closed int32
}

var errOwnClosed = fmt.Errorf("verif listener: closed")

func (l *ownErrListener) Accept() (net.Conn, error) {
	c, err := l.Listener.Accept()
	if err != nil && atomic.LoadInt32(&l.closed) == 1 {
		return nil, errOwnClosed
	}
	return c, err
}
func (l *ownErrListener) Close() error {
	atomic.StoreInt32(&l.closed, 1)
	return l.Listener.Close()
}

// c13OwnErrorListener: after Shutdown the blocked serve call returns nil whatever error the closed listener reports.
func c13OwnErrorListener(c *Ctx) {
	for _, variant := range []string{"tcp-wrapped", "pipe"} {
		var l net.Listener
		if variant == "tcp-wrapped" {
			inner, err := net.Listen("tcp", "127.0.0.1:0")
			if err != nil {
				continue
			}
			l = &ownErrListener{Listener: inner}
		} else {
			l = &ownErrListener{Listener: newPipeListener()}
		}
		p := &srvProbe{}
		srv := &dns.Server{Handler: p.handler(), Listener: l, ReadTimeout: time.Second}
		st := make(chan struct{})
		srv.NotifyStartedFunc = func() { close(st) }
		done := make(chan error, 1)
		go func() { done <- srv.ActivateAndServe() }()
		select {
		case <-st:
		case <-time.After(2 * time.Second):
			continue
		}
		res, _ := shutdownWithin(srv, 0, 3*time.Second)
		c.Pred("lifecycle", "shutdown-returns-nil", "listener="+variant, res == "nil", res, "nil", true)
		serveRes := "serve did not return"
		select {
		case e := <-done:
			serveRes = fmt.Sprint(e)
		case <-time.After(3 * time.Second):
		}
		c.Pred("lifecycle", "serve-returns-nil-own-listener-error", "listener="+variant, serveRes == "<nil>", serveRes, "<nil>", true)
	}
}

// onlyPacketConn hides the concrete type of a UDP socket: the server has to treat it as a generic net.PacketConn.
type onlyPacketConn struct{ net.PacketConn }

// plainReader wraps a Reader without passing on its ReadPacketConn method.
type plainReader struct{ dns.Reader }
