/-
  DnsModel.Labels — mirrors labels.go (NextLabel, PrevLabel, Split, SplitDomainName, CountLabel,
  CompareDomainName, equal), defaults.go (IsSubDomain) and dnsutil/util.go (AddOrigin,
  TrimDomainName) over byte strings, index for index.
-/
import DnsModel.Name

namespace Dns

/-- number of consecutive backslashes immediately before index `i` (the `j` scan) -/
def bsRun (s : Bytes) : Nat → Nat
  | 0 => 0
  | i + 1 => if s.getD i 0 == 92 then bsRun s i + 1 else 0

/-- `s[i]` is a label-separating dot: a `.` preceded by an even run of backslashes -/
def isSepDot (s : Bytes) (i : Nat) : Bool := s.getD i 0 == 46 && bsRun s i % 2 == 0

/-- the `for i = offset; i < len(s)-1; i++` loop of `NextLabel`, with fuel `len(s)-1-i` -/
def nextLabelLoop (s : Bytes) : (fuel : Nat) → (i : Nat) → Nat × Bool
  | 0, i => (i + 1, true)
  | f + 1, i => if isSepDot s i then (i + 1, false) else nextLabelLoop s f (i + 1)

def nextLabel (s : Bytes) (offset : Nat) : Nat × Bool :=
  if s.isEmpty then (0, true)
  else nextLabelLoop s (s.length - 1 - offset) offset

/-- `Split` -/
def splitLoop (s : Bytes) : (fuel : Nat) → (off : Nat) → List Nat → List Nat
  | 0, _, acc => acc.reverse
  | f + 1, off, acc =>
    let (o, e) := nextLabel s off
    if e then acc.reverse else splitLoop s f o (o :: acc)

def split (s : Bytes) : List Nat :=
  if s = [46] then [] else splitLoop s (s.length + 1) 0 [0]

/-- `CountLabel` -/
def countLoop (s : Bytes) : (fuel : Nat) → (off : Nat) → Nat → Nat
  | 0, _, n => n
  | f + 1, off, n =>
    let (o, e) := nextLabel s off
    if e then n + 1 else countLoop s f o (n + 1)

def countLabel (s : Bytes) : Nat :=
  if s = [46] then 0 else countLoop s (s.length + 1) 0 0

/-- `PrevLabel`: the loop runs `l` downwards; `l1 = l + 1` so that `0` means "l < 0". -/
def prevLabelLoop (s : Bytes) : (l1 : Nat) → (n : Nat) → Nat × Bool
  | 0, n => (0, n > 1)
  | l + 1, n =>
    if n = 0 then (0, n > 1)
    else if isSepDot s l then
      if n - 1 = 0 then (l + 1, false) else prevLabelLoop s l (n - 1)
    else prevLabelLoop s l n

def prevLabel (s : Bytes) (n : Nat) : Nat × Bool :=
  if s.isEmpty then (0, true)
  else if n = 0 then (s.length, false)
  else
    let l := s.length - 1
    let l1 := if s.getD l 0 == 46 then l else l + 1   -- `if s[l]=='.' { l-- }`, as l+1
    prevLabelLoop s l1 n

/-- `equal` -/
def equalFold (a b : Bytes) : Bool := a.length == b.length && lowerAll a == lowerAll b

def sliceFT (s : Bytes) (a b : Nat) : Bytes := (s.drop a).take (b - a)

/-- `SplitDomainName` -/
def splitDomainName (s : Bytes) : List Bytes :=
  if s.isEmpty then []
  else
    let idx := split s
    let fqdnEnd := if isFqdn s then s.length - 1 else s.length
    match idx with
    | [] => []
    | _ :: tl =>
      let rec go (begin : Nat) : List Nat → List Bytes
        | [] => [sliceFT s begin fqdnEnd]
        | e :: es => sliceFT s begin (e - 1) :: go e es
      go 0 tl

/-- `CompareDomainName`, as the loop over the two index lists from the right. -/
def compareLoop (s1 s2 : Bytes) : (fuel : Nat) → (r1 r2 : List Nat) → (j1 j2 : Nat) → Nat → Nat
  | 0, _, _, _, _, n => n
  | f + 1, i1 :: r1, i2 :: r2, j1, j2, n =>
    if equalFold (sliceFT s1 i1 j1) (sliceFT s2 i2 j2) then compareLoop s1 s2 f r1 r2 i1 i2 (n + 1) else n
  | _ + 1, _, _, _, _, n => n

def compareDomainName (s1 s2 : Bytes) : Nat :=
  if s1 = [46] || s2 = [46] then 0
  else
    let l1 := (split s1).reverse
    let l2 := (split s2).reverse
    match l1, l2 with
    | j1 :: r1, j2 :: r2 =>
      if equalFold (s1.drop j1) (s2.drop j2) then
        compareLoop s1 s2 (s1.length + 1) r1 r2 j1 j2 1
      else 0
    | _, _ => 0   -- Go would panic (index -1); only for s = "" which Split never returns empty for

def isSubDomain (parent child : Bytes) : Bool :=
  compareDomainName parent child == countLabel parent

/-! ### dnsutil -/

/-- `dnsutil.AddOrigin` -/
def addOrigin (s origin : Bytes) : Bytes :=
  if isFqdn s then s
  else if origin.isEmpty then s
  else if s = [64] || s.isEmpty then origin
  else if origin = [46] then fqdn s
  else s ++ [46] ++ origin

/-- `dnsutil.TrimDomainName` -/
def trimDomainName (s origin : Bytes) : Option Bytes :=
  if s.isEmpty then some [64]
  else if origin = [46] then some (if s.getLast? == some 46 then s.dropLast else s)
  else
    let original := s
    let s := fqdn s
    let origin := fqdn origin
    if !isSubDomain origin s then some original
    else
      let sl := split s
      let ol := split origin
      let m := compareDomainName s origin
      if ol.length == m && (ol.length == sl.length ||
          (s.getD 0 0 == 46 && sl.length == ol.length + 1)) then some [64]
      else if m = 0 ∨ sl.getD (sl.length - m) 0 = 0 then none   -- Go: index / slice bound out of range
      else some (s.take (sl.getD (sl.length - m) 0 - 1))

/-! ### independent specification over label lists -/

def foldLabel (l : Bytes) : Bytes := lowerAll l

/-- number of common trailing labels, ASCII-case-insensitively -/
def commonSuffixLen : List Bytes → List Bytes → Nat
  | a :: as, b :: bs => if foldLabel a == foldLabel b then commonSuffixLen as bs + 1 else 0
  | _, _ => 0

def commonSuffix (a b : List Bytes) : Nat := commonSuffixLen a.reverse b.reverse

end Dns
