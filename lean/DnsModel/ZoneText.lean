/-
  DnsModel.ZoneText — from the lexer's token stream to the abstract tokens of the header machine (DnsModel/Zone.lean),
  and the header-level reading of a whole zone text:  text → `Lex.lexAll` → `absTokens` → `zrun`.

  `ZoneParser.Next` hands the tokens after the type to the type's RDATA parser, which reads up to the end of the
  entry; the header machine sees that as one pseudo-token.  `$TTL` / `$ORIGIN` lines are one abstract token each
  (directive, blank, value, optional blank, end of line — `slurpRemainder`).  `$INCLUDE` / `$GENERATE` are not part of
  this reading.
-/
import DnsModel.Lexer
import DnsModel.Zone
namespace Dns.ZoneText
open Dns Dns.Lex

/-- where the conversion is within an entry -/
inductive Mode where
  | hdr                       -- owner / TTL / class / type position
  | afterTyp                  -- the type has been read
  | rdata                     -- inside the RDATA: everything up to the end of the entry
  | dir (ttl : Bool) (step : Nat) (val : Bytes)   -- `$TTL` (true) or `$ORIGIN` (false): 0 = expect blank, 1 = expect value, 2 = expect end of line
deriving Repr, DecidableEq

/-- an abstract token that stops the header machine in every state -/
def bad : ZTok := .str none

def dirTok (ttl : Bool) (val : Bytes) : ZTok := if ttl then .dirTTL (stringToTTL val) else .dirOrigin val

def absTokens : Mode → List Tok → List ZTok
  | .hdr, [] => []
  | .afterTyp, [] => [.rdata]          -- type at the very end: the RDATA parser sees the end of input (dynamic update form)
  | .rdata, [] => [.rdata]
  | .dir ttl step val, [] => if step = 2 then [dirTok ttl val] else [bad]
  | m, t :: ts =>
    if t.err then [bad]
    else match m with
    | .hdr =>
      if t.value = zOwner then .owner t.token :: absTokens .hdr ts
      else if t.value = zBlank then .blank :: absTokens .hdr ts
      else if t.value = zString then .str (stringToTTL t.token) :: absTokens .hdr ts
      else if t.value = zClass then .cls t.torc :: absTokens .hdr ts
      else if t.value = zRrtpe then .typ t.torc :: absTokens .afterTyp ts
      else if t.value = zNewline then .nl :: absTokens .hdr ts
      else if t.value = zDirTTL then absTokens (.dir true 0 []) ts
      else if t.value = zDirOrigin then absTokens (.dir false 0 []) ts
      else [bad]
    | .afterTyp =>
      if t.value = zBlank then .blank :: absTokens .rdata ts
      else [bad]
    | .rdata =>
      if t.value = zNewline then .rdata :: absTokens .hdr ts else absTokens .rdata ts
    | .dir ttl step val =>
      if step = 0 then (if t.value = zBlank then absTokens (.dir ttl 1 []) ts else [bad])
      else if step = 1 then (if t.value = zString then absTokens (.dir ttl 2 t.token) ts else [bad])
      else if t.value = zBlank then absTokens (.dir ttl 2 val) ts
      else if t.value = zNewline then dirTok ttl val :: absTokens .hdr ts
      else [bad]

/-- the headers of the records a zone text denotes, as the parser reads it (`true` = stopped at an error) -/
def readZone (origin : Bytes) (defttl : Option Nat) (text : Bytes) : List ZHdr × Bool :=
  zrun (absTokens .hdr ((lexAll text).map (·.1))) .ownerDir ⟨origin, ⟨[], 0, 1, 0⟩, defttl.map (fun v => (v, false))⟩ []

end Dns.ZoneText
