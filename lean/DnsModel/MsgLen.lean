/-
  DnsModel.MsgLen — `Msg.Len()` as a whole (msg.go: Len, msgLenWithCompressionMap; the per-type `len()` methods through
  their generated translation, DnsModel/Generated/LenPlans.lean), on decoded messages: the fields of each record as
  Go holds them after `Unpack` (character-strings escaped, blobs as hex / base64 / base32 text, names as text), the
  running offset, and — with `Compress` — the set of name suffixes seen so far threaded through questions and records.
-/
import DnsModel.LenModel
import DnsModel.MsgUnpack
import DnsModel.Text
import DnsModel.Options
namespace Dns.Len
open Dns Dns.MU

/-- a Go string of `n` characters whose content does not matter (hex / base64 / base32 text of a blob) -/
def filler (n : Nat) : Bytes := List.replicate n 65

/-- `strings.ReplaceAll(s, "\\", "\\\\")` (unpackStringOctet) -/
def doubleBackslash (b : Bytes) : Bytes := b.flatMap (fun x => if x = 92 then [92, 92] else [x])

/-- the struct fields an unpack step fills, from the wire-level value the decoder model holds -/
def fieldsOfStep (kind : String) (st : String × String × String × String) (v : Val) : Option Fields :=
  let codec := st.1
  let field := st.2.1
  if codec = "unpackIPSECGateway" then
    -- the gateway of IPSECKEY / AMTRELAY fills two fields: an address or a host name
    match v with
    | .b bs => some [("GatewayAddr", .ip bs), ("GatewayHost", .s [])]
    | .t text => some [("GatewayAddr", .ip []), ("GatewayHost", .s text)]
    | _ => none
  else
  match v with
  | .n x => some [(field, .n x)]
  | .b bs =>
    if codec = "unpackDataA" ∨ codec = "unpackDataAAAA" then some [(field, .ip bs)]
    else if codec = "unpackString" then some [(field, .s (txtEscape bs))]
    else if codec = "unpackStringOctet" then some [(field, .s (doubleBackslash bs))]
    else if codec = "unpackStringHex" then some [(field, .s (filler (2 * bs.length)))]
    else if codec = "unpackStringBase64" then some [(field, .s (filler ((bs.length + 2) / 3 * 4)))]
    else if codec = "unpackStringBase32" then some [(field, .s (filler ((8 * bs.length + 4) / 5)))]
    else if codec = "unpackStringAny" then some [(field, .s bs)]
    else none
  | .t text => some [(field, .s text)]
  | .ss strs => some [(field, .ss (strs.map txtEscape))]
  | .ts types => some [(field, .ts types)]
  | .ns names => some [(field, .ss names)]
  | .ap items =>
    -- APLPrefix.len(): the 4-octet header and the octets the prefix length covers (trailing zeros are not trimmed away
    -- here as they are on the wire: an upper bound)
    some [(field, .n ((items.map (fun it => 4 + (it.1 + 7) / 8)).sum))]
  | .kv items =>
    if kind = "OPT" then
      -- `lo, _ := o.pack(); l += 4 + len(lo)`: an option whose pack fails counts as empty
      some [(field, .n ((items.map (fun x => 4 + (match (Opt.unpackOpt x.1 x.2).bind Opt.packOpt with
        | some d => d.length
        | none => 0))).sum))]
    else
      -- SVCB / HTTPS: `4 + x.len()`; for a value that came off the wire `x.len()` is the length of its octets
      some [(field, .n ((items.map (fun x => 4 + x.2.length)).sum))]

def fieldsOfRR (r : RRm) : Option Fields :=
  match r.body with
  | none => some []
  | some vals =>
    match Gen.unpackPlans.lookup r.kind with
    | none => none
    | some steps =>
      let steps' := steps.filter (fun s => s.1 != "earlyexit")
      if steps'.length = vals.length then
        ((steps'.zip vals).mapM (fun p => fieldsOfStep r.kind p.1 p.2)).map List.flatten
      else none

/-- one `len()` step at absolute offset `off` with the set of suffixes `c` (`none`: no compression map) -/
def stepLenC (fs : Fields) (off : Nat) (c : Option (List Bytes)) : LStep → Option (Nat × Option (List Bytes))
  | .name f cp => let r := domainNameLen (fstr fs f) off c cp; some (r.1, r.2)
  | .names f cp =>
    some ((fstrs fs f).foldl (fun (a : Nat × Option (List Bytes)) x =>
      let r := domainNameLen x (off + a.1) a.2 cp; (a.1 + r.1, r.2)) (0, c))
  | .apl f => some (fnat fs f, c)
  | .svcb f => some (fnat fs f, c)
  | s => (stepLen fs off s).map (fun k => (k, c))

def planLenC (fs : Fields) (off : Nat) : Nat → Option (List Bytes) → List LStep → Option (Nat × Option (List Bytes))
  | l, c, [] => some (l, c)
  | l, c, s :: rest => (stepLenC fs (off + l) c s).bind (fun r => planLenC fs off (l + r.1) r.2 rest)

/-- `rr.len(off, compression)` -/
def lenRRC (off : Nat) (c : Option (List Bytes)) (r : RRm) : Option (Nat × Option (List Bytes)) :=
  let h := domainNameLen r.name off c true
  let plan := if r.kind = "OPT" then some [LStep.svcb "Option"] else planOf r.kind
  match plan, fieldsOfRR r with
  | some p, some fs => planLenC fs off (h.1 + 10) h.2 p
  | _, _ => none

def lenSection : Nat → Option (List Bytes) → List RRm → Option (Nat × Option (List Bytes))
  | l, c, [] => some (l, c)
  | l, c, r :: rs => (lenRRC l c r).bind (fun q => lenSection (l + q.1) q.2 rs)

/-- `Msg.Len()` of a decoded message with `Compress` as given -/
def lenMsg (m : MsgM) (compress : Bool) : Option Nat :=
  let compressible := decide (m.question.length > 1) || !m.answer.isEmpty || !m.ns.isEmpty || !m.extra.isEmpty
  let c0 : Option (List Bytes) := if compress && compressible then some [] else none
  let q := m.question.foldl (fun (a : Nat × Option (List Bytes)) q =>
    let r := domainNameLen q.name a.1 a.2 true; (a.1 + r.1 + 4, r.2)) (12, c0)
  (lenSection q.1 q.2 m.answer).bind (fun a => (lenSection a.1 a.2 m.ns).bind (fun n =>
    (lenSection n.1 n.2 m.extra).map (·.1)))

/-- `r.len(off, compression)` of a question or a record, as `Truncate` calls it (a record outside the length algebra
    counts as nothing: callers check `lenRRC` first) -/
def lenItem (c : Option (List Bytes)) (off : Nat) (r : Sum Qm RRm) : Nat × Option (List Bytes) :=
  match r with
  | .inl q => ((domainNameLen q.name off c true).1 + 4, (domainNameLen q.name off c true).2)
  | .inr rr => (lenRRC off c rr).getD (0, c)

end Dns.Len
