package main

import (
	"crypto/ed25519"
	"fmt"
	"net"
	"reflect"
	"strings"
	"time"

	"github.com/miekg/dns"
)

func init() { props["C16"] = runC16 }

// maskBookkeeping clears the documented bookkeeping fields before a before/after comparison:
// RDLENGTH in every header and the extended-RCODE octet of an OPT record's TTL.
func maskBookkeeping(x interface{}) {
	var rrs []dns.RR
	switch v := x.(type) {
	case *dns.Msg:
		rrs = append(append(append(rrs, v.Answer...), v.Ns...), v.Extra...)
	case dns.RR:
		rrs = []dns.RR{v}
	case []dns.RR:
		rrs = v
	}
	for _, rr := range rrs {
		if rr == nil {
			continue
		}
		rr.Header().Rdlength = 0
		if rr.Header().Rrtype == dns.TypeOPT {
			rr.Header().Ttl &= 0x00FFFFFF
		}
	}
}

func sameAfter(before, after interface{}) bool {
	b, a := snapshot(before), snapshot(after)
	maskBookkeeping(b)
	maskBookkeeping(a)
	return reflect.DeepEqual(b, a)
}

func c16RR(c *Ctx, stream string, rr dns.RR, in string) {
	tn := dns.Type(rr.Header().Rrtype).String()
	// copy is deep: no shared region, and scribbling over the copy leaves the original intact
	cp := dns.Copy(rr)
	ov := overlap(rangesOf(rr), rangesOf(cp))
	c.Pred(stream, "copy-no-shared-memory:"+tn, in, ov == "", ov, "disjoint", true)
	snap := snapshot(rr)
	scribble(reflect.ValueOf(cp), map[uintptr]bool{})
	c.Pred(stream, "copy-write-invisible:"+tn, in, reflect.DeepEqual(rr, snap), "original changed after writing through the copy", "unchanged", true)
	// and the other direction
	cp2 := dns.Copy(rr)
	snap2 := snapshot(cp2)
	orig2 := snapshot(rr).(dns.RR)
	cp3 := dns.Copy(orig2)
	scribble(reflect.ValueOf(orig2), map[uintptr]bool{})
	c.Pred(stream, "orig-write-invisible:"+tn, in, reflect.DeepEqual(cp3, snap2), "copy changed after writing through the original", "unchanged", true)
	// read-only operations
	before := snapshot(rr)
	_ = rr.String()
	_ = dns.Len(rr)
	_ = dns.IsDuplicate(rr, cp2)
	_ = dns.Copy(rr)
	buf := make([]byte, dns.Len(rr)+64)
	_, _ = dns.PackRR(rr, buf, 0, nil, false)
	c.Pred(stream, "readonly-ops:"+tn, in, sameAfter(before, rr), "record changed by String/Len/IsDuplicate/Copy/PackRR: "+rr.String(), "unchanged", true)
}

func c16Msg(c *Ctx, stream string, wire []byte) {
	in := "msg=" + hx(wire)
	buf := append([]byte{}, wire...)
	m := new(dns.Msg)
	if err := m.Unpack(buf); err != nil {
		return
	}
	// decoded message aliases no part of the input buffer
	ov := overlap(rangesOf(m), bufRange(buf))
	c.Pred(stream, "unpack-no-alias", in, ov == "", ov, "disjoint", true)
	snap := snapshot(m)
	for i := range buf {
		buf[i] ^= 0xFF
	}
	buf = append(buf[:0], make([]byte, cap(buf))...)
	c.Pred(stream, "unpack-buffer-scribble", in, reflect.DeepEqual(m, snap), "decoded message changed when the input buffer was overwritten", "unchanged", true)
	// Msg.Copy is deep
	cp := m.Copy()
	ov = overlap(rangesOf(m), rangesOf(cp))
	c.Pred(stream, "msgcopy-no-shared-memory", in, ov == "", ov, "disjoint", true)
	scribble(reflect.ValueOf(cp), map[uintptr]bool{})
	c.Pred(stream, "msgcopy-write-invisible", in, reflect.DeepEqual(m, snap), "original changed after writing through the copy", "unchanged", true)
	// Msg.CopyTo: into a fresh message, into a recycled one, into one that already shares the source's slices
	for vi, mk := range []func() *dns.Msg{
		func() *dns.Msg { return new(dns.Msg) },
		func() *dns.Msg {
			d := new(dns.Msg)
			d.SetQuestion("recycled.example.", dns.TypeMX)
			d.Question = append(d.Question, dns.Question{Name: "second.example.", Qtype: 1, Qclass: 1})
			d.Answer = []dns.RR{&dns.A{Hdr: dns.RR_Header{Name: "old.example.", Rrtype: dns.TypeA, Class: 1}, A: []byte{1, 2, 3, 4}}}
			return d
		},
		func() *dns.Msg { d := *m; return &d },
	} {
		src := snapshot(m).(*dns.Msg)
		srcSnap := snapshot(src)
		var dst *dns.Msg
		if vi == 2 {
			d := *src
			dst = &d
		} else {
			dst = mk()
		}
		out := src.CopyTo(dst)
		c.Pred(stream, "copyto-leaves-source", fmt.Sprintf("%s variant=%d", in, vi), reflect.DeepEqual(src, srcSnap), "source changed by CopyTo", "unchanged", true)
		ov = overlap(rangesOf(src), rangesOf(out))
		c.Pred(stream, "copyto-no-shared-memory", fmt.Sprintf("%s variant=%d", in, vi), ov == "", ov, "disjoint", true)
		scribble(reflect.ValueOf(out), map[uintptr]bool{})
		c.Pred(stream, "copyto-write-invisible", fmt.Sprintf("%s variant=%d", in, vi), reflect.DeepEqual(src, srcSnap), "source changed after writing through the copy", "unchanged", true)
	}
	// read-only operations on the message
	before := snapshot(m)
	for _, comp := range []bool{false, true} {
		m.Compress = comp
		_, _ = m.Pack()
		_ = m.Len()
		_ = m.String()
		_ = m.Copy()
	}
	m.Compress = before.(*dns.Msg).Compress
	c.Pred(stream, "msg-readonly-ops", in, sameAfter(before, m), "message changed by Pack/Len/String/Copy", "unchanged", true)
}

func runC16(c *Ctx) {
	r := c.R
	t := loadSpec()
	types := t.wireTypes()
	c.Res.Rule = "records of every type decoded from generated wire data and parsed from text, whole messages incl. OPT options, SVCB parameters, APL prefixes; every slice/map/pointer of the object graph is compared by address range; non-trivial = always; distinct by content"
	per := c.Scale(40, 800)
	for _, typ := range types {
		for i := 0; i < per; i++ {
			g := genRR(r, typ, r.Intn(2), r.Bool())
			rr, _, err := dns.UnpackRR(append([]byte{}, g.Wire...), 0)
			if err != nil {
				continue
			}
			c16RR(c, "from-wire", rr, "rr="+hx(g.Wire))
			// the same record from text (different in-memory shapes: unsorted SVCB parameters, spare capacity)
			if i%4 == 0 {
				txt := rr.String()
				if typ == dns.TypeSVCB || typ == dns.TypeHTTPS {
					txt = shuffleSvcParams(r, txt)
				}
				if rr2, err := dns.NewRR(txt); err == nil && rr2 != nil {
					c16RR(c, "from-text", rr2, "text="+txt)
				}
			}
		}
	}
	// records with empty-but-allocated slices and options built by hand
	hand := []dns.RR{
		&dns.TXT{Hdr: dns.RR_Header{Name: "a.", Rrtype: dns.TypeTXT, Class: 1}, Txt: make([]string, 0, 4)},
		&dns.NSEC{Hdr: dns.RR_Header{Name: "a.", Rrtype: dns.TypeNSEC, Class: 1}, NextDomain: "b.", TypeBitMap: make([]uint16, 0, 8)},
		&dns.A{Hdr: dns.RR_Header{Name: "a.", Rrtype: dns.TypeA, Class: 1}, A: make([]byte, 4, 16)},
		&dns.HIP{Hdr: dns.RR_Header{Name: "a.", Rrtype: dns.TypeHIP, Class: 1}, RendezvousServers: make([]string, 1, 3)},
	}
	opt := &dns.OPT{Hdr: dns.RR_Header{Name: ".", Rrtype: dns.TypeOPT}}
	opt.Option = []dns.EDNS0{
		&dns.EDNS0_SUBNET{Code: dns.EDNS0SUBNET, Family: 1, SourceNetmask: 24, Address: []byte{10, 0, 0, 0}},
		&dns.EDNS0_DAU{Code: dns.EDNS0DAU, AlgCode: []uint8{8, 13}},
		&dns.EDNS0_DHU{Code: dns.EDNS0DHU, AlgCode: []uint8{1, 2}},
		&dns.EDNS0_N3U{Code: dns.EDNS0N3U, AlgCode: []uint8{1}},
		&dns.EDNS0_LOCAL{Code: 65001, Data: []byte{1, 2, 3}},
		&dns.EDNS0_PADDING{Padding: make([]byte, 0, 8)},
		&dns.EDNS0_NSID{Code: dns.EDNS0NSID, Nsid: "aa"},
		&dns.EDNS0_COOKIE{Code: dns.EDNS0COOKIE, Cookie: "0011223344556677"},
		&dns.EDNS0_EDE{InfoCode: 1, ExtraText: "x"},
	}
	hand = append(hand, opt)
	// addresses with bits set beyond the prefix: the packers mask them on the way out, the record keeps them
	hand = append(hand,
		&dns.APL{Hdr: dns.RR_Header{Name: "a.", Rrtype: dns.TypeAPL, Class: 1}, Prefixes: []dns.APLPrefix{
			{Network: net.IPNet{IP: net.IP{10, 255, 0, 0}, Mask: net.CIDRMask(12, 32)}},
			{Negation: true, Network: net.IPNet{IP: net.IP{192, 168, 77, 255}, Mask: net.CIDRMask(17, 32)}},
			{Network: net.IPNet{IP: net.ParseIP("2001:db8:ffff:ffff::1").To16(), Mask: net.CIDRMask(35, 128)}}}},
		&dns.OPT{Hdr: dns.RR_Header{Name: ".", Rrtype: dns.TypeOPT}, Option: []dns.EDNS0{
			&dns.EDNS0_SUBNET{Code: dns.EDNS0SUBNET, Family: 1, SourceNetmask: 20, Address: net.IP{10, 9, 255, 7}},
			&dns.EDNS0_SUBNET{Code: dns.EDNS0SUBNET, Family: 2, SourceNetmask: 41, Address: net.ParseIP("2001:db8:ffff:ffff:ffff::").To16()}}})
	// the same shapes as they come off the wire (the decoder accepts host bits inside the last octet)
	for _, rd := range [][]byte{{0, 1, 12, 2, 10, 255}, {0, 1, 17, 0x83, 192, 168, 255}, {0, 2, 35, 5, 0x20, 0x01, 0x0d, 0xb8, 0xff}} {
		w := assembleRR([][]byte{[]byte("a")}, dns.TypeAPL, 1, 60, rd)
		if rr, _, err := dns.UnpackRR(w, 0); err == nil {
			hand = append(hand, rr)
		}
	}
	for _, rr := range hand {
		c16RR(c, "hand-built", rr, "go="+fmt.Sprintf("%T", rr))
	}
	// SVCB / HTTPS with parameters in every order (text order is kept in memory; Pack must not reorder it)
	svcParams := []string{"alpn=h2,h3", "port=8443", "ipv4hint=192.0.2.1,192.0.2.2", "ipv6hint=2001:db8::1", "no-default-alpn", "key667=hello", "ech=AAEC", "dohpath=/q{?dns}", "mandatory=alpn,port"}
	for i := 0; i < c.Scale(200, 4000); i++ {
		k := 2 + r.Intn(4)
		perm := append([]string{}, svcParams...)
		for a := len(perm) - 1; a > 0; a-- {
			b := r.Intn(a + 1)
			perm[a], perm[b] = perm[b], perm[a]
		}
		sel := perm[:k]
		hasMand := false
		for _, p := range sel {
			if strings.HasPrefix(p, "mandatory") {
				hasMand = true
			}
		}
		if hasMand {
			sel = append(sel, "alpn=h2", "port=1")
			seen := map[string]bool{}
			var u []string
			for _, p := range sel {
				key := strings.SplitN(p, "=", 2)[0]
				if !seen[key] {
					seen[key] = true
					u = append(u, p)
				}
			}
			sel = u
			// the mandatory list itself in any order (it is kept as written; packing sorts a copy)
			var keys []string
			for _, p := range sel {
				key := strings.SplitN(p, "=", 2)[0]
				if key != "mandatory" && key != "no-default-alpn" {
					keys = append(keys, key)
				}
			}
			for a := len(keys) - 1; a > 0; a-- {
				b := r.Intn(a + 1)
				keys[a], keys[b] = keys[b], keys[a]
			}
			keys = keys[:1+r.Intn(len(keys))]
			for i2, p := range sel {
				if strings.HasPrefix(p, "mandatory") {
					sel[i2] = "mandatory=" + strings.Join(keys, ",")
				}
			}
		}
		txt := fmt.Sprintf("svc.example. 3600 IN %s 1 target.example. %s", []string{"SVCB", "HTTPS"}[r.Intn(2)], strings.Join(sel, " "))
		rr, err := dns.NewRR(txt)
		if err != nil || rr == nil {
			c.Hit("svcb-text:rejected")
			continue
		}
		c.Hit("svcb-text:ok")
		c16RR(c, "svcb-orders", rr, "text="+txt)
		m := new(dns.Msg)
		m.Answer = []dns.RR{rr}
		before := snapshot(m)
		_, _ = m.Pack()
		c.Pred("svcb-orders", "msg-readonly-ops", "text="+txt, sameAfter(before, m), "message changed by Pack: "+rr.String(), "unchanged", true)
	}
	// records built through the API in shapes no decoder produces: IPv4 addresses held in 16 octets, masks of the other
	// family's length, host bits set, addresses of the wrong length — the read-only operations (PackRR may refuse some of
	// them) leave every one as it was
	{
		v4in16 := net.ParseIP("192.0.2.77") // 16 octets
		v4 := net.IP{192, 0, 2, 77}
		v6 := net.ParseIP("2001:db8::4d")
		hdr := func(t uint16) dns.RR_Header { return dns.RR_Header{Name: "hand.example.", Rrtype: t, Class: 1, Ttl: 60} }
		var built []dns.RR
		for _, ip := range []net.IP{v4, v4in16, v6, nil, {1, 2, 3}} {
			for _, mask := range []net.IPMask{net.CIDRMask(20, 32), net.CIDRMask(20, 128), net.CIDRMask(116, 128), net.CIDRMask(0, 32), nil} {
				built = append(built, &dns.APL{Hdr: hdr(dns.TypeAPL), Prefixes: []dns.APLPrefix{{Negation: false, Network: net.IPNet{IP: append(net.IP{}, ip...), Mask: append(net.IPMask{}, mask...)}}}})
			}
			built = append(built, &dns.A{Hdr: hdr(dns.TypeA), A: append(net.IP{}, ip...)}, &dns.AAAA{Hdr: hdr(dns.TypeAAAA), AAAA: append(net.IP{}, ip...)},
				&dns.L32{Hdr: hdr(dns.TypeL32), Preference: 1, Locator32: append(net.IP{}, ip...)})
			for _, fam := range []uint16{1, 2, 3} {
				opt := &dns.OPT{Hdr: dns.RR_Header{Name: ".", Rrtype: dns.TypeOPT, Class: 1232}}
				opt.Option = append(opt.Option, &dns.EDNS0_SUBNET{Code: dns.EDNS0SUBNET, Family: fam, SourceNetmask: 20, Address: append(net.IP{}, ip...)})
				built = append(built, opt)
			}
			built = append(built, &dns.SVCB{Hdr: hdr(dns.TypeSVCB), Priority: 1, Target: ".", Value: []dns.SVCBKeyValue{&dns.SVCBIPv4Hint{Hint: []net.IP{append(net.IP{}, ip...)}}, &dns.SVCBIPv6Hint{Hint: []net.IP{append(net.IP{}, ip...)}}}},
				&dns.IPSECKEY{Hdr: hdr(dns.TypeIPSECKEY), Precedence: 1, GatewayType: 1, Algorithm: 2, GatewayAddr: append(net.IP{}, ip...), PublicKey: "YWJj"},
				&dns.IPSECKEY{Hdr: hdr(dns.TypeIPSECKEY), Precedence: 1, GatewayType: 2, Algorithm: 2, GatewayAddr: append(net.IP{}, ip...), PublicKey: "YWJj"},
				&dns.AMTRELAY{Hdr: hdr(dns.TypeAMTRELAY), Precedence: 1, GatewayType: 1, GatewayAddr: append(net.IP{}, ip...)})
		}
		for i, rr := range built {
			c16RR(c, "hand-built", rr, fmt.Sprintf("hand-built #%d %T", i, rr))
		}
	}
	// whole messages
	n := c.Scale(1500, 30000)
	for i := 0; i < n; i++ {
		g := genMsg(r, msgOpts{mode: r.Intn(2), pool: r.Bool(), maxAn: 4, maxNs: 2, maxEx: 3, optPct: 60})
		c16Msg(c, "messages", g.Wire)
	}
	// signing and verifying an RRset leave the arguments unchanged
	pub, priv, _ := ed25519.GenerateKey(detRand{r})
	key := &dns.DNSKEY{Hdr: dns.RR_Header{Name: "example.org.", Rrtype: dns.TypeDNSKEY, Class: 1, Ttl: 3600}, Flags: 257, Protocol: 3, Algorithm: dns.ED25519}
	key.PublicKey = toB64(pub)
	for i := 0; i < c.Scale(60, 1500); i++ {
		typ := []uint16{dns.TypeMX, dns.TypeNS, dns.TypeTXT, dns.TypeA, dns.TypeSRV, dns.TypeSOA, dns.TypeNSEC, dns.TypeRRSIG}[r.Intn(8)]
		var set []dns.RR
		// owner already canonical or not, wildcard or not; TTLs equal to the original TTL or not: every combination of
		// "does Sign / Verify have to rewrite the header of its working copy"
		owner := []string{"WWW.EXAMPLE.ORG.", "www.example.org.", "*.example.org.", "Www.Example.ORG."}[r.Intn(4)]
		sameTTL := r.Bool()
		fromText := r.Chance(40)
		for k := 0; k < 1+r.Intn(3); k++ {
			var rr dns.RR
			if fromText {
				// names inside the RDATA with upper-case letters (canonical form lower-cases them in the signed octets only)
				line := []string{"MX 10 MX-%d.Example.ORG.", "NS NS%d.Example.ORG.", "SRV 1 2 53 Srv%d.EXAMPLE.org.", "CNAME Target%d.Example.ORG.",
					"SOA Ns%d.Example.ORG. Hostmaster.Example.ORG. 1 2 3 4 5", "RP Mbox%d.Example.ORG. Txt.Example.ORG.", "KX 1 Kx%d.Example.ORG.", "PTR Ptr%d.Example.ORG."}[r.Intn(8)]
				x, err := dns.NewRR("x. 100 IN " + fmt.Sprintf(line, k))
				if err != nil || x == nil {
					continue
				}
				if len(set) > 0 && set[0].Header().Rrtype != x.Header().Rrtype {
					continue
				}
				rr = x
			} else {
				g := genRR(r, typ, 0, true)
				x, _, err := dns.UnpackRR(g.Wire, 0)
				if err != nil {
					continue
				}
				rr = x
			}
			rr.Header().Name = owner
			rr.Header().Class = 1
			rr.Header().Ttl = uint32(100 + k)
			if sameTTL {
				rr.Header().Ttl = 100
			}
			set = append(set, rr)
		}
		if len(set) == 0 {
			continue
		}
		sig := &dns.RRSIG{Hdr: dns.RR_Header{Name: owner, Rrtype: dns.TypeRRSIG, Class: 1, Ttl: 300}, Algorithm: dns.ED25519,
			SignerName: "example.org.", KeyTag: key.KeyTag(), Inception: uint32(time.Now().Unix() - 100), Expiration: uint32(time.Now().Unix() + 100)}
		before := snapshot(set)
		kb := snapshot(key)
		if err := sig.Sign(priv, set); err != nil {
			continue
		}
		c.Pred("sign-verify", "sign-readonly", fmt.Sprint(set), sameAfter(before, set) && reflect.DeepEqual(kb, snapshot(key)), "RRset changed by Sign", "unchanged", true)
		sb := snapshot(sig)
		err := sig.Verify(key, set)
		c.Pred("sign-verify", "verify-readonly", fmt.Sprint(set), err == nil && sameAfter(before, set) && reflect.DeepEqual(sb, snapshot(sig)) && reflect.DeepEqual(kb, snapshot(key)),
			fmt.Sprint("RRset, RRSIG or DNSKEY changed by Verify, err=", err), "unchanged", true)
	}
}

// shuffleSvcParams reorders the SvcParams of an SVCB/HTTPS presentation line.
func shuffleSvcParams(r *Rng, txt string) string {
	f := strings.Split(txt, "\t")
	if len(f) < 5 {
		return txt
	}
	rd := strings.Fields(f[len(f)-1])
	if len(rd) <= 3 {
		return txt
	}
	params := rd[2:]
	for _, p := range params {
		if strings.Contains(p, "\"") {
			return txt // quoted values may contain blanks; leave as is
		}
	}
	for i := len(params) - 1; i > 0; i-- {
		j := r.Intn(i + 1)
		params[i], params[j] = params[j], params[i]
	}
	f[len(f)-1] = strings.Join(append(rd[:2], params...), " ")
	return strings.Join(f, "\t")
}
