package main

// Generators shared by several properties: labels, names, spellings.

import (
	"fmt"
	"strings"
)

var specials = []byte{'.', ' ', '\'', '@', ';', '(', ')', '"', '\\'}
var oddBytes = []byte{0, 1, 7, 9, 10, 13, 31, 32, 127, 128, 200, 255, '0', '9', '*', '_', '-'}

// labelByte draws one label octet; mode 0: plain letters, 1: mixed, 2: anything
func labelByte(r *Rng, mode int) byte {
	switch mode {
	case 0:
		return "abcdefghijklmnopqrstuvwxyz0123456789-"[r.Intn(37)]
	case 1:
		switch r.Intn(10) {
		case 0:
			return specials[r.Intn(len(specials))]
		case 1:
			return oddBytes[r.Intn(len(oddBytes))]
		case 2:
			return "ABCDEFGHIJKLMNOPQRSTUVWXYZ"[r.Intn(26)]
		case 3:
			return "0123456789"[r.Intn(10)]
		default:
			return "abcdefghijklmnopqrstuvwxyz"[r.Intn(26)]
		}
	default:
		return r.Byte()
	}
}

func genLabel(r *Rng, n, mode int) []byte {
	l := make([]byte, n)
	for i := range l {
		l[i] = labelByte(r, mode)
	}
	return l
}

var labelLens = []int{1, 1, 1, 2, 3, 3, 4, 5, 7, 8, 12, 20, 31, 62, 63}

// genLabels: a label list that respects the 63/255 limits.
func genLabels(r *Rng, mode int) [][]byte {
	n := r.Intn(6)
	if r.Chance(5) {
		n = r.Intn(128)
	}
	var ls [][]byte
	total := 1
	for i := 0; i < n; i++ {
		ll := labelLens[r.Intn(len(labelLens))]
		if total+ll+1 > 255 {
			ll = 255 - total - 1
			if ll < 1 {
				break
			}
		}
		ls = append(ls, genLabel(r, ll, mode))
		total += ll + 1
	}
	return ls
}

// genLabelsNear: label lists with total wire length 250..260 and label lengths around 63
func genLabelsNear(r *Rng, mode int) [][]byte {
	target := 250 + r.Intn(11)
	var ls [][]byte
	total := 1
	for total < target {
		ll := []int{1, 2, 30, 61, 62, 63, 63, 63}[r.Intn(8)]
		if r.Chance(4) {
			ll = 64 + r.Intn(3)
		}
		if total+ll+1 > target {
			ll = target - total - 1
			if ll < 1 {
				break
			}
		}
		ls = append(ls, genLabel(r, ll, mode))
		total += ll + 1
	}
	return ls
}

func wireOf(ls [][]byte) []byte {
	var w []byte
	for _, l := range ls {
		w = append(w, byte(len(l)))
		w = append(w, l...)
	}
	return append(w, 0)
}

func isSpecialB(b byte) bool {
	for _, s := range specials {
		if s == b {
			return true
		}
	}
	return false
}

// spellByte writes one octet in a presentation spelling; style 0 = the library's canonical form,
// 1 = random legal spelling.
func spellByte(sb *strings.Builder, b byte, r *Rng, style int) {
	canon := func() {
		if isSpecialB(b) {
			sb.WriteByte('\\')
			sb.WriteByte(b)
		} else if b < ' ' || b > '~' {
			fmt.Fprintf(sb, "\\%03d", b)
		} else {
			sb.WriteByte(b)
		}
	}
	if style == 0 {
		canon()
		return
	}
	if b >= 0x80 && style != 3 && r.Chance(50) {
		sb.WriteByte(b) // raw high octets are legal master-file text (UTF-8 names typed by users); style 3 never writes them
		return
	}
	switch r.Intn(4) {
	case 0:
		fmt.Fprintf(sb, "\\%03d", b)
	case 1:
		if (b >= '0' && b <= '9') || (style == 3 && b >= 0x80) {
			// "\5" followed by digits could form \DDD: use DDD form
			fmt.Fprintf(sb, "\\%03d", b)
		} else {
			sb.WriteByte('\\')
			sb.WriteByte(b)
		}
	default:
		canon()
	}
}

func spell(ls [][]byte, r *Rng, style int) string {
	if len(ls) == 0 {
		return "."
	}
	var sb strings.Builder
	for _, l := range ls {
		for _, b := range l {
			spellByte(&sb, b, r, style)
		}
		sb.WriteByte('.')
	}
	return sb.String()
}

func nontrivialName(s string) bool {
	return strings.Count(s, ".") >= 2 || strings.Contains(s, "\\")
}

// specIsFqdn: independent statement of "ends in an unescaped dot".
func specIsFqdn(s string) bool {
	if len(s) == 0 || s[len(s)-1] != '.' {
		return false
	}
	n := 0
	for i := len(s) - 2; i >= 0 && s[i] == '\\'; i-- {
		n++
	}
	return n%2 == 0
}

// mutateText: small random edits of a presentation string (to reach invalid spellings)
func mutateText(s string, r *Rng) string {
	b := []byte(s)
	frag := []string{"\\", ".", "..", "\\.", "\\046", "\\000", "\\1", "\\12", "\\256", "\\999", "a", "A", "0", "@", "\\\\", " ", "\"",
		"\xc3\xa9", "\xe2\x82\xac", "\xf0\x9f\x98\x80", "\xc3\xa9\\", "\xf0\x9f\x98\x80\\", "\xc3"}
	for k := 0; k < 1+r.Intn(2); k++ {
		switch r.Intn(4) {
		case 0:
			if len(b) > 0 {
				i := r.Intn(len(b))
				b = append(b[:i], b[i+1:]...)
			}
		case 1:
			i := r.Intn(len(b) + 1)
			f := frag[r.Intn(len(frag))]
			b = append(b[:i], append([]byte(f), b[i:]...)...)
		case 2:
			if len(b) > 0 {
				b[r.Intn(len(b))] = labelByte(r, 1)
			}
		case 3:
			if len(b) > 0 {
				b = b[:len(b)-1]
			}
		}
	}
	return string(b)
}
