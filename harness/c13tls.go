package main

import (
	"crypto/ecdsa"
	"crypto/elliptic"
	"crypto/tls"
	"crypto/x509"
	"crypto/x509/pkix"
	"fmt"
	"math/big"
	"net"
	"sync/atomic"
	"time"

	"github.com/miekg/dns"
)

// selfSigned: a throw-away certificate for the TLS-style listener
func selfSigned(r *Rng) (tls.Certificate, error) {
	priv, err := ecdsa.GenerateKey(elliptic.P256(), detRand{r})
	if err != nil {
		return tls.Certificate{}, err
	}
	tmpl := &x509.Certificate{SerialNumber: big.NewInt(1), Subject: pkix.Name{CommonName: "verif"}, NotBefore: time.Now().Add(-time.Hour),
		NotAfter: time.Now().Add(time.Hour), IPAddresses: []net.IP{net.IPv4(127, 0, 0, 1)}}
	der, err := x509.CreateCertificate(detRand{r}, tmpl, tmpl, &priv.PublicKey, priv)
	if err != nil {
		return tls.Certificate{}, err
	}
	return tls.Certificate{Certificate: [][]byte{der}, PrivateKey: priv}, nil
}

// c13TLSPipelined: a TLS-style listener, a client that writes two queries at once (they reach the server in one record,
// so the second is already decrypted and buffered when the first is being handled), Shutdown with an expiring
// context while the first handler is stuck: no handler may start after ShutdownContext has returned, on this path
// too (an expired read deadline stops socket reads, not reads from the TLS buffer).
func c13TLSPipelined(c *Ctx, r *Rng) {
	cert, err := selfSigned(r)
	if err != nil {
		c.Res.Notes = append(c.Res.Notes, "no certificate: "+err.Error())
		return
	}
	for round := 0; round < c.Scale(3, 20); round++ {
		p := &srvProbe{hold: make(chan struct{})}
		inner, err := net.Listen("tcp", "127.0.0.1:0")
		if err != nil {
			return
		}
		l := tls.NewListener(inner, &tls.Config{Certificates: []tls.Certificate{cert}})
		srv := &dns.Server{Listener: l, Handler: p.handler(), ReadTimeout: 5 * time.Second}
		started := make(chan struct{})
		srv.NotifyStartedFunc = func() { close(started) }
		serveCh := make(chan error, 1)
		go func() { serveCh <- srv.ActivateAndServe() }()
		<-started
		conn, err := tls.Dial("tcp", inner.Addr().String(), &tls.Config{InsecureSkipVerify: true})
		if err != nil {
			srv.Shutdown()
			continue
		}
		var both []byte
		for id := uint16(1); id <= 2; id++ {
			q := new(dns.Msg)
			q.SetQuestion(fmt.Sprintf("q%d.example.", id), dns.TypeA)
			q.Id = id
			b, _ := q.Pack()
			both = append(both, byte(len(b)>>8), byte(len(b)))
			both = append(both, b...)
		}
		conn.Write(both) // one write, one TLS record
		for t := 0; t < 2000 && atomic.LoadInt64(&p.enter) < 1; t++ {
			time.Sleep(time.Millisecond)
		}
		res, _ := shutdownWithin(srv, 100*time.Millisecond, 5*time.Second)
		atomic.StoreInt32(&p.shutdownDone, 1)
		close(p.hold) // the stuck handler goes on
		time.Sleep(150 * time.Millisecond)
		late := atomic.LoadInt64(&p.afterShutdown)
		in := fmt.Sprintf("tls, two pipelined queries, round %d", round)
		c.Pred("tls-pipelined", "shutdown-returns", in, res == "ctx" || res == "nil", res, "returns (context expired)", true)
		c.Pred("tls-pipelined", "no-handler-after-shutdown", in, late == 0, fmt.Sprint(late, " handler(s) started after ShutdownContext returned"), "0", true)
		conn.Close()
		select {
		case <-serveCh:
		case <-time.After(3 * time.Second):
			c.Pred("tls-pipelined", "serve-returns", in, false, "ActivateAndServe still blocked", "returns", true)
		}
		c.Res.Evaluations++
	}
}
