/-
  C06 (text level) — from the octets of a zone text to what it denotes: for zone texts in the plain canonical
  rendering (one entry per line, single blanks, decimal TTLs, `CLASSnnn` / `TYPEnnn`), lexing (`Lex.lexAll`), grouping
  into abstract tokens (`ZoneText.absTokens`) and the header machine (`zrun`) yield exactly the entries' abstract
  tokens — so `parser_refines_denote` applies to the text itself.
-/
import DnsModel.ZoneText
import DnsProofs.C07Lexer
import DnsProofs.C06
namespace Dns.C06T
open Dns Dns.Lex Dns.ZoneText Dns.C07

/-! ### plain words -/

/-- octets that the lexer copies into the current token without looking at its mode flags -/
def plain (b : UInt8) : Bool :=
  b != 32 && b != 9 && b != 59 && b != 13 && b != 10 && b != 92 && b != 34 && b != 40 && b != 41

/-! words may carry escapes: `\c` copies `c` whatever it is (outside quotes an escaped line break is not copied, so
    it is excluded), `\DDD` is four ordinary octets -/

/-- `w` can be read as (part of) one token outside quotes, starting in escape state `e` -/
def okN : Bool → Bytes → Bool
  | _, [] => true
  | e, x :: s => (if e then (x != 13 && x != 10) else (plain x || x == 92)) && okN (x == 92 && !e) s

/-- the escape state after `w` -/
def endE : Bool → Bytes → Bool
  | e, [] => e
  | e, x :: s => endE (x == 92 && !e) s

/-- octets that, escaped, are copied without touching the `space` flag -/
def keepsSpace (x : UInt8) : Bool := x == 32 || x == 9 || x == 59 || x == 92 || x == 34 || x == 40 || x == 41

/-- the `space` flag after `w` -/
def spAfter : Bool → Bool → Bytes → Bool
  | sp, _, [] => sp
  | sp, e, x :: s => spAfter (if (e && keepsSpace x) || (!e && x == 92) then sp else false) (x == 92 && !e) s

/-- the lexer state after reading `w` outside quotes and comments -/
def advN : St → Bool → Bytes → St
  | zl, _, [] => zl
  | zl, e, x :: w =>
    advN (if (e && keepsSpace x) || (!e && x == 92) then advance zl x else { advance zl x with space := false })
      (x == 92 && !e) w

/-- a word: readable as one token, no escape left open, and at least one octet that clears the `space` flag (so that
    the blank behind it is delivered) -/
def wordOK (w : Bytes) : Bool := okN false w && !(endE false w) && !(spAfter true false w)

theorem spAfter_false (e : Bool) (w : Bytes) : spAfter false e w = false := by
  induction w generalizing e with
  | nil => rfl
  | cons x w ih => simp only [spAfter]; split <;> exact ih _

theorem spAfter_mono (e : Bool) (w : Bytes) (h : spAfter true e w = false) (sp : Bool) : spAfter sp e w = false := by
  cases sp
  · exact spAfter_false e w
  · exact h

theorem advN_flags (zl : St) (e : Bool) (w : Bytes) :
    (advN zl e w).quote = zl.quote ∧ (advN zl e w).commt = zl.commt ∧ (advN zl e w).nextL = zl.nextL ∧
    (advN zl e w).brace = zl.brace ∧ (advN zl e w).comBuf = zl.comBuf ∧ (advN zl e w).comment = zl.comment ∧
    (advN zl e w).rrtype = zl.rrtype ∧ (advN zl e w).owner = zl.owner ∧ (advN zl e w).l.err = zl.l.err ∧
    (advN zl e w).l.torc = zl.l.torc ∧ (advN zl e w).l.value = zl.l.value ∧ (advN zl e w).l.token = zl.l.token ∧
    (advN zl e w).space = spAfter zl.space e w := by
  induction w generalizing zl e with
  | nil => simp [advN, spAfter]
  | cons b w ih =>
    have ha : (advance zl b).quote = zl.quote ∧ (advance zl b).commt = zl.commt ∧ (advance zl b).rrtype = zl.rrtype ∧
        (advance zl b).owner = zl.owner ∧ (advance zl b).l.torc = zl.l.torc ∧ (advance zl b).l.value = zl.l.value ∧
        (advance zl b).space = zl.space := by
      unfold advance; simp only; repeat' split
      all_goals simp_all
    have hb := advance_facts zl b
    simp only [advN, spAfter]
    split
    · have := ih (advance zl b) (b == 92 && !e)
      simp_all
    · have := ih { advance zl b with space := false } (b == 92 && !e)
      simp_all

/-- **a word is copied into the token octet by octet**, escapes included -/
theorem scan_word (zl : St) (str com : Bytes) (e : Bool) (w rest : Bytes) (hw : okN e w = true)
    (hq : zl.quote = false) (hc : zl.commt = false) :
    scan zl str com e (w ++ rest) = scan (advN zl e w) (str ++ w) com (endE e w) rest := by
  induction w generalizing zl str e with
  | nil => simp [advN, endE]
  | cons b w ih =>
    simp only [okN, Bool.and_eq_true] at hw
    obtain ⟨hb, hw⟩ := hw
    have haf := advance_facts zl b
    have hcm : (advance zl b).commt = false := by
      unfold advance; simp only; repeat' split
      all_goals simp_all
    have hqm : (advance zl b).quote = false := by
      unfold advance; simp only; repeat' split
      all_goals simp_all
    have hcm' : ¬ (advance zl b).commt = true := by simp [hcm]
    have hqm' : ¬ (advance zl b).quote = true := by simp [hqm]
    rw [List.cons_append, scan]
    simp only [advN, endE]
    cases e with
    | false =>
      simp only [Bool.false_eq_true, ↓reduceIte, Bool.or_eq_true, beq_iff_eq] at hb
      simp only [Bool.false_and, Bool.not_false, Bool.true_and, Bool.false_or, Bool.and_true]
      by_cases h92 : b = 92
      · subst h92
        simp only [if_neg hcm']
        simp only [beq_self_eq_true, ↓reduceIte]
        rw [ih (advance zl 92) (str ++ [92]) true hw hqm hcm]
        simp [List.append_assoc]
      · have hpl : plain b = true := by rcases hb with h | h; exact h; exact absurd h h92
        simp only [plain, Bool.and_eq_true, bne_iff_ne, ne_eq] at hpl
        obtain ⟨⟨⟨⟨⟨⟨⟨⟨h1, h2⟩, h3⟩, h4⟩, h5⟩, h6⟩, h7⟩, h8⟩, h9⟩ := hpl
        have hb92 : (b == 92) = false := by simpa using h92
        simp only [beq_iff_eq, h1, h2, h3, h4, h5, h6, h7, h8, h9, or_self, ↓reduceIte, if_neg hcm', hb92,
          Bool.false_eq_true]
        have hw' : okN false w = true := by simpa [hb92] using hw
        rw [ih { advance zl b with space := false } (str ++ [b]) false hw' (by simpa using hqm) (by simpa using hcm)]
        simp [List.append_assoc]
    | true =>
      simp only [↓reduceIte, Bool.and_eq_true, bne_iff_ne, ne_eq] at hb
      obtain ⟨h13, h10⟩ := hb
      simp only [Bool.true_and, Bool.not_true, Bool.and_false, Bool.false_and, Bool.or_false]
      have hw' : okN false w = true := by simpa using hw
      have h13' : (b == 13) = false := by simpa using h13
      have h10' : (b == 10) = false := by simpa using h10
      by_cases hk : keepsSpace b = true
      · simp only [hk, ↓reduceIte]
        have := ih (advance zl b) (str ++ [b]) false hw' hqm hcm
        simp only [keepsSpace, Bool.or_eq_true, beq_iff_eq] at hk
        rcases hk with (((((h | h) | h) | h) | h) | h) | h <;> subst h <;>
          simp [if_neg hcm', this, List.append_assoc]
      · have hk' : keepsSpace b = false := by simpa using hk
        simp only [hk', Bool.false_eq_true, ↓reduceIte]
        simp only [keepsSpace, Bool.or_eq_false_iff, beq_eq_false_iff_ne, ne_eq] at hk'
        obtain ⟨⟨⟨⟨⟨⟨k1, k2⟩, k3⟩, k4⟩, k5⟩, k6⟩, k7⟩ := hk'
        have := ih { advance zl b with space := false } (str ++ [b]) false hw' (by simpa using hqm) (by simpa using hcm)
        simp [k1, k2, k3, k4, k5, k6, k7, h13, h10, if_neg hcm', this, List.append_assoc]

theorem plain_wordOK (w : Bytes) (h : w.all plain = true) (hne : w ≠ []) : wordOK w = true := by
  have h1 : ∀ w : Bytes, w.all plain = true → okN false w = true ∧ endE false w = false := by
    intro w
    induction w with
    | nil => intro _; exact ⟨rfl, rfl⟩
    | cons b w ih =>
      intro hw
      simp only [List.all_cons, Bool.and_eq_true] at hw
      have hb92 : (b == 92) = false := by
        have := hw.1; simp only [plain, Bool.and_eq_true, bne_iff_ne, ne_eq] at this; simpa using this.1.1.1.2
      simp only [okN, endE, Bool.false_eq_true, ↓reduceIte, hw.1, Bool.true_or, hb92, Bool.false_and, Bool.true_and]
      exact ih hw.2
  cases w with
  | nil => exact absurd rfl hne
  | cons b w =>
    simp only [List.all_cons, Bool.and_eq_true] at h
    have hb92 : (b == 92) = false := by
      have := h.1; simp only [plain, Bool.and_eq_true, bne_iff_ne, ne_eq] at this; simpa using this.1.1.1.2
    obtain ⟨a1, a2⟩ := h1 (b :: w) (by simp only [List.all_cons, Bool.and_eq_true]; exact h)
    simp only [wordOK, a1, a2, Bool.not_false, Bool.and_self, Bool.true_and, Bool.not_eq_true', spAfter,
      Bool.false_and, hb92, Bool.not_false, Bool.true_and, Bool.or_self, Bool.false_eq_true, ↓reduceIte]
    exact spAfter_false _ _

/-! ### the token stream without fuel -/

def stream (zl : St) (input : Bytes) : List Tok := (tokens (pot zl input + 1) zl input).map (·.1)

theorem stream_step (zl : St) (input : Bytes) :
    stream zl input = match next zl input with
      | (_, _, none) => []
      | (zl', rest, some t) => t :: stream zl' rest := by
  unfold stream
  rw [tokens]
  rcases hr : next zl input with ⟨zl', rest, ot⟩
  cases ot with
  | none => rfl
  | some t =>
    have hp := next_pot zl input t (by rw [hr])
    rw [hr] at hp
    simp only at hp
    simp only [List.map_cons, List.cons.injEq, true_and]
    rw [tokens_fuel_irrelevant (pot zl input) (pot zl' rest + 1) zl' rest hp (by omega)]

theorem lexAll_stream (input : Bytes) : (lexAll input).map (·.1) = stream {} input := by
  unfold lexAll stream
  have hp : pot {} input = 4 * input.length := by simp [pot]
  rw [tokens_fuel_irrelevant (4 * input.length + 4) (pot {} input + 1) {} input (by omega) (by omega)]

/-- neutral lexer state between tokens on one line, outside parentheses, quotes and comments -/
structure Ready (zl : St) : Prop where
  n : zl.nextL = false
  e : zl.l.err = false
  q : zl.quote = false
  c : zl.commt = false
  cb : zl.comBuf = []
  b : zl.brace = 0

theorem advance_flags (zl : St) (x : UInt8) :
    (advance zl x).quote = zl.quote ∧ (advance zl x).commt = zl.commt ∧ (advance zl x).rrtype = zl.rrtype ∧
    (advance zl x).owner = zl.owner ∧ (advance zl x).space = zl.space ∧ (advance zl x).l.torc = zl.l.torc ∧
    (advance zl x).l.value = zl.l.value := by
  unfold advance; simp only; repeat' split
  all_goals simp_all

/-- the state in which the blank (or newline) after the plain word `w` is read -/
def atEnd (zl : St) (w : Bytes) (x : UInt8) : St := advance (advN { zl with comBuf := [], comment := [] } false w) x

theorem atEnd_flags (zl : St) (w : Bytes) (x : UInt8) (hR : Ready zl) :
    (atEnd zl w x).quote = false ∧ (atEnd zl w x).commt = false ∧ (atEnd zl w x).nextL = false ∧
    (atEnd zl w x).brace = 0 ∧ (atEnd zl w x).comBuf = [] ∧ (atEnd zl w x).l.err = false ∧
    (atEnd zl w x).rrtype = zl.rrtype ∧ (atEnd zl w x).owner = zl.owner ∧ (atEnd zl w x).l.torc = zl.l.torc ∧
    (wordOK w = true → (atEnd zl w x).space = false) ∧ (w = [] → (atEnd zl w x).space = zl.space) := by
  unfold atEnd
  have h1 := advN_flags { zl with comBuf := [], comment := [] } false w
  have h2 := advance_flags (advN { zl with comBuf := [], comment := [] } false w) x
  have h3 := advance_facts (advN { zl with comBuf := [], comment := [] } false w) x
  obtain ⟨a1, a2, a3, a4, a5, a6, a7, a8, a9, a10, a11, a12, a13⟩ := h1
  obtain ⟨b1, b2, b3, b4, b5, b6, b7⟩ := h2
  obtain ⟨c1, c2, c3, c4, c5, c6⟩ := h3
  refine ⟨by rw [b1, a1]; exact hR.q, by rw [b2, a2]; exact hR.c, by rw [c1, a3]; exact hR.n, by rw [c2, a4]; exact hR.b,
    by rw [c3, a5], by rw [c5, a9]; exact hR.e, by rw [b3, a7], by rw [b4, a8], by rw [b6, a10], ?_, ?_⟩
  · intro hw
    simp only [wordOK, Bool.and_eq_true, Bool.not_eq_true'] at hw
    rw [b5, a13]
    exact spAfter_mono false w hw.2 _
  · intro hw; subst hw; rw [b5, a13]; rfl

theorem classify_keeps (zl : St) (str : Bytes) :
    (classify zl str).1.space = zl.space ∧ (classify zl str).1.quote = zl.quote ∧ (classify zl str).1.commt = zl.commt ∧
    (classify zl str).1.owner = zl.owner := by
  unfold classify typeStep classStep
  by_cases ho : zl.owner = true <;> by_cases hr : zl.rrtype = true <;>
  cases hlt : lookup Gen.stringToType (goUpper str) <;> cases hlc : lookup Gen.stringToClass (goUpper str) <;>
  cases hp4 : isPrefix (ascii "TYPE") (goUpper str) <;> cases hp5 : isPrefix (ascii "CLASS") (goUpper str) <;>
  cases hn4 : numericCode 4 str <;> cases hn5 : numericCode 5 str <;> simp [*]

/-- the state after a word and the blank behind it: the blank is the pending second token -/
def blankPending (r : St) : St :=
  { r with owner := false, space := true, l := { r.l with value := zBlank, token := [32] }, nextL := true }

/-- `scan` at the blank that ends a non-empty word, outside quotes and comments, when no blank has been delivered
    since the last word -/
theorem scan_blank_word (z0 : St) (str com rest : Bytes) (hq : (advance z0 32).quote = false)
    (hc : (advance z0 32).commt = false) (hsp : (advance z0 32).space = false) (hs : str.isEmpty = false) :
    scan z0 str com false (32 :: rest) =
      (if (classify (advance z0 32) str).2 then
        (blankPending (classify (advance z0 32) str).1, rest, some (classify (advance z0 32) str).1.l)
      else ((classify (advance z0 32) str).1, rest, some (classify (advance z0 32) str).1.l)) := by
  rw [scan]
  generalize advance z0 32 = z at hq hc hsp ⊢
  have hk := classify_keeps z str
  have hq' : ¬ z.quote = true := by simp [hq]
  have hc' : ¬ z.commt = true := by simp [hc]
  simp only [beq_self_eq_true, true_or, ↓reduceIte, Bool.false_eq_true, false_or]
  rw [if_neg hq', if_neg hc']
  simp only [hs, Bool.false_eq_true, ↓reduceIte]
  by_cases hok : (classify z str).2 = true
  · simp only [hok, Bool.not_true, Bool.false_eq_true, ↓reduceIte]
    have : (classify z str).1.space = false := by rw [hk.1, hsp]
    simp only [this, Bool.not_false, ↓reduceIte, blankPending]
  · have hok' : (classify z str).2 = false := by simpa using hok
    simp only [hok', Bool.not_false, ↓reduceIte, Bool.false_eq_true]

/-- a plain word followed by a blank: the word, classified, and the blank as a pending second token -/
theorem next_word_blank (zl : St) (w rest : Bytes) (hw : wordOK w = true) (hne : w ≠ []) (hR : Ready zl) :
    next zl (w ++ 32 :: rest) =
      (if (classify (atEnd zl w 32) w).2 then
        (blankPending (classify (atEnd zl w 32) w).1, rest, some (classify (atEnd zl w 32) w).1.l)
      else ((classify (atEnd zl w 32) w).1, rest, some (classify (atEnd zl w 32) w).1.l)) := by
  obtain ⟨f1, f2, f3, f4, f5, f6, f7, f8, f9, f10, f11⟩ := atEnd_flags zl w 32 hR
  unfold next
  rw [if_neg (by simp [hR.n]), if_neg (by simp [hR.e])]
  have hcom : zl.comBuf.take Gen.maxTok = [] := by rw [hR.cb]; rfl
  have hwk : okN false w = true ∧ endE false w = false := by
    simp only [wordOK, Bool.and_eq_true, Bool.not_eq_true'] at hw; exact ⟨hw.1.1, hw.1.2⟩
  rw [hcom, scan_word _ _ _ _ _ _ hwk.1 (by simpa using hR.q) (by simpa using hR.c), hwk.2]
  have hstr : ([] ++ w).isEmpty = false := by
    cases w with
    | nil => exact absurd rfl hne
    | cons _ _ => rfl
  rw [scan_blank_word _ _ _ _ f1 f2 (f10 hw) hstr]
  rfl

/-- the word delivered at the end of a line (only a type mnemonic is recognised there) -/
def nlWordTok (z : St) (str : Bytes) : Tok :=
  match (if !z.rrtype then lookup Gen.stringToType (goUpper str) else none) with
  | some t => { z.l with value := zRrtpe, token := str, torc := t }
  | none => { z.l with value := zString, token := str }

/-- the state after a word and the newline behind it: the newline is the pending second token -/
def nlPending (z : St) (str : Bytes) : St :=
  { z with l := { nlWordTok z str with value := zNewline, token := [10] }, comment := z.comBuf, comBuf := [],
           rrtype := false, owner := true, nextL := true }

theorem scan_nl_word (z0 : St) (str com rest : Bytes) (hq : (advance z0 10).quote = false)
    (hc : (advance z0 10).commt = false) (hb : (advance z0 10).brace = 0) (hs : str.isEmpty = false) :
    scan z0 str com false (10 :: rest) = (nlPending (advance z0 10) str, rest, some (nlWordTok (advance z0 10) str)) := by
  rw [scan]
  generalize advance z0 10 = z at hq hc hb ⊢
  have hq' : ¬ z.quote = true := by simp [hq]
  have hc' : ¬ z.commt = true := by simp [hc]
  have h1 : ¬ ((10 : UInt8) == 32) = true := by decide
  have h2 : ¬ ((10 : UInt8) == 9) = true := by decide
  have h3 : ¬ ((10 : UInt8) == 59) = true := by decide
  have h4 : ¬ ((10 : UInt8) == 13) = true := by decide
  simp only [h1, h2, h3, h4, or_self, ↓reduceIte, beq_self_eq_true]
  rw [if_neg hq', if_neg hc']
  cases hr : z.rrtype <;> cases hl : lookup Gen.stringToType (goUpper str) <;>
    simp [hb, hs, nlPending, nlWordTok, hr, hl, hq, hc]

/-- the state after a blank that was delivered on its own -/
def blankAlone (z : St) : St :=
  { z with owner := false, space := true, l := { z.l with value := zBlank, token := [32] } }

theorem scan_blank_first (z0 : St) (com rest : Bytes) (hq : (advance z0 32).quote = false)
    (hc : (advance z0 32).commt = false) (hsp : (advance z0 32).space = false) :
    scan z0 [] com false (32 :: rest) = (blankAlone (advance z0 32), rest, some (blankAlone (advance z0 32)).l) := by
  rw [scan]
  generalize advance z0 32 = z at hq hc hsp ⊢
  have hq' : ¬ z.quote = true := by simp [hq]
  have hc' : ¬ z.commt = true := by simp [hc]
  simp only [beq_self_eq_true, true_or, ↓reduceIte, Bool.false_eq_true, false_or]
  rw [if_neg hq', if_neg hc']
  simp [hsp, blankAlone, hq, hc]

/-- the state after a newline that was delivered on its own -/
def nlAlone (z : St) : St :=
  { z with l := { z.l with value := zNewline, token := [10] }, comment := z.comBuf, comBuf := [], rrtype := false,
           owner := true }

theorem scan_nl_first (z0 : St) (com rest : Bytes) (hq : (advance z0 10).quote = false)
    (hc : (advance z0 10).commt = false) (hb : (advance z0 10).brace = 0) :
    scan z0 [] com false (10 :: rest) = (nlAlone (advance z0 10), rest, some (nlAlone (advance z0 10)).l) := by
  rw [scan]
  generalize advance z0 10 = z at hq hc hb ⊢
  have hq' : ¬ z.quote = true := by simp [hq]
  have hc' : ¬ z.commt = true := by simp [hc]
  have h1 : ¬ ((10 : UInt8) == 32) = true := by decide
  have h2 : ¬ ((10 : UInt8) == 9) = true := by decide
  have h3 : ¬ ((10 : UInt8) == 59) = true := by decide
  have h4 : ¬ ((10 : UInt8) == 13) = true := by decide
  simp only [h1, h2, h3, h4, or_self, ↓reduceIte, beq_self_eq_true]
  rw [if_neg hq', if_neg hc']
  simp [hb, nlAlone, hq, hc]

theorem classify_ok_token (zl : St) (str : Bytes) (h : (classify zl str).2 = true) : (classify zl str).1.l.token = str := by
  revert h
  unfold classify typeStep classStep
  by_cases ho : zl.owner = true <;> by_cases hr : zl.rrtype = true <;>
  cases hlt : lookup Gen.stringToType (goUpper str) <;> cases hlc : lookup Gen.stringToClass (goUpper str) <;>
  cases hp4 : isPrefix (ascii "TYPE") (goUpper str) <;> cases hp5 : isPrefix (ascii "CLASS") (goUpper str) <;>
  cases hn4 : numericCode 4 str <;> cases hn5 : numericCode 5 str <;> simp [*]

/-- the lexer between two tokens of a line: neutral, with the three flags that steer classification and blanks -/
structure LS (zl : St) (o r s : Bool) : Prop where
  rdy : Ready zl
  ow : zl.owner = o
  rr : zl.rrtype = r
  sp : zl.space = s

theorem stream_pending (zl : St) (input : Bytes) (h : zl.nextL = true) :
    stream zl input = zl.l :: stream { zl with nextL := false } input := by
  rw [stream_step]
  simp [next, h]

/-- **word and blank**: a plain word followed by a blank is delivered as the classified word and a blank -/
theorem stream_word_blank (zl : St) (w rest : Bytes) (o r s : Bool) (hL : LS zl o r s) (hw : wordOK w = true)
    (hne : w ≠ []) (hok : ∀ z : St, z.owner = o → z.rrtype = r → z.l.err = false → (classify z w).2 = true) :
    ∃ z t b zl', z.owner = o ∧ z.rrtype = r ∧ z.l.err = false ∧ t = (classify z w).1.l ∧
      stream zl (w ++ 32 :: rest) = t :: b :: stream zl' rest ∧ t.token = w ∧ t.err = false ∧
      b.value = zBlank ∧ b.err = false ∧ LS zl' false (classify z w).1.rrtype true := by
  obtain ⟨f1, f2, f3, f4, f5, f6, f7, f8, f9, f10, f11⟩ := atEnd_flags zl w 32 hL.rdy
  have hz := hok (atEnd zl w 32) (by rw [f8, hL.ow]) (by rw [f7, hL.rr]) f6
  have hcf := classify_facts (atEnd zl w 32) w
  have hck := classify_keeps (atEnd zl w 32) w
  have herr : (classify (atEnd zl w 32) w).1.l.err = false := by rw [hcf.2.2.2.2.1 f6, hz]; rfl
  refine ⟨atEnd zl w 32, (classify (atEnd zl w 32) w).1.l, (blankPending (classify (atEnd zl w 32) w).1).l,
    { blankPending (classify (atEnd zl w 32) w).1 with nextL := false }, by rw [f8, hL.ow], by rw [f7, hL.rr], f6, rfl, ?_,
    classify_ok_token _ _ hz, herr, rfl, ?_, ?_⟩
  · rw [stream_step, next_word_blank zl w rest hw hne hL.rdy]
    simp only [hz, ↓reduceIte]
    rw [stream_pending _ _ (by rfl)]
  · simpa [blankPending] using herr
  · refine ⟨⟨rfl, ?_, ?_, ?_, ?_, ?_⟩, rfl, rfl, rfl⟩
    · simpa [blankPending] using herr
    · simp only [blankPending]; rw [hck.2.1]; exact f1
    · simp only [blankPending]; rw [hck.2.2.1]; exact f2
    · simp only [blankPending]; rw [hcf.2.2.1]; exact f5
    · simp only [blankPending]; rw [hcf.2.1]; exact f4

theorem next_ready (zl : St) (input : Bytes) (hR : Ready zl) :
    next zl input = scan { zl with comBuf := [], comment := [] } [] [] false input := by
  unfold next
  rw [if_neg (by simp [hR.n]), if_neg (by simp [hR.e])]
  have hcom : zl.comBuf.take Gen.maxTok = [] := by rw [hR.cb]; rfl
  rw [hcom]

/-- **word and newline**: the last word of a line and the newline -/
theorem stream_word_nl (zl : St) (w rest : Bytes) (o r s : Bool) (hL : LS zl o r s) (hw : wordOK w = true)
    (hne : w ≠ []) :
    ∃ z t b zl', z.rrtype = r ∧ z.l.err = false ∧ t = nlWordTok z w ∧
      stream zl (w ++ 10 :: rest) = t :: b :: stream zl' rest ∧
      b.value = zNewline ∧ b.err = false ∧ LS zl' true false false := by
  obtain ⟨f1, f2, f3, f4, f5, f6, f7, f8, f9, f10, f11⟩ := atEnd_flags zl w 10 hL.rdy
  have hstr : ([] ++ w).isEmpty = false := by
    cases w with
    | nil => exact absurd rfl hne
    | cons _ _ => rfl
  have hte : (nlWordTok (atEnd zl w 10) w).err = false := by
    unfold nlWordTok; split <;> simpa using f6
  refine ⟨atEnd zl w 10, nlWordTok (atEnd zl w 10) w, (nlPending (atEnd zl w 10) w).l,
    { nlPending (atEnd zl w 10) w with nextL := false }, by rw [f7, hL.rr], f6, rfl, ?_, rfl, ?_, ?_⟩
  · have hwk : okN false w = true ∧ endE false w = false := by
      simp only [wordOK, Bool.and_eq_true, Bool.not_eq_true'] at hw; exact ⟨hw.1.1, hw.1.2⟩
    rw [stream_step, next_ready zl _ hL.rdy, scan_word _ _ _ _ _ _ hwk.1 (by simpa using hL.rdy.q) (by simpa using hL.rdy.c),
      hwk.2, scan_nl_word _ _ _ _ f1 f2 f4 hstr]
    simp only [List.nil_append]
    rw [stream_pending _ _ (by rfl)]
    rfl
  · simpa [nlPending] using hte
  · refine ⟨⟨rfl, ?_, ?_, ?_, rfl, ?_⟩, rfl, rfl, ?_⟩
    · simpa [nlPending] using hte
    · simpa [nlPending] using f1
    · simpa [nlPending] using f2
    · simpa [nlPending] using f4
    · simpa [nlPending] using f10 hw

/-- a line that starts with a blank: the blank alone -/
theorem stream_blank_first (zl : St) (rest : Bytes) (o r : Bool) (hL : LS zl o r false) :
    ∃ b zl', stream zl (32 :: rest) = b :: stream zl' rest ∧ b.value = zBlank ∧ b.err = false ∧ LS zl' false r true := by
  obtain ⟨f1, f2, f3, f4, f5, f6, f7, f8, f9, f10, f11⟩ := atEnd_flags zl [] 32 hL.rdy
  have hsp : (atEnd zl [] 32).space = false := by rw [f11 rfl, hL.sp]
  refine ⟨(blankAlone (atEnd zl [] 32)).l, blankAlone (atEnd zl [] 32), ?_, rfl, ?_, ?_⟩
  · rw [stream_step, next_ready zl _ hL.rdy]
    have := scan_blank_first { zl with comBuf := [], comment := [] } [] rest f1 f2 hsp
    unfold atEnd advN at *
    rw [this]
  · simpa [blankAlone] using f6
  · refine ⟨⟨?_, ?_, ?_, ?_, ?_, ?_⟩, rfl, ?_, rfl⟩
    · simpa [blankAlone] using f3
    · simpa [blankAlone] using f6
    · simpa [blankAlone] using f1
    · simpa [blankAlone] using f2
    · simpa [blankAlone] using f5
    · simpa [blankAlone] using f4
    · simp only [blankAlone]; rw [f7, hL.rr]

/-- an empty line -/
theorem stream_nl_first (zl : St) (rest : Bytes) (o r s : Bool) (hL : LS zl o r s) :
    ∃ b zl', stream zl (10 :: rest) = b :: stream zl' rest ∧ b.value = zNewline ∧ b.err = false ∧ LS zl' true false s := by
  obtain ⟨f1, f2, f3, f4, f5, f6, f7, f8, f9, f10, f11⟩ := atEnd_flags zl [] 10 hL.rdy
  refine ⟨(nlAlone (atEnd zl [] 10)).l, nlAlone (atEnd zl [] 10), ?_, rfl, ?_, ?_⟩
  · rw [stream_step, next_ready zl _ hL.rdy]
    have := scan_nl_first { zl with comBuf := [], comment := [] } [] rest f1 f2 f4
    unfold atEnd advN at *
    rw [this]
  · simpa [nlAlone] using f6
  · refine ⟨⟨?_, ?_, ?_, ?_, rfl, ?_⟩, rfl, rfl, ?_⟩
    · simpa [nlAlone] using f3
    · simpa [nlAlone] using f6
    · simpa [nlAlone] using f1
    · simpa [nlAlone] using f2
    · simpa [nlAlone] using f4
    · simp only [nlAlone]; rw [f11 rfl, hL.sp]

/-- the end of the text -/
theorem stream_nil (zl : St) (o r s : Bool) (hL : LS zl o r s) : stream zl [] = [] := by
  rw [stream_step, next_ready zl _ hL.rdy, scan]
  simp [hL.rdy.b]

/-! ### how particular words are classified -/

/-- octets that `strings.ToUpper` leaves alone: ASCII other than lower-case letters -/
def noFold (b : UInt8) : Bool := decide (b.toNat < 97 ∨ (122 < b.toNat ∧ b.toNat < 128))

theorem noFold_facts : ∀ b : UInt8, noFold b = true →
    (b == 0xC4) = false ∧ (b == 0xC5) = false ∧ (if 97 ≤ b.toNat ∧ b.toNat ≤ 122 then b - 32 else b) = b := by
  apply forall_byte; decide +kernel

theorem goUpper_noFold (s : Bytes) (h : s.all noFold = true) : goUpper s = s := by
  fun_induction goUpper s
  · rfl
  · rename_i b
    simp only [List.all_cons, List.all_nil, Bool.and_true] at h
    simp only [(noFold_facts b h).2.2]
  · rename_i b c rest hc ih
    simp only [List.all_cons, Bool.and_eq_true] at h
    have := (noFold_facts b h.1).1
    simp_all
  · rename_i b c rest h1 h2 ih
    simp only [List.all_cons, Bool.and_eq_true] at h
    have := (noFold_facts b h.1).2.1
    simp_all
  · rename_i b c rest h1 h2 ih
    simp only [List.all_cons, Bool.and_eq_true] at h
    rw [(noFold_facts b h.1).2.2, ih (by simp only [List.all_cons, Bool.and_eq_true]; exact h.2)]

theorem lookup_none (tbl : List (String × Nat)) (key : Bytes) (h : ∀ p ∈ tbl, (ascii p.1 == key) = false) :
    lookup tbl key = none := by
  unfold lookup
  rw [List.find?_eq_none.mpr (by intro p hp; simp [h p hp])]
  rfl

/-- every mnemonic in the two tables starts with a letter, and none starts with `TYPE` or `CLASS` -/
theorem tables_shape :
    (Gen.stringToType ++ Gen.stringToClass).all (fun p =>
      (match ascii p.1 with | b :: _ => decide (65 ≤ b.toNat) | [] => false) &&
      !(isPrefix (ascii "TYPE") (ascii p.1)) && !(isPrefix (ascii "CLASS") (ascii p.1))) = true := by
  decide +kernel

def isDig (b : UInt8) : Bool := decide (48 ≤ b.toNat ∧ b.toNat ≤ 57)

/-- a non-empty string of decimal digits -/
def Digits (ds : Bytes) : Prop := ds ≠ [] ∧ ds.all isDig = true

def decVal (ds : Bytes) : Nat := ds.foldl (fun a b => a * 10 + (b.toNat - 48)) 0

theorem table_mem (p : String × Nat) (hp : p ∈ Gen.stringToType ∨ p ∈ Gen.stringToClass) :
    (∃ b r, ascii p.1 = b :: r ∧ 65 ≤ b.toNat) ∧ isPrefix (ascii "TYPE") (ascii p.1) = false ∧
    isPrefix (ascii "CLASS") (ascii p.1) = false := by
  have h := tables_shape
  rw [List.all_eq_true] at h
  have := h p (by simp only [List.mem_append]; exact hp)
  simp only [Bool.and_eq_true, Bool.not_eq_true'] at this
  obtain ⟨⟨h1, h2⟩, h3⟩ := this
  refine ⟨?_, h2, h3⟩
  cases hx : ascii p.1 with
  | nil => simp [hx] at h1
  | cons b r => exact ⟨b, r, rfl, by simpa [hx] using h1⟩

theorem lookup_first_lt (tbl : List (String × Nat)) (htbl : tbl = Gen.stringToType ∨ tbl = Gen.stringToClass)
    (b : UInt8) (r : Bytes) (hb : b.toNat < 65) : lookup tbl (b :: r) = none := by
  apply lookup_none
  intro p hp
  obtain ⟨⟨b', r', he, hge⟩, _, _⟩ := table_mem p (by rcases htbl with rfl | rfl; exact Or.inl hp; exact Or.inr hp)
  rw [he]
  simp only [beq_eq_false_iff_ne, ne_eq, List.cons.injEq, not_and]
  intro hbb
  subst hbb
  omega

theorem lookup_prefixed (tbl : List (String × Nat)) (htbl : tbl = Gen.stringToType ∨ tbl = Gen.stringToClass)
    (key : Bytes) (hk : isPrefix (ascii "TYPE") key = true ∨ isPrefix (ascii "CLASS") key = true) :
    lookup tbl key = none := by
  apply lookup_none
  intro p hp
  obtain ⟨_, h1, h2⟩ := table_mem p (by rcases htbl with rfl | rfl; exact Or.inl hp; exact Or.inr hp)
  rw [beq_eq_false_iff_ne]
  intro he
  rw [he] at h1 h2
  rcases hk with hk | hk
  · rw [hk] at h1; cases h1
  · rw [hk] at h2; cases h2

theorem digit_facts : ∀ b : UInt8, isDig b = true → noFold b = true ∧ plain b = true ∧ b.toNat < 65 ∧ (b == 84) = false ∧
    (b == 67) = false := by
  apply forall_byte; decide +kernel

theorem digits_all (ds : Bytes) (h : ds.all isDig = true) : ds.all noFold = true ∧ ds.all plain = true := by
  induction ds with
  | nil => exact ⟨rfl, rfl⟩
  | cons b ds ih =>
    simp only [List.all_cons, Bool.and_eq_true] at h ⊢
    obtain ⟨h1, h2, _⟩ := digit_facts b h.1
    exact ⟨⟨h1, (ih h.2).1⟩, ⟨h2, (ih h.2).2⟩⟩

theorem ascii_TYPE : ascii "TYPE" = [84, 89, 80, 69] := by decide
theorem ascii_CLASS : ascii "CLASS" = [67, 76, 65, 83, 83] := by decide

theorem parseUint16_digits (ds : Bytes) (hd : Digits ds) (hv : decVal ds ≤ 65535) : parseUint16 ds = some (decVal ds) := by
  unfold parseUint16
  have h1 : ds.isEmpty = false := by
    cases ds with
    | nil => exact absurd rfl hd.1
    | cons _ _ => rfl
  have h2 : (ds.all fun b => decide (48 ≤ b.toNat ∧ b.toNat ≤ 57)) = true := hd.2
  simp only [h1, h2, Bool.not_true, Bool.false_eq_true, or_self, ↓reduceIte]
  unfold decVal at hv
  simp only [hv, ↓reduceIte, decVal]

/-- an owner name: any word that is not one of the four directives -/
theorem classify_owner (z : St) (w : Bytes) (ho : z.owner = true)
    (h1 : goUpper w ≠ ascii "$TTL") (h2 : goUpper w ≠ ascii "$ORIGIN") (h3 : goUpper w ≠ ascii "$INCLUDE")
    (h4 : goUpper w ≠ ascii "$GENERATE") :
    (classify z w).2 = true ∧ (classify z w).1.l.value = zOwner ∧ (classify z w).1.rrtype = z.rrtype := by
  simp [classify, ho, h1, h2, h3, h4]

theorem goUpper_TTL : goUpper (ascii "$TTL") = ascii "$TTL" := by decide
theorem goUpper_ORIGIN : goUpper (ascii "$ORIGIN") = ascii "$ORIGIN" := by decide

theorem classify_dirTTL (z : St) (ho : z.owner = true) :
    (classify z (ascii "$TTL")).2 = true ∧ (classify z (ascii "$TTL")).1.l.value = zDirTTL ∧
    (classify z (ascii "$TTL")).1.rrtype = z.rrtype := by
  simp [classify, ho, goUpper_TTL]

theorem classify_dirOrigin (z : St) (ho : z.owner = true) :
    (classify z (ascii "$ORIGIN")).2 = true ∧ (classify z (ascii "$ORIGIN")).1.l.value = zDirOrigin ∧
    (classify z (ascii "$ORIGIN")).1.rrtype = z.rrtype := by
  have : (ascii "$ORIGIN" == ascii "$TTL") = false := by decide
  simp [classify, ho, goUpper_ORIGIN, this]

/-- after the type, every word is a plain string -/
theorem classify_rdata (z : St) (w : Bytes) (ho : z.owner = false) (hr : z.rrtype = true) :
    (classify z w).2 = true ∧ (classify z w).1.l.value = zString ∧ (classify z w).1.rrtype = true := by
  simp [classify, ho, hr]

/-- a number in header position stays a string (the parser reads it as a TTL) -/
theorem classify_digits (z : St) (ds : Bytes) (ho : z.owner = false) (hr : z.rrtype = false) (hd : Digits ds) :
    (classify z ds).2 = true ∧ (classify z ds).1.l.value = zString ∧ (classify z ds).1.rrtype = false := by
  obtain ⟨hne, hall⟩ := hd
  cases ds with
  | nil => exact absurd rfl hne
  | cons b r =>
    have hb : isDig b = true := by simp only [List.all_cons, Bool.and_eq_true] at hall; exact hall.1
    obtain ⟨_, _, hlt, h84, h67⟩ := digit_facts b hb
    have hu : goUpper (b :: r) = b :: r := goUpper_noFold _ (digits_all _ hall).1
    have l1 := lookup_first_lt Gen.stringToType (Or.inl rfl) b r hlt
    have l2 := lookup_first_lt Gen.stringToClass (Or.inr rfl) b r hlt
    have p1 : isPrefix (ascii "TYPE") (b :: r) = false := by
      simp only [isPrefix, ascii_TYPE, List.length_cons, List.length_nil, List.take_succ_cons]
      simp [h84]
    have p2 : isPrefix (ascii "CLASS") (b :: r) = false := by
      simp only [isPrefix, ascii_CLASS, List.length_cons, List.length_nil, List.take_succ_cons]
      simp [h67]
    simp [classify, typeStep, classStep, ho, hr, hu, l1, l2, p1, p2]

theorem isPrefix_append (p s : Bytes) : isPrefix p (p ++ s) = true := by
  simp [isPrefix]

/-- `CLASSnnn` -/
theorem classify_class (z : St) (ds : Bytes) (ho : z.owner = false) (hr : z.rrtype = false) (hd : Digits ds)
    (hv : decVal ds ≤ 65535) :
    (classify z (ascii "CLASS" ++ ds)).2 = true ∧ (classify z (ascii "CLASS" ++ ds)).1.l.value = zClass ∧
    (classify z (ascii "CLASS" ++ ds)).1.l.torc = decVal ds ∧ (classify z (ascii "CLASS" ++ ds)).1.rrtype = false := by
  have hnf : (ascii "CLASS" ++ ds).all noFold = true := by
    rw [List.all_append, (digits_all ds hd.2).1]; decide
  have hu := goUpper_noFold _ hnf
  have pc := isPrefix_append (ascii "CLASS") ds
  have pt : isPrefix (ascii "TYPE") (ascii "CLASS" ++ ds) = false := by
    simp [isPrefix, ascii_TYPE, ascii_CLASS]
  have l1 := lookup_prefixed Gen.stringToType (Or.inl rfl) _ (Or.inr pc)
  have l2 := lookup_prefixed Gen.stringToClass (Or.inr rfl) _ (Or.inr pc)
  have hn : numericCode 5 (ascii "CLASS" ++ ds) = some (decVal ds) := by
    unfold numericCode
    have hl : ¬ (ascii "CLASS" ++ ds).length < 5 + 1 := by
      have : ds.length ≠ 0 := by intro h; exact hd.1 (List.length_eq_zero_iff.mp h)
      simp [ascii_CLASS]; omega
    rw [if_neg hl]
    have : (ascii "CLASS" ++ ds).drop 5 = ds := by simp [ascii_CLASS]
    rw [this, parseUint16_digits ds hd hv]
  simp [classify, typeStep, classStep, ho, hr, hu, l1, l2, pc, pt, hn]

/-- `TYPEnnn` -/
theorem classify_type (z : St) (ds : Bytes) (ho : z.owner = false) (hr : z.rrtype = false) (hd : Digits ds)
    (hv : decVal ds ≤ 65535) :
    (classify z (ascii "TYPE" ++ ds)).2 = true ∧ (classify z (ascii "TYPE" ++ ds)).1.l.value = zRrtpe ∧
    (classify z (ascii "TYPE" ++ ds)).1.l.torc = decVal ds ∧ (classify z (ascii "TYPE" ++ ds)).1.rrtype = true := by
  have hnf : (ascii "TYPE" ++ ds).all noFold = true := by
    rw [List.all_append, (digits_all ds hd.2).1]; decide
  have hu := goUpper_noFold _ hnf
  have pt := isPrefix_append (ascii "TYPE") ds
  have pc : isPrefix (ascii "CLASS") (ascii "TYPE" ++ ds) = false := by
    simp [isPrefix, ascii_TYPE, ascii_CLASS]
  have l1 := lookup_prefixed Gen.stringToType (Or.inl rfl) _ (Or.inl pt)
  have l2 := lookup_prefixed Gen.stringToClass (Or.inr rfl) _ (Or.inl pt)
  have hn : numericCode 4 (ascii "TYPE" ++ ds) = some (decVal ds) := by
    unfold numericCode
    have hl : ¬ (ascii "TYPE" ++ ds).length < 4 + 1 := by
      have : ds.length ≠ 0 := by intro h; exact hd.1 (List.length_eq_zero_iff.mp h)
      simp [ascii_TYPE]; omega
    rw [if_neg hl]
    have : (ascii "TYPE" ++ ds).drop 4 = ds := by simp [ascii_TYPE]
    rw [this, parseUint16_digits ds hd hv]
  simp [classify, typeStep, classStep, ho, hr, hu, l1, l2, pc, pt, hn]

/-! ### a decimal TTL -/

theorem dig_unit : ∀ b : UInt8, isDig b = true → unitOf b = none ∧ Dns.isDigit b = true := by
  apply forall_byte; decide +kernel

theorem ttlSpecLoop_digits (ds : Bytes) (h : ds.all isDig = true) (s i : Nat) :
    ttlSpecLoop ds s i = some (s + ds.foldl (fun a b => a * 10 + (b.toNat - 48)) i) := by
  induction ds generalizing i with
  | nil => simp [ttlSpecLoop]
  | cons b ds ih =>
    simp only [List.all_cons, Bool.and_eq_true] at h
    obtain ⟨h1, h2⟩ := dig_unit b h.1
    simp only [ttlSpecLoop, h1, h2, ↓reduceIte, List.foldl_cons]
    exact ih h.2 _

theorem stringToTTL_digits (ds : Bytes) (hd : Digits ds) (hv : decVal ds ≤ maxU32) : stringToTTL ds = some (decVal ds) := by
  rw [Dns.C06.ttl_units]
  unfold ttlSpec
  rw [ttlSpecLoop_digits ds hd.2 0 0]
  simp only [Nat.zero_add]
  unfold decVal at hv
  have : ¬ ds.foldl (fun a b => a * 10 + (b.toNat - 48)) 0 > maxU32 := by omega
  simp only [this, ↓reduceIte, decVal]

/-! ### `absTokens` on single tokens -/

theorem abs_owner (t : Tok) (S : List Tok) (hv : t.value = zOwner) (he : t.err = false) :
    absTokens .hdr (t :: S) = .owner t.token :: absTokens .hdr S := by
  simp [absTokens, he, hv]

theorem abs_blank (t : Tok) (S : List Tok) (hv : t.value = zBlank) (he : t.err = false) :
    absTokens .hdr (t :: S) = .blank :: absTokens .hdr S := by
  simp [absTokens, he, hv, zBlank, zOwner]

theorem abs_str (t : Tok) (S : List Tok) (hv : t.value = zString) (he : t.err = false) :
    absTokens .hdr (t :: S) = .str (stringToTTL t.token) :: absTokens .hdr S := by
  simp [absTokens, he, hv, zBlank, zOwner, zString]

theorem abs_cls (t : Tok) (S : List Tok) (hv : t.value = zClass) (he : t.err = false) :
    absTokens .hdr (t :: S) = .cls t.torc :: absTokens .hdr S := by
  simp [absTokens, he, hv, zBlank, zOwner, zString, zClass]

theorem abs_typ (t : Tok) (S : List Tok) (hv : t.value = zRrtpe) (he : t.err = false) :
    absTokens .hdr (t :: S) = .typ t.torc :: absTokens .afterTyp S := by
  simp [absTokens, he, hv, zBlank, zOwner, zString, zClass, zRrtpe]

theorem abs_nl (t : Tok) (S : List Tok) (hv : t.value = zNewline) (he : t.err = false) :
    absTokens .hdr (t :: S) = .nl :: absTokens .hdr S := by
  simp [absTokens, he, hv, zBlank, zOwner, zString, zClass, zRrtpe, zNewline]

theorem abs_dirTTL (t : Tok) (S : List Tok) (hv : t.value = zDirTTL) (he : t.err = false) :
    absTokens .hdr (t :: S) = absTokens (.dir true 0 []) S := by
  simp [absTokens, he, hv, zBlank, zOwner, zString, zClass, zRrtpe, zNewline, zDirTTL]

theorem abs_dirOrigin (t : Tok) (S : List Tok) (hv : t.value = zDirOrigin) (he : t.err = false) :
    absTokens .hdr (t :: S) = absTokens (.dir false 0 []) S := by
  simp [absTokens, he, hv, zBlank, zOwner, zString, zClass, zRrtpe, zNewline, zDirTTL, zDirOrigin]

theorem abs_afterTyp (t : Tok) (S : List Tok) (hv : t.value = zBlank) (he : t.err = false) :
    absTokens .afterTyp (t :: S) = .blank :: absTokens .rdata S := by
  simp [absTokens, he, hv]

theorem abs_rdata_skip (t : Tok) (S : List Tok) (hv : t.value ≠ zNewline) (he : t.err = false) :
    absTokens .rdata (t :: S) = absTokens .rdata S := by
  simp [absTokens, he, hv]

theorem abs_rdata_nl (t : Tok) (S : List Tok) (hv : t.value = zNewline) (he : t.err = false) :
    absTokens .rdata (t :: S) = .rdata :: absTokens .hdr S := by
  simp [absTokens, he, hv]

/-- a directive line: blank, value, newline -/
theorem abs_dir (ttl : Bool) (b v n : Tok) (S : List Tok) (hb : b.value = zBlank) (hbe : b.err = false)
    (hv : v.value = zString) (hve : v.err = false) (hn : n.value = zNewline) (hne : n.err = false) :
    absTokens (.dir ttl 0 []) (b :: v :: n :: S) = dirTok ttl v.token :: absTokens .hdr S := by
  simp [absTokens, hb, hbe, hv, hve, hn, hne, zBlank, zNewline, zString]

/-! ### pieces of a line -/

/-- a word of the plain rendering: non-empty, no blank, no line break, no quote, escape, parenthesis or semicolon -/
def Word (w : Bytes) : Prop := w ≠ [] ∧ wordOK w = true

theorem digits_word (ds : Bytes) (h : Digits ds) : Word ds := ⟨h.1, plain_wordOK ds (digits_all ds h.2).2 h.1⟩

theorem prefixed_word (p ds : Bytes) (hp : p.all plain = true) (h : Digits ds) : Word (p ++ ds) := by
  have hne : p ++ ds ≠ [] := by intro e; exact h.1 (List.append_eq_nil_iff.mp e).2
  exact ⟨hne, plain_wordOK _ (by rw [List.all_append, hp, (digits_all ds h.2).2]; rfl) hne⟩

/-! ### domain names in the library's spelling are words -/

theorem okN_append (e : Bool) (a b : Bytes) : okN e (a ++ b) = (okN e a && okN (endE e a) b) := by
  induction a generalizing e with
  | nil => simp [okN, endE]
  | cons x a ih => simp [okN, endE, ih, Bool.and_assoc]

theorem endE_append (e : Bool) (a b : Bytes) : endE e (a ++ b) = endE (endE e a) b := by
  induction a generalizing e with
  | nil => simp [endE]
  | cons x a ih => simp [endE, ih]

theorem spAfter_append (sp e : Bool) (a b : Bytes) : spAfter sp e (a ++ b) = spAfter (spAfter sp e a) (endE e a) b := by
  induction a generalizing sp e with
  | nil => simp [spAfter, endE]
  | cons x a ih => simp [spAfter, endE, ih]

/-- every octet of a label, as `UnpackDomainName` / `sprintName` spell it, can be read back by the lexer -/
theorem presentByte_ok : ∀ b : Byte, okN false (presentByte b) = true ∧ endE false (presentByte b) = false := by
  apply forall_byte; decide +kernel

theorem presentLabel_ok (l : Bytes) : okN false (presentLabel l) = true ∧ endE false (presentLabel l) = false := by
  induction l with
  | nil => exact ⟨rfl, rfl⟩
  | cons b l ih =>
    have hb := presentByte_ok b
    simp only [presentLabel, List.flatMap_cons] at ih ⊢
    rw [okN_append, endE_append, hb.1, hb.2]
    exact ⟨by simpa using ih.1, ih.2⟩

theorem labels_dot_ok (ls : List Bytes) :
    okN false (ls.flatMap (fun l => presentLabel l ++ [46])) = true ∧
    endE false (ls.flatMap (fun l => presentLabel l ++ [46])) = false := by
  induction ls with
  | nil => exact ⟨rfl, rfl⟩
  | cons l ls ih =>
    have hl := presentLabel_ok l
    simp only [List.flatMap_cons, List.append_assoc]
    rw [okN_append, endE_append, hl.1, hl.2, okN_append, endE_append]
    refine ⟨by simpa [okN, endE, plain] using ih.1, by simpa [endE] using ih.2⟩

/-- **names are words**: the presentation form of every name — any octets in the labels, escaped as the library escapes
    them — is delivered by the lexer as one token, like a plain word -/
theorem name_word (ls : List Bytes) : Word (presentOf ls) := by
  unfold presentOf
  split
  · exact ⟨by decide, by decide⟩
  · rename_i hne
    cases ls with
    | nil => simp at hne
    | cons l ls =>
      obtain ⟨h1, h2⟩ := labels_dot_ok (l :: ls)
      refine ⟨by simp, ?_⟩
      simp only [wordOK, h1, h2, Bool.not_false, Bool.and_self, Bool.true_and, Bool.not_eq_true']
      simp only [List.flatMap_cons]
      rw [spAfter_append, spAfter_append, (presentLabel_ok l).2]
      simp only [spAfter, keepsSpace, Bool.false_and, Bool.not_false, Bool.true_and, Bool.false_or]
      have : ((46 : UInt8) == 92) = false := by decide
      simp only [this, Bool.false_eq_true, ↓reduceIte]
      exact spAfter_false _ _

def NotDirective (w : Bytes) : Prop :=
  goUpper w ≠ ascii "$TTL" ∧ goUpper w ≠ ascii "$ORIGIN" ∧ goUpper w ≠ ascii "$INCLUDE" ∧ goUpper w ≠ ascii "$GENERATE"

theorem goUpper_last_dot (s : Bytes) (h : s.getLast? = some 46) : (goUpper s).getLast? = some 46 := by
  fun_induction goUpper s
  · simp at h
  · rename_i b
    simp only [List.getLast?_singleton, Option.some.injEq] at h
    subst h
    decide
  · rename_i b c rest hbc ih
    cases rest with
    | nil =>
      simp only [List.getLast?_cons_cons, List.getLast?_singleton, Option.some.injEq] at h
      subst h
      simp at hbc
    | cons d rest =>
      have : (d :: rest).getLast? = some 46 := by simpa [List.getLast?_cons_cons] using h
      have := ih this
      cases hg : goUpper (d :: rest) with
      | nil => simp [hg] at this
      | cons g gs => rw [hg] at this; simpa [List.getLast?_cons_cons] using this
  · rename_i b c rest h1 h2 ih
    cases rest with
    | nil =>
      simp only [List.getLast?_cons_cons, List.getLast?_singleton, Option.some.injEq] at h
      subst h
      simp at h2
    | cons d rest =>
      have : (d :: rest).getLast? = some 46 := by simpa [List.getLast?_cons_cons] using h
      have := ih this
      cases hg : goUpper (d :: rest) with
      | nil => simp [hg] at this
      | cons g gs => rw [hg] at this; simpa [List.getLast?_cons_cons] using this
  · rename_i b c rest h1 h2 ih
    have : (c :: rest).getLast? = some 46 := by simpa [List.getLast?_cons_cons] using h
    have := ih this
    cases hg : goUpper (c :: rest) with
    | nil => simp [hg] at this
    | cons g gs => rw [hg] at this; simpa [List.getLast?_cons_cons] using this

/-- a fully qualified name is never taken for a directive -/
theorem name_notDirective (ls : List Bytes) : NotDirective (presentOf ls) := by
  have hl : (presentOf ls).getLast? = some 46 := by
    unfold presentOf
    split
    · rfl
    · rename_i hne
      cases ls with
      | nil => simp at hne
      | cons l ls =>
        rw [← List.dropLast_concat_getLast (l := l :: ls) (by simp)]
        simp [List.flatMap_append, List.getLast?_append]
  have hg := goUpper_last_dot _ hl
  refine ⟨?_, ?_, ?_, ?_⟩ <;> intro he <;> rw [he] at hg <;> revert hg <;> decide

/-! ### the words of a header, by what the lexer makes of them -/

/-- a word that stays a plain string in header position: no mnemonic of either table, no `TYPE` / `CLASS` prefix -/
def StrWord (w : Bytes) : Prop :=
  Word w ∧ lookup Gen.stringToType (goUpper w) = none ∧ isPrefix (ascii "TYPE") (goUpper w) = false ∧
  lookup Gen.stringToClass (goUpper w) = none ∧ isPrefix (ascii "CLASS") (goUpper w) = false

/-- a TTL as the parser reads it: a plain string that `stringToTTL` accepts -/
def TtlWord (w : Bytes) (v : Nat) : Prop := StrWord w ∧ stringToTTL w = some v

/-- a class: a mnemonic of `StringToClass` in any case, or `CLASSnnn` -/
def ClassWord (w : Bytes) (c : Nat) : Prop :=
  Word w ∧ lookup Gen.stringToType (goUpper w) = none ∧ isPrefix (ascii "TYPE") (goUpper w) = false ∧
  (lookup Gen.stringToClass (goUpper w) = some c ∨
    (lookup Gen.stringToClass (goUpper w) = none ∧ isPrefix (ascii "CLASS") (goUpper w) = true ∧ numericCode 5 w = some c))

/-- a type: a mnemonic of `StringToType` in any case (that is not also a class), or `TYPEnnn` -/
def TypeWord (w : Bytes) (t : Nat) : Prop :=
  Word w ∧ lookup Gen.stringToClass (goUpper w) = none ∧ isPrefix (ascii "CLASS") (goUpper w) = false ∧
  (lookup Gen.stringToType (goUpper w) = some t ∨
    (lookup Gen.stringToType (goUpper w) = none ∧ isPrefix (ascii "TYPE") (goUpper w) = true ∧ numericCode 4 w = some t))

theorem classify_str (z : St) (w : Bytes) (ho : z.owner = false) (hr : z.rrtype = false) (h : StrWord w) :
    (classify z w).2 = true ∧ (classify z w).1.l.value = zString ∧ (classify z w).1.rrtype = false := by
  obtain ⟨_, l1, p1, l2, p2⟩ := h
  simp [classify, typeStep, classStep, ho, hr, l1, l2, p1, p2]

theorem classify_clsw (z : St) (w : Bytes) (c : Nat) (ho : z.owner = false) (hr : z.rrtype = false) (h : ClassWord w c) :
    (classify z w).2 = true ∧ (classify z w).1.l.value = zClass ∧ (classify z w).1.l.torc = c ∧
    (classify z w).1.rrtype = false := by
  obtain ⟨_, l1, p1, h2⟩ := h
  rcases h2 with l2 | ⟨l2, p2, n2⟩
  · simp [classify, typeStep, classStep, ho, hr, l1, l2, p1]
  · simp [classify, typeStep, classStep, ho, hr, l1, l2, p1, p2, n2]

theorem classify_typw (z : St) (w : Bytes) (t : Nat) (ho : z.owner = false) (hr : z.rrtype = false) (h : TypeWord w t) :
    (classify z w).2 = true ∧ (classify z w).1.l.value = zRrtpe ∧ (classify z w).1.l.torc = t ∧
    (classify z w).1.rrtype = true := by
  obtain ⟨_, l2, p2, h1⟩ := h
  rcases h1 with l1 | ⟨l1, p1, n1⟩
  · simp [classify, typeStep, classStep, ho, hr, l1, l2, p2]
  · simp [classify, typeStep, classStep, ho, hr, l1, l2, p1, p2, n1]

theorem digits_lookup (ds : Bytes) (hd : Digits ds) : lookup Gen.stringToType (goUpper ds) = none := by
  obtain ⟨hne, hall⟩ := hd
  rw [goUpper_noFold _ (digits_all _ hall).1]
  cases ds with
  | nil => exact absurd rfl hne
  | cons b r =>
    have hb : isDig b = true := by simp only [List.all_cons, Bool.and_eq_true] at hall; exact hall.1
    exact lookup_first_lt Gen.stringToType (Or.inl rfl) b r (digit_facts b hb).2.2.1

/-- decimal TTLs, `CLASSnnn` and `TYPEnnn` are such words -/
theorem digits_strWord (ds : Bytes) (hd : Digits ds) : StrWord ds := by
  have hw := digits_word ds hd
  have hl := digits_lookup ds hd
  obtain ⟨hne, hall⟩ := hd
  rw [StrWord, goUpper_noFold _ (digits_all _ hall).1] at *
  cases ds with
  | nil => exact absurd rfl hne
  | cons b r =>
    have hb : isDig b = true := by simp only [List.all_cons, Bool.and_eq_true] at hall; exact hall.1
    obtain ⟨_, _, hlt, h84, h67⟩ := digit_facts b hb
    refine ⟨hw, hl, ?_, lookup_first_lt Gen.stringToClass (Or.inr rfl) b r hlt, ?_⟩
    · simp only [isPrefix, ascii_TYPE, List.length_cons, List.length_nil, List.take_succ_cons]
      simp [h84]
    · simp only [isPrefix, ascii_CLASS, List.length_cons, List.length_nil, List.take_succ_cons]
      simp [h67]

theorem digits_ttlWord (ds : Bytes) (hd : Digits ds) (hv : decVal ds ≤ maxU32) : TtlWord ds (decVal ds) :=
  ⟨digits_strWord ds hd, stringToTTL_digits ds hd hv⟩

theorem numeric_classWord (ds : Bytes) (hd : Digits ds) (hv : decVal ds ≤ 65535) :
    ClassWord (ascii "CLASS" ++ ds) (decVal ds) := by
  have hnf : (ascii "CLASS" ++ ds).all noFold = true := by
    rw [List.all_append, (digits_all ds hd.2).1]; decide
  have hu := goUpper_noFold _ hnf
  have pc := isPrefix_append (ascii "CLASS") ds
  have pt : isPrefix (ascii "TYPE") (ascii "CLASS" ++ ds) = false := by
    simp [isPrefix, ascii_TYPE, ascii_CLASS]
  have hn : numericCode 5 (ascii "CLASS" ++ ds) = some (decVal ds) := by
    unfold numericCode
    have hl : ¬ (ascii "CLASS" ++ ds).length < 5 + 1 := by
      have : ds.length ≠ 0 := by intro h; exact hd.1 (List.length_eq_zero_iff.mp h)
      simp [ascii_CLASS]; omega
    rw [if_neg hl]
    have : (ascii "CLASS" ++ ds).drop 5 = ds := by simp [ascii_CLASS]
    rw [this, parseUint16_digits ds hd hv]
  rw [ClassWord, hu]
  exact ⟨prefixed_word (ascii "CLASS") ds (by decide) hd, lookup_prefixed Gen.stringToType (Or.inl rfl) _ (Or.inr pc), pt,
    Or.inr ⟨lookup_prefixed Gen.stringToClass (Or.inr rfl) _ (Or.inr pc), pc, hn⟩⟩

theorem numeric_typeWord (ds : Bytes) (hd : Digits ds) (hv : decVal ds ≤ 65535) :
    TypeWord (ascii "TYPE" ++ ds) (decVal ds) := by
  have hnf : (ascii "TYPE" ++ ds).all noFold = true := by
    rw [List.all_append, (digits_all ds hd.2).1]; decide
  have hu := goUpper_noFold _ hnf
  have pt := isPrefix_append (ascii "TYPE") ds
  have pc : isPrefix (ascii "CLASS") (ascii "TYPE" ++ ds) = false := by
    simp [isPrefix, ascii_TYPE, ascii_CLASS]
  have hn : numericCode 4 (ascii "TYPE" ++ ds) = some (decVal ds) := by
    unfold numericCode
    have hl : ¬ (ascii "TYPE" ++ ds).length < 4 + 1 := by
      have : ds.length ≠ 0 := by intro h; exact hd.1 (List.length_eq_zero_iff.mp h)
      simp [ascii_TYPE]; omega
    rw [if_neg hl]
    have : (ascii "TYPE" ++ ds).drop 4 = ds := by simp [ascii_TYPE]
    rw [this, parseUint16_digits ds hd hv]
  rw [TypeWord, hu]
  exact ⟨prefixed_word (ascii "TYPE") ds (by decide) hd, lookup_prefixed Gen.stringToClass (Or.inr rfl) _ (Or.inl pt), pc,
    Or.inr ⟨lookup_prefixed Gen.stringToType (Or.inl rfl) _ (Or.inl pt), pt, hn⟩⟩

/-- mnemonics in any case: what the library itself prints, and what people type -/
example : ClassWord (ascii "IN") 1 ∧ ClassWord (ascii "in") 1 ∧ ClassWord (ascii "cH") 3 := by
  refine ⟨⟨⟨by decide, by decide⟩, ?_, ?_, Or.inl ?_⟩, ⟨⟨by decide, by decide⟩, ?_, ?_, Or.inl ?_⟩,
    ⟨⟨by decide, by decide⟩, ?_, ?_, Or.inl ?_⟩⟩ <;> decide +kernel
example : TypeWord (ascii "A") 1 ∧ TypeWord (ascii "mx") 15 ∧ TypeWord (ascii "Soa") 6 ∧ TypeWord (ascii "type65280") 65280 := by
  refine ⟨⟨⟨by decide, by decide⟩, ?_, ?_, Or.inl ?_⟩, ⟨⟨by decide, by decide⟩, ?_, ?_, Or.inl ?_⟩,
    ⟨⟨by decide, by decide⟩, ?_, ?_, Or.inl ?_⟩, ⟨⟨by decide, by decide⟩, ?_, ?_, Or.inr ⟨?_, ?_, ?_⟩⟩⟩ <;> decide +kernel
example : TtlWord (ascii "3600") 3600 ∧ TtlWord (ascii "1h30m") 5400 := by
  refine ⟨⟨⟨⟨by decide, by decide⟩, ?_, ?_, ?_, ?_⟩, ?_⟩, ⟨⟨⟨by decide, by decide⟩, ?_, ?_, ?_, ?_⟩, ?_⟩⟩ <;> decide +kernel

/-- a TTL in header position -/
theorem piece_ttl (zl : St) (w : Bytes) (v : Nat) (rest : Bytes) (hL : LS zl false false true) (hw : TtlWord w v) :
    ∃ zl', LS zl' false false true ∧
      absTokens .hdr (stream zl (w ++ 32 :: rest)) = .str (some v) :: .blank :: absTokens .hdr (stream zl' rest) := by
  obtain ⟨hs', htt⟩ := hw
  obtain ⟨hne, hpl⟩ := hs'.1
  obtain ⟨z, t, b, zl', zo, zr, ze, ht, hs, htk, hte, hbv, hbe, hL'⟩ :=
    stream_word_blank zl w rest false false true hL hpl hne (fun z ho hr _ => (classify_str z w ho hr hs').1)
  obtain ⟨_, k2, k3⟩ := classify_str z w zo zr hs'
  rw [k3] at hL'
  refine ⟨zl', hL', ?_⟩
  rw [hs, abs_str t _ (by rw [ht]; exact k2) hte, abs_blank b _ hbv hbe, htk, htt]

/-- a class in header position -/
theorem piece_cls (zl : St) (w : Bytes) (c : Nat) (rest : Bytes) (hL : LS zl false false true) (hw : ClassWord w c) :
    ∃ zl', LS zl' false false true ∧
      absTokens .hdr (stream zl (w ++ 32 :: rest)) = .cls c :: .blank :: absTokens .hdr (stream zl' rest) := by
  obtain ⟨hne, hpl⟩ := hw.1
  obtain ⟨z, t, b, zl', zo, zr, ze, ht, hs, htk, hte, hbv, hbe, hL'⟩ :=
    stream_word_blank zl w rest false false true hL hpl hne (fun z ho hr _ => (classify_clsw z w c ho hr hw).1)
  obtain ⟨_, k2, k3, k4⟩ := classify_clsw z w c zo zr hw
  rw [k4] at hL'
  refine ⟨zl', hL', ?_⟩
  rw [hs, abs_cls t _ (by rw [ht]; exact k2) hte, abs_blank b _ hbv hbe, ht, k3]

/-- the RDATA words and the end of the line -/
theorem piece_rdata (zl : St) (ws : List Bytes) (last rest : Bytes) (hL : LS zl false true true)
    (hws : ∀ w ∈ ws, Word w) (hl : Word last) :
    ∃ zl', LS zl' true false false ∧
      absTokens .rdata (stream zl (ws.flatMap (fun w => w ++ [32]) ++ (last ++ 10 :: rest))) =
        .rdata :: absTokens .hdr (stream zl' rest) := by
  induction ws generalizing zl with
  | nil =>
    simp only [List.flatMap_nil, List.nil_append]
    obtain ⟨z, t, b, zl', zr, ze, ht, hs, hbv, hbe, hL'⟩ := stream_word_nl zl last rest false true true hL hl.2 hl.1
    refine ⟨zl', hL', ?_⟩
    have htv : t.value = zString ∧ t.err = false := by
      rw [ht]; unfold nlWordTok; simp [zr, ze]
    rw [hs, abs_rdata_skip t _ (by rw [htv.1]; decide) htv.2, abs_rdata_nl b _ hbv hbe]
  | cons w ws ih =>
    obtain ⟨hne, hpl⟩ := hws w (by simp)
    simp only [List.flatMap_cons, List.append_assoc, List.singleton_append, List.cons_append, List.nil_append]
    obtain ⟨z, t, b, zl1, zo, zr, ze, ht, hs, htk, hte, hbv, hbe, hL1⟩ :=
      stream_word_blank zl w (ws.flatMap (fun w => w ++ [32]) ++ (last ++ 10 :: rest)) false true true hL hpl hne
        (fun z ho hr _ => (classify_rdata z w ho hr).1)
    obtain ⟨_, k2, k3⟩ := classify_rdata z w zo zr
    rw [k3] at hL1
    obtain ⟨zl', hL', h⟩ := ih zl1 hL1 (fun x hx => hws x (by simp [hx]))
    refine ⟨zl', hL', ?_⟩
    rw [hs, abs_rdata_skip t _ (by rw [ht, k2]; decide) hte, abs_rdata_skip b _ (by rw [hbv]; decide) hbe, h]

/-- the type, the RDATA and the end of the line -/
theorem piece_type (zl : St) (w : Bytes) (ty : Nat) (ws : List Bytes) (last rest : Bytes) (hL : LS zl false false true)
    (hw : TypeWord w ty) (hws : ∀ w ∈ ws, Word w) (hl : Word last) :
    ∃ zl', LS zl' true false false ∧
      absTokens .hdr (stream zl (w ++ 32 :: (ws.flatMap (fun w => w ++ [32]) ++ (last ++ 10 :: rest)))) =
        .typ ty :: .blank :: .rdata :: absTokens .hdr (stream zl' rest) := by
  obtain ⟨hne, hpl⟩ := hw.1
  obtain ⟨z, t, b, zl1, zo, zr, ze, ht, hs, htk, hte, hbv, hbe, hL1⟩ :=
    stream_word_blank zl w (ws.flatMap (fun w => w ++ [32]) ++ (last ++ 10 :: rest)) false false true hL hpl hne
      (fun z ho hr _ => (classify_typw z w ty ho hr hw).1)
  obtain ⟨_, k2, k3, k4⟩ := classify_typw z w ty zo zr hw
  rw [k4] at hL1
  obtain ⟨zl', hL', h⟩ := piece_rdata zl1 ws last rest hL1 hws hl
  refine ⟨zl', hL', ?_⟩
  rw [hs, abs_typ t _ (by rw [ht]; exact k2) hte, abs_afterTyp b _ hbv hbe, h, ht, k3]

/-! ### lines of the plain rendering -/

/-- a resource record entry, as its words (each with the value the word stands for) -/
structure RRText where
  owner : Option Bytes              -- omitted = the line starts with a blank
  ttl : Option (Bytes × Nat)        -- e.g. `3600`, `1h30m`
  cls : Option (Bytes × Nat)        -- e.g. `IN`, `in`, `CLASS3`
  ttlFirst : Bool
  typ : Bytes × Nat                 -- e.g. `A`, `mx`, `TYPE65280`
  rdata : List Bytes                -- the RDATA words but the last
  last : Bytes                      -- the last RDATA word

inductive TLine where
  | rr (x : RRText)
  | ttlDir (w : Bytes) (v : Nat)
  | originDir (name : Bytes)
  | empty

def ttlWords (x : RRText) : Bytes := match x.ttl with | some p => p.1 ++ [32] | none => []
def clsWords (x : RRText) : Bytes := match x.cls with | some p => p.1 ++ [32] | none => []

def TLine.render : TLine → Bytes
  | .empty => [10]
  | .ttlDir w _ => ascii "$TTL" ++ 32 :: (w ++ [10])
  | .originDir n => ascii "$ORIGIN" ++ 32 :: (n ++ [10])
  | .rr x =>
    (match x.owner with | some o => o ++ [32] | none => [32]) ++
    ((if x.ttlFirst then ttlWords x ++ clsWords x else clsWords x ++ ttlWords x) ++
    (x.typ.1 ++ 32 :: (x.rdata.flatMap (fun w => w ++ [32]) ++ (x.last ++ [10]))))

/-- what the line says, in the vocabulary of the specification (DnsModel/Zone.lean) -/
def TLine.toZLine : TLine → ZLine
  | .empty => .empty
  | .ttlDir _ v => .ttlDir v
  | .originDir n => .originDir n
  | .rr x => .rr x.owner (x.ttl.map (·.2)) (x.cls.map (·.2)) x.ttlFirst x.typ.2

/-- well-formed lines: every word is what its place says -/
def TLine.WF : TLine → Prop
  | .empty => True
  | .ttlDir w v => TtlWord w v
  | .originDir n => Word n ∧ lookup Gen.stringToType (goUpper n) = none
  | .rr x =>
    (∀ o, x.owner = some o → Word o ∧ NotDirective o) ∧
    (∀ p, x.ttl = some p → TtlWord p.1 p.2) ∧
    (∀ p, x.cls = some p → ClassWord p.1 p.2) ∧
    TypeWord x.typ.1 x.typ.2 ∧ (∀ w ∈ x.rdata, Word w) ∧ Word x.last

theorem piece_ttl_opt (zl : St) (x : RRText) (rest : Bytes) (hL : LS zl false false true)
    (h : ∀ p, x.ttl = some p → TtlWord p.1 p.2) :
    ∃ zl', LS zl' false false true ∧
      absTokens .hdr (stream zl (ttlWords x ++ rest)) =
        (match x.ttl.map (·.2) with | some v => [ZTok.str (some v), .blank] | none => []) ++ absTokens .hdr (stream zl' rest) := by
  unfold ttlWords
  cases ht : x.ttl with
  | none => exact ⟨zl, hL, by simp⟩
  | some p =>
    obtain ⟨zl', hL', he⟩ := piece_ttl zl p.1 p.2 rest hL (h p ht)
    refine ⟨zl', hL', ?_⟩
    simp only [List.append_assoc, List.singleton_append, Option.map_some, List.cons_append, List.nil_append]
    exact he

theorem piece_cls_opt (zl : St) (x : RRText) (rest : Bytes) (hL : LS zl false false true)
    (h : ∀ p, x.cls = some p → ClassWord p.1 p.2) :
    ∃ zl', LS zl' false false true ∧
      absTokens .hdr (stream zl (clsWords x ++ rest)) =
        (match x.cls.map (·.2) with | some c => [ZTok.cls c, .blank] | none => []) ++ absTokens .hdr (stream zl' rest) := by
  unfold clsWords
  cases hc : x.cls with
  | none => exact ⟨zl, hL, by simp⟩
  | some p =>
    obtain ⟨zl', hL', he⟩ := piece_cls zl p.1 p.2 rest hL (h p hc)
    refine ⟨zl', hL', ?_⟩
    simp only [List.append_assoc, List.singleton_append, Option.map_some, List.cons_append, List.nil_append]
    exact he

/-- the owner, or the blank that stands for an omitted owner -/
theorem piece_owner (zl : St) (x : RRText) (rest : Bytes) (hL : LS zl true false false)
    (h : ∀ o, x.owner = some o → Word o ∧ NotDirective o) :
    ∃ zl', LS zl' false false true ∧
      absTokens .hdr (stream zl ((match x.owner with | some o => o ++ [32] | none => [32]) ++ rest)) =
        (match x.owner with | some n => [ZTok.owner n, .blank] | none => [.blank]) ++ absTokens .hdr (stream zl' rest) := by
  cases ho : x.owner with
  | none =>
    obtain ⟨b, zl', hs, hbv, hbe, hL'⟩ := stream_blank_first zl rest true false hL
    refine ⟨zl', hL', ?_⟩
    simp only [List.singleton_append, List.cons_append, List.nil_append]
    rw [hs, abs_blank b _ hbv hbe]
  | some o =>
    obtain ⟨⟨hne, hpl⟩, d1, d2, d3, d4⟩ := h o ho
    obtain ⟨z, t, b, zl', zo, zr, ze, ht, hs, htk, hte, hbv, hbe, hL'⟩ :=
      stream_word_blank zl o rest true false false hL hpl hne (fun z ho _ _ => (classify_owner z o ho d1 d2 d3 d4).1)
    obtain ⟨_, k2, k3⟩ := classify_owner z o zo d1 d2 d3 d4
    rw [k3, zr] at hL'
    refine ⟨zl', hL', ?_⟩
    simp only [List.append_assoc, List.singleton_append, List.cons_append, List.nil_append]
    rw [hs, abs_owner t _ (by rw [ht]; exact k2) hte, abs_blank b _ hbv hbe, htk]

theorem nlWordTok_plain (z : St) (w : Bytes) (he : z.l.err = false)
    (h : z.rrtype = true ∨ lookup Gen.stringToType (goUpper w) = none) :
    (nlWordTok z w).value = zString ∧ (nlWordTok z w).token = w ∧ (nlWordTok z w).err = false := by
  unfold nlWordTok
  rcases h with h | h
  · simp [h, he]
  · cases z.rrtype <;> simp [h, he]

/-- a directive line: `$TTL value` or `$ORIGIN value` -/
theorem piece_directive (zl : St) (ttl : Bool) (v rest : Bytes) (hL : LS zl true false false) (hv : Word v)
    (hlk : lookup Gen.stringToType (goUpper v) = none) :
    ∃ zl', LS zl' true false false ∧
      absTokens .hdr (stream zl ((if ttl then ascii "$TTL" else ascii "$ORIGIN") ++ 32 :: (v ++ 10 :: rest))) =
        dirTok ttl v :: absTokens .hdr (stream zl' rest) := by
  have hkw : Word (if ttl then ascii "$TTL" else ascii "$ORIGIN") := by
    cases ttl <;> exact ⟨by decide, by decide⟩
  have hcl : ∀ z : St, z.owner = true → (classify z (if ttl then ascii "$TTL" else ascii "$ORIGIN")).2 = true ∧
      (classify z (if ttl then ascii "$TTL" else ascii "$ORIGIN")).1.l.value = (if ttl then zDirTTL else zDirOrigin) ∧
      (classify z (if ttl then ascii "$TTL" else ascii "$ORIGIN")).1.rrtype = z.rrtype := by
    intro z ho
    cases ttl
    · exact classify_dirOrigin z ho
    · exact classify_dirTTL z ho
  obtain ⟨z, t, b, zl1, zo, zr, ze, ht, hs, htk, hte, hbv, hbe, hL1⟩ :=
    stream_word_blank zl _ (v ++ 10 :: rest) true false false hL hkw.2 hkw.1 (fun z ho _ _ => (hcl z ho).1)
  obtain ⟨_, k2, k3⟩ := hcl z zo
  rw [k3, zr] at hL1
  obtain ⟨z2, t2, b2, zl', zr2, ze2, ht2, hs2, hbv2, hbe2, hL'⟩ := stream_word_nl zl1 v rest false false true hL1 hv.2 hv.1
  obtain ⟨n1, n2, n3⟩ := nlWordTok_plain z2 v ze2 (Or.inr hlk)
  refine ⟨zl', hL', ?_⟩
  rw [hs, hs2]
  have hstep : absTokens .hdr (t :: b :: t2 :: b2 :: stream zl' rest) = absTokens (.dir ttl 0 []) (b :: t2 :: b2 :: stream zl' rest) := by
    cases ttl
    · exact abs_dirOrigin t _ (by rw [ht]; exact k2) hte
    · exact abs_dirTTL t _ (by rw [ht]; exact k2) hte
  rw [hstep, abs_dir ttl b t2 b2 _ hbv hbe (by rw [ht2]; exact n1) (by rw [ht2]; exact n3) hbv2 hbe2, ht2, n2]

/-- **one line**: the abstract tokens of a rendered line are the tokens of the entry it says -/
theorem line_tokens (zl : St) (ln : TLine) (rest : Bytes) (hL : LS zl true false false) (hwf : ln.WF) :
    ∃ zl', LS zl' true false false ∧
      absTokens .hdr (stream zl (ln.render ++ rest)) = tokensOf ln.toZLine ++ absTokens .hdr (stream zl' rest) := by
  cases ln with
  | empty =>
    obtain ⟨b, zl', hs, hbv, hbe, hL'⟩ := stream_nl_first zl rest true false false hL
    refine ⟨zl', hL', ?_⟩
    simp only [TLine.render, List.singleton_append, TLine.toZLine, tokensOf]
    rw [hs, abs_nl b _ hbv hbe]
  | ttlDir w v =>
    obtain ⟨hs', htt⟩ := hwf
    obtain ⟨zl', hL', h⟩ := piece_directive zl true w rest hL hs'.1 hs'.2.1
    refine ⟨zl', hL', ?_⟩
    simp only [TLine.render, TLine.toZLine, tokensOf, List.append_assoc, List.cons_append, List.nil_append,
      List.singleton_append]
    simp only [↓reduceIte] at h
    rw [h]
    simp [dirTok, htt]
  | originDir n =>
    obtain ⟨hw, hlk⟩ := hwf
    obtain ⟨zl', hL', h⟩ := piece_directive zl false n rest hL hw hlk
    refine ⟨zl', hL', ?_⟩
    simp only [TLine.render, TLine.toZLine, tokensOf, List.append_assoc, List.cons_append, List.nil_append,
      List.singleton_append]
    simp only [Bool.false_eq_true, ↓reduceIte] at h
    rw [h]
    simp [dirTok]
  | rr x =>
    obtain ⟨ho, ht, hc, hty, hws, hl⟩ := hwf
    have hr : (TLine.rr x).render ++ rest =
        (match x.owner with | some o => o ++ [32] | none => [32]) ++
        ((if x.ttlFirst then ttlWords x ++ clsWords x else clsWords x ++ ttlWords x) ++
        (x.typ.1 ++ 32 :: (x.rdata.flatMap (fun w => w ++ [32]) ++ (x.last ++ 10 :: rest)))) := by
      simp [TLine.render, List.append_assoc]
    rw [hr]
    obtain ⟨z1, L1, e1⟩ := piece_owner zl x
      ((if x.ttlFirst then ttlWords x ++ clsWords x else clsWords x ++ ttlWords x) ++
        (x.typ.1 ++ 32 :: (x.rdata.flatMap (fun w => w ++ [32]) ++ (x.last ++ 10 :: rest)))) hL ho
    rw [e1]
    simp only [TLine.toZLine, tokensOf]
    cases htf : x.ttlFirst
    · simp only [Bool.false_eq_true, ↓reduceIte]
      rw [List.append_assoc (clsWords x)]
      obtain ⟨z2, L2, e2⟩ := piece_cls_opt z1 x (ttlWords x ++ (x.typ.1 ++ 32 :: (x.rdata.flatMap (fun w => w ++ [32]) ++ (x.last ++ 10 :: rest)))) L1 hc
      obtain ⟨z3, L3, e3⟩ := piece_ttl_opt z2 x (x.typ.1 ++ 32 :: (x.rdata.flatMap (fun w => w ++ [32]) ++ (x.last ++ 10 :: rest))) L2 ht
      obtain ⟨z4, L4, e4⟩ := piece_type z3 x.typ.1 x.typ.2 x.rdata x.last rest L3 hty hws hl
      refine ⟨z4, L4, ?_⟩
      rw [e2, e3, e4]
      simp only [List.append_assoc, List.cons_append, List.nil_append]
      cases x.owner <;> cases x.ttl <;> cases x.cls <;> rfl
    · simp only [↓reduceIte]
      rw [List.append_assoc (ttlWords x)]
      obtain ⟨z2, L2, e2⟩ := piece_ttl_opt z1 x (clsWords x ++ (x.typ.1 ++ 32 :: (x.rdata.flatMap (fun w => w ++ [32]) ++ (x.last ++ 10 :: rest)))) L1 ht
      obtain ⟨z3, L3, e3⟩ := piece_cls_opt z2 x (x.typ.1 ++ 32 :: (x.rdata.flatMap (fun w => w ++ [32]) ++ (x.last ++ 10 :: rest))) L2 hc
      obtain ⟨z4, L4, e4⟩ := piece_type z3 x.typ.1 x.typ.2 x.rdata x.last rest L3 hty hws hl
      refine ⟨z4, L4, ?_⟩
      rw [e2, e3, e4]
      simp only [List.append_assoc, List.cons_append, List.nil_append]
      cases x.owner <;> cases x.ttl <;> cases x.cls <;> rfl

/-! ### whole texts -/

def renderAll (ls : List TLine) : Bytes := ls.flatMap TLine.render

theorem text_tokens (zl : St) (ls : List TLine) (hL : LS zl true false false) (hwf : ∀ l ∈ ls, l.WF) :
    absTokens .hdr (stream zl (renderAll ls)) = (ls.map TLine.toZLine).flatMap tokensOf := by
  induction ls generalizing zl with
  | nil =>
    simp only [renderAll, List.flatMap_nil, List.map_nil]
    rw [stream_nil zl true false false hL]
    rfl
  | cons l ls ih =>
    obtain ⟨zl', hL', h⟩ := line_tokens zl l (renderAll ls) hL (hwf l (by simp))
    have ih' := ih zl' hL' (fun x hx => hwf x (by simp [hx]))
    simp only [renderAll, List.flatMap_cons, List.map_cons] at h ih' ⊢
    rw [h, ih']

theorem init_LS : LS ({} : St) true false false :=
  ⟨⟨rfl, rfl, rfl, rfl, rfl, rfl⟩, rfl, rfl, rfl⟩

/-- **from octets to denotation**: for every list of well-formed lines — records with or without owner, TTL and class
    in either order and in any of their spellings (mnemonics in any case, `CLASSnnn` / `TYPEnnn`, TTLs with units),
    `$TTL` and `$ORIGIN` directives, empty lines — and every configuration, reading the octets of the one-entry-per-line
    rendering (lexer, grouping into abstract tokens, header machine) yields exactly the record headers the lines denote
    by RFC 1035 section 5.1 -/
theorem text_denotes (origin : Bytes) (d : Option Nat) (ls : List TLine) (hwf : ∀ l ∈ ls, l.WF) (rs : List ZHdr)
    (h : denote (ls.map TLine.toZLine) ⟨origin, [], 0, d.map (fun v => (v, false))⟩ [] = some rs) :
    readZone origin d (renderAll ls) = (rs, false) := by
  unfold readZone
  rw [lexAll_stream, text_tokens {} ls init_LS hwf]
  exact Dns.C06.parser_refines_denote _ _ _ [] rs ⟨rfl, rfl, rfl, fun _ => rfl⟩ h

/-- **keyword case**: the spelling of a class or type word enters the result only through its upper-cased form — two
    texts that differ in the case of ASCII letters of their class / type words denote the same -/
theorem classWord_case (w1 w2 : Bytes) (c : Nat) (h : w1.map up1 = w2.map up1) (hw : Word w2) (h1 : ClassWord w1 c) :
    ClassWord w2 c := by
  have hu : goUpper w1 = goUpper w2 := by rw [← goUpper_map w1, ← goUpper_map w2, h]
  have h5 : numericCode 5 w1 = numericCode 5 w2 := by rw [← numericCode_map 5 w1, ← numericCode_map 5 w2, h]
  obtain ⟨_, a, b, c'⟩ := h1
  exact ⟨hw, hu ▸ a, hu ▸ b, by rw [← hu, ← h5]; exact c'⟩

theorem typeWord_case (w1 w2 : Bytes) (t : Nat) (h : w1.map up1 = w2.map up1) (hw : Word w2) (h1 : TypeWord w1 t) :
    TypeWord w2 t := by
  have hu : goUpper w1 = goUpper w2 := by rw [← goUpper_map w1, ← goUpper_map w2, h]
  have h4 : numericCode 4 w1 = numericCode 4 w2 := by rw [← numericCode_map 4 w1, ← numericCode_map 4 w2, h]
  obtain ⟨_, a, b, c'⟩ := h1
  exact ⟨hw, hu ▸ a, hu ▸ b, by rw [← hu, ← h4]; exact c'⟩

/-- the premises are satisfiable: a small zone with every kind of line -/
example :
    let ls : List TLine := [.ttlDir (ascii "300") 300, .originDir (ascii "example.org."),
      .rr ⟨some (ascii "www"), none, some (ascii "IN", 1), true, (ascii "A", 1), [], ascii "192.0.2.1"⟩,
      .empty,
      .rr ⟨none, some (ascii "1h", 3600), none, false, (ascii "mx", 15), [ascii "10"], ascii "mail"⟩]
    readZone (ascii ".") none (renderAll ls) =
      ([⟨ascii "www.example.org.", 300, 1, 1⟩, ⟨ascii "www.example.org.", 3600, 1, 15⟩], false) := by
  decide +kernel

end Dns.C06T
