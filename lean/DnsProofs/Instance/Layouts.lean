/-
  Instance facts about the tables regenerated from /repo's zmsg.go / ztypes.go on every run.
  These are the obligations that tie the generated per-type code to the committed specification tables.
-/
import DnsModel.Generated.Layouts
import DnsSpec.RfcLayouts
namespace Dns.Instance
open Dns

/-- the per-type pack sequences found in zmsg.go are the specified RFC field sequences -/
theorem packPlans_eq_spec : Gen.packPlans = Spec.packPlans := by rfl
/-- the per-type unpack sequences found in zmsg.go are the specified RFC field sequences -/
theorem unpackPlans_eq_spec : Gen.unpackPlans = Spec.unpackPlans := by rfl
/-- the type registry (type code ↦ record structure) is as specified -/
theorem typeRegistry_eq_spec : Gen.typeRegistry = Spec.typeRegistry := by rfl

/-- pack-codec name ↦ unpack-codec name -/
def dual (c : String) : String :=
  if c = "packDomainName" then "UnpackDomainName" else "un" ++ c

def packShape (p : String × List (String × String × String × String)) : String × List (String × String) :=
  (p.1, p.2.map fun s => (dual s.1, s.2.1))
def unpackShape (p : String × List (String × String × String × String)) : String × List (String × String) :=
  (p.1, (p.2.filter fun s => s.1 != "earlyexit").map fun s => (s.1, s.2.1))

/-- every type unpacks the same fields, in the same order, with the dual codec, as it packs -/
theorem pack_unpack_same_shape : Gen.packPlans.map packShape = Gen.unpackPlans.map unpackShape := by
  decide +kernel

/-- (type, field) pairs whose name may be compressed: exactly the RFC 1035 set (RFC 3597 §4) -/
def compressed : List (String × String) :=
  Gen.packPlans.flatMap fun p => (p.2.filter fun s => s.1 == "packDomainName" && s.2.2.1 == "compress").map fun s => (p.1, s.2.1)

theorem compressed_eq_rfc1035 : compressed =
    [("CNAME", "Target"), ("MB", "Mb"), ("MD", "Md"), ("MF", "Mf"), ("MG", "Mg"), ("MINFO", "Rmail"),
     ("MINFO", "Email"), ("MR", "Mr"), ("MX", "Mx"), ("NS", "Ns"), ("PTR", "Ptr"), ("SOA", "Ns"), ("SOA", "Mbox")] := by
  decide +kernel

/-- every other name field passes the literal `false` -/
theorem others_uncompressed :
    (Gen.packPlans.all fun p => p.2.all fun s =>
      !(s.1 == "packDomainName" || s.1 == "packDataDomainNames" || s.1 == "packIPSECGateway")
        || s.2.2.1 == "compress" || s.2.2.1 == "false" || s.2.2.1 == "rr.GatewayType,false" || s.2.2.1 == "rr.GatewayType&0x7f,false") = true := by
  decide +kernel

end Dns.Instance
