/-
  C04 (transparency) — every name the compressing packer writes is read back by the decoder as the same name,
  for every message prefix, every earlier content of the compression map and every later content of the message.

  Part A: on canonical spellings the packer's loop is the recursive function `specTail`.
  Part B: a decoding relation `Dec` over the message, stable under extension, implies what `unpackNameLoop` returns.
  Part C: `specTail` establishes `Dec` for the new name and keeps the map invariant, with the hop bound
          hops ≤ labels ≤ 127 = maxCompressionPointers (the bound whose failure was defect F18).
-/
import DnsModel.Compress
import DnsProofs.C03
import DnsProofs.C04
import DnsProofs.C08
import DnsProofs.C19
namespace Dns.C04
open Dns Dns.C03

def wl (l : Bytes) : Bytes := UInt8.ofNat l.length :: l
def ptrBytes (p : Nat) : Bytes := [UInt8.ofNat (p / 256 % 256 ^^^ 0xC0), UInt8.ofNat (p % 256)]

/-! ### Part A — the packer on canonical spellings -/

theorem packLoopC_presentByte (b : Byte) (rest : Bytes) (first multi : Bool) (label labStart : Bytes)
    (wasDot : Bool) (off0 : Nat) (out : Bytes) (m : CMap) (cp : Bool) :
    packLoopC (presentByte b ++ rest) first multi label labStart wasDot off0 out m cp
      = packLoopC rest false multi (label ++ [b]) labStart false off0 out m cp := by
  unfold presentByte
  by_cases hs : isSpecial b = true
  · simp only [hs, if_true]
    have hd := isDDD_of_not_digit b rest (special_ne_digit b hs)
    rw [show [92, b] ++ rest = 92 :: b :: rest from rfl, packLoopC]
    simp [hd]
  · have hs' : isSpecial b = false := by simpa using hs
    simp only [hs', Bool.false_eq_true, ↓reduceIte]
    by_cases hp : (b < 32 || b > 126) = true
    · simp only [hp, ↓reduceIte]
      have ⟨h1, h2⟩ := ddd_escape b rest
      have : escapeByte b ++ rest = 92 :: ((escapeByte b).tail ++ rest) := by simp [escapeByte]
      rw [this, packLoopC.eq_def]
      simp only [h1, h2, if_true]
      simp [escapeByte]
    · have ⟨n92, n46⟩ := plain_not_special b hs'
      simp only [hp, Bool.false_eq_true, ↓reduceIte]
      rw [show [b] ++ rest = b :: rest from rfl, packLoopC.eq_def]
      simp [n92, n46]

theorem packLoopC_presentLabel (l rest : Bytes) (multi : Bool) (label labStart : Bytes)
    (off0 : Nat) (out : Bytes) (m : CMap) (cp : Bool) :
    packLoopC (presentLabel l ++ rest) false multi label labStart false off0 out m cp
      = packLoopC rest false multi (label ++ l) labStart false off0 out m cp := by
  induction l generalizing label with
  | nil => simp [presentLabel]
  | cons b l ih =>
    have : presentLabel (b :: l) ++ rest = presentByte b ++ (presentLabel l ++ rest) := by
      simp [presentLabel]
    rw [this, packLoopC_presentByte, ih]
    simp

theorem packLoopC_presentLabel_first (b : Byte) (l rest : Bytes) (first multi wasDot : Bool) (labStart : Bytes)
    (off0 : Nat) (out : Bytes) (m : CMap) (cp : Bool) :
    packLoopC (presentLabel (b :: l) ++ rest) first multi [] labStart wasDot off0 out m cp
      = packLoopC rest false multi (b :: l) labStart false off0 out m cp := by
  have : presentLabel (b :: l) ++ rest = presentByte b ++ (presentLabel l ++ rest) := by
    simp [presentLabel]
  rw [this, packLoopC_presentByte, packLoopC_presentLabel]
  simp

/-- an unescaped dot closing a label that is within the limits -/
theorem packLoopC_dot (rest : Bytes) (multi : Bool) (label labStart : Bytes) (off0 : Nat) (out : Bytes) (m : CMap)
    (cp : Bool)
    (h1 : label.length < Gen.labelLimit)
    (h2 : out.length + 1 + label.length + 1 ≤ Gen.maxDomainNameWireOctets)
    (h3 : out.length + escapedNameLen labStart + 1 ≤ Gen.maxDomainNameWireOctets) :
    packLoopC (46 :: rest) false multi label labStart false off0 out m cp
      = match m.find labStart with
        | some p =>
          if cp then .ok ⟨out ++ ptrBytes p, m, some (off0 + out.length, p)⟩
          else packLoopC rest false multi [] rest true off0 (out ++ wl label) m cp
        | none =>
          packLoopC rest false multi [] rest true off0 (out ++ wl label)
            (if off0 + out.length < Gen.maxCompressionOffset then m ++ [(labStart, off0 + out.length)] else m) cp := by
  rw [packLoopC.eq_def]
  have h1' : ¬ label.length ≥ Gen.labelLimit := by omega
  have h2' : ¬ out.length + 1 + label.length + 1 > Gen.maxDomainNameWireOctets := by omega
  have h3' : ¬ out.length + escapedNameLen labStart + 1 > Gen.maxDomainNameWireOctets := by omega
  simp only [h1', h2', h3']
  cases hf : m.find labStart <;> cases cp <;> simp [wl, ptrBytes]

/-- the packer as a recursion over labels: bytes appended after `n` octets of this name and the map entries added;
    `m` is the map as it was before this name, `cp` the compress flag of the field -/
def specTail (off0 : Nat) (m : CMap) (cp : Bool) : List Bytes → Nat → Bytes × CMap
  | [], _ => ([0], [])
  | l :: rest, n =>
    let r := specTail off0 m cp rest (n + 1 + l.length)
    match m.find (presentLabels (l :: rest)) with
    | some p => if cp then (ptrBytes p, []) else (wl l ++ r.1, r.2)
    | none =>
      (wl l ++ r.1,
       (if off0 + n < Gen.maxCompressionOffset then [(presentLabels (l :: rest), off0 + n)] else []) ++ r.2)

theorem find_append_irrelevant (m extra : CMap) (k : Bytes) (h : ∀ e ∈ extra, e.1 ≠ k) :
    CMap.find (m ++ extra) k = CMap.find m k := by
  unfold CMap.find
  rw [List.find?_append]
  cases hm : m.find? (·.1 == k) with
  | some e => simp
  | none =>
    have : extra.find? (·.1 == k) = none := by
      rw [List.find?_eq_none]
      intro e he
      simpa using h e he
    simp [this]

theorem presentLabels_length_cons_gt (l : Bytes) (ls : List Bytes) :
    (presentLabels ls).length < (presentLabels (l :: ls)).length := by
  rw [C19.presentLabels_cons]; simp only [List.length_append, List.length_cons]; omega

/-- **packer_is_specTail**: on the canonical spelling of a valid label list, starting at a label boundary with
    `out` already written and a map `m ++ extra` whose `extra` entries are keyed by longer texts (the earlier
    label starts of this same name), the packing loop returns exactly `specTail` -/
theorem packLoopC_labels (ls : List Bytes) (first multi wasDot : Bool) (off0 : Nat) (out : Bytes) (m extra : CMap)
    (cp : Bool)
    (hl : ∀ l ∈ ls, 1 ≤ l.length ∧ l.length ≤ 63)
    (hlen : out.length + (wireLabels ls).length + 1 ≤ 255)
    (hex : ∀ e ∈ extra, (presentLabels ls).length < e.1.length) :
    ∃ ptr, packLoopC (presentLabels ls) first multi [] (presentLabels ls) wasDot off0 out (m ++ extra) cp
      = .ok ⟨out ++ (specTail off0 m cp ls out.length).1, m ++ extra ++ (specTail off0 m cp ls out.length).2, ptr⟩ := by
  induction ls generalizing first wasDot out extra with
  | nil => exact ⟨none, by simp [presentLabels, packLoopC, specTail]⟩
  | cons l ls ih =>
    have hl0 := hl l (by simp)
    match l, hl0 with
    | b :: l', hl0 =>
      have e : presentLabels ((b :: l') :: ls) = presentLabel (b :: l') ++ (46 :: presentLabels ls) := by
        simp [presentLabels]
      have hw := wireLabels_length_cons (b :: l') ls
      have hesc := C08.escapedNameLen_presentLabels ((b :: l') :: ls)
      have hfind : CMap.find (m ++ extra) (presentLabels ((b :: l') :: ls)) = CMap.find m (presentLabels ((b :: l') :: ls)) := by
        apply find_append_irrelevant
        intro e' he' heq
        have := hex e' he'
        rw [heq] at this; omega
      have hn : (out ++ wl (b :: l')).length = out.length + 1 + (b :: l').length := by
        simp [wl]; omega
      have hrec1 := ih false true (out ++ wl (b :: l')) extra
              (fun l hm => hl l (by simp [hm]))
              (by simp [wl]; simp at hw hlen; omega)
              (fun e' he' => Nat.lt_trans (presentLabels_length_cons_gt (b :: l') ls) (hex e' he'))
      have hrec2 := ih false true (out ++ wl (b :: l')) (extra ++ [(presentLabels ((b :: l') :: ls), off0 + out.length)])
              (fun l hm => hl l (by simp [hm]))
              (by simp [wl]; simp at hw hlen; omega)
              (by
                intro e' he'
                rcases List.mem_append.mp he' with h | h
                · exact Nat.lt_trans (presentLabels_length_cons_gt (b :: l') ls) (hex e' h)
                · simp at h; subst h; exact presentLabels_length_cons_gt (b :: l') ls)
      rw [hn] at hrec1 hrec2
      conv => enter [1, ptr, 1, 1]; rw [e]
      simp only [packLoopC_presentLabel_first]
      rw [packLoopC_dot]
      · rw [hfind]
        simp only [specTail]
        cases hf : CMap.find m (presentLabels ((b :: l') :: ls)) with
        | some p =>
          cases cp with
          | true => exact ⟨some (off0 + out.length, p), by simp⟩
          | false =>
            obtain ⟨ptr, hp⟩ := hrec1
            refine ⟨ptr, ?_⟩
            simp only [Bool.false_eq_true, ↓reduceIte]
            rw [hp]; simp [wl]
        | none =>
          simp only
          by_cases hoff : off0 + out.length < Gen.maxCompressionOffset
          · simp only [hoff, ↓reduceIte]
            obtain ⟨ptr, hp⟩ := hrec2
            refine ⟨ptr, ?_⟩
            rw [← List.append_assoc] at hp
            rw [hp]
            simp [wl]
          · simp only [hoff, ↓reduceIte]
            obtain ⟨ptr, hp⟩ := hrec1
            refine ⟨ptr, ?_⟩
            rw [hp]
            simp [wl]
      · simp [Gen.labelLimit]; simp at hl0; omega
      · simp [Gen.maxDomainNameWireOctets]; simp at hw hlen; omega
      · rw [hesc]; simp [Gen.maxDomainNameWireOctets]; omega

/-! ### Part B — decoding relation -/

/-- `Dec msg p ls h`: at offset `p` the message holds the labels `ls` (inline labels, pointers to earlier
    suffixes, final root octet) and reading them follows `h` pointers -/
inductive Dec (msg : Bytes) : Nat → List Bytes → Nat → Prop
  | root (p : Nat) (h0 : (msg.drop p).take 1 = [0]) : Dec msg p [] 0
  | label (p : Nat) (l : Bytes) (rest : List Bytes) (h : Nat) (hl1 : 1 ≤ l.length) (hl2 : l.length ≤ 63)
      (hs : (msg.drop p).take (1 + l.length) = wl l) (hr : Dec msg (p + 1 + l.length) rest h) :
      Dec msg p (l :: rest) h
  | ptr (p q : Nat) (ls : List Bytes) (h : Nat) (hq : q < 16384)
      (hb : (msg.drop p).take 2 = ptrBytes q) (hr : Dec msg q ls h) : Dec msg p ls (h + 1)

theorem take_drop_append (msg x : Bytes) (p n : Nat) (t : Bytes) (h : (msg.drop p).take n = t) (hn : t.length = n)
    (hpos : 1 ≤ n) : ((msg ++ x).drop p).take n = t := by
  have hlen : p + n ≤ msg.length := by
    have := congrArg List.length h
    simp only [List.length_take, List.length_drop] at this
    omega
  rw [List.drop_append_of_le_length (by omega), List.take_append_of_le_length (by simp; omega)]
  exact h

/-- **Dec is stable under extension of the message** -/
theorem Dec.mono {msg : Bytes} {p : Nat} {ls : List Bytes} {h : Nat} (d : Dec msg p ls h) (x : Bytes) :
    Dec (msg ++ x) p ls h := by
  induction d with
  | root p h0 => exact .root p (take_drop_append msg x p 1 _ h0 rfl (by omega))
  | label p l rest h hl1 hl2 hs _ ih =>
    exact .label p l rest h hl1 hl2 (take_drop_append msg x p _ _ hs (by simp [wl]; omega) (by omega)) ih
  | ptr p q ls h hq hb _ ih =>
    exact .ptr p q ls h hq (take_drop_append msg x p 2 _ hb (by simp [ptrBytes]) (by omega)) ih

theorem head_of_take_drop (msg : Bytes) (p n : Nat) (a : Byte) (t : Bytes)
    (h : (msg.drop p).take (n + 1) = a :: t) : ∃ hp : p < msg.length, msg[p] = a := by
  have hp : p < msg.length := by
    by_cases hp : p < msg.length
    · exact hp
    · rw [List.drop_eq_nil_of_le (by omega)] at h; simp at h
  refine ⟨hp, ?_⟩
  rw [List.drop_eq_getElem_cons hp, List.take_succ_cons] at h
  exact (List.cons.inj h).1

theorem ptr_hi : ∀ q : Fin 64, (UInt8.ofNat (q.val % 256 ^^^ 0xC0)).toNat = 192 + q.val := by decide

theorem ptrBytes_decode (q : Nat) (hq : q < 16384) :
    ∃ c c1 : Byte, ptrBytes q = [c, c1] ∧ c.toNat ≥ 192 ∧ (c.toNat - 192) * 256 + c1.toNat = q := by
  refine ⟨_, _, rfl, ?_, ?_⟩
  · have := ptr_hi ⟨q / 256, by omega⟩
    simp only at this
    have e : q / 256 % 256 = q / 256 := Nat.mod_eq_of_lt (by omega)
    rw [e]; rw [Nat.mod_eq_of_lt (by omega : q / 256 < 256)] at this
    omega
  · have := ptr_hi ⟨q / 256, by omega⟩
    simp only at this
    have e : q / 256 % 256 = q / 256 := Nat.mod_eq_of_lt (by omega)
    rw [e]; rw [Nat.mod_eq_of_lt (by omega : q / 256 < 256)] at this
    rw [this]
    have : (UInt8.ofNat (q % 256)).toNat = q % 256 := by
      simp [UInt8.toNat_ofNat']
    rw [this]; omega

theorem two_of_take_drop (msg : Bytes) (p : Nat) (a b : Byte) (h : (msg.drop p).take 2 = [a, b]) :
    ∃ (hp : p < msg.length) (hp1 : p + 1 < msg.length), msg[p] = a ∧ msg[p + 1] = b := by
  obtain ⟨hp, ha⟩ := head_of_take_drop msg p 1 a [b] h
  rw [List.drop_eq_getElem_cons hp, List.take_succ_cons] at h
  have h2 := (List.cons.inj h).2
  obtain ⟨hp1, hb⟩ := head_of_take_drop msg (p + 1) 0 b [] h2
  exact ⟨hp, hp1, ha, hb⟩

theorem ofNat_len_toNat (l : Bytes) (h : l.length ≤ 63) : (UInt8.ofNat l.length).toNat = l.length := by
  simp [UInt8.toNat_ofNat']; omega

/-- **decoder soundness**: whatever `Dec` describes, `UnpackDomainName`'s loop returns, provided the pointer
    allowance and the octet budget cover it -/
theorem Dec.unpack {msg : Bytes} {p : Nat} {ls : List Bytes} {h : Nat} (d : Dec msg p ls h) :
    ∀ (ptr budget off1 : Nat) (acc : Bytes), ptr + h ≤ Gen.maxCompressionPointers →
      (wireLabels ls).length + 1 ≤ budget →
      ∃ o, unpackNameLoop msg p ptr budget off1 acc
        = .ok (if (acc ++ presentLabels ls).isEmpty then [46] else acc ++ presentLabels ls, o) := by
  induction d with
  | root p h0 =>
    intro ptr budget off1 acc _ _
    obtain ⟨hp, hz⟩ := head_of_take_drop msg p 0 0 [] h0
    rw [unpackNameLoop.eq_def, dif_pos hp]
    simp [hz, presentLabels]
  | label p l rest h hl1 hl2 hs _ ih =>
    intro ptr budget off1 acc hptr hbud
    have hs' : (msg.drop p).take (l.length + 1) = UInt8.ofNat l.length :: l := by
      rw [Nat.add_comm]; exact hs
    obtain ⟨hp, hc⟩ := head_of_take_drop msg p l.length _ _ hs'
    have hlenmsg : p + 1 + l.length ≤ msg.length := by
      have := congrArg List.length hs
      simp only [List.length_take, List.length_drop, wl, List.length_cons] at this
      omega
    have hslice : slice msg (p + 1) l.length = l := by
      unfold slice
      rw [List.drop_eq_getElem_cons hp, List.take_succ_cons] at hs'
      exact (List.cons.inj hs').2
    have hw := wireLabels_length_cons l rest
    rw [unpackNameLoop.eq_def, dif_pos hp]
    simp only [hc, ofNat_len_toNat l hl2]
    have c1 : l.length < 64 := by omega
    have c2 : ¬ l.length = 0 := by omega
    have c3 : ¬ p + 1 + l.length > msg.length := by omega
    have c4 : ¬ budget ≤ l.length + 1 := by omega
    simp only [c1, c2, c3, c4, ↓reduceIte, hslice]
    obtain ⟨o, ho⟩ := ih ptr (budget - (l.length + 1)) off1 (acc ++ presentLabel l ++ [46]) hptr (by omega)
    refine ⟨o, ?_⟩
    rw [ho]
    simp [C19.presentLabels_cons]
  | ptr p q ls h hq hb _ ih =>
    intro ptr budget off1 acc hptr hbud
    obtain ⟨c, c1, hcc, hge, hval⟩ := ptrBytes_decode q hq
    rw [hcc] at hb
    obtain ⟨hp, hp1, ha, hb1⟩ := two_of_take_drop msg p c c1 hb
    rw [unpackNameLoop.eq_def, dif_pos hp]
    simp only [ha]
    have n1 : ¬ c.toNat < 64 := by omega
    have n2 : c.toNat ≥ 192 := hge
    have n3 : ¬ ptr + 1 > Gen.maxCompressionPointers := by omega
    simp only [n1, n2, ↓reduceIte, dif_pos hp1, hb1, n3, hval]
    exact ih (ptr + 1) budget _ acc (by omega) hbud

/-! ### Part C — what the packer writes decodes to the name, and the map invariant is kept -/

def Valid (ls : List Bytes) : Prop :=
  (∀ l ∈ ls, 1 ≤ l.length ∧ l.length ≤ 63) ∧ (wireLabels ls).length + 1 ≤ 255

/-- a map entry is sound in message `M`: its key spells a valid non-empty label list that can be decoded at its
    offset, with fewer pointer hops than labels -/
def EntryOK (M : Bytes) (e : Bytes × Nat) : Prop :=
  ∃ sl h, e.1 = presentLabels sl ∧ sl ≠ [] ∧ Valid sl ∧ e.2 < 16384 ∧ Dec M e.2 sl h ∧ h + 1 ≤ sl.length

def MapOK (M : Bytes) (m : CMap) : Prop := ∀ e ∈ m, EntryOK M e

theorem MapOK.mono {M : Bytes} {m : CMap} (h : MapOK M m) (x : Bytes) : MapOK (M ++ x) m := by
  intro e he
  obtain ⟨sl, hh, h1, h2, h3, h4, h5, h6⟩ := h e he
  exact ⟨sl, hh, h1, h2, h3, h4, h5.mono x, h6⟩

theorem find_spec (m : CMap) (k : Bytes) (p : Nat) (h : m.find k = some p) : (k, p) ∈ m := by
  unfold CMap.find at h
  match hf : m.find? (·.1 == k) with
  | none => simp [hf] at h
  | some e =>
    simp only [hf, Option.map_some, Option.some.injEq] at h
    have hm := List.mem_of_find?_eq_some hf
    have hk := List.find?_some hf
    simp only [beq_iff_eq] at hk
    have : e = (k, p) := by cases e; simp_all
    rw [← this]; exact hm

theorem take_drop_split (M : Bytes) (p : Nat) (a b : Bytes)
    (h : (M.drop p).take (a ++ b).length = a ++ b) :
    (M.drop p).take a.length = a ∧ (M.drop (p + a.length)).take b.length = b := by
  have hlen := congrArg List.length h
  simp only [List.length_take, List.length_drop, List.length_append] at hlen
  rw [List.length_append, List.take_add] at h
  have hl : ((M.drop p).take a.length).length = a.length := by
    simp only [List.length_take, List.length_drop]; omega
  obtain ⟨h1, h2⟩ := List.append_inj h hl
  refine ⟨h1, ?_⟩
  rw [List.drop_drop] at h2
  exact h2

theorem valid_tail (l : Bytes) (rest : List Bytes) (h : Valid (l :: rest)) : Valid rest := by
  refine ⟨fun x hx => h.1 x (List.mem_cons_of_mem _ hx), ?_⟩
  have := wireLabels_length_cons l rest
  have := h.2
  omega

theorem valid_nonempty_labels (ls : List Bytes) (h : Valid ls) : ∀ l ∈ ls, l ≠ [] := by
  intro l hl e
  have := (h.1 l hl).1
  rw [e] at this; simp at this

/-- equal spellings have equally many labels and equally long wire forms -/
theorem same_text_same_size (a b : List Bytes) (ha : Valid a) (hb : Valid b) (ha0 : a ≠ []) (hb0 : b ≠ [])
    (h : presentLabels a = presentLabels b) :
    a.length = b.length ∧ (wireLabels a).length = (wireLabels b).length := by
  constructor
  · rw [← C19.countLabel_labels a ha0 (valid_nonempty_labels a ha),
        ← C19.countLabel_labels b hb0 (valid_nonempty_labels b hb), h]
  · rw [← C08.escapedNameLen_presentLabels, ← C08.escapedNameLen_presentLabels, h]

/-- **specTail_dec**: if the octets `specTail` emits for `rest` sit at offset `off0 + n` of `M` and the old map is
    sound in `M`, then `M` decodes at that offset to (a label list spelled like) `rest` with at most as many hops
    as labels, and every map entry added is sound -/
theorem specTail_dec (M : Bytes) (off0 : Nat) (m : CMap) (cp : Bool) (hm : MapOK M m) (rest : List Bytes) (n : Nat)
    (hv : Valid rest)
    (hplace : (M.drop (off0 + n)).take (specTail off0 m cp rest n).1.length = (specTail off0 m cp rest n).1) :
    (∃ sl h, presentLabels sl = presentLabels rest ∧ Valid sl ∧ sl.length = rest.length ∧
        Dec M (off0 + n) sl h ∧ h ≤ sl.length) ∧
    (∀ e ∈ (specTail off0 m cp rest n).2, EntryOK M e) := by
  induction rest generalizing n with
  | nil =>
    simp only [specTail] at hplace ⊢
    refine ⟨⟨[], 0, rfl, hv, rfl, .root _ hplace, by simp⟩, by simp⟩
  | cons l rest ih =>
    have hvr := valid_tail l rest hv
    have hl := hv.1 l (List.mem_cons_self ..)
    -- the inline continuation, used in the miss case and in the uncompressed hit case
    have inline : (M.drop (off0 + n)).take (wl l ++ (specTail off0 m cp rest (n + 1 + l.length)).1).length
          = wl l ++ (specTail off0 m cp rest (n + 1 + l.length)).1 →
        (∃ sl h, presentLabels sl = presentLabels (l :: rest) ∧ Valid sl ∧ sl.length = (l :: rest).length ∧
          Dec M (off0 + n) sl h ∧ h + 1 ≤ sl.length) ∧
        (∀ e ∈ (specTail off0 m cp rest (n + 1 + l.length)).2, EntryOK M e) := by
      intro hp
      obtain ⟨hp1, hp2⟩ := take_drop_split M (off0 + n) _ _ hp
      have hwl : (wl l).length = 1 + l.length := by simp [wl]; omega
      rw [hwl] at hp1 hp2
      have epos : off0 + n + (1 + l.length) = off0 + (n + 1 + l.length) := by omega
      rw [epos] at hp2
      obtain ⟨⟨sl, h, htxt, hvs, hlen, hdec, hh⟩, hent⟩ := ih (n + 1 + l.length) hvr hp2
      refine ⟨⟨l :: sl, h, ?_, ?_, ?_, ?_, ?_⟩, hent⟩
      · rw [C19.presentLabels_cons, C19.presentLabels_cons, htxt]
      · refine ⟨?_, ?_⟩
        · intro x hx
          rcases List.mem_cons.mp hx with rfl | hx
          · exact hl
          · exact hvs.1 x hx
        · have hw1 := wireLabels_length_cons l sl
          have hw2 := wireLabels_length_cons l rest
          have hsame : (wireLabels sl).length = (wireLabels rest).length := by
            rw [← C08.escapedNameLen_presentLabels, ← C08.escapedNameLen_presentLabels, htxt]
          have := hv.2
          omega
      · simp [hlen]
      · have epos2 : off0 + (n + 1 + l.length) = off0 + n + 1 + l.length := by omega
        rw [epos2] at hdec
        exact .label (off0 + n) l sl h hl.1 hl.2 hp1 hdec
      · simp only [List.length_cons]; omega
    simp only [specTail] at hplace ⊢
    cases hf : m.find (presentLabels (l :: rest)) with
    | some p =>
      rw [hf] at hplace
      cases cp with
      | true =>
        simp only [↓reduceIte] at hplace ⊢
        obtain ⟨sl, h, h1, h2, h3, h4, h5, h6⟩ := hm _ (find_spec m _ p hf)
        simp only at h1 h4 h5
        have hsz := same_text_same_size sl (l :: rest) h3 hv h2 (by simp) h1.symm
        refine ⟨⟨sl, h + 1, h1.symm, h3, hsz.1, ?_, h6⟩, by simp⟩
        exact .ptr (off0 + n) p sl h h4 (by simpa [ptrBytes] using hplace) h5
      | false =>
        simp only [Bool.false_eq_true, ↓reduceIte] at hplace ⊢
        obtain ⟨⟨sl, h, a1, a2, a3, a4, a5⟩, hent⟩ := inline hplace
        exact ⟨⟨sl, h, a1, a2, a3, a4, by omega⟩, hent⟩
    | none =>
      rw [hf] at hplace
      simp only at hplace ⊢
      obtain ⟨⟨sl, h, a1, a2, a3, a4, a5⟩, hent⟩ := inline hplace
      refine ⟨⟨sl, h, a1, a2, a3, a4, by omega⟩, ?_⟩
      intro e he
      rcases List.mem_append.mp he with he | he
      · by_cases hoff : off0 + n < Gen.maxCompressionOffset
        · simp only [hoff, ↓reduceIte, List.mem_singleton] at he
          subst he
          refine ⟨sl, h, a1.symm, ?_, a2, hoff, a4, a5⟩
          intro e0; rw [e0] at a3; simp at a3
        · simp [hoff] at he
      · exact hent e he

theorem wireLabels_length_ge (ls : List Bytes) (h : ∀ l ∈ ls, 1 ≤ l.length) :
    2 * ls.length ≤ (wireLabels ls).length := by
  induction ls with
  | nil => simp
  | cons l ls ih =>
    have := wireLabels_length_cons l ls
    have := h l (List.mem_cons_self ..)
    have := ih (fun x hx => h x (List.mem_cons_of_mem _ hx))
    simp only [List.length_cons]; omega

/-- a valid name has at most 127 labels — the number of compression pointers `UnpackDomainName` follows -/
theorem valid_labels_le (ls : List Bytes) (h : Valid ls) : ls.length ≤ Gen.maxCompressionPointers := by
  have := wireLabels_length_ge ls (fun l hl => (h.1 l hl).1)
  have := h.2
  simp only [Gen.maxCompressionPointers]; omega

theorem presentLabels_ne_nil (ls : List Bytes) (h : ls ≠ []) : presentLabels ls ≠ [] := by
  cases ls with
  | nil => exact absurd rfl h
  | cons l ls => rw [C19.presentLabels_cons]; simp

/-- **name_transparent**: a valid name packed (with or without compression) at the end of a message whose
    compression map is sound is read back by `UnpackDomainName` as the same name, whatever is appended later,
    and the extended map is sound in the extended message -/
theorem name_transparent (msg : Bytes) (m : CMap) (cp : Bool) (ls : List Bytes) (hne : ls ≠ []) (hv : Valid ls)
    (hm : MapOK msg m) :
    (∀ tail, ∃ o, unpackName (msg ++ (specTail msg.length m cp ls 0).1 ++ tail) msg.length
        = .ok (presentLabels ls, o)) ∧
    MapOK (msg ++ (specTail msg.length m cp ls 0).1) (m ++ (specTail msg.length m cp ls 0).2) := by
  have hplace : ((msg ++ (specTail msg.length m cp ls 0).1).drop (msg.length + 0)).take
      (specTail msg.length m cp ls 0).1.length = (specTail msg.length m cp ls 0).1 := by
    rw [Nat.add_zero, List.drop_left, List.take_length]
  obtain ⟨⟨sl, h, htxt, hvs, hlen, hdec, hh⟩, hent⟩ :=
    specTail_dec (msg ++ (specTail msg.length m cp ls 0).1) msg.length m cp (hm.mono _) ls 0 hv hplace
  refine ⟨?_, ?_⟩
  · intro tail
    have hmax := valid_labels_le sl hvs
    obtain ⟨o, ho⟩ := (hdec.mono tail).unpack 0 Gen.maxDomainNameWireOctets 0 [] (by omega)
      (by have := hvs.2; simp only [Gen.maxDomainNameWireOctets]; omega)
    refine ⟨o, ?_⟩
    unfold unpackName
    rw [Nat.add_zero] at ho
    rw [ho, htxt]
    have : (presentLabels ls).isEmpty = false := by
      have := presentLabels_ne_nil ls hne
      cases hp : presentLabels ls with
      | nil => exact absurd hp this
      | cons _ _ => rfl
    simp [this]
  · intro e he
    rcases List.mem_append.mp he with he | he
    · exact (hm.mono _) e he
    · exact hent e he

/-- the same, stated on the model of `packDomainName` itself -/
theorem packNameC_transparent (msg : Bytes) (m : CMap) (cp : Bool) (ls : List Bytes) (hne : ls ≠ []) (hv : Valid ls)
    (hm : MapOK msg m) :
    ∃ r, packNameC (presentLabels ls) msg.length m cp = .ok r ∧
      (∀ tail, ∃ o, unpackName (msg ++ r.out ++ tail) msg.length = .ok (presentLabels ls, o)) ∧
      MapOK (msg ++ r.out) r.map := by
  have hnn := presentLabels_ne_nil ls hne
  have hroot := C19.presentLabels_ne_root ls (valid_nonempty_labels ls hv)
  have hfq : isFqdn (presentLabels ls) = true := by
    rcases List.eq_nil_or_concat ls with h | ⟨i, x, h⟩
    · exact absurd h hne
    · rw [h, List.concat_eq_append]; exact isFqdn_presentLabels i x
  obtain ⟨ptr, hp⟩ := packLoopC_labels ls true ((presentLabels ls).length > 1) false msg.length [] m [] cp
    hv.1 (by have := hv.2; simp; omega) (by simp)
  have hemp : (presentLabels ls).isEmpty = false := by
    cases hpl : presentLabels ls with
    | nil => exact absurd hpl hnn
    | cons _ _ => rfl
  refine ⟨⟨(specTail msg.length m cp ls 0).1, m ++ (specTail msg.length m cp ls 0).2, ptr⟩, ?_, ?_⟩
  · unfold packNameC
    simp only [hemp, hfq, hroot, Bool.false_eq_true, ↓reduceIte, Bool.not_true]
    simp only [List.append_nil, List.length_nil, List.nil_append] at hp
    exact hp
  · simp only [List.nil_append, List.length_nil, List.append_nil]
    exact name_transparent msg m cp ls hne hv hm

/-! ### the whole message: names interleaved with arbitrary other octets -/

/-- one field of a message: octets that are not a name in the compression domain (`gap`: headers, counts, RDATA
    integers, opaque data) followed by a name with its compress flag -/
structure Field where
  gap : Bytes
  name : List Bytes
  cp : Bool

/-- pack the fields in order; returns the message, the map and where each name was put -/
def packFields : List Field → Bytes → CMap → Bytes × CMap × List (Nat × List Bytes)
  | [], msg, m => (msg, m, [])
  | f :: fs, msg, m =>
    let msg1 := msg ++ f.gap
    let r := specTail msg1.length m f.cp f.name 0
    let rest := packFields fs (msg1 ++ r.1) (m ++ r.2)
    (rest.1, rest.2.1, (msg1.length, f.name) :: rest.2.2)

theorem packFields_extends (fs : List Field) (msg : Bytes) (m : CMap) :
    ∃ x, (packFields fs msg m).1 = msg ++ x := by
  induction fs generalizing msg m with
  | nil => exact ⟨[], by simp [packFields]⟩
  | cons f fs ih =>
    obtain ⟨x, hx⟩ := ih (msg ++ f.gap ++ (specTail (msg ++ f.gap).length m f.cp f.name 0).1)
      (m ++ (specTail (msg ++ f.gap).length m f.cp f.name 0).2)
    exact ⟨f.gap ++ (specTail (msg ++ f.gap).length m f.cp f.name 0).1 ++ x, by
      simp only [packFields]; rw [hx]; simp [List.append_assoc]⟩

/-- **message_transparent**: in the message produced by packing any sequence of fields — every name valid, any mix
    of compressed and uncompressed names, anything between them — every name is read back from its own offset as
    itself, and the final compression map is sound -/
theorem message_transparent (fs : List Field) (msg : Bytes) (m : CMap) (hm : MapOK msg m)
    (hv : ∀ f ∈ fs, f.name ≠ [] ∧ Valid f.name) :
    (∀ pl ∈ (packFields fs msg m).2.2, ∃ o, unpackName (packFields fs msg m).1 pl.1 = .ok (presentLabels pl.2, o)) ∧
    MapOK (packFields fs msg m).1 (packFields fs msg m).2.1 := by
  induction fs generalizing msg m with
  | nil => exact ⟨by simp [packFields], by simpa [packFields] using hm⟩
  | cons f fs ih =>
    obtain ⟨hne, hval⟩ := hv f (List.mem_cons_self ..)
    have hm1 : MapOK (msg ++ f.gap) m := hm.mono _
    obtain ⟨hread, hmap⟩ := name_transparent (msg ++ f.gap) m f.cp f.name hne hval hm1
    obtain ⟨ih1, ih2⟩ := ih _ _ hmap (fun g hg => hv g (List.mem_cons_of_mem _ hg))
    obtain ⟨x, hx⟩ := packFields_extends fs (msg ++ f.gap ++ (specTail (msg ++ f.gap).length m f.cp f.name 0).1)
      (m ++ (specTail (msg ++ f.gap).length m f.cp f.name 0).2)
    refine ⟨?_, ?_⟩
    · intro pl hpl
      simp only [packFields, List.mem_cons] at hpl ⊢
      rcases hpl with rfl | hpl
      · obtain ⟨o, ho⟩ := hread x
        exact ⟨o, by rw [hx]; exact ho⟩
      · exact ih1 pl hpl
    · simpa [packFields] using ih2

instance (ls : List Bytes) : Decidable (Valid ls) := by unfold Valid; infer_instance

/-- non-vacuity: the hypotheses are satisfiable and a pointer really is emitted: `www.example.org.` after
    `example.org.` (at offset 12) is packed as one label and the pointer C0 0C -/
example :
    let org : List Bytes := [[101,120,97,109,112,108,101],[111,114,103]]
    let www : List Bytes := [119,119,119] :: org
    let r := packFields [⟨[0,0,0,0,0,0,0,0,0,0,0,0], org, true⟩, ⟨[0,1,0,1], www, true⟩] [] []
    Valid org ∧ Valid www ∧ r.1.drop 29 = [3,119,119,119,0xC0,12] ∧ r.2.2 = [(12, org), (29, www)] := by decide

theorem mapOK_nil (M : Bytes) : MapOK M [] := by intro e he; cases he

end Dns.C04
