/-
  C07 / C06 (lexer) — facts about the octet-level model of `zlexer.Next` (DnsModel/Lexer.lean) for every input:
  reading tokens terminates after a number of calls linear in the input, a lexer error is the last token,
  and no token is longer than the input.
-/
import DnsModel.Lexer
namespace Dns.C07
open Dns Dns.Lex

theorem scan_rest_le (zl : St) (str com : Bytes) (esc : Bool) (input : Bytes) :
    (scan zl str com esc input).2.1.length + (if input.isEmpty then 0 else 1) ≤ input.length := by
  fun_induction scan zl str com esc input
  all_goals (try simp_all)
  all_goals (try omega)

theorem typeStep_facts (zl : St) (l : Tok) (up str : Bytes) (z : St) (l' : Tok) (h : typeStep zl l up str = some (z, l')) :
    z.nextL = zl.nextL ∧ z.brace = zl.brace ∧ z.comBuf = zl.comBuf ∧ z.comment = zl.comment ∧ z.l = zl.l ∧
    l'.err = l.err ∧ l'.token = l.token := by
  unfold typeStep at h
  repeat' split at h
  all_goals simp_all
  all_goals (obtain ⟨rfl, rfl⟩ := h; simp)

theorem classStep_facts (zl : St) (l : Tok) (up str : Bytes) :
    (classStep zl l up str).1.nextL = zl.nextL ∧ (classStep zl l up str).1.brace = zl.brace ∧
    (classStep zl l up str).1.comBuf = zl.comBuf ∧ (classStep zl l up str).1.comment = zl.comment ∧
    (l.err = false → (classStep zl l up str).1.l.err = !(classStep zl l up str).2) ∧
    ((classStep zl l up str).1.l.token = l.token ∨ (classStep zl l up str).1.l.token = ascii "unknown class") := by
  unfold classStep
  repeat' split
  all_goals simp_all

theorem classify_facts (zl : St) (str : Bytes) :
    (classify zl str).1.nextL = zl.nextL ∧ (classify zl str).1.brace = zl.brace ∧
    (classify zl str).1.comBuf = zl.comBuf ∧ (classify zl str).1.comment = zl.comment ∧
    (zl.l.err = false → (classify zl str).1.l.err = !(classify zl str).2) ∧
    ((classify zl str).1.l.token = str ∨ (classify zl str).1.l.token = ascii "unknown RR type" ∨
      (classify zl str).1.l.token = ascii "unknown class") := by
  unfold classify
  simp only
  split
  · simp
  · split
    · simp
    · split
      · simp
      · rename_i z l1 h
        obtain ⟨a1, a2, a3, a4, a5, a6, a7⟩ := typeStep_facts _ _ _ _ _ _ h
        obtain ⟨b1, b2, b3, b4, b5, b6⟩ := classStep_facts z l1 (goUpper str) str
        refine ⟨by rw [b1, a1], by rw [b2, a2], by rw [b3, a3], by rw [b4, a4], ?_, ?_⟩
        · intro he; exact b5 (by rw [a6]; exact he)
        · rcases b6 with h1 | h1
          · left; rw [h1, a7]
          · right; right; exact h1

theorem advance_facts (zl : St) (c : UInt8) :
    (advance zl c).nextL = zl.nextL ∧ (advance zl c).brace = zl.brace ∧ (advance zl c).comBuf = zl.comBuf ∧
    (advance zl c).comment = zl.comment ∧ (advance zl c).l.err = zl.l.err ∧ (advance zl c).l.token = zl.l.token := by
  unfold advance
  simp only
  repeat' split
  all_goals simp_all



theorem scan_err_spec (zl : St) (str com : Bytes) (esc : Bool) (input : Bytes)
    (h0 : zl.nextL = false) (he : zl.l.err = false) :
    ((scan zl str com esc input).1.nextL = true → (scan zl str com esc input).1.l.err = false) ∧
    (∀ t, (scan zl str com esc input).2.2 = some t → t.err = true →
      (scan zl str com esc input).1.l.err = true ∧ (scan zl str com esc input).1.nextL = false) := by
  fun_induction scan zl str com esc input
  all_goals (try simp_all +zetaDelta [advance_facts, classify_facts])
  all_goals (try (split <;> simp_all +zetaDelta [advance_facts, classify_facts]))



/-! ### a lexer error is the last token -/

/-- a pending second token (`nextL`) is never an error token -/
def Inv (zl : St) : Prop := zl.nextL = true → zl.l.err = false

theorem next_err (zl : St) (input : Bytes) (he : zl.l.err = true) (hn : zl.nextL = false) :
    next zl input = (zl, input, none) := by
  simp [next, he, hn]

theorem next_spec (zl : St) (input : Bytes) (hinv : Inv zl) :
    Inv (next zl input).1 ∧
    (∀ t, (next zl input).2.2 = some t → t.err = true → (next zl input).1.l.err = true ∧ (next zl input).1.nextL = false) := by
  unfold next
  by_cases hn : zl.nextL = true
  · rw [if_pos hn]
    refine ⟨by intro h; simp at h, ?_⟩
    intro t ht hte
    simp only [Option.some.injEq] at ht
    subst ht
    rw [hinv hn] at hte
    cases hte
  · rw [if_neg hn]
    by_cases he : zl.l.err = true
    · rw [if_pos he]
      exact ⟨hinv, by intro t ht; cases ht⟩
    · rw [if_neg he]
      have h := scan_err_spec { zl with comBuf := [], comment := [] } [] (zl.comBuf.take Gen.maxTok) false input
        (by simpa using hn) (by simpa using he)
      exact ⟨fun hh => h.1 hh, h.2⟩

def ErrLast : List (Tok × Bytes) → Prop
  | [] => True
  | (t, _) :: rest => (t.err = true → rest = []) ∧ ErrLast rest

/-- **errors are sticky**: in the token stream of any input, for any amount of fuel, a token that carries a lexer
    error is the last one -/
theorem tokens_errLast (f : Nat) (zl : St) (input : Bytes) (hinv : Inv zl) : ErrLast (tokens f zl input) := by
  induction f generalizing zl input with
  | zero => simp [tokens, ErrLast]
  | succ f ih =>
    unfold tokens
    obtain ⟨h1, h2⟩ := next_spec zl input hinv
    rcases hr : next zl input with ⟨zl', rest, ot⟩
    rw [hr] at h1 h2
    cases ot with
    | none => simp [ErrLast]
    | some t =>
      simp only [ErrLast]
      refine ⟨?_, ih zl' rest h1⟩
      intro hte
      obtain ⟨he, hn⟩ := h2 t rfl hte
      cases f with
      | zero => rfl
      | succ g =>
        unfold tokens
        rw [next_err zl' rest he hn]

theorem lexAll_errLast (input : Bytes) : ErrLast (lexAll input) :=
  tokens_errLast _ _ _ (by intro h; simp at h)

/-! ### reading tokens terminates: a potential that every delivered token lowers -/

def pot (zl : St) (input : Bytes) : Nat :=
  4 * input.length + (if zl.nextL then 1 else 0) + (if zl.comBuf.isEmpty then 0 else 1) +
    (if zl.brace ≠ 0 ∧ zl.l.err = false then 1 else 0)

theorem maxTok_pos : 0 < Gen.maxTok := by decide

theorem pot_bounds (zl : St) (input : Bytes) : 4 * input.length ≤ pot zl input ∧ pot zl input ≤ 4 * input.length + 3 := by
  unfold pot
  constructor
  · omega
  · split <;> split <;> split <;> omega

theorem next_pot (zl : St) (input : Bytes) (t : Tok) (h : (next zl input).2.2 = some t) :
    pot (next zl input).1 (next zl input).2.1 < pot zl input := by
  unfold next at h ⊢
  by_cases hn : zl.nextL = true
  · rw [if_pos hn]
    simp [pot, hn]
  · rw [if_neg hn] at h ⊢
    by_cases he : zl.l.err = true
    · rw [if_pos he] at h; cases h
    · rw [if_neg he] at h ⊢
      cases input with
      | cons x rest =>
        have h1 := scan_rest_le { zl with comBuf := [], comment := [] } [] (zl.comBuf.take Gen.maxTok) false (x :: rest)
        simp only [List.isEmpty_cons, Bool.false_eq_true, ↓reduceIte, List.length_cons] at h1
        have h2 := (pot_bounds (scan { zl with comBuf := [], comment := [] } [] (zl.comBuf.take Gen.maxTok) false (x :: rest)).1
          (scan { zl with comBuf := [], comment := [] } [] (zl.comBuf.take Gen.maxTok) false (x :: rest)).2.1).2
        have h3 := (pot_bounds zl (x :: rest)).1
        simp only [List.length_cons] at h3
        omega
      | nil =>
        have hnl : zl.nextL = false := by simpa using hn
        have hel : zl.l.err = false := by simpa using he
        unfold scan at h ⊢
        simp only [List.isEmpty_nil, Bool.not_true, Bool.false_eq_true, ↓reduceIte] at h ⊢
        by_cases hc : (zl.comBuf.take Gen.maxTok).isEmpty = true
        · simp only [hc, Bool.not_true, Bool.false_eq_true, ↓reduceIte] at h ⊢
          by_cases hb : zl.brace = 0
          · simp [hb] at h
          · simp [hb, pot, hnl, hel]
        · have hcb : zl.comBuf.isEmpty = false := by
            cases hcb : zl.comBuf with
            | nil => simp [hcb] at hc
            | cons _ _ => rfl
          simp [hc, pot, hnl, hcb]

/-- the number of tokens is bounded by the potential -/
theorem tokens_length (f : Nat) (zl : St) (input : Bytes) : (tokens f zl input).length ≤ pot zl input := by
  induction f generalizing zl input with
  | zero => simp [tokens]
  | succ f ih =>
    unfold tokens
    rcases hr : next zl input with ⟨zl', rest, ot⟩
    cases ot with
    | none => simp
    | some t =>
      have hp := next_pot zl input t (by rw [hr])
      rw [hr] at hp
      simp only at hp
      have := ih zl' rest
      simp only [List.length_cons]
      omega

/-- with more fuel than the potential the stream no longer depends on the fuel: the loop `for l, ok := zl.Next(); ok`
    has come to its end -/
theorem tokens_fuel_irrelevant (f g : Nat) (zl : St) (input : Bytes) (hf : pot zl input < f) (hg : pot zl input < g) :
    tokens f zl input = tokens g zl input := by
  induction f generalizing g zl input with
  | zero => omega
  | succ f ih =>
    cases g with
    | zero => omega
    | succ g =>
      unfold tokens
      rcases hr : next zl input with ⟨zl', rest, ot⟩
      cases ot with
      | none => rfl
      | some t =>
        have hp := next_pot zl input t (by rw [hr])
        rw [hr] at hp
        simp only at hp
        simp only
        rw [ih g zl' rest (by omega) (by omega)]

/-- **termination**: for every input the token stream ends after at most `4 * n + 3` tokens, whatever the octets are -/
theorem lexAll_complete (input : Bytes) (g : Nat) (hg : 4 * input.length < g) :
    tokens g {} input = lexAll input ∧ (lexAll input).length ≤ 4 * input.length := by
  have hp : pot {} input = 4 * input.length := by simp [pot]
  refine ⟨tokens_fuel_irrelevant g (4 * input.length + 4) {} input (by omega) (by omega), ?_⟩
  have := tokens_length (4 * input.length + 4) {} input
  rw [hp] at this
  exact this



/-! ### memory: no token and no comment is longer than the input allows -/

theorem len_unknown_type : (ascii "unknown RR type").length = 15 := by decide
theorem len_unknown_class : (ascii "unknown class").length = 13 := by decide
theorem len_unbalanced : (ascii "unbalanced brace").length = 16 := by decide
theorem len_extra : (ascii "extra closing brace").length = 19 := by decide
theorem len_comment : (ascii "comment length insufficient for parsing").length = 39 := by decide

theorem classify_tok_len (zl : St) (str : Bytes) (B : Nat) (hs : str.length ≤ B) (hB : 39 ≤ B) :
    (classify zl str).1.l.token.length ≤ B := by
  rcases (classify_facts zl str).2.2.2.2.2 with h | h | h
  · rw [h]; exact hs
  · rw [h, len_unknown_type]; omega
  · rw [h, len_unknown_class]; omega

theorem scan_tok_bound (B : Nat) (hB : 39 ≤ B) (zl : St) (str com : Bytes) (esc : Bool) (input : Bytes)
    (hs : str.length + input.length ≤ B) (hl : zl.l.token.length ≤ B) :
    (scan zl str com esc input).1.l.token.length ≤ B ∧
    ∀ t, (scan zl str com esc input).2.2 = some t → t.token.length ≤ B := by
  fun_induction scan zl str com esc input
  all_goals try (rename_i ih; exact ih (by simp at hs ⊢; omega) (by simp +zetaDelta [advance_facts] <;> assumption))
  all_goals (try simp_all +zetaDelta [advance_facts, len_unbalanced, len_extra, len_comment])
  all_goals first
    | omega
    | exact classify_tok_len _ _ _ (by omega) hB
    | exact ⟨by omega, classify_tok_len _ _ _ (by omega) hB⟩
    | exact ⟨classify_tok_len _ _ _ (by omega) hB, by omega⟩
    | exact ⟨classify_tok_len _ _ _ (by omega) hB, classify_tok_len _ _ _ (by omega) hB⟩
    | (split <;> simp_all <;> omega)
    | trace_state



theorem scan_com_bound (C : Nat) (zl : St) (str com : Bytes) (esc : Bool) (input : Bytes)
    (hc : com.length + 2 * input.length ≤ C) (hb : zl.comBuf.length + 2 * input.length ≤ C)
    (hm : zl.comment.length ≤ C) :
    (scan zl str com esc input).1.comment.length ≤ C ∧
    (scan zl str com esc input).1.comBuf.length + 2 * (scan zl str com esc input).2.1.length ≤ C := by
  fun_induction scan zl str com esc input
  all_goals try (rename_i ih; exact ih (by simp at hc ⊢; omega) (by simp +zetaDelta [advance_facts] at *; omega) (by simp +zetaDelta [advance_facts] <;> assumption))
  all_goals (try simp_all +zetaDelta [advance_facts, classify_facts])
  all_goals first
    | omega
    | (split <;> simp_all <;> omega)
    | trace_state



theorem next_bounded (B C : Nat) (hB : 39 ≤ B) (zl : St) (input : Bytes)
    (hi : input.length ≤ B) (hl : zl.l.token.length ≤ B)
    (hb : zl.comBuf.length + 2 * input.length ≤ C) (hm : zl.comment.length ≤ C) :
    (next zl input).2.1.length ≤ B ∧ (next zl input).1.l.token.length ≤ B ∧
    (next zl input).1.comBuf.length + 2 * (next zl input).2.1.length ≤ C ∧ (next zl input).1.comment.length ≤ C ∧
    ∀ t, (next zl input).2.2 = some t → t.token.length ≤ B := by
  unfold next
  by_cases hn : zl.nextL = true
  · rw [if_pos hn]
    refine ⟨hi, hl, hb, hm, ?_⟩
    intro t ht
    simp only [Option.some.injEq] at ht
    subst ht
    exact hl
  · rw [if_neg hn]
    by_cases he : zl.l.err = true
    · rw [if_pos he]
      exact ⟨hi, hl, hb, hm, by intro t ht; cases ht⟩
    · rw [if_neg he]
      have h1 := scan_rest_le { zl with comBuf := [], comment := [] } [] (zl.comBuf.take Gen.maxTok) false input
      have h2 := scan_tok_bound B hB { zl with comBuf := [], comment := [] } [] (zl.comBuf.take Gen.maxTok) false input
        (by simpa using hi) (by simpa using hl)
      have h3 := scan_com_bound C { zl with comBuf := [], comment := [] } [] (zl.comBuf.take Gen.maxTok) false input
        (by have := List.length_take (i := Gen.maxTok) (l := zl.comBuf); omega) (by simp; omega) (by simp)
      refine ⟨by omega, h2.1, h3.2, h3.1, h2.2⟩

/-- **memory**: whatever the input, no token is longer than the input (or than the longest fixed error text, 39
    octets) and no comment longer than twice the input -/
theorem tokens_bounded (B C : Nat) (hB : 39 ≤ B) (f : Nat) (zl : St) (input : Bytes)
    (hi : input.length ≤ B) (hl : zl.l.token.length ≤ B)
    (hb : zl.comBuf.length + 2 * input.length ≤ C) (hm : zl.comment.length ≤ C) :
    ∀ p ∈ tokens f zl input, p.1.token.length ≤ B ∧ p.2.length ≤ C := by
  induction f generalizing zl input with
  | zero => simp [tokens]
  | succ f ih =>
    obtain ⟨h1, h2, h3, h4, h5⟩ := next_bounded B C hB zl input hi hl hb hm
    unfold tokens
    rcases hr : next zl input with ⟨zl', rest, ot⟩
    rw [hr] at h1 h2 h3 h4 h5
    simp only at h1 h2 h3 h4 h5
    cases ot with
    | none => simp
    | some t =>
      intro p hp
      simp only [List.mem_cons] at hp
      rcases hp with rfl | hp
      · refine ⟨h5 t rfl, ?_⟩
        simp only [commentOf]
        split
        · simp
        · exact h4
      · exact ih zl' rest h1 h2 h3 h4 p hp

theorem lexAll_bounded (input : Bytes) :
    ∀ p ∈ lexAll input, p.1.token.length ≤ max input.length 39 ∧ p.2.length ≤ 2 * input.length :=
  tokens_bounded (max input.length 39) (2 * input.length) (by omega) _ {} input (by omega) (by simp) (by simp) (by simp)



/-! ### keyword case (C06): classification does not depend on the case of ASCII letters -/

/-- ASCII upper case of one octet -/
def up1 (b : UInt8) : UInt8 := if 97 ≤ b.toNat ∧ b.toNat ≤ 122 then b - 32 else b

theorem up1_ge (b : UInt8) (h : 128 ≤ b.toNat) : up1 b = b := by
  unfold up1; split
  · omega
  · rfl

theorem forall_byte (p : UInt8 → Prop) (h : ∀ n : Fin 256, p (UInt8.ofNat n.val)) : ∀ b, p b := by
  intro b
  have := h ⟨b.toNat, b.toNat_lt⟩
  simpa using this

theorem up1_step : ∀ b : UInt8, (if 97 ≤ (up1 b).toNat ∧ (up1 b).toNat ≤ 122 then up1 b - 32 else up1 b) =
    (if 97 ≤ b.toNat ∧ b.toNat ≤ 122 then b - 32 else b) := by
  apply forall_byte; decide +kernel

theorem up1_c4 : ∀ b, (up1 b == 0xC4) = (b == 0xC4) ∧ (up1 b == 0xB1) = (b == 0xB1) ∧ (up1 b == 0xC5) = (b == 0xC5) ∧
    (up1 b == 0xBF) = (b == 0xBF) := by
  apply forall_byte; decide +kernel

theorem goUpper_map (s : Bytes) : goUpper (s.map up1) = goUpper s := by
  fun_induction goUpper s
  · rfl
  · rename_i b
    simp only [List.map_cons, List.map_nil, goUpper, up1_step]
  · rename_i b c rest h ih
    simp only [List.map_cons, goUpper, (up1_c4 b).1, (up1_c4 c).2.1, h, ih]
    simp
  · rename_i b c rest h1 h2 ih
    simp only [List.map_cons, goUpper, (up1_c4 b).1, (up1_c4 c).2.1, (up1_c4 b).2.2.1, (up1_c4 c).2.2.2, h1, h2, ih]
    simp
  · rename_i b c rest h1 h2 ih
    simp only [List.map_cons] at ih ⊢
    simp only [goUpper, (up1_c4 b).1, (up1_c4 c).2.1, (up1_c4 b).2.2.1, (up1_c4 c).2.2.2, h1, h2, ih, up1_step]
    simp



theorem digit_up1 : ∀ b : UInt8, (48 ≤ (up1 b).toNat ∧ (up1 b).toNat ≤ 57) = (48 ≤ b.toNat ∧ b.toNat ≤ 57) ∧
    ((48 ≤ b.toNat ∧ b.toNat ≤ 57) → up1 b = b) := by
  apply forall_byte; decide +kernel

theorem all_digit_map (s : Bytes) :
    (s.map up1).all (fun b => decide (48 ≤ b.toNat ∧ b.toNat ≤ 57)) = s.all (fun b => decide (48 ≤ b.toNat ∧ b.toNat ≤ 57)) := by
  induction s with
  | nil => rfl
  | cons b s ih => simp only [List.map_cons, List.all_cons, ih, (digit_up1 b).1]

theorem digits_map_id (s : Bytes) (h : s.all (fun b => decide (48 ≤ b.toNat ∧ b.toNat ≤ 57)) = true) : s.map up1 = s := by
  induction s with
  | nil => rfl
  | cons b s ih =>
    simp only [List.all_cons, Bool.and_eq_true, decide_eq_true_eq] at h
    simp only [List.map_cons, (digit_up1 b).2 h.1, ih h.2]

theorem parseUint16_map (s : Bytes) : parseUint16 (s.map up1) = parseUint16 s := by
  by_cases h : s.all (fun b => decide (48 ≤ b.toNat ∧ b.toNat ≤ 57)) = true
  · rw [digits_map_id s h]
  · have h' : (s.map up1).all (fun b => decide (48 ≤ b.toNat ∧ b.toNat ≤ 57)) ≠ true := by rw [all_digit_map]; exact h
    unfold parseUint16
    rw [if_pos (Or.inr (by simp only [Bool.not_eq_true'] ; exact Bool.eq_false_iff.mpr h')),
      if_pos (Or.inr (by simp only [Bool.not_eq_true']; exact Bool.eq_false_iff.mpr h))]

theorem numericCode_map (k : Nat) (s : Bytes) : numericCode k (s.map up1) = numericCode k s := by
  unfold numericCode
  simp only [List.length_map, ← List.map_drop, parseUint16_map]

/-- the result of `classify` with the token text blanked out -/
def eraseTok (r : St × Bool) : St × Bool := ({ r.1 with l := { r.1.l with token := [] } }, r.2)

/-- **keyword case**: two spellings of a token that differ only in the case of ASCII letters are classified alike
    (same token value, same type / class code, same error, same lexer flags) in every lexer state -/
theorem classify_case (zl : St) (s1 s2 : Bytes) (h : s1.map up1 = s2.map up1) :
    eraseTok (classify zl s1) = eraseTok (classify zl s2) := by
  have hu : goUpper s1 = goUpper s2 := by rw [← goUpper_map s1, ← goUpper_map s2, h]
  have h4 : numericCode 4 s1 = numericCode 4 s2 := by rw [← numericCode_map 4 s1, ← numericCode_map 4 s2, h]
  have h5 : numericCode 5 s1 = numericCode 5 s2 := by rw [← numericCode_map 5 s1, ← numericCode_map 5 s2, h]
  unfold classify typeStep classStep eraseTok
  simp only [hu, h4, h5]
  by_cases ho : zl.owner = true <;> by_cases hr : zl.rrtype = true <;>
  cases hlt : lookup Gen.stringToType (goUpper s2) <;> cases hlc : lookup Gen.stringToClass (goUpper s2) <;>
  cases hp4 : isPrefix (ascii "TYPE") (goUpper s2) <;> cases hp5 : isPrefix (ascii "CLASS") (goUpper s2) <;>
  cases hn4 : numericCode 4 s2 <;> cases hn5 : numericCode 5 s2 <;> simp [*]



/-! ### known finding F24, as a fact about the model (replayed on the implementation by the `comment-length` stream) -/

/-- a record in parentheses whose first comment has `k` octets after the semicolon, followed by a second comment -/
def commentWitness (k : Nat) : Bytes :=
  ascii "a 1 IN TXT ( x ;" ++ List.replicate k 99 ++ ascii "\n y ;d\n )\n"

def hasError (ts : List (Tok × Bytes)) : Bool := ts.any (·.1.err)

/-- comments do change the result at one length: with 510 octets of comment text (511 with the semicolon) the second
    comment makes the lexer stop with an error, with 509 or 511 it does not -/
theorem comment_length_witness :
    hasError (lexAll (commentWitness 510)) = true ∧ hasError (lexAll (commentWitness 509)) = false ∧
    hasError (lexAll (commentWitness 511)) = false := by
  decide +kernel

end Dns.C07
