/-
  DnsModel.Basic — bytes, outcomes, big-endian integers.
  Core Lean only (no Mathlib): this library is linked into the `dnsdriver` executable.
-/
namespace Dns

abbrev Byte := UInt8
abbrev Bytes := List UInt8

/-- Result of a modelled Go call: a value, a returned `error`, or a run-time panic
    (index / slice out of range).  `panic` is never produced by a total Lean accessor:
    it is produced exactly where the Go code would index outside a slice. -/
inductive Outcome (α : Type) where
  | ok : α → Outcome α
  | err : Outcome α
  | panic : Outcome α
deriving Repr, DecidableEq

namespace Outcome
@[inline] def bind {α β} (x : Outcome α) (f : α → Outcome β) : Outcome β :=
  match x with
  | ok a => f a
  | err => err
  | panic => panic
instance : Monad Outcome where
  pure := ok
  bind := bind
def isOk {α} : Outcome α → Bool
  | ok _ => true
  | _ => false
def toOption {α} : Outcome α → Option α
  | ok a => some a
  | _ => none
end Outcome

/-- Go `msg[off:off+n]` on a slice of length `len msg`; `none` when out of range. -/
def slice (msg : Bytes) (off n : Nat) : Bytes := (msg.drop off).take n

/-- Big-endian encoding of `v` in `w` octets (low `8*w` bits). -/
def beBytes : (w : Nat) → (v : Nat) → Bytes
  | 0, _ => []
  | w + 1, v => UInt8.ofNat (v / 256 ^ w % 256) :: beBytes w v

/-- Big-endian value of an octet list. -/
def beVal (bs : Bytes) : Nat := bs.foldl (fun acc b => acc * 256 + b.toNat) 0

/-- Go `unpackUintN`: `off+w > len(msg)` is an error, otherwise value and new offset. -/
def unpackUint (w : Nat) (msg : Bytes) (off : Nat) : Outcome (Nat × Nat) :=
  if off + w > msg.length then .err else .ok (beVal (slice msg off w), off + w)

/-- Go `packUintN` appending to an (unbounded) buffer. -/
def packUint (w : Nat) (v : Nat) (out : Bytes) : Bytes := out ++ beBytes w v

def lower (b : Byte) : Byte := if 65 ≤ b ∧ b ≤ 90 then b + 32 else b
def lowerAll (s : Bytes) : Bytes := s.map lower

def isDigit (b : Byte) : Bool := 48 ≤ b && b ≤ 57

end Dns
