package main

// The type switch of rawSignatureData (dnssec.go): which fields of which record types are put into canonical
// (lower-case) form before an RRset is signed or verified — RFC 4034 6.2 (3).

import (
	"fmt"
	"go/ast"
	"sort"
	"strings"
)

func (p *pkgInfo) canonLower() [][2]string {
	fd := p.funcs["rawSignatureData"]
	if fd == nil {
		fail("rawSignatureData not found")
		return nil
	}
	var out [][2]string
	found := false
	ast.Inspect(fd.Body, func(n ast.Node) bool {
		ts, ok := n.(*ast.TypeSwitchStmt)
		if !ok {
			return true
		}
		found = true
		for _, cc := range ts.Body.List {
			cl := cc.(*ast.CaseClause)
			for _, te := range cl.List {
				t := recvName(te)
				for _, st := range cl.Body {
					s := p.src(st)
					// x.F=CanonicalName(x.F)
					if !strings.HasPrefix(s, "x.") || !strings.Contains(s, "=CanonicalName(x.") {
						fail("rawSignatureData: statement %q in case %s is not a canonicalisation", s, t)
						continue
					}
					f := s[2:strings.Index(s, "=")]
					if s != fmt.Sprintf("x.%s=CanonicalName(x.%s)", f, f) {
						fail("rawSignatureData: statement %q in case %s is not a canonicalisation of one field", s, t)
						continue
					}
					out = append(out, [2]string{t, f})
				}
			}
		}
		return false
	})
	if !found {
		fail("rawSignatureData: no type switch")
	}
	sort.Slice(out, func(i, j int) bool {
		if out[i][0] != out[j][0] {
			return out[i][0] < out[j][0]
		}
		return out[i][1] < out[j][1]
	})
	return out
}

func leanCanonLower(xs [][2]string) string {
	var b strings.Builder
	b.WriteString("def canonLower : List (String × String) := [")
	for i, x := range xs {
		if i > 0 {
			b.WriteString(", ")
		}
		fmt.Fprintf(&b, "(%s, %s)", leanStr(x[0]), leanStr(x[1]))
	}
	b.WriteString("]\n")
	return b.String()
}
