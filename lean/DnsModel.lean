import DnsModel.Basic
import DnsModel.Name
import DnsModel.Labels
import DnsModel.Msg
import DnsModel.Compress
import DnsModel.Truncate
import DnsModel.Dedup
import DnsModel.Heap
